(* C06, history layer -- the SAME mapper object observed several times, in any order, with the
   adaptive-brightness queries in between.

   The C06 observables (pix_sub_weights, mapping_matrix, unique_mappings, neighbors) are cached
   properties of one mapper object (autoconf.cached_property: computed on first access, stored,
   returned as the same array afterwards); the per-field accessors pix_indexes_for_sub_slim_index /
   pix_sizes_for_sub_slim_index / pix_weights_for_sub_slim_index are a second layer of caches on top
   of pix_sub_weights.  AbstractMapper.pixel_signals_from (mapper_util.adaptive_pixel_signals_from),
   AdaptiveBrightness.regularization_weights_from and regularization_util.
   weighted_regularization_matrix_from READ those cached arrays.  This file models
     mapper_util.adaptive_pixel_signals_from                                 [pixel_signals]
     regularization_util.adaptive_regularization_weights_from                [reg_weights]
     regularization_util.weighted_regularization_matrix_from                 [reg_matrix]
     the cache discipline of AbstractMapper (a state machine over the caches) [step, run]
   and gives their independent specification (closed formulas).  The correspondence case [KHist*]
   carries a history: a list of (operation, what the implementation returned at that point), all on
   one mapper object.  Executable definitions only; the theorem that the machine returns, after any
   history, the pure function of the mapper's inputs is in Proofs/C06h.v. *)
From Coq Require Import ZArith List Bool QArith Qabs.
From PAV Require Import Base.Res Base.Check Base.NumOps Base.Sum.
From PAV Require Export Model.C06.
From PAV Require Model.C18.      (* the border-relocation model and its specification (C18's subject), used qualified *)
Import ListNotations.
Local Open Scope Z_scope.

Section SigModel.
  Context {O : NumOps}.
  Notation T := (T O).

  Fixpoint powT (x : T) (n : nat) : T := match n with 0%nat => one | S k => mul O x (powT x k) end.

  (* v[i] += x with numpy index wrapping *)
  Definition vadd (v : res (list T)) (i : Z) (x : T) : res (list T) :=
    match v with
    | Raise e => Raise e
    | Ok l => match np_index i (length l) with Some j => Ok (upd_add l j x) | None => Raise IndexError end
    end.

  (* ---------------- adaptive_pixel_signals_from ----------------
     one iteration of `for sub_slim_index in range(len(pix_indexes_for_sub_slim_index))` on the pair
     (pixel_signals, pixel_sizes):
        if size > 1:  pixel_signals[row[:size]] += adapt_data[slim] * pixel_weights[sub]   (the weight row is
                      broadcast against `size` entries: it must have exactly `size` entries);
                      pixel_sizes[row] += 1                                                 (the WHOLE row)
        else:         pixel_signals[row[0]] += adapt_data[slim];  pixel_sizes[row[0]] += 1
     (fancy-index `+=` with a repeated index applies once; a mapper's rows list distinct source pixels, which
     [psw_spec] checks on every case, so the element-wise fold is the same thing) *)
  Definition sig_step (mp : list (list Z)) (sz : list nat) (wt : list (list T)) (sfs : list nat) (adapt : list T)
             (acc : res (list T) * res (list T)) (s : nat) : res (list T) * res (list T) :=
    let row := nth s mp [] in
    let n := nth s sz 0%nat in
    let a := nth (nth s sfs 0%nat) adapt zero in
    if (1 <? n)%nat then
      if Nat.eqb (length (nth s wt [])) n then
        (fold_left (fun v k => vadd v (nthZ row k) (mul O a (nth k (nth s wt []) zero))) (seq 0 n) (fst acc),
         fold_left (fun v p => vadd v p one) row (snd acc))
      else (Raise OtherException, snd acc)
    else (vadd (fst acc) (nthZ row 0) a, vadd (snd acc) (nthZ row 0) one).

  (* pixel_sizes[pixel_sizes == 0] = 1; pixel_signals /= pixel_sizes; pixel_signals /= np.max(pixel_signals);
     return pixel_signals ** signal_scale *)
  Definition sig_finish (scale : nat) (sg cnt : list T) : list T :=
    let cnt' := map (fun c => if eqb O c zero then one else c) cnt in
    let v := map (fun p => div O (fst p) (snd p)) (combine sg cnt') in
    let mx := maxL v in
    map (fun x => powT (div O x mx) scale) v.

  Definition pixel_signals (P : nat) (mp : list (list Z)) (sz : list nat) (wt : list (list T)) (sfs : list nat)
             (adapt : list T) (scale : nat) : res (list T) :=
    match fold_left (sig_step mp sz wt sfs adapt) (seq 0 (length mp)) (Ok (zeros P), Ok (zeros P)) with
    | (Ok sg, Ok cnt) => Ok (sig_finish scale sg cnt)
    | (Raise e, _) => Raise e
    | (_, Raise e) => Raise e
    end.

  (* adaptive_regularization_weights_from: (inner * s + outer * (1 - s)) ** 2 *)
  Definition reg_weights (inner outer : T) (sig : list T) : list T :=
    map (fun s => sq (add O (mul O inner s) (mul O outer (sub O one s)))) sig.

  (* ---------------- weighted_regularization_matrix_from ----------------
     regularization_weight = regularization_weights ** 2
     for i: H[i,i] += 1e-8; for j in range(neighbors_sizes[i]): n = neighbors[i,j];
        H[i,i] += w[n]; H[n,n] += w[n]; H[i,n] -= w[n]; H[n,i] -= w[n] *)
  Definition eps8 : T := div O one (ofZ O 100000000).
  Definition madd (M : res mat) (i j : Z) (v : T) : res mat :=
    match M with
    | Raise e => Raise e
    | Ok M => match np_index i (length M), np_index j (length M) with
              | Some a, Some b => Ok (mat_add M a b v)
              | _, _ => Raise IndexError
              end
    end.
  Definition reg_matrix (rwts : list T) (nb : list (list Z)) (nbsz : list Z) : res mat :=
    let P := length rwts in
    let w := map sq rwts in
    fold_left (fun M i =>
        let zi := Z.of_nat i in
        fold_left (fun M j =>
            let n := nthZ (nth i nb []) j in
            match np_index n P with
            | None => Raise IndexError
            | Some q =>
                let wq := nth q w zero in
                madd (madd (madd (madd M zi zi wq) n n wq) zi n (opp O wq)) n zi (opp O wq)
            end) (seq 0 (Z.to_nat (nth i nbsz 0))) (madd M zi zi eps8))
      (seq 0 P) (Ok (mzeros P P)).
End SigModel.

(* ================= the cache discipline of one mapper object ================= *)
(* A: the scalar type (Q in the correspondence run, R in the theorems) *)
Inductive hop (A : Type) :=
| OPsw                                        (* mapper.pix_sub_weights *)
| OFields                                     (* mapper.pix_indexes_for_sub_slim_index, pix_sizes_..., pix_weights_... *)
| OMat                                        (* mapper.mapping_matrix *)
| OUq                                         (* mapper.unique_mappings *)
| ONb                                         (* mapper.neighbors *)
| OSig (scale : nat)                          (* mapper.pixel_signals_from(signal_scale) *)
| ORegW (inner outer : A) (scale : nat)       (* AdaptiveBrightness(...).regularization_weights_from(mapper) *)
| ORegM (inner outer : A) (scale : nat).      (* mapper.regularization_matrix with that regularization *)
Arguments OPsw {A}. Arguments OFields {A}. Arguments OMat {A}. Arguments OUq {A}. Arguments ONb {A}.
Arguments OSig {A} scale. Arguments ORegW {A} inner outer scale. Arguments ORegM {A} inner outer scale.

Definition psw_t (A : Type) : Type := (list (list Z) * list nat * list (list A))%type.    (* mappings, sizes, weights *)
Definition uq_t (A : Type) : Type := (list (list Z) * list (list A) * list nat)%type.
Inductive hobs (A : Type) :=
| BPsw (p : psw_t A)
| BMat (r : res (list (list A)))
| BUq (r : res (uq_t A))
| BNb (n : nb_out)
| BVec (v : res (list A)).
Arguments BPsw {A} p. Arguments BMat {A} r. Arguments BUq {A} r. Arguments BNb {A} n. Arguments BVec {A} v.

Definition res_map {A B} (f : A -> B) (r : res A) : res B :=
  match r with Ok a => Ok (f a) | Raise e => Raise e end.
Definition res_bind {A B} (r : res A) (f : A -> res B) : res B :=
  match r with Ok a => f a | Raise e => Raise e end.
(* UniqueMappings packaging: three arrays *)
Definition uq_packT {A} (rows : list (list Z * list A * nat)) : uq_t A :=
  (map (fun r => fst (fst r)) rows, map (fun r => snd (fst r)) rows, map snd rows).

Section Machine.
  Context {O : NumOps}.
  Notation T := (T O).
  (* what depends on the kind of mapper: the bodies of pix_sub_weights and of the mesh's neighbors *)
  Variable f_psw : unit -> psw_t T.
  Variable f_nb : unit -> nb_out.
  (* pixels, pixels in mask, over_sampler.slim_for_sub_slim, over_sampler.sub_size, adapt_data *)
  Variables (P N : nat) (sfs subs : list nat) (adapt : list T).

  Record mstate := { c_psw : option (psw_t T); c_idx : option (list (list Z)); c_sz : option (list nat);
                     c_wt : option (list (list T)); c_mm : option (res (list (list T))); c_uq : option (res (uq_t T));
                     c_nb : option nb_out }.
  Definition st0 : mstate :=
    {| c_psw := None; c_idx := None; c_sz := None; c_wt := None; c_mm := None; c_uq := None; c_nb := None |}.

  (* the functions of the cached arrays *)
  Definition mm_of (idx : list (list Z)) (sz : list nat) (wt : list (list T)) : res (list (list T)) :=
    mapping_matrix idx sz wt P N sfs (sub_fractions subs).
  Definition uq_of (idx : list (list Z)) (sz : list nat) (wt : list (list T)) : res (uq_t T) :=
    res_map uq_packT (unique_from idx sz wt P subs).
  Definition sig_of (idx : list (list Z)) (sz : list nat) (wt : list (list T)) (scale : nat) : res (list T) :=
    pixel_signals P idx sz wt sfs adapt scale.
  Definition regw_of (idx : list (list Z)) (sz : list nat) (wt : list (list T)) (inner outer : T) (scale : nat)
    : res (list T) :=
    res_map (reg_weights inner outer) (sig_of idx sz wt scale).
  Definition regm_of (idx : list (list Z)) (sz : list nat) (wt : list (list T)) (nb : nb_out) (inner outer : T)
             (scale : nat) : res (list (list T)) :=
    res_bind (regw_of idx sz wt inner outer scale) (fun w => reg_matrix w (fst nb) (snd nb)).

  (* cached_property: return the stored value, or compute, store and return *)
  Definition get_psw (st : mstate) : mstate * psw_t T :=
    match c_psw st with
    | Some p => (st, p)
    | None => let p := f_psw tt in
              ({| c_psw := Some p; c_idx := c_idx st; c_sz := c_sz st; c_wt := c_wt st; c_mm := c_mm st;
                  c_uq := c_uq st; c_nb := c_nb st |}, p)
    end.
  Definition get_idx (st : mstate) : mstate * list (list Z) :=
    match c_idx st with
    | Some v => (st, v)
    | None => let '(st, p) := get_psw st in let v := fst (fst p) in
              ({| c_psw := c_psw st; c_idx := Some v; c_sz := c_sz st; c_wt := c_wt st; c_mm := c_mm st;
                  c_uq := c_uq st; c_nb := c_nb st |}, v)
    end.
  Definition get_sz (st : mstate) : mstate * list nat :=
    match c_sz st with
    | Some v => (st, v)
    | None => let '(st, p) := get_psw st in let v := snd (fst p) in
              ({| c_psw := c_psw st; c_idx := c_idx st; c_sz := Some v; c_wt := c_wt st; c_mm := c_mm st;
                  c_uq := c_uq st; c_nb := c_nb st |}, v)
    end.
  Definition get_wt (st : mstate) : mstate * list (list T) :=
    match c_wt st with
    | Some v => (st, v)
    | None => let '(st, p) := get_psw st in let v := snd p in
              ({| c_psw := c_psw st; c_idx := c_idx st; c_sz := c_sz st; c_wt := Some v; c_mm := c_mm st;
                  c_uq := c_uq st; c_nb := c_nb st |}, v)
    end.
  Definition get_nb (st : mstate) : mstate * nb_out :=
    match c_nb st with
    | Some v => (st, v)
    | None => let v := f_nb tt in
              ({| c_psw := c_psw st; c_idx := c_idx st; c_sz := c_sz st; c_wt := c_wt st; c_mm := c_mm st;
                  c_uq := c_uq st; c_nb := Some v |}, v)
    end.
  Definition get_fields (st : mstate) : mstate * psw_t T :=
    let '(st, idx) := get_idx st in let '(st, sz) := get_sz st in let '(st, wt) := get_wt st in
    (st, (idx, sz, wt)).
  Definition get_mm (st : mstate) : mstate * res (list (list T)) :=
    match c_mm st with
    | Some v => (st, v)
    | None => let '(st, f) := get_fields st in let v := mm_of (fst (fst f)) (snd (fst f)) (snd f) in
              ({| c_psw := c_psw st; c_idx := c_idx st; c_sz := c_sz st; c_wt := c_wt st; c_mm := Some v;
                  c_uq := c_uq st; c_nb := c_nb st |}, v)
    end.
  Definition get_uq (st : mstate) : mstate * res (uq_t T) :=
    match c_uq st with
    | Some v => (st, v)
    | None => let '(st, f) := get_fields st in let v := uq_of (fst (fst f)) (snd (fst f)) (snd f) in
              ({| c_psw := c_psw st; c_idx := c_idx st; c_sz := c_sz st; c_wt := c_wt st; c_mm := c_mm st;
                  c_uq := Some v; c_nb := c_nb st |}, v)
    end.

  (* one call on the mapper: the new cache state and what the caller sees.  pixel_signals_from and the
     regularization queries read the cached arrays and store nothing *)
  Definition step (st : mstate) (op : hop T) : mstate * hobs T :=
    match op with
    | OPsw => let '(st, p) := get_psw st in (st, BPsw p)
    | OFields => let '(st, f) := get_fields st in (st, BPsw f)
    | OMat => let '(st, v) := get_mm st in (st, BMat v)
    | OUq => let '(st, v) := get_uq st in (st, BUq v)
    | ONb => let '(st, v) := get_nb st in (st, BNb v)
    | OSig scale => let '(st, f) := get_fields st in (st, BVec (sig_of (fst (fst f)) (snd (fst f)) (snd f) scale))
    | ORegW inner outer scale =>
        let '(st, f) := get_fields st in (st, BVec (regw_of (fst (fst f)) (snd (fst f)) (snd f) inner outer scale))
    | ORegM inner outer scale =>
        let '(st, f) := get_fields st in
        let '(st, nb) := get_nb st in (st, BMat (regm_of (fst (fst f)) (snd (fst f)) (snd f) nb inner outer scale))
    end.
  Fixpoint run (st : mstate) (ops : list (hop T)) : list (hobs T) :=
    match ops with
    | [] => []
    | op :: t => let '(st', o) := step st op in o :: run st' t
    end.

  (* the pure function of the mapper's inputs that each operation is meant to return *)
  Definition pure_obs (op : hop T) : hobs T :=
    let p := f_psw tt in
    let idx := fst (fst p) in let sz := snd (fst p) in let wt := snd p in
    match op with
    | OPsw | OFields => BPsw (idx, sz, wt)
    | OMat => BMat (mm_of idx sz wt)
    | OUq => BUq (uq_of idx sz wt)
    | ONb => BNb (f_nb tt)
    | OSig scale => BVec (sig_of idx sz wt scale)
    | ORegW inner outer scale => BVec (regw_of idx sz wt inner outer scale)
    | ORegM inner outer scale => BMat (regm_of idx sz wt (f_nb tt) inner outer scale)
    end.
End Machine.

(* the two kinds of mapper *)
Section Kinds.
  Context {O : NumOps}.
  Definition rect_fns (grid : list (T O * T O)) (shape : Z * Z) (buffer : T O) :=
    (fun _ : unit => rect_psw (overlay shape grid buffer) grid,
     fun _ : unit => nb_pack (rect_neighbors (fst shape) (snd shape))).
  Definition del_fns (grid points : list (T O * T O)) (simplices : list (list Z)) (simplex_for indptr indices : list Z) :=
    (fun _ : unit => let mp := fst (del_mappings grid simplex_for simplices points) in
                     (mp, snd (del_mappings grid simplex_for simplices points), del_weights grid points mp),
     fun _ : unit => del_neighbors indptr indices (length points)).
End Kinds.

(* ================= correspondence cases ================= *)
(* the case type of the check: a case of Model/C06.v (one fresh mapper, observed once) or a history *)
Inductive case :=
| KBase (k : C06.case)
| KHistRect (tol vtol : Q) (m : mask) (subs : list nat) (grid : list qpt) (shape : Z * Z) (buffer : Q)
            (adapt : qv) (steps : list (hop Q * hobs Q))
| KHistDel (tol vtol : Q) (m : mask) (subs : list nat) (grid points : list qpt)
           (simplices : list (list Z)) (simplex_for indptr indices : list Z)     (* oracle outputs *)
           (adapt : qv) (steps : list (hop Q * hobs Q))
  (* a mapper built through the MESH API: aa.mesh.Rectangular(shape) / aa.mesh.Delaunay() .mapper_grids_from(mask,
     source_plane_data_grid = orig, source_plane_mesh_grid = origV, border_relocator = BorderRelocator(fst rel, snd rel),
     preloads = Preloads(relocated_grid = preload)) followed by aa.Mapper.  [k] is the KRect / KDel case of the resulting
     mapper whose [grid] (and, Delaunay, [points]) are the arrays the MapperGrids object HOLDS (its source_plane_data_grid /
     source_plane_mesh_grid as the implementation returned them); [sbs] = the relocator's sub_border_slim (as in C18) *)
| KMeshApi (rel : option (mask * list nat)) (sbs : list nat) (preload : option (list qpt)) (orig origV : list qpt)
           (k : C06.case).

(* ---------------- mesh/abstract.py relocated_grid_from + rectangular.py / triangulation.py mapper_grids_from ----------------
   data' = preloads.relocated_grid                       if it is not None            (the relocator is NOT consulted)
         = border_relocator.relocated_grid_from(data)    if a relocator is passed
         = data                                          otherwise;
   Rectangular: the mesh is Mesh2DRectangular.overlay_grid(shape, data') and the MapperGrids holds data';
   Delaunay:    mesh' = border_relocator.relocated_mesh_grid_from(grid = data', mesh) (mesh if no relocator), the
                triangulation is built on mesh' and the MapperGrids holds (data', mesh').
   The relocation itself is C18's model (Model/C18.v); what the mapper then does with (data', mesh') is Model/C06.v. *)
Section MeshApi.
  Context {O : NumOps}.
  Definition held_data (rel : option (mask * list nat)) (preload : option (list (T O * T O))) (data : list (T O * T O))
    : res (list (T O * T O)) :=
    match preload, rel with
    | Some p, _ => Ok p
    | None, Some (m, ss) => @C18.relocated_grid_from O m ss data
    | None, None => Ok data
    end.
  Definition held_mesh (rel : option (mask * list nat)) (data' mesh : list (T O * T O)) : res (list (T O * T O)) :=
    match rel with
    | Some (m, ss) => @C18.relocated_mesh_grid_from O m ss data' mesh
    | None => Ok mesh
    end.
  (* the rectangular mapper of the mesh API: the grid it holds, its mesh, its pix_sub_weights *)
  Definition rect_mesh_api (rel : option (mask * list nat)) (preload : option (list (T O * T O))) (shape : Z * Z)
             (data : list (T O * T O)) (buffer : T O) :=
    res_map (fun g' => (g', overlay shape g' buffer, rect_psw (overlay shape g' buffer) g')) (held_data rel preload data).
  (* the Delaunay mapper of the mesh API: the two grids it holds *)
  Definition del_mesh_api (rel : option (mask * list nat)) (preload : option (list (T O * T O)))
             (data mesh : list (T O * T O)) : res (list (T O * T O) * list (T O * T O)) :=
    res_bind (held_data rel preload data) (fun g' => res_map (fun v' => (g', v')) (held_mesh rel g' mesh)).
End MeshApi.

(* the grids a KRect / KDel case was computed on *)
Definition held_of (k : C06.case) : option (list qpt * option (list qpt)) :=
  match k with
  | KRect _ _ _ grid _ _ _ _ _ _ _ => Some (grid, None)
  | KDel _ _ _ grid points _ _ _ _ _ _ _ _ => Some (grid, Some points)
  | _ => None
  end.
(* the data the relocation decisions are taken on (the relocation of the mesh uses the border of the HELD data grid) *)
Definition reloc_source (preload : option (list qpt)) (orig : list qpt) : list qpt :=
  match preload with Some p => p | None => orig end.

(* the same two steps given the relocator's cached sub_border_slim [sbs] (WHICH sub-pixel of a border pixel is the border
   sub-pixel is C18's subject; with sub-size 3 the candidates tie exactly in rational arithmetic and by rounding noise in
   doubles, so the correspondence run takes the relocator's own choice, accepted on its own terms by C18.sub_border_ok) *)
Definition held_data_with (rel : option (mask * list nat)) (sbs : list nat) (preload : option (list qpt)) (data : list qpt)
  : res (list qpt) :=
  match preload, rel with
  | Some p, _ => Ok p
  | None, Some _ => @C18.relocated_with QOps sbs data data
  | None, None => Ok data
  end.
Definition held_mesh_with (rel : option (mask * list nat)) (sbs : list nat) (data' mesh : list qpt) : res (list qpt) :=
  match rel with
  | Some _ => @C18.relocated_with QOps sbs data' mesh
  | None => Ok mesh
  end.
(* model = implementation for the grids the mapper holds (C18's comparison: untouched coordinates bit for bit, moved
   ones to 1e-9) *)
Definition held_agree (rel : option (mask * list nat)) (sbs : list nat) (preload : option (list qpt)) (orig origV : list qpt)
           (held : list qpt * option (list qpt)) : bool :=
  match held with
  | (g, None) => C18.res_pts_agree (reloc_source preload orig) (held_data_with rel sbs preload orig) (Ok g)
  | (g, Some v) =>
      C18.pair_agree (reloc_source preload orig) origV
        (res_bind (held_data_with rel sbs preload orig) (fun g' => res_map (fun v' => (g', v')) (held_mesh_with rel sbs g' origV)))
        (Ok (g, v))
  end.
(* the specification of the held grids: C18's relocation rule (radially inward onto the border, untouched inside),
   judged by inequalities on squared radii; a preloaded grid is passed on as it is *)
Definition held_spec (rel : option (mask * list nat)) (sbs : list nat) (preload : option (list qpt)) (orig origV : list qpt)
           (held : list qpt * option (list qpt)) : bool :=
  let src := reloc_source preload orig in
  let '(g, v) := held in
  match rel with
  | None => list_eqb C18.pt_eq g src && match v with Some v => list_eqb C18.pt_eq v origV | None => true end
  | Some (m, ss) =>
      C18.enough m ss (length src) && C18.sub_border_ok m ss sbs
      && match preload with
         | Some p => list_eqb C18.pt_eq g p
         | None => C18.relocation_ok (C18.border_of orig sbs) orig g
         end
      && match v with Some v => C18.relocation_ok (C18.border_of src sbs) origV v | None => true end
  end.

Definition obs_close (tol vtol : Q) (a b : hobs Q) : bool :=
  match a, b with
  | BPsw p, BPsw q => psw_close tol p q
  | BMat x, BMat y => res_eqb (qm_close tol) x y
  | BUq x, BUq y => res_eqb (uq_close tol) x y
  | BNb x, BNb y => zm_eqb (fst x) (fst y) && zv_eqb (snd x) (snd y)
  | BVec x, BVec y => res_eqb (qv_close vtol) x y
  | _, _ => false
  end.
(* tolerance of an observation: the adaptive-brightness quantities divide by counts and by the maximum, so they
   are compared with vtol even on the exact streams *)
Definition step_tol (tol vtol : Q) (op : hop Q) : Q :=
  match op with OSig _ | ORegW _ _ _ | ORegM _ _ _ => vtol | _ => tol end.

Fixpoint all2 {A B} (f : A -> B -> bool) (la : list A) (lb : list B) : bool :=
  match la, lb with
  | [], [] => true
  | a :: ta, b :: tb => f a b && all2 f ta tb
  | _, _ => false
  end.

Definition hist_agree (fns : (unit -> psw_t Q) * (unit -> nb_out)) (P : nat) (m : mask) (subs : list nat)
           (adapt : qv) (tol vtol : Q) (steps : list (hop Q * hobs Q)) : bool :=
  let outs := @run QOps (fst fns) (snd fns) P (count_unmasked m) (slim_for_sub m subs) subs adapt st0 (map fst steps) in
  all2 (fun (o : hobs Q) (s : hop Q * hobs Q) => obs_close (step_tol tol vtol (fst s)) vtol o (snd s)) outs steps.

Definition hagree (k : case) : bool :=
  match k with
  | KBase k => agree k
  | KHistRect tol vtol m subs grid shape buffer adapt steps =>
      hist_agree (@rect_fns QOps grid shape buffer) (Z.to_nat (fst shape * snd shape)) m subs adapt tol vtol steps
  | KHistDel tol vtol m subs grid points simplices simplex_for indptr indices adapt steps =>
      hist_agree (@del_fns QOps grid points simplices simplex_for indptr indices) (length points) m subs adapt tol vtol steps
  | KMeshApi rel sbs preload orig origV k =>
      match held_of k with
      | Some held => held_agree rel sbs preload orig origV held && agree k
      | None => false
      end
  end.

(* ================= specification of a history: every observation, whenever it was made, is accepted by the
   specification of the mapper's INPUTS (never calls the model's loops) ================= *)
Definition Qmax_list (l : list Q) : Q := match l with [] => 0%Q | x :: t => fold_left (fun a b => if Qle_bool a b then b else a) t x end.
Fixpoint Qpow (x : Q) (n : nat) : Q := match n with 0%nat => 1%Q | S k => Qred (x * Qpow x k) end.
Definition memN (x : nat) (l : list nat) : bool := existsb (Nat.eqb x) l.

Section HistSpec.
  Variables (tol vtol : Q) (subs : list nat) (P S : nat).
  Variable w : nat -> nat -> Q.              (* the interpolation weight of sub-pixel s on source pixel p *)
  Variable listed : nat -> list nat.         (* the source pixels sub-pixel s is paired with (cell / triangle / nearest vertex) *)
  Variable want : Z -> list Z.               (* the mesh adjacency *)
  Variable adapt : qv.

  (* the dense matrix of the property text *)
  Definition dense_spec : qm :=
    map (fun i => map (fun p => Qsum (map (fun s => Qred (w s p / inject_Z (Z.of_nat (sq_n (nth i subs 0%nat)))))
                                          (block subs i))) (seq 0 P)) (seq 0 (length subs)).
  (* image pixel of each sub-pixel *)
  Definition owner : list nat := flat_map (fun i => map (fun _ => i) (block subs i)) (seq 0 (length subs)).
  (* pixel signal: mean over the sub-pixels paired with p of adapt * weight, relative to the largest, to the power *)
  Definition sig_spec_vec (scale : nat) : qv :=
    let val := map (fun p =>
        let raw := Qsum (map (fun s => Qred (nth (nth s owner 0%nat) adapt 0%Q * w s p)) (seq 0 S)) in
        let cnt := length (filter (fun s => memN p (listed s)) (seq 0 S)) in
        Qred (raw / inject_Z (Z.of_nat (Nat.max cnt 1)))) (seq 0 P) in
    let mx := Qmax_list val in
    map (fun v => Qpow (Qred (v / mx)) scale) val.
  Definition regw_spec_vec (inner outer : Q) (scale : nat) : qv :=
    map (fun s => let t := Qred (inner * s + outer * (1 - s)) in Qred (t * t)) (sig_spec_vec scale).
  (* H = 1e-8 I + sum over the mesh edges {i,j} of (w_i^2 + w_j^2) (e_i - e_j)(e_i - e_j)^T *)
  Definition regm_spec_mat (inner outer : Q) (scale : nat) : qm :=
    let rw := map (fun x => Qred (x * x)) (regw_spec_vec inner outer scale) in
    let r k := nth k rw 0%Q in
    map (fun i =>
      let adj := want (Z.of_nat i) in
      map (fun j =>
        if Nat.eqb i j then Qred ((1 # 100000000) + Qsum (map (fun k => Qred (r i + r (Z.to_nat k))) adj))
        else if existsb (Z.eqb (Z.of_nat j)) adj then Qred (- (r i + r j)) else 0%Q) (seq 0 P)) (seq 0 P).

  Definition step_spec (s : hop Q * hobs Q) : bool :=
    match s with
    | (OPsw, BPsw p) | (OFields, BPsw p) => psw_spec tol P S w p
    | (OMat, BMat (Ok M)) => matrix_spec tol subs P w M
    | (OUq, BUq (Ok uq)) => unique_spec tol P dense_spec uq
    | (ONb, BNb nb) => neighbors_spec P want nb
    | (OSig scale, BVec (Ok v)) => qv_close vtol (sig_spec_vec scale) v
    | (ORegW inner outer scale, BVec (Ok v)) => qv_close vtol (regw_spec_vec inner outer scale) v
    | (ORegM inner outer scale, BMat (Ok H)) => qm_close vtol (regm_spec_mat inner outer scale) H
    | _ => false
    end.
End HistSpec.

(* weights tabulated once per case (every step of the history is judged against the same table) *)
Definition tabulate (S P : nat) (w : nat -> nat -> Q) : nat -> nat -> Q :=
  let tab := map (fun s => map (fun p => w s p) (seq 0 P)) (seq 0 S) in
  fun s p => nth p (nth s tab []) 0%Q.

Definition hspec_ok (k : case) : bool :=
  match k with
  | KBase k => spec_ok k
  | KHistRect tol vtol m subs grid shape buffer adapt steps =>
      let cg := @geom_of_extent QOps shape grid buffer in
      let P := Z.to_nat (fst shape * snd shape) in
      let S := length grid in
      let tab := rect_spec_table cg grid P in
      let w := table_fn tab in
      let listed s := filter (fun p => Qeq_bool (w s p) 1%Q) (seq 0 P) in
      Nat.eqb S (total_sub subs) && Nat.eqb (length adapt) (length subs)
      && forallb (step_spec tol vtol subs P S w listed (adj4 (fst shape) (snd shape)) adapt) steps
  | KHistDel tol vtol m subs grid points simplices simplex_for indptr indices adapt steps =>
      let P := length points in
      let S := length grid in
      let tab := del_spec_table points simplices grid in
      let w := table_fn tab in
      let listed s :=
        let t := nth s simplex_for (-1) in
        if t =? -1 then filter (fun p => Qeq_bool (w s p) 1%Q) (seq 0 P)
        else map Z.to_nat (nth (Z.to_nat t) simplices []) in
      Nat.eqb S (total_sub subs) && Nat.eqb (length adapt) (length subs)
      && oracle_ok points simplices grid simplex_for
      && forallb (step_spec tol vtol subs P S w listed (tri_neighbors simplices) adapt) steps
  | KMeshApi rel sbs preload orig origV k =>
      (* the grid the mapper holds is the relocated one, and the mapper's cells / triangles contain the points of the
         grid it holds *)
      match held_of k with
      | Some held => held_spec rel sbs preload orig origV held && spec_ok k
      | None => false
      end
  end.

Definition hcheck (k : case) : nat := verdict (hagree k) (hspec_ok k).
