#!/bin/bash
# usage: tools/commit_fix.sh <patch> <PID> <slug> "<commit message starting with fix:>"
# verifies the patch in a scratch worktree against the pinned baseline FIRST, then applies and commits it in /repo,
# and stores the reverse patch as a seeded regression under seeded/reverts/.
set -eu
P=$(realpath $1); PID=$2; SLUG=$3; MSG=$4
[[ "$MSG" == fix:* ]] || { echo "message must start with fix:"; exit 2; }
HERE="$(cd "$(dirname "$0")/.." && pwd)"
WT=/tmp/pav_fix_$$
git -C /repo worktree add --detach -q $WT HEAD
git -C $WT apply $P
R=$(python3 $HERE/tools/baseline.py $WT | head -1) || true
git -C /repo worktree remove --force $WT
echo "baseline with patch: $R"
[[ "$R" == *"missing: 0" ]] || { echo "baseline broken: not committed"; exit 1; }
git -C /repo apply $P
git -C /repo add -A
git -C /repo commit -q -m "$MSG"
H=$(git -C /repo rev-parse --short HEAD)
git -C /repo diff HEAD HEAD~1 > $HERE/seeded/reverts/${PID}_${SLUG}_revert_$H.diff
echo "committed $H"
