(* C06 -- Mapping matrices conserve flux and encode the claimed interpolation.
   Statements only; every proof is [exact <lemma of Proofs/C06.v>].  All numeric statements are at ROps (Coq's
   real numbers); the same Gallina terms are executed at QOps against /repo by harness/c06.py.
   Vocabulary (Model/C06.v unless noted):
     slim_for_sub m subs          over_sample_util.slim_index_for_sub_slim_index_via_mask_2d_from
     block subs i                 the sub-pixels of image pixel i: [offset subs i, offset subs i + sub_i^2)
     mapping_matrix ...           mapper_util.mapping_matrix_from           unique_from ...  data_slim_to_pixelization_unique_from
     overlay / pixel_rc / pixel_index / rect_psw      Mesh2DRectangular.overlay_grid, grid_pixel_centres/indexes_2d_slim_from,
                                                      MapperRectangular.pix_sub_weights
     cell_contains cg r c p       p lies in the half-open cell (r, c): top-(r+1)h < y <= top-r h, left+c w <= x < left+(c+1) w
     geom_of_extent shape grid b  the mesh of shape[0] x shape[1] equal cells over the extent of the grid widened by b
     del_mappings / del_weights / del_weight_row / tri_area   the Delaunay routines of mapper_util / mesh_util
     bary / in_triangle / cross   signed barycentric coordinates, closed triangle test, doubled signed area
     rect_neighbors H W           mesh_util.rectangular_neighbors_from     adj4 H W i   4-adjacency of pixel i
     del_neighbors                Mesh2DDelaunay.neighbors (CSR -> padded rows)
   (Model/C06h.v) held_data / held_mesh rel preload ...  the grids a MapperGrids built by mesh.mapper_grids_from holds (mesh/abstract.py
     relocated_grid_from, triangulation.py relocated_mesh_grid_from; the relocation is Model/C18.v);  rect_mesh_api / del_mesh_api  the
     mapper inputs the mesh API produces;  (Proofs/C06r.v) source_of preload data = the preloaded grid if any, else data
   (Proofs/C06.v) mapper_ok m subs P mp sz : the sub-size map fits the mask, every sub-size >= 1 and every listed
     source-pixel index of the total_sub subs sub-pixels is in [0, P);  listed_weight mp sz wt s p : sum of the listed
     weights of sub-pixel s that point to source pixel p;  entry_spec : the same restricted to the sub-pixels whose
     slim index is i, times sub_fraction_i;  area_weights v0 v1 v2 p : the three area ratios of the code;
     del_w : the Delaunay weight of sub-pixel s towards p (area ratios inside a simplex, nearest-vertex indicator outside);
     final_row H W t = (adj4 H W t padded with -1 to length 4, its length);  mat_shape N P M : M is N x P. *)
From Coq Require Import ZArith List Bool Reals Lra Lia QArith.
From PAV Require Import Base.Res Base.Check Base.NumOps Base.Sum Model.C06 Proofs.C06 Model.C06h Proofs.C06h Proofs.C06r.
Import ListNotations.
Local Open Scope R_scope.

(* ---------------------------------------------------------------- sub-pixels and image pixels *)
(* the running-counter loop assigns sub-pixel s to image pixel i exactly when s lies in block i *)
Theorem C06_slim_for_sub_blocks : forall m subs, length subs = count_unmasked m ->
  length (slim_for_sub m subs) = total_sub subs /\
  forall i s d, (i < length subs)%nat -> (s < total_sub subs)%nat ->
    (nth s (slim_for_sub m subs) d = i <-> (offset subs i <= s < offset subs i + sq_n (nth i subs 0))%nat).
Proof. exact slim_for_sub_blocks. Qed.

(* ---------------------------------------------------------------- the dense matrix *)
(* for ANY index / weight arrays whose indices are in range: the scatter loop returns an N x P matrix whose
   entry (i, p) is the sum, over the sub-pixels with slim index i, of sub_fraction_i * (listed weights towards p) *)
Theorem C06_entry_formula : forall N P mp sz wt sfs fr, arrays_ok N P mp sz sfs ->
  exists M, @mapping_matrix ROps mp sz wt P N sfs fr = Ok M /\ mat_shape N P M /\
            forall i p, (i < N)%nat -> (p < P)%nat -> @mget ROps M i p = entry_spec mp sz wt sfs fr i p.
Proof. exact entry_formula. Qed.

(* with the over-sampler's slim_for_sub and sub_fraction: entry (i, p) = sum over the sub-pixels of image pixel i of
   (1 / sub_size_i^2) * weight of source pixel p *)
Theorem C06_entry_block_formula : forall m subs P mp sz wt, mapper_ok m subs P mp sz ->
  exists M, @mapping_matrix ROps mp sz wt P (count_unmasked m) (slim_for_sub m subs) (@sub_fractions ROps subs) = Ok M
    /\ mat_shape (count_unmasked m) P M
    /\ forall i p, (i < count_unmasked m)%nat -> (p < P)%nat ->
         @mget ROps M i p = sumR (map (fun s => 1 / INR (sq_n (nth i subs 0%nat)) * listed_weight mp sz wt s p) (block subs i)).
Proof. exact entry_block_formula. Qed.

(* flux conservation: if every sub-pixel's listed weights sum to one, every row sums to one *)
Theorem C06_rows_sum_to_one : forall m subs P mp sz wt M, mapper_ok m subs P mp sz ->
  (forall s, (s < total_sub subs)%nat -> sumR (map (fun k => nth k (nth s wt []) 0) (seq 0 (nth s sz 0%nat))) = 1) ->
  @mapping_matrix ROps mp sz wt P (count_unmasked m) (slim_for_sub m subs) (@sub_fractions ROps subs) = Ok M ->
  forall i, (i < count_unmasked m)%nat -> sumR (map (fun p => @mget ROps M i p) (seq 0 P)) = 1.
Proof. exact rows_sum_to_one. Qed.

Theorem C06_rows_nonneg : forall m subs P mp sz wt M, mapper_ok m subs P mp sz ->
  (forall s k, (s < total_sub subs)%nat -> (k < nth s sz 0)%nat -> 0 <= nth k (nth s wt []) 0) ->
  @mapping_matrix ROps mp sz wt P (count_unmasked m) (slim_for_sub m subs) (@sub_fractions ROps subs) = Ok M ->
  forall i p, (i < count_unmasked m)%nat -> (p < P)%nat -> 0 <= @mget ROps M i p.
Proof. exact rows_nonneg. Qed.

(* ---------------------------------------------------------------- the sparse (unique) encoding *)
(* for all arrays: the triple (data_to_pix_unique, data_weights, pix_lengths) lists, per image pixel, DISTINCT in-range
   source pixels in its first pix_lengths slots, -1 / 0 after them, and its weights summed per source pixel are the
   dense entry *)
Theorem C06_unique_encodes_dense : forall m subs P mp sz wt, mapper_ok m subs P mp sz -> forall M,
  @mapping_matrix ROps mp sz wt P (count_unmasked m) (slim_for_sub m subs) (@sub_fractions ROps subs) = Ok M ->
  exists rows, @unique_from ROps mp sz wt P subs = Ok rows /\ length rows = count_unmasked m /\
    forall i, (i < count_unmasked m)%nat ->
      let '(u, w, n) := nth i rows ([], [], 0%nat) in
      (n <= length u)%nat /\ length w = length u /\ NoDup (firstn n u)
      /\ (forall k, (k < n)%nat -> (0 <= nth k u (-1) < Z.of_nat P)%Z)
      /\ (forall k, (n <= k)%nat -> nth k u (-1)%Z = (-1)%Z /\ nth k w 0 = 0)
      /\ (forall p, (p < P)%nat ->
            sumR (map (fun k => if Z.eqb (nth k u (-1)%Z) (Z.of_nat p) then nth k w 0 else 0) (seq 0 n)) = @mget ROps M i p).
Proof. exact unique_encodes_dense. Qed.

(* ---------------------------------------------------------------- rectangular meshes *)
(* a point not above / left of a mesh with positive cell sizes: the code's (row, column) is the unique cell containing it *)
Theorem C06_rect_cell : forall (g : @rmesh ROps) (p : R * R) r c, ps0 g > 0 -> ps1 g > 0 ->
  0 <= cu_row (@geom_of_mesh ROps g) p -> 0 <= cu_col (@geom_of_mesh ROps g) p ->
  (@cell_contains ROps (@geom_of_mesh ROps g) r c p = true <-> @pixel_rc ROps g p = (r, c)).
Proof. exact pixel_rc_cell. Qed.

(* the mesh overlaid with a positive buffer: the mesh built by overlay_grid is the mesh of the widened extent; every
   grid point gets a (row, column) inside the mesh, a pixel index in [0, n0*n1), and that cell is the only one containing it *)
Theorem C06_overlay_is_extent_mesh : forall n0 n1 (grid : list (R * R)) b, (0 < n0)%Z -> (0 < n1)%Z ->
  @geom_of_mesh ROps (@overlay ROps (n0, n1) grid b) = @geom_of_extent ROps (n0, n1) grid b.
Proof. exact overlay_geom. Qed.
Theorem C06_overlay_pixel_index : forall n0 n1 (grid : list (R * R)) b, (0 < n0)%Z -> (0 < n1)%Z -> 0 < b ->
  forall p, In p grid ->
    let rc := @pixel_rc ROps (@overlay ROps (n0, n1) grid b) p in
    (0 <= fst rc < n0)%Z /\ (0 <= snd rc < n1)%Z /\
    @pixel_index ROps (@overlay ROps (n0, n1) grid b) p = (fst rc * n1 + snd rc)%Z /\
    forall r c, @cell_contains ROps (@geom_of_extent ROps (n0, n1) grid b) r c p = true <-> (r, c) = rc.
Proof. exact overlay_pixel_index. Qed.

(* the rectangular mapper end to end, for every mask, sub-size map >= 1, source grid, mesh shape, buffer > 0 *)
Theorem C06_rect_mapper_matrix : forall m subs (grid : list (R * R)) n0 n1 b,
  length subs = count_unmasked m -> (forall i, (i < length subs)%nat -> (1 <= nth i subs 0)%nat) ->
  length grid = total_sub subs -> (0 < n0)%Z -> (0 < n1)%Z -> 0 < b ->
  let g := @overlay ROps (n0, n1) grid b in
  let P := Z.to_nat (n0 * n1) in
  exists M, @mapping_matrix ROps (fst (fst (@rect_psw ROps g grid))) (snd (fst (@rect_psw ROps g grid))) (snd (@rect_psw ROps g grid))
              P (count_unmasked m) (slim_for_sub m subs) (@sub_fractions ROps subs) = Ok M
    /\ mat_shape (count_unmasked m) P M
    /\ (forall i, (i < count_unmasked m)%nat -> sumR (map (fun p => @mget ROps M i p) (seq 0 P)) = 1)
    /\ (forall i p, (i < count_unmasked m)%nat -> (p < P)%nat -> 0 <= @mget ROps M i p)
    /\ (forall i p, (i < count_unmasked m)%nat -> (p < P)%nat ->
          @mget ROps M i p = sumR (map (fun s => 1 / INR (sq_n (nth i subs 0%nat))
                                                * @rect_weight ROps (@geom_of_extent ROps (n0, n1) grid b) (nth s grid (0, 0)) p)
                                       (block subs i))).
Proof. exact rect_mapper_matrix. Qed.

Theorem C06_rect_unique_encodes_dense : forall m subs (grid : list (R * R)) n0 n1 (b : R),
  length subs = count_unmasked m -> (forall i, (i < length subs)%nat -> (1 <= nth i subs 0)%nat) ->
  length grid = total_sub subs -> (0 < n0)%Z -> (0 < n1)%Z -> 0 < b ->
  let g := @overlay ROps (n0, n1) grid b in
  let '(mp, sz, wt) := @rect_psw ROps g grid in
  let P := Z.to_nat (n0 * n1) in
  exists M rows,
    @mapping_matrix ROps mp sz wt P (count_unmasked m) (slim_for_sub m subs) (@sub_fractions ROps subs) = Ok M /\
    @unique_from ROps mp sz wt P subs = Ok rows /\ length rows = count_unmasked m /\
    forall i, (i < count_unmasked m)%nat ->
      let '(u, w, n) := nth i rows ([], [], 0%nat) in
      (n <= length u)%nat /\ length w = length u /\ NoDup (firstn n u)
      /\ (forall k, (k < n)%nat -> (0 <= nth k u (-1) < Z.of_nat P)%Z)
      /\ (forall k, (n <= k)%nat -> nth k u (-1)%Z = (-1)%Z /\ nth k w 0 = 0)
      /\ (forall p, (p < P)%nat ->
            sumR (map (fun k => if Z.eqb (nth k u (-1)%Z) (Z.of_nat p) then nth k w 0 else 0) (seq 0 n)) = @mget ROps M i p).
Proof. exact rect_unique_encodes_dense. Qed.

(* rectangular_weight_is_cell_indicator: what pix_sub_weights lists for grid point s is the indicator of the cell containing it *)
Theorem C06_rect_weight_is_cell_indicator : forall n0 n1 (grid : list (R * R)) (b : R), (0 < n0)%Z -> (0 < n1)%Z -> 0 < b ->
  let g := @overlay ROps (n0, n1) grid b in
  forall s p, (s < length grid)%nat -> (p < Z.to_nat (n0 * n1))%nat ->
    listed_weight (fst (fst (@rect_psw ROps g grid))) (snd (fst (@rect_psw ROps g grid))) (snd (@rect_psw ROps g grid)) s p
    = @rect_weight ROps (@geom_of_extent ROps (n0, n1) grid b) (nth s grid (0, 0)) p.
Proof. exact rect_weight_is_cell_indicator. Qed.

(* ---------------------------------------------------------------- Delaunay meshes *)
(* the code's weight row: area ratios inside a simplex, (1, 0, 0) for a nearest-vertex row *)
Theorem C06_delaunay_weight_row : forall (mesh : list (R * R)) (p : R * R) a b c, b <> (-1)%Z ->
  @del_weight_row ROps mesh p [a; b; c] =
  let '(w0, w1, w2) := area_weights (@vertex ROps mesh [a; b; c] 0) (@vertex ROps mesh [a; b; c] 1) (@vertex ROps mesh [a; b; c] 2) p in
  [w0; w1; w2].
Proof. exact del_weight_row_area. Qed.
Theorem C06_delaunay_weight_row_single : forall (mesh : list (R * R)) (p : R * R) a,
  @del_weight_row ROps mesh p [a; (-1)%Z; (-1)%Z] = [1; 0; 0].
Proof. exact del_weight_row_single. Qed.
(* any point, non-degenerate triangle: non-negative weights summing to one *)
Theorem C06_delaunay_weights_sum : forall (v0 v1 v2 p : R * R), @cross ROps v0 v1 v2 <> 0 ->
  let '(w0, w1, w2) := area_weights v0 v1 v2 p in 0 <= w0 /\ 0 <= w1 /\ 0 <= w2 /\ w0 + w1 + w2 = 1.
Proof. exact area_weights_sum. Qed.
(* point in the closed triangle: the weights ARE the barycentric coordinates ... *)
Theorem C06_delaunay_weights_barycentric : forall (v0 v1 v2 p : R * R), @cross ROps v0 v1 v2 <> 0 ->
  @in_triangle ROps v0 v1 v2 p = true -> area_weights v0 v1 v2 p = @bary ROps v0 v1 v2 p.
Proof. exact area_weights_barycentric. Qed.
(* ... where barycentric coordinates are what they should be: they sum to one and reproduce the point, and the closed
   triangle is where all three are non-negative *)
Theorem C06_barycentric_spec : forall (v0 v1 v2 p : R * R), @cross ROps v0 v1 v2 <> 0 ->
  let '(b0, b1, b2) := @bary ROps v0 v1 v2 p in
  b0 + b1 + b2 = 1 /\ b0 * fst v0 + b1 * fst v1 + b2 * fst v2 = fst p /\ b0 * snd v0 + b1 * snd v1 + b2 * snd v2 = snd p.
Proof. exact bary_spec. Qed.
Theorem C06_in_triangle_iff_bary_nonneg : forall (v0 v1 v2 p : R * R), @cross ROps v0 v1 v2 <> 0 ->
  (@in_triangle ROps v0 v1 v2 p = true <->
   let '(b0, b1, b2) := @bary ROps v0 v1 v2 p in 0 <= b0 /\ 0 <= b1 /\ 0 <= b2).
Proof. exact in_triangle_bary_nonneg. Qed.

(* the Delaunay mapper end to end, relative to the oracle's contract (valid non-degenerate simplices, simplex index -1 or
   in range): flux conserved, non-negative, entry = sum over the sub-pixels of (1/sub^2) * del_w *)
Theorem C06_del_mapper_matrix : forall m subs (grid points : list (R * R)) simplices simplex_for,
  length subs = count_unmasked m -> (forall i, (i < length subs)%nat -> (1 <= nth i subs 0)%nat) ->
  length grid = total_sub subs -> length simplex_for = length grid -> points <> [] ->
  (forall row, In row simplices ->
    exists a b c, row = [a; b; c] /\ (0 <= a < Z.of_nat (length points))%Z /\ (0 <= b < Z.of_nat (length points))%Z
                  /\ (0 <= c < Z.of_nat (length points))%Z
                  /\ @cross ROps (vtxR points row 0) (vtxR points row 1) (vtxR points row 2) <> 0) ->
  (forall t, In t simplex_for -> t = (-1)%Z \/ (0 <= t < Z.of_nat (length simplices))%Z) ->
  let mp := fst (@del_mappings ROps grid simplex_for simplices points) in
  let sz := snd (@del_mappings ROps grid simplex_for simplices points) in
  let P := length points in
  exists M, @mapping_matrix ROps mp sz (@del_weights ROps grid points mp) P (count_unmasked m) (slim_for_sub m subs)
              (@sub_fractions ROps subs) = Ok M
    /\ mat_shape (count_unmasked m) P M
    /\ (forall i, (i < count_unmasked m)%nat -> sumR (map (fun p => @mget ROps M i p) (seq 0 P)) = 1)
    /\ (forall i p, (i < count_unmasked m)%nat -> (p < P)%nat -> 0 <= @mget ROps M i p)
    /\ (forall i p, (i < count_unmasked m)%nat -> (p < P)%nat ->
          @mget ROps M i p = sumR (map (fun s => 1 / INR (sq_n (nth i subs 0%nat)) * del_w grid points simplices simplex_for s p)
                                       (block subs i))).
Proof. exact del_mapper_matrix. Qed.

(* what the Delaunay pix_sub_weights list for sub-pixel s towards p is del_w; and inside the simplex the oracle reports
   (its contract: the simplex contains the point) del_w is the barycentric coordinate of p's vertex *)
Theorem C06_delaunay_weight_is_claimed : forall (grid points : list (R * R)) simplices simplex_for,
  length simplex_for = length grid ->
  (forall row, In row simplices ->
    exists a b c, row = [a; b; c] /\ (0 <= a < Z.of_nat (length points))%Z /\ (0 <= b < Z.of_nat (length points))%Z
                  /\ (0 <= c < Z.of_nat (length points))%Z
                  /\ @cross ROps (vtxR points row 0) (vtxR points row 1) (vtxR points row 2) <> 0) ->
  (forall t, In t simplex_for -> t = (-1)%Z \/ (0 <= t < Z.of_nat (length simplices))%Z) ->
  let mp := fst (@del_mappings ROps grid simplex_for simplices points) in
  forall s p, (s < length grid)%nat ->
    listed_weight mp (snd (@del_mappings ROps grid simplex_for simplices points)) (@del_weights ROps grid points mp) s p
    = del_w grid points simplices simplex_for s p.
Proof. exact del_weight_is_claimed. Qed.
Theorem C06_delaunay_weight_barycentric_in_simplex : forall (grid points : list (R * R)) simplices simplex_for s p,
  nth s simplex_for (-1)%Z <> (-1)%Z ->
  let q := nth s grid (0, 0) in
  let row := nth (Z.to_nat (nth s simplex_for (-1)%Z)) simplices [] in
  @cross ROps (vtxR points row 0) (vtxR points row 1) (vtxR points row 2) <> 0 ->
  @in_triangle ROps (vtxR points row 0) (vtxR points row 1) (vtxR points row 2) q = true ->
  del_w grid points simplices simplex_for s p =
  let '(b0, b1, b2) := @bary ROps (vtxR points row 0) (vtxR points row 1) (vtxR points row 2) q in
  (if Z.eqb (nthZ row 0) (Z.of_nat p) then b0 else 0) + (if Z.eqb (nthZ row 1) (Z.of_nat p) then b1 else 0)
  + (if Z.eqb (nthZ row 2) (Z.of_nat p) then b2 else 0).
Proof. exact del_w_barycentric. Qed.

(* outside the hull (oracle reports -1): one mapping of weight 1 to the nearest vertex, the first among ties *)
Theorem C06_outside_hull_nearest_vertex : forall m subs (grid points : list (R * R)) simplices simplex_for,
  length subs = count_unmasked m -> length grid = total_sub subs -> length simplex_for = length grid -> points <> [] ->
  (forall row, In row simplices ->
    exists a b c, row = [a; b; c] /\ (0 <= a < Z.of_nat (length points))%Z /\ (0 <= b < Z.of_nat (length points))%Z
                  /\ (0 <= c < Z.of_nat (length points))%Z
                  /\ @cross ROps (vtxR points row 0) (vtxR points row 1) (vtxR points row 2) <> 0) ->
  (forall t, In t simplex_for -> t = (-1)%Z \/ (0 <= t < Z.of_nat (length simplices))%Z) ->
  forall s, (s < length grid)%nat -> nth s simplex_for (-1)%Z = (-1)%Z ->
    let q := nth s grid (0, 0) in let j := nearest points q in
    nth s (fst (@del_mappings ROps grid simplex_for simplices points)) [] = [Z.of_nat j; (-1)%Z; (-1)%Z]
    /\ nth s (snd (@del_mappings ROps grid simplex_for simplices points)) 0%nat = 1%nat
    /\ nth s (@del_weights ROps grid points (fst (@del_mappings ROps grid simplex_for simplices points))) [] = [1; 0; 0]
    /\ (j < length points)%nat
    /\ (forall k, (k < length points)%nat -> @sqdist ROps (nth j points (0, 0)) q <= @sqdist ROps (nth k points (0, 0)) q)
    /\ (forall k, (k < j)%nat -> @sqdist ROps (nth j points (0, 0)) q < @sqdist ROps (nth k points (0, 0)) q).
Proof. exact outside_hull_nearest_vertex. Qed.

Theorem C06_del_unique_encodes_dense : forall m subs (grid points : list (R * R)) simplices simplex_for,
  length subs = count_unmasked m -> (forall i, (i < length subs)%nat -> (1 <= nth i subs 0)%nat) ->
  length grid = total_sub subs -> length simplex_for = length grid -> points <> [] ->
  (forall row, In row simplices ->
    exists a b c, row = [a; b; c] /\ (0 <= a < Z.of_nat (length points))%Z /\ (0 <= b < Z.of_nat (length points))%Z
                  /\ (0 <= c < Z.of_nat (length points))%Z
                  /\ @cross ROps (vtxR points row 0) (vtxR points row 1) (vtxR points row 2) <> 0) ->
  (forall t, In t simplex_for -> t = (-1)%Z \/ (0 <= t < Z.of_nat (length simplices))%Z) ->
  let mp := fst (@del_mappings ROps grid simplex_for simplices points) in
  let sz := snd (@del_mappings ROps grid simplex_for simplices points) in
  let wt := @del_weights ROps grid points mp in
  let P := length points in
  exists M rows,
    @mapping_matrix ROps mp sz wt P (count_unmasked m) (slim_for_sub m subs) (@sub_fractions ROps subs) = Ok M /\
    @unique_from ROps mp sz wt P subs = Ok rows /\ length rows = count_unmasked m /\
    forall i, (i < count_unmasked m)%nat ->
      let '(u, w, n) := nth i rows ([], [], 0%nat) in
      (n <= length u)%nat /\ length w = length u /\ NoDup (firstn n u)
      /\ (forall k, (k < n)%nat -> (0 <= nth k u (-1) < Z.of_nat P)%Z)
      /\ (forall k, (n <= k)%nat -> nth k u (-1)%Z = (-1)%Z /\ nth k w 0 = 0)
      /\ (forall p, (p < P)%nat ->
            sumR (map (fun k => if Z.eqb (nth k u (-1)%Z) (Z.of_nat p) then nth k w 0 else 0) (seq 0 n)) = @mget ROps M i p).
Proof. exact del_unique_encodes_dense. Qed.

(* ---------------------------------------------------------------- neighbours *)
(* every row of rectangular_neighbors_from is the 4-adjacency list of its pixel (increasing index), padded with -1,
   and its size; for every mesh shape >= 2 x 2 (the Rectangular mesh class demands >= 3 x 3) *)
Theorem C06_rect_neighbors_are_adj4 : forall H W, (2 <= H)%Z -> (2 <= W)%Z -> forall t, (0 <= t < H * W)%Z ->
  length (rect_neighbors H W) = Z.to_nat (H * W) /\
  nth (Z.to_nat t) (rect_neighbors H W) init_row = final_row H W t.
Proof. exact rect_neighbors_adj4. Qed.
Theorem C06_adj4_symmetric : forall H W t q, (0 < W)%Z -> (0 <= t < H * W)%Z -> (0 <= q < H * W)%Z ->
  In q (adj4 H W t) -> In t (adj4 H W q).
Proof. exact adj4_symmetric. Qed.
Theorem C06_adj4_is_grid_adjacency : forall H W r c r' c', (0 <= c < W)%Z -> (0 <= c' < W)%Z -> (0 <= r < H)%Z -> (0 <= r' < H)%Z ->
  (In (r' * W + c')%Z (adj4 H W (r * W + c)) <-> (Z.abs (r - r') + Z.abs (c - c') = 1)%Z).
Proof. exact adj4_geometric. Qed.
(* Delaunay: the padded rows are the CSR slices of scipy's vertex_neighbor_vertices (that those are the triangulation's
   edges and symmetric is the oracle's contract: checked on every case, not proved) *)
Theorem C06_del_neighbors_rows : forall indptr indices P k, length indptr = S P -> (k < P)%nat ->
  (0 <= nth k indptr 0 <= nth (S k) indptr 0)%Z -> (nth (S k) indptr 0 <= Z.of_nat (length indices))%Z ->
  let '(rows, sizes) := del_neighbors indptr indices P in
  let a := Z.to_nat (nth k indptr 0%Z) in let b := Z.to_nat (nth (S k) indptr 0%Z) in
  nth k sizes 0%Z = Z.of_nat (b - a) /\
  firstn (b - a) (nth k rows []) = firstn (b - a) (skipn a indices) /\
  length (firstn (b - a) (skipn a indices)) = (b - a)%nat /\
  forall j, (b - a <= j)%nat -> nth j (nth k rows []) (-1)%Z = (-1)%Z.
Proof. exact del_neighbors_rows. Qed.

(* the edge relation of a set of simplices (what the harness compares the Delaunay neighbour lists with) is symmetric *)
Theorem C06_tri_neighbors_spec : forall simplices a b,
  In b (tri_neighbors simplices a) <-> exists s, In s simplices /\ In a s /\ In b s /\ b <> a.
Proof. exact tri_neighbors_spec. Qed.
Theorem C06_tri_neighbors_symmetric : forall simplices a b, In b (tri_neighbors simplices a) -> In a (tri_neighbors simplices b).
Proof. exact tri_neighbors_symmetric. Qed.

(* ---------------------------------------------------------------- histories on one mapper object *)
(* The observables are cached properties of a mapper object, and pixel_signals_from / the adaptive-brightness
   regularization read the cached arrays (Model/C06h.v: the cache state machine [run]).  From a fresh object, after ANY
   sequence of calls (any order, any repetition, signal / regularization queries in between), each call returns the
   pure function of the mapper's inputs: the caches only ever hold those values.  For every numeric instance. *)
Theorem C06_history_pure : forall (O : NumOps) (f_psw : unit -> psw_t (T O)) (f_nb : unit -> nb_out) P N sfs subs adapt
  (ops : list (hop (T O))),
  @run O f_psw f_nb P N sfs subs adapt st0 ops = map (@pure_obs O f_psw f_nb P N sfs subs adapt) ops.
Proof. exact @run_pure. Qed.
(* so the answer to a call depends neither on what was called before nor on how often *)
Theorem C06_history_order_irrelevant : forall (O : NumOps) (f_psw : unit -> psw_t (T O)) (f_nb : unit -> nb_out) P N sfs subs adapt
  (ops1 ops2 : list (hop (T O))) k1 k2 op,
  nth_error ops1 k1 = Some op -> nth_error ops2 k2 = Some op ->
  nth_error (@run O f_psw f_nb P N sfs subs adapt st0 ops1) k1 = nth_error (@run O f_psw f_nb P N sfs subs adapt st0 ops2) k2.
Proof. exact @run_order_irrelevant. Qed.

(* rectangular mapper: ONE matrix M (row-stochastic, non-negative, the claimed interpolation) and ONE sparse triple
   encoding it such that, in every history, every reading of mapping_matrix returns M and every reading of
   unique_mappings returns that triple *)
Theorem C06_rect_history : forall m subs (grid : list (R * R)) n0 n1 b (adapt : list R),
  length subs = count_unmasked m -> (forall i, (i < length subs)%nat -> (1 <= nth i subs 0)%nat) ->
  length grid = total_sub subs -> (0 < n0)%Z -> (0 < n1)%Z -> 0 < b ->
  let P := Z.to_nat (n0 * n1) in
  let fns := @rect_fns ROps grid (n0, n1) b in
  exists M rows,
    mat_shape (count_unmasked m) P M
    /\ (forall i, (i < count_unmasked m)%nat -> sumR (map (fun p => @mget ROps M i p) (seq 0 P)) = 1)
    /\ (forall i p, (i < count_unmasked m)%nat -> (p < P)%nat -> 0 <= @mget ROps M i p)
    /\ (forall i p, (i < count_unmasked m)%nat -> (p < P)%nat ->
          @mget ROps M i p = sumR (map (fun s => 1 / INR (sq_n (nth i subs 0%nat))
                                                * @rect_weight ROps (@geom_of_extent ROps (n0, n1) grid b) (nth s grid (0, 0)) p)
                                       (block subs i)))
    /\ length rows = count_unmasked m
    /\ (forall i, (i < count_unmasked m)%nat ->
          let '(u, w, n) := nth i rows ([], [], 0%nat) in
          (n <= length u)%nat /\ length w = length u /\ NoDup (firstn n u)
          /\ (forall k, (k < n)%nat -> (0 <= nth k u (-1) < Z.of_nat P)%Z)
          /\ (forall k, (n <= k)%nat -> nth k u (-1)%Z = (-1)%Z /\ nth k w 0 = 0)
          /\ (forall p, (p < P)%nat ->
                sumR (map (fun k => if Z.eqb (nth k u (-1)%Z) (Z.of_nat p) then nth k w 0 else 0) (seq 0 n)) = @mget ROps M i p))
    /\ forall (ops : list (hop R)) k,
         let outs := @run ROps (fst fns) (snd fns) P (count_unmasked m) (slim_for_sub m subs) subs adapt st0 ops in
         (nth_error ops k = Some OMat -> nth_error outs k = Some (BMat (Ok M)))
         /\ (nth_error ops k = Some OUq -> nth_error outs k = Some (BUq (Ok (uq_packT rows)))).
Proof. exact rect_history. Qed.

(* Delaunay mapper, relative to the qhull contract *)
Theorem C06_del_history : forall m subs (grid points : list (R * R)) simplices simplex_for indptr indices (adapt : list R),
  length subs = count_unmasked m -> (forall i, (i < length subs)%nat -> (1 <= nth i subs 0)%nat) ->
  length grid = total_sub subs -> length simplex_for = length grid -> points <> [] ->
  (forall row, In row simplices ->
    exists a b c, row = [a; b; c] /\ (0 <= a < Z.of_nat (length points))%Z /\ (0 <= b < Z.of_nat (length points))%Z
                  /\ (0 <= c < Z.of_nat (length points))%Z
                  /\ @cross ROps (vtxR points row 0) (vtxR points row 1) (vtxR points row 2) <> 0) ->
  (forall t, In t simplex_for -> t = (-1)%Z \/ (0 <= t < Z.of_nat (length simplices))%Z) ->
  let P := length points in
  let fns := @del_fns ROps grid points simplices simplex_for indptr indices in
  exists M rows,
    mat_shape (count_unmasked m) P M
    /\ (forall i, (i < count_unmasked m)%nat -> sumR (map (fun p => @mget ROps M i p) (seq 0 P)) = 1)
    /\ (forall i p, (i < count_unmasked m)%nat -> (p < P)%nat -> 0 <= @mget ROps M i p)
    /\ (forall i p, (i < count_unmasked m)%nat -> (p < P)%nat ->
          @mget ROps M i p = sumR (map (fun s => 1 / INR (sq_n (nth i subs 0%nat)) * del_w grid points simplices simplex_for s p)
                                       (block subs i)))
    /\ length rows = count_unmasked m
    /\ (forall i, (i < count_unmasked m)%nat ->
          let '(u, w, n) := nth i rows ([], [], 0%nat) in
          (n <= length u)%nat /\ length w = length u /\ NoDup (firstn n u)
          /\ (forall k, (k < n)%nat -> (0 <= nth k u (-1) < Z.of_nat P)%Z)
          /\ (forall k, (n <= k)%nat -> nth k u (-1)%Z = (-1)%Z /\ nth k w 0 = 0)
          /\ (forall p, (p < P)%nat ->
                sumR (map (fun k => if Z.eqb (nth k u (-1)%Z) (Z.of_nat p) then nth k w 0 else 0) (seq 0 n)) = @mget ROps M i p))
    /\ forall (ops : list (hop R)) k,
         let outs := @run ROps (fst fns) (snd fns) P (count_unmasked m) (slim_for_sub m subs) subs adapt st0 ops in
         (nth_error ops k = Some OMat -> nth_error outs k = Some (BMat (Ok M)))
         /\ (nth_error ops k = Some OUq -> nth_error outs k = Some (BUq (Ok (uq_packT rows)))).
Proof. exact del_history. Qed.

(* ---------------------------------------------------------------- mappers built through the mesh API *)
(* aa.mesh.Rectangular(shape) / aa.mesh.Delaunay() .mapper_grids_from(mask, source_plane_data_grid, source_plane_mesh_grid,
   border_relocator, preloads) (Model/C06h.v: held_data / held_mesh / rect_mesh_api / del_mesh_api; the relocation itself
   is C18's model, Model/C18.v).  Whatever the relocator does to the coordinates, the grids the MapperGrids object HOLDS
   have one entry per sub-pixel / per vertex handed in; a preloaded relocated grid is passed on as it is; for every
   numeric instance *)
Theorem C06_mesh_api_held_lengths : forall (O : NumOps) rel preload (data mesh g' v' : list (T O * T O)),
  @del_mesh_api O rel preload data mesh = Ok (g', v') ->
  @held_data O rel preload data = Ok g' /\ @held_mesh O rel g' mesh = Ok v' /\
  length g' = length (@source_of O preload data) /\ length v' = length mesh.
Proof. exact @del_mesh_api_lengths. Qed.
Theorem C06_mesh_api_preloaded_grid_is_held : forall (O : NumOps) rel (p data : list (T O * T O)),
  @held_data O rel (Some p) data = Ok p.
Proof. exact @held_data_preloaded. Qed.

(* the rectangular mapper of the mesh API, for every relocator (or none) and every preloaded grid (or none): if the call
   returns, the mesh is the overlay of the HELD grid g' (not of the caller's grid), pix_sub_weights is computed from g'
   on that mesh, the mapping matrix is row-stochastic, non-negative and entry (i, p) = sum over the sub-pixels s of
   pixel i of (1/sub_i^2) [cell p of the mesh over g' contains g'[s]], and every held point lies in exactly one cell of
   that mesh, the one whose index is listed *)
Theorem C06_rect_mesh_api_mapper : forall rel preload m subs (data : list (R * R)) n0 n1 b g' mesh psw,
  length subs = count_unmasked m -> (forall i, (i < length subs)%nat -> (1 <= nth i subs 0)%nat) ->
  length (@source_of ROps preload data) = total_sub subs -> (0 < n0)%Z -> (0 < n1)%Z -> 0 < b ->
  @rect_mesh_api ROps rel preload (n0, n1) data b = Ok (g', mesh, psw) ->
  let P := Z.to_nat (n0 * n1) in
  @held_data ROps rel preload data = Ok g' /\ length g' = total_sub subs
  /\ mesh = @overlay ROps (n0, n1) g' b /\ psw = @rect_psw ROps mesh g'
  /\ (exists M, @mapping_matrix ROps (fst (fst psw)) (snd (fst psw)) (snd psw) P (count_unmasked m) (slim_for_sub m subs)
                  (@sub_fractions ROps subs) = Ok M
      /\ mat_shape (count_unmasked m) P M
      /\ (forall i, (i < count_unmasked m)%nat -> sumR (map (fun p => @mget ROps M i p) (seq 0 P)) = 1)
      /\ (forall i p, (i < count_unmasked m)%nat -> (p < P)%nat -> 0 <= @mget ROps M i p)
      /\ (forall i p, (i < count_unmasked m)%nat -> (p < P)%nat ->
            @mget ROps M i p = sumR (map (fun s => 1 / INR (sq_n (nth i subs 0%nat))
                                                   * @rect_weight ROps (@geom_of_extent ROps (n0, n1) g' b) (nth s g' (0, 0)) p)
                                         (block subs i))))
  /\ (forall q, In q g' ->
        let rc := @pixel_rc ROps mesh q in
        (0 <= fst rc < n0)%Z /\ (0 <= snd rc < n1)%Z /\ @pixel_index ROps mesh q = (fst rc * n1 + snd rc)%Z /\
        forall r c, @cell_contains ROps (@geom_of_extent ROps (n0, n1) g' b) r c q = true <-> (r, c) = rc).
Proof. exact rect_mesh_api_mapper. Qed.

(* the Delaunay mapper of the mesh API, relative to the qhull contract on the HELD grids (the triangulation is built on the
   held vertices v', find_simplex is asked about the held data grid g') *)
Theorem C06_del_mesh_api_mapper : forall rel preload m subs (data mesh : list (R * R)) g' v' simplices simplex_for,
  length subs = count_unmasked m -> (forall i, (i < length subs)%nat -> (1 <= nth i subs 0)%nat) ->
  length (@source_of ROps preload data) = total_sub subs -> mesh <> [] ->
  @del_mesh_api ROps rel preload data mesh = Ok (g', v') ->
  length simplex_for = length g' ->
  (forall row, In row simplices ->
    exists a b c, row = [a; b; c] /\ (0 <= a < Z.of_nat (length v'))%Z /\ (0 <= b < Z.of_nat (length v'))%Z
                  /\ (0 <= c < Z.of_nat (length v'))%Z
                  /\ @cross ROps (vtxR v' row 0) (vtxR v' row 1) (vtxR v' row 2) <> 0) ->
  (forall t, In t simplex_for -> t = (-1)%Z \/ (0 <= t < Z.of_nat (length simplices))%Z) ->
  let mp := fst (@del_mappings ROps g' simplex_for simplices v') in
  let sz := snd (@del_mappings ROps g' simplex_for simplices v') in
  let P := length v' in
  length g' = total_sub subs /\ length v' = length mesh
  /\ exists M, @mapping_matrix ROps mp sz (@del_weights ROps g' v' mp) P (count_unmasked m) (slim_for_sub m subs)
                 (@sub_fractions ROps subs) = Ok M
      /\ mat_shape (count_unmasked m) P M
      /\ (forall i, (i < count_unmasked m)%nat -> sumR (map (fun p => @mget ROps M i p) (seq 0 P)) = 1)
      /\ (forall i p, (i < count_unmasked m)%nat -> (p < P)%nat -> 0 <= @mget ROps M i p)
      /\ (forall i p, (i < count_unmasked m)%nat -> (p < P)%nat ->
            @mget ROps M i p = sumR (map (fun s => 1 / INR (sq_n (nth i subs 0%nat)) * del_w g' v' simplices simplex_for s p)
                                         (block subs i))).
Proof. exact del_mesh_api_mapper. Qed.

(* non-vacuity of the mesh-API hypotheses at the real numbers: with a relocator AND a preloaded grid the call returns the
   preloaded grid; without either it returns the caller's grid (the grid of C06_rect_hyps_satisfiable) *)
Example C06_mesh_api_hyps_satisfiable :
  let m := [[true; false]; [false; true]] in let subs := [1; 2]%nat in
  let grid : list (R * R) := [(1, -1); (0, 0); (1/2, 2); (-1, 1/4); (-3/2, 3)] in
  let other : list (R * R) := [(9, 9)] in
  (exists mesh psw, @rect_mesh_api ROps (Some (m, subs)) (Some grid) (3, 4)%Z other (1/8) = Ok (grid, mesh, psw))
  /\ (exists mesh psw, @rect_mesh_api ROps None None (3, 4)%Z grid (1/8) = Ok (grid, mesh, psw))
  /\ length (@source_of ROps (Some grid) other) = total_sub subs
  /\ @del_mesh_api ROps None None grid other = Ok (grid, other).
Proof. cbv zeta. split; [|split; [|split]]; try (eexists; eexists; reflexivity); reflexivity. Qed.
(* and the relocating branch is executable: a 3 x 3 frame (sub-size 1) whose centre pixel is traced to (0, 50); the eight
   outer pixels are the border (centroid (0,0), smallest border radius 1), the outlier is pulled radially inward onto the
   radius of its nearest border point (0, 1), everything else is left alone, the 3 x 3 mesh is laid over the HELD grid and
   the moved sub-pixel is paired with the cell of its new position (row 1, column 2) *)
Example C06_mesh_api_relocating_branch_runs :
  let m := [[false; false; false]; [false; false; false]; [false; false; false]] in
  let ss := [1; 1; 1; 1; 1; 1; 1; 1; 1]%nat in
  let data := [(1, -1); (1, 0); (1, 1); (0, -1); (0, 50); (0, 1); (-1, -1); (-1, 0); (-1, 1)]%Q in
  match @rect_mesh_api QOps (Some (m, ss)) None (3, 3)%Z data (1 # 8)%Q with
  | Ok (g', mesh, psw) =>
      g' = [(1, -1); (1, 0); (1, 1); (0, -1); (0, 1); (0, 1); (-1, -1); (-1, 0); (-1, 1)]%Q
      /\ fst (fst psw) = [[0]; [1]; [2]; [3]; [5]; [5]; [6]; [7]; [8]]%Z
  | Raise _ => False
  end.
Proof. vm_compute. split; reflexivity. Qed.

(* ---------------------------------------------------------------- non-vacuity *)
(* mapper_ok is met by a concrete non-trivial input (2 unmasked pixels, sub-sizes 1 and 2, repeated and 3-fold mappings) *)
Example C06_mapper_ok_satisfiable :
  mapper_ok [[true; false]; [false; true]] [1; 2]%nat 4
            [[2; -1; -1]; [0; 1; 3]; [3; -1; -1]; [1; 1; 2]; [0; 3; -1]]%Z [1; 3; 1; 3; 2]%nat.
Proof. apply mapper_okb_ok. vm_compute. reflexivity. Qed.
Example C06_arrays_ok_satisfiable : arrays_ok 2 3 [[2; -1]; [0; 1]; [1; 1]]%Z [1; 2; 2]%nat [0; 1; 1]%nat.
Proof.
  intros s Hs. cbn in Hs. destruct s as [|[|[|s]]]; try lia; (split; [cbn; lia|]); intros k Hk; cbn in Hk;
    destruct k as [|[|k]]; cbn; lia.
Qed.
(* the rectangular hypotheses: a 2-pixel mask, sub-sizes (1, 2), five source points, a 3 x 4 mesh, buffer 1/8 *)
Example C06_rect_hyps_satisfiable :
  let m := [[true; false]; [false; true]] in let subs := [1; 2]%nat in
  let grid : list (R * R) := [(1, -1); (0, 0); (1/2, 2); (-1, 1/4); (-3/2, 3)] in
  length subs = count_unmasked m /\ (forall i, (i < length subs)%nat -> (1 <= nth i subs 0)%nat) /\
  length grid = total_sub subs /\ (0 < 3)%Z /\ (0 < 4)%Z /\ 0 < 1/8 /\ In (1/2, 2) grid.
Proof.
  cbv zeta. repeat split; try reflexivity; try lia; try lra.
  - intros [|[|i]] Hi; cbn in *; lia.
  - cbn. auto.
Qed.
(* the Delaunay hypotheses: 4 vertices, 2 non-degenerate simplices, one point inside a simplex and one outside the hull *)
Example C06_del_hyps_satisfiable :
  let points : list (R * R) := [(0, 0); (0, 4); (4, 0); (4, 4)] in
  let simplices := [[0; 1; 2]; [1; 3; 2]]%Z in
  let simplex_for := [0; -1]%Z in
  let grid : list (R * R) := [(1, 1); (5, 5)] in
  length simplex_for = length grid /\ points <> [] /\
  (forall row, In row simplices ->
    exists a b c, row = [a; b; c] /\ (0 <= a < Z.of_nat (length points))%Z /\ (0 <= b < Z.of_nat (length points))%Z
                  /\ (0 <= c < Z.of_nat (length points))%Z
                  /\ @cross ROps (vtxR points row 0) (vtxR points row 1) (vtxR points row 2) <> 0) /\
  (forall t, In t simplex_for -> t = (-1)%Z \/ (0 <= t < Z.of_nat (length simplices))%Z) /\
  @in_triangle ROps (0, 0) (0, 4) (4, 0) (1, 1) = true /\ @cross ROps (0, 0) (0, 4) (4, 0) <> 0.
Proof.
  cbv zeta. split; [reflexivity|]. split; [discriminate|]. split; [|split; [|split]].
  - intros row [<-|[<-|[]]].
    + exists 0%Z, 1%Z, 2%Z. repeat split; cbn; try lia. unfold vtxR, vertex, cross, zero. simpl. lra.
    + exists 1%Z, 3%Z, 2%Z. repeat split; cbn; try lia. unfold vtxR, vertex, cross, zero. simpl. lra.
  - intros t [<-|[<-|[]]]; cbn; lia.
  - unfold in_triangle, cross, zero. cbn. apply orb_true_iff. right.
    rewrite !andb_true_iff, !Rleb_true. lra.
  - unfold cross. cbn. lra.
Qed.
(* the model is executable: the rectangular mapper of the input above, at exact rationals; rows sum to one *)
Example C06_rect_model_runs :
  let '(_, _, M, _, _) := rect_model [[true; false]; [false; true]] [1; 2]%nat
        [(1, -1); (0, 0); (1 # 2, 2); (-1, 1 # 4); (-3 # 2, 3)]%Q (3, 4)%Z (1 # 8)%Q in
  match M with
  | Ok rows => map (fun r => Qred (fold_right Qplus 0%Q r)) rows = [1%Q; 1%Q] /\ length (hd [] rows) = 12%nat
  | Raise _ => False
  end.
Proof. vm_compute. split; reflexivity. Qed.

(* the history machine is executable: the Delaunay mapper of C06_del_hyps_satisfiable (two image pixels, sub-size 1) with the
   adapt image (1, 1/2); the pixel signals are asked for FIRST, then the matrix, a regularization matrix, the sparse
   triple, the weights, and the matrix again: both readings of the matrix coincide, its rows sum to one, and the signals
   (the weighted means (1/2, 1/4, 1/4, 1/2) relative to their maximum) are (1, 1/2, 1/2, 1) *)
Example C06_history_runs :
  let fns := @del_fns QOps [(1, 1); (5, 5)]%Q [(0, 0); (0, 4); (4, 0); (4, 4)]%Q [[0; 1; 2]; [1; 3; 2]]%Z [0; -1]%Z
                      [0; 2; 5; 8; 10]%Z [1; 2; 0; 3; 2; 0; 1; 3; 1; 2]%Z in
  let outs := @run QOps (fst fns) (snd fns) 4 2 [0; 1]%nat [1; 1]%nat [1; 1 # 2]%Q st0
                   [OSig 1; OMat; ORegM 1%Q (1 # 2)%Q 1; OUq; OPsw; OMat] in
  nth_error outs 0 = Some (BVec (Ok [1; 1 # 2; 1 # 2; 1]%Q))
  /\ nth_error outs 1 = nth_error outs 5
  /\ match nth_error outs 1 with
     | Some (BMat (Ok rows)) => map (fun r => Qred (fold_right Qplus 0%Q r)) rows = [1%Q; 1%Q]
     | _ => False
     end.
Proof. vm_compute. repeat split; reflexivity. Qed.

Print Assumptions C06_slim_for_sub_blocks. Print Assumptions C06_entry_formula. Print Assumptions C06_entry_block_formula.
Print Assumptions C06_rows_sum_to_one. Print Assumptions C06_rows_nonneg. Print Assumptions C06_unique_encodes_dense.
Print Assumptions C06_rect_cell. Print Assumptions C06_overlay_is_extent_mesh. Print Assumptions C06_overlay_pixel_index.
Print Assumptions C06_rect_mapper_matrix. Print Assumptions C06_rect_unique_encodes_dense.
Print Assumptions C06_delaunay_weight_row. Print Assumptions C06_delaunay_weight_row_single.
Print Assumptions C06_delaunay_weights_sum. Print Assumptions C06_delaunay_weights_barycentric.
Print Assumptions C06_barycentric_spec. Print Assumptions C06_in_triangle_iff_bary_nonneg.
Print Assumptions C06_del_mapper_matrix. Print Assumptions C06_outside_hull_nearest_vertex.
Print Assumptions C06_del_unique_encodes_dense.
Print Assumptions C06_rect_neighbors_are_adj4. Print Assumptions C06_adj4_symmetric. Print Assumptions C06_adj4_is_grid_adjacency.
Print Assumptions C06_del_neighbors_rows.
Print Assumptions C06_rect_weight_is_cell_indicator. Print Assumptions C06_delaunay_weight_is_claimed.
Print Assumptions C06_delaunay_weight_barycentric_in_simplex. Print Assumptions C06_tri_neighbors_spec. Print Assumptions C06_tri_neighbors_symmetric.
Print Assumptions C06_history_pure. Print Assumptions C06_history_order_irrelevant.
Print Assumptions C06_rect_history. Print Assumptions C06_del_history.
Print Assumptions C06_mesh_api_held_lengths. Print Assumptions C06_mesh_api_preloaded_grid_is_held.
Print Assumptions C06_rect_mesh_api_mapper. Print Assumptions C06_del_mesh_api_mapper.
