(* C11r -- proofs for PART F (re-masking chains): the machine of Imaging.apply_mask observes what the value semantics observes *)
From Coq Require Import ZArith List Bool Lia.
From PAV Require Import Base.Res Base.Check Model.C11 Model.C11r.
Import ListNotations.
Local Open Scope Z_scope.

Lemma nth_allfalse : forall m i, allfalse m = true -> nth i m false = false.
Proof.
  unfold allfalse. induction m as [|x t IH]; intros i H.
  - destruct i; reflexivity.
  - cbn in H. apply andb_true_iff in H as [Hx Ht]. destruct i; cbn.
    + destruct x; [discriminate | reflexivity].
    + apply IH; exact Ht.
Qed.
Lemma filteri_from_all : forall A (f : nat -> bool) (l : list A) k, (forall i, f i = true) -> filteri_from k f l = l.
Proof. induction l as [|x t IH]; intros k H; cbn; [reflexivity|]. rewrite H, IH; auto. Qed.
Lemma mapi_from_id : forall f l k, (forall i v, f i v = v) -> mapi_from k f l = l.
Proof. induction l as [|x t IH]; intros k H; cbn; [reflexivity|]. rewrite H, IH; auto. Qed.
Lemma keep_allfalse : forall A m (l : list A), allfalse m = true -> keep m l = l.
Proof. intros. unfold keep. apply filteri_from_all. intro i. rewrite nth_allfalse; auto. Qed.
Lemma mask_native_allfalse : forall d m, allfalse m = true -> mask_native d m = d.
Proof. intros. unfold mask_native. apply mapi_from_id. intros i v. rewrite nth_allfalse; auto. Qed.
Lemma restrict_allfalse : forall m c, allfalse m = true -> restrict m c = c.
Proof.
  intros m c H. unfold restrict. rewrite keep_allfalse by exact H.
  rewrite <- (map_id c) at 2. apply map_ext. intro r. apply keep_allfalse; exact H.
Qed.
Lemma allfalse_repeat : forall n, allfalse (repeat false n) = true.
Proof. induction n; cbn; auto. Qed.

Lemma masked_idx_lt : forall b i, In i (masked_idx b) -> (i < length b)%nat.
Proof. unfold masked_idx. intros b i H. apply filter_In in H as [H _]. apply in_seq in H. lia. Qed.
Lemma np_delete_ok : forall A (l : list A) b, length l = length b -> np_delete l b = Some (keep b l).
Proof.
  intros A l b H. unfold np_delete.
  destruct (existsb (fun i => Nat.leb (length l) i) (masked_idx b)) eqn:E; [|reflexivity].
  apply existsb_exists in E as (i & Hin & Hle). apply masked_idx_lt in Hin. apply Nat.leb_le in Hle. lia.
Qed.
Lemma Forall_filteri_from : forall A (P : A -> Prop) f (l : list A) k, Forall P l -> Forall P (filteri_from k f l).
Proof.
  induction l as [|x t IH]; intros k H; cbn; [constructor|]. inversion H; subst.
  destruct (f k); [constructor; auto | auto].
Qed.
Lemma all_some_rows : forall (rows : list arr) b, Forall (fun r => length r = length b) rows ->
  all_some (map (fun r => np_delete r b) rows) = Some (map (keep b) rows).
Proof.
  induction rows as [|r t IH]; intros b H; cbn; [reflexivity|]. inversion H; subst.
  rewrite np_delete_ok by assumption. rewrite IH by assumption. reflexivity.
Qed.
Lemma reduce_cov_ok : forall c b, length c = length b -> Forall (fun r => length r = length b) c ->
  reduce_cov c b = Some (restrict b c).
Proof.
  intros c b Hl Hr. unfold reduce_cov. rewrite np_delete_ok by exact Hl.
  rewrite all_some_rows; [reflexivity|]. unfold keep. apply Forall_filteri_from. exact Hr.
Qed.
Lemma wf_cov_some : forall n c, wf_cov n (Some c) = true -> length c = n /\ Forall (fun r => length r = n) c.
Proof.
  intros n c H. cbn in H. apply andb_true_iff in H as [H1 H2]. apply Nat.eqb_eq in H1. split; [exact H1|].
  apply Forall_forall. intros r Hin. rewrite forallb_forall in H2. apply Nat.eqb_eq. apply H2. exact Hin.
Qed.

(* every dataset object holds the caller's arrays under its own mask; a masked one refers to an unmasked one *)
Definition ds_ok (data0 : arr) (cov0 : option (list arr)) (st : list rds) (ds : rds) : Prop :=
  r_native ds = mask_native data0 (r_mask ds)
  /\ r_cov ds = option_map (restrict (r_mask ds)) cov0
  /\ (allfalse (r_mask ds) = false -> exists u du, r_unm ds = Some u /\ nth_error st u = Some du /\ allfalse (r_mask du) = true).
Definition inv (data0 : arr) (cov0 : option (list arr)) (st : list rds) (masks : list (list bool)) : Prop :=
  map r_mask st = masks /\ Forall (ds_ok data0 cov0 st) st.

Lemma ds_ok_app : forall data0 cov0 st l ds, ds_ok data0 cov0 st ds -> ds_ok data0 cov0 (st ++ l) ds.
Proof.
  intros data0 cov0 st l ds (H1 & H2 & H3). repeat split; auto.
  intro Hf. destruct (H3 Hf) as (u & du & Hu & Hn & Ha). exists u, du. repeat split; auto.
  rewrite nth_error_app1; [exact Hn|]. apply nth_error_Some. rewrite Hn. discriminate.
Qed.
Lemma cov_allfalse : forall cov0 m, allfalse m = true -> option_map (restrict m) cov0 = cov0.
Proof. intros [c|] m H; cbn; [rewrite restrict_allfalse by exact H|]; reflexivity. Qed.

Lemma step_sim : forall data0 cov0 st masks o,
  wf_cov (length data0) cov0 = true -> inv data0 cov0 st masks ->
  let '(st1, ob) := rstep false (length data0) st o in
  let '(m1, ob') := sstep data0 cov0 masks o in
  ob = ob' /\ inv data0 cov0 st1 m1.
Proof.
  intros data0 cov0 st masks o Hwf [Hm Hall]. destruct o as [d b | d]; cbn [rstep sstep].
  - destruct (negb (Nat.eqb (length b) (length data0))) eqn:El; [split; [reflexivity | split; assumption]|].
    apply negb_false_iff in El. apply Nat.eqb_eq in El.
    assert (Hnm : nth_error masks d = option_map r_mask (nth_error st d)) by (rewrite <- Hm; apply nth_error_map).
    destruct (nth_error st d) as [self|] eqn:Es; rewrite Hnm; cbn [option_map]; [|split; [reflexivity | split; assumption]].
    assert (Hself : ds_ok data0 cov0 st self) by (eapply Forall_forall; [exact Hall | eapply nth_error_In; exact Es]).
    (* the dataset apply_mask goes back to: an object with an all-false mask *)
    assert (Hu : exists u du, (if allfalse (r_mask self) then Some d else r_unm self) = Some u
                              /\ nth_error st u = Some du /\ allfalse (r_mask du) = true).
    { destruct (allfalse (r_mask self)) eqn:Ea.
      - exists d, self. auto.
      - destruct Hself as (_ & _ & H3). destruct (H3 Ea) as (u & du & Hu1 & Hu2 & Hu3). exists u, du. auto. }
    destruct Hu as (u & du & Hu1 & Hu2 & Hu3). rewrite Hu1, Hu2.
    assert (Hdu : ds_ok data0 cov0 st du) by (eapply Forall_forall; [exact Hall | eapply nth_error_In; exact Hu2]).
    destruct Hdu as (Hn & Hc & _).
    rewrite mask_native_allfalse in Hn by exact Hu3. rewrite cov_allfalse in Hc by exact Hu3.
    rewrite Hn, Hc.
    assert (Hred : (match cov0 with
                    | None => Some None
                    | Some c => match reduce_cov c b with None => None | Some c' => Some (Some c') end
                    end) = Some (option_map (restrict b) cov0)).
    { destruct cov0 as [c|]; [|reflexivity]. apply wf_cov_some in Hwf as [W1 W2].
      assert (L1 : length c = length b) by congruence.
      assert (L2 : Forall (fun r : arr => length r = length b) c) by (rewrite El; exact W2).
      rewrite (reduce_cov_ok c b L1 L2). reflexivity. }
    rewrite Hred. split; [reflexivity|]. split.
    + rewrite map_app, Hm. reflexivity.
    + apply Forall_app. split.
      * eapply Forall_impl; [|exact Hall]. intros a Ha. apply ds_ok_app. exact Ha.
      * constructor; [|constructor]. repeat split; cbn [r_native r_cov r_mask r_unm]; auto.
        intros _. exists u, du. repeat split; auto.
        rewrite nth_error_app1; [exact Hu2|]. apply nth_error_Some. rewrite Hu2. discriminate.
  - assert (Hnm : nth_error masks d = option_map r_mask (nth_error st d)) by (rewrite <- Hm; apply nth_error_map).
    destruct (nth_error st d) as [ds|] eqn:Es; rewrite Hnm; cbn [option_map]; [|split; [reflexivity | split; assumption]].
    assert (Hds : ds_ok data0 cov0 st ds) by (eapply Forall_forall; [exact Hall | eapply nth_error_In; exact Es]).
    destruct Hds as (Hn & Hc & _). unfold view. rewrite Hn, Hc. split; [reflexivity | split; assumption].
Qed.

Lemma trace_sim : forall data0 cov0 ops st masks,
  wf_cov (length data0) cov0 = true -> inv data0 cov0 st masks ->
  rtrace false (length data0) st ops = strace data0 cov0 masks ops.
Proof.
  induction ops as [|o t IH]; intros st masks Hwf Hinv; cbn [rtrace strace]; [reflexivity|].
  pose proof (step_sim data0 cov0 st masks o Hwf Hinv) as H.
  destruct (rstep false (length data0) st o) as [st1 ob]. destruct (sstep data0 cov0 masks o) as [m1 ob'].
  destruct H as [-> Hinv1]. f_equal. apply IH; assumption.
Qed.

Lemma inv_init : forall data0 cov0, inv data0 cov0 (rinit data0 cov0) [repeat false (length data0)].
Proof.
  intros. unfold rinit. split; [reflexivity|]. constructor; [|constructor].
  repeat split; cbn [r_native r_cov r_mask r_unm].
  - rewrite mask_native_allfalse; [reflexivity | apply allfalse_repeat].
  - rewrite cov_allfalse; [reflexivity | apply allfalse_repeat].
  - rewrite allfalse_repeat. discriminate.
Qed.

(* every dataset derived through any chain of apply_mask reports the pure function of the caller's arrays and ITS OWN mask *)
Theorem remask_pure : forall data0 cov0 ops,
  wf_cov (length data0) cov0 = true -> robservations false data0 cov0 ops = sobservations data0 cov0 ops.
Proof. intros. unfold robservations, sobservations. apply trace_sim; [assumption | apply inv_init]. Qed.

(* history independence, stated directly: masking with b after ANY history gives what masking the fresh dataset gives *)
Lemma strace_snoc : forall data0 cov0 ops masks o,
  exists m, strace data0 cov0 masks (ops ++ [o]) = strace data0 cov0 masks ops ++ [snd (sstep data0 cov0 m o)].
Proof.
  induction ops as [|o1 t IH]; intros masks o.
  - exists masks. cbn [app strace]. destruct (sstep data0 cov0 masks o); reflexivity.
  - cbn [app strace]. destruct (sstep data0 cov0 masks o1) as [m1 ob]. destruct (IH m1 o) as (m & Hm).
    exists m. rewrite Hm. reflexivity.
Qed.
Theorem remask_history_free : forall data0 cov0 ops d b,
  wf_cov (length data0) cov0 = true ->
  last (robservations false data0 cov0 (ops ++ [RMask d b])) RBad = view data0 cov0 b
  \/ last (robservations false data0 cov0 (ops ++ [RMask d b])) RBad = RBad.
Proof.
  intros data0 cov0 ops d b Hwf. rewrite remask_pure by exact Hwf. unfold sobservations.
  destruct (strace_snoc data0 cov0 ops [repeat false (length data0)] (RMask d b)) as (m & Hm).
  rewrite Hm, last_last. cbn [sstep].
  destruct (negb (Nat.eqb (length b) (length data0))); [right; reflexivity|].
  destruct (nth_error m d); [left | right]; reflexivity.
Qed.

Theorem remask_check_is_spec : forall data0 cov0 ops out,
  remask_agree data0 cov0 ops out = remask_spec_ok data0 cov0 ops out.
Proof.
  intros. unfold remask_agree, remask_spec_ok. destruct (wf_cov (length data0) cov0) eqn:E; [|reflexivity].
  rewrite remask_pure by exact E. reflexivity.
Qed.

(* the change found by the independent campaign: the matrix of `self`.  4 pixels.  a = pixels 0, 1, then b = pixels 0, 1, 2: np.delete
   on the 2x2 matrix with index 3 raises IndexError.  a = pixels 1, 2, 3, then b = pixels 2, 3: rows / columns 0, 1 of the REDUCED
   matrix are deleted -- no error, a 1x1 matrix for a dataset of 2 pixels *)
Definition w_data : arr := [10; 11; 12; 13].
Definition w_cov : option (list arr) := Some [[1; 2; 3; 4]; [5; 6; 7; 8]; [9; 10; 11; 12]; [13; 14; 15; 16]].
Definition w_h1 : list rop := [RMask 0 [false; false; true; true]; RMask 1 [false; false; false; true]].
Definition w_h2 : list rop := [RMask 0 [true; false; false; false]; RMask 1 [true; true; false; false]].
Theorem remask_from_reduced_matrix_refuted :
  robservations true w_data w_cov w_h1 <> sobservations w_data w_cov w_h1
  /\ robservations true w_data w_cov w_h2 <> sobservations w_data w_cov w_h2
  /\ nth 1 (robservations true w_data w_cov w_h1) RBad = RRaise
  /\ nth 1 (robservations true w_data w_cov w_h2) RBad = ROk [12; 13] (Some [[16]])
  /\ nth 1 (sobservations w_data w_cov w_h2) RBad = ROk [12; 13] (Some [[11; 12]; [15; 16]]).
Proof.
  split; [intro H; vm_compute in H; discriminate H|].
  split; [intro H; vm_compute in H; discriminate H|].
  repeat split; vm_compute; reflexivity.
Qed.
