(* C15 -- proofs.  Part A: positional array writes are idempotent.  Part B: a Hoare logic for the
   store/cache state monad of Model/C15.v.  Part C: every getter returns the specification value and keeps
   the invariant.  Part D: histories, the factory, refutations of the two mutants. *)
From Coq Require Import List Arith Bool Lia.
From PAV Require Import Base.Res Base.Check Model.C15.
Import ListNotations.
Local Open Scope nat_scope.

(* ================================================================================================ *)
(* Part A                                                                                            *)
Section Imap.
  Context {A : Type}.
  Lemma imap_ext (f g : nat -> A -> A) l i :
    (forall k x, f k x = g k x) -> imap f i l = imap g i l.
  Proof. intro H. revert i. induction l as [|a l IH]; intro i; simpl; [reflexivity|]. now rewrite H, IH. Qed.
  Lemma imap_imap (f g : nat -> A -> A) l i :
    imap f i (imap g i l) = imap (fun k x => f k (g k x)) i l.
  Proof. revert i. induction l as [|a l IH]; intro i; simpl; [reflexivity|]. now rewrite IH. Qed.
  Lemma imap_id l i : imap (fun _ (x : A) => x) i l = l.
  Proof. revert i. induction l as [|a l IH]; intro i; simpl; [reflexivity|]. now rewrite IH. Qed.
End Imap.

Section Writes.
  Variable T : Type.
  Variable K : kernels T.
  Notation z := (t0 K).

  (* vectors: a write is an overlay nat -> option T *)
  Definition vov := nat -> option T.
  Definition app_vov (o : vov) (v : vec T) : vec T :=
    imap (fun i x => match o i with Some y => y | None => x end) 0 v.
  Definition vov_of (w : vwrite T) : vov :=
    fun i => if in_rng (vw_lo w) (vw_hi w) i then Some (nth (i - vw_lo w) (vw_b w) z) else None.
  Definition vseq (o1 o2 : vov) : vov := fun i => match o2 i with Some y => Some y | None => o1 i end.
  Fixpoint vovl (ws : list (vwrite T)) : vov :=
    match ws with [] => fun _ => None | w :: t => vseq (vov_of w) (vovl t) end.

  Lemma apply_vw_ov v w : apply_vw K v w = app_vov (vov_of w) v.
  Proof.
    unfold apply_vw, app_vov, vov_of. apply imap_ext. intros k x.
    destruct (in_rng (vw_lo w) (vw_hi w) k); reflexivity.
  Qed.
  Lemma app_vov_seq o1 o2 v : app_vov o2 (app_vov o1 v) = app_vov (vseq o1 o2) v.
  Proof.
    unfold app_vov. rewrite imap_imap. apply imap_ext. intros k x. unfold vseq.
    destruct (o2 k); [reflexivity|]. destruct (o1 k); reflexivity.
  Qed.
  Lemma apply_vws_ov ws : forall v, apply_vws K v ws = app_vov (vovl ws) v.
  Proof.
    induction ws as [|w ws IH]; intro v; simpl.
    - unfold app_vov. now rewrite imap_id.
    - unfold apply_vws in *. simpl. rewrite IH, apply_vw_ov, app_vov_seq. reflexivity.
  Qed.
  Lemma apply_vws_idem v ws : apply_vws K (apply_vws K v ws) ws = apply_vws K v ws.
  Proof.
    rewrite !apply_vws_ov, app_vov_seq. unfold app_vov. apply imap_ext. intros k x. unfold vseq.
    destruct (vovl ws k); reflexivity.
  Qed.
  Lemma apply_vws_app v a b : apply_vws K v (a ++ b) = apply_vws K (apply_vws K v a) b.
  Proof. unfold apply_vws. now rewrite fold_left_app. Qed.

  (* matrices *)
  Definition mov := nat -> nat -> option T.
  Definition app_mov (o : mov) (m : mat T) : mat T :=
    imap (fun i row => imap (fun j x => match o i j with Some y => y | None => x end) 0 row) 0 m.
  Definition mov_of (w : mwrite T) : mov :=
    fun i j => if in_rng (mw_r0 w) (mw_r1 w) i && in_rng (mw_c0 w) (mw_c1 w) j
               then Some (nth (j - mw_c0 w) (nth (i - mw_r0 w) (mw_b w) []) z) else None.
  Definition mseq (o1 o2 : mov) : mov := fun i j => match o2 i j with Some y => Some y | None => o1 i j end.
  Fixpoint movl (ws : list (mwrite T)) : mov :=
    match ws with [] => fun _ _ => None | w :: t => mseq (mov_of w) (movl t) end.

  Lemma apply_mw_ov m w : apply_mw K m w = app_mov (mov_of w) m.
  Proof.
    unfold apply_mw, app_mov, mov_of. apply imap_ext. intros i row.
    destruct (in_rng (mw_r0 w) (mw_r1 w) i); simpl.
    - apply imap_ext. intros j x. destruct (in_rng (mw_c0 w) (mw_c1 w) j); reflexivity.
    - now rewrite imap_id.
  Qed.
  Lemma app_mov_seq o1 o2 m : app_mov o2 (app_mov o1 m) = app_mov (mseq o1 o2) m.
  Proof.
    unfold app_mov. rewrite imap_imap. apply imap_ext. intros i row. rewrite imap_imap.
    apply imap_ext. intros j x. unfold mseq. destruct (o2 i j); [reflexivity|]. destruct (o1 i j); reflexivity.
  Qed.
  Lemma apply_mws_ov ws : forall m, apply_mws K m ws = app_mov (movl ws) m.
  Proof.
    induction ws as [|w ws IH]; intro m; simpl.
    - unfold app_mov. rewrite <- (imap_id m 0) at 1. apply imap_ext. intros i row. now rewrite imap_id.
    - unfold apply_mws in *. simpl. rewrite IH, apply_mw_ov, app_mov_seq. reflexivity.
  Qed.
  Lemma apply_mws_idem m ws : apply_mws K (apply_mws K m ws) ws = apply_mws K m ws.
  Proof.
    rewrite !apply_mws_ov, app_mov_seq. unfold app_mov. apply imap_ext. intros i row.
    apply imap_ext. intros j x. unfold mseq. destruct (movl ws i j); reflexivity.
  Qed.
  Lemma apply_mws_app m a b : apply_mws K m (a ++ b) = apply_mws K (apply_mws K m a) b.
  Proof. unfold apply_mws. now rewrite fold_left_app. Qed.
  (* re-running a prefix of a block-assignment program is absorbed by the whole program *)
  Lemma apply_mws_absorb m a b : apply_mws K (apply_mws K m a) (a ++ b) = apply_mws K m (a ++ b).
  Proof. now rewrite !apply_mws_app, apply_mws_idem. Qed.
End Writes.

(* ================================================================================================ *)
(* Part B: invariant and Hoare triples                                                               *)
Section Logic.
  Variable T : Type.
  Variable K : kernels T.
  Variable inp : input T.
  Variable mode : option (wtilde T).
  Notation P := (pure K inp mode).
  Notation M := (M T).

  (* the two kernel identities (C04) on which the two presence-switched dictionaries rely *)
  Definition law_dlf : Prop := forall (x : lobj T) (l : mat T),
    k_off_dlfm K (k_dlfm K (k_cw K l (n inp))) (lo_mm x) (lo_p x) = k_off_mf K (lo_mm x) (lo_p x) (k_cw K l (n inp)).
  Definition law_momm : Prop := forall (x : lobj T) (cw : mat T),
    k_dotT K (conv_mm K (lo_mm x)) cw = k_off_mf K (lo_mm x) (lo_p x) cw.

  (* the block assignments the w-tilde class performs on top of _data_vector_mapper / _curvature_matrix_mapper_diag *)
  Definition dvW : list (vwrite T) :=
    if has_func inp then dv_func_writes K inp (lf_fresh K inp) else [].
  Definition cmdW (w : wtilde T) : list (mwrite T) :=
    if has_func inp then multi_writes K inp (wt_w w) ++ flm_writes K inp (OffFresh T) (lf_fresh K inp)
    else if Nat.eqb (length (mappers inp)) 1 then [] else multi_writes K inp (wt_w w).

  (* what a Preloads object must satisfy (semantic form; [fresh_store] below is the user-facing form) *)
  Definition consistent (p : pstore T) : Prop :=
    (forall m, s_omm p = Some m -> m = p_omm K inp) /\
    (forall m, s_curv p = Some m -> m = p_curv K inp mode) /\
    (forall m, s_reg p = Some m -> m = p_reg K inp) /\
    (forall x, s_ldr p = Some x -> has_reg inp = true -> p_ldr K inp = Ok x) /\
    (forall l, s_lf p = Some l -> l = lf_fresh K inp) /\
    (forall l, s_dlf p = Some l -> l = dlf_of K inp (lf_fresh K inp) /\ law_dlf) /\
    (forall l, s_momm p = Some l -> l = momm_fresh K inp /\ law_momm) /\
    (forall v, s_dvm p = Some v ->
       (mode = None -> has_func inp = false -> v = p_dv K inp mode) /\
       (forall w, mode = Some w -> apply_vws K v dvW = p_dv K inp mode)) /\
    (forall m w, s_cmd p = Some m -> mode = Some w -> apply_mws K m (cmdW w) = p_pre K inp w).

  (* how the Preloads object may change: only the two arrays completed in place, and only towards completion *)
  Definition evolves (p p' : pstore T) : Prop :=
    s_use_wt p' = s_use_wt p /\ s_wt p' = s_wt p /\ s_omm p' = s_omm p /\ s_curv p' = s_curv p /\
    s_reg p' = s_reg p /\ s_lf p' = s_lf p /\ s_dlf p' = s_dlf p /\ s_momm p' = s_momm p /\ s_ldr p' = s_ldr p /\
    is_some (s_dvm p') = is_some (s_dvm p) /\ is_some (s_cmd p') = is_some (s_cmd p) /\
    (s_dvm p = Some (p_dv K inp mode) -> s_dvm p' = Some (p_dv K inp mode)).
  Lemma evolves_refl p : evolves p p.
  Proof. unfold evolves. tauto. Qed.
  Lemma evolves_trans p1 p2 p3 : evolves p1 p2 -> evolves p2 p3 -> evolves p1 p3.
  Proof.
    unfold evolves. intros (a1&a2&a3&a4&a5&a6&a7&a8&a9&a10&a11&a12) (b1&b2&b3&b4&b5&b6&b7&b8&b9&b10&b11&b12).
    repeat split; try congruence. auto.
  Qed.

  Definition sound (q : qty) (c : cval T) (p : pstore T) : Prop :=
    match c with
    | CM (MOwn m) => P q = PM m
    | CM (MAlias SOmm) => q = QOmm /\ is_some (s_omm p) = true
    | CM (MAlias SReg) => (q = QReg \/ (q = QRegRed /\ all_reg inp = true)) /\ is_some (s_reg p) = true
    | CM (MAlias _) => False
    | CV (VOwn v) => P q = PV v
    | CV VAlias => q = QDv /\ s_dvm p = Some (p_dv K inp mode)
    | CL l => P q = PL l
    | CRV x => P q = PRV x
    | CRT x => P q = PRT x
    end.
  Lemma sound_read q c p : consistent p -> sound q c p -> readc c p = P q.
  Proof.
    intros (Ho & _ & Hr & _) Hs. destruct c as [[m|[]]|[v|]|l|x|x]; simpl in *; try congruence; try contradiction.
    - destruct Hs as [-> Hs]. destruct (s_omm p) eqn:E; [|discriminate]. now rewrite (Ho _ eq_refl).
    - destruct Hs as [Hq Hs]. destruct (s_reg p) eqn:E; [|discriminate]. rewrite (Hr _ eq_refl).
      destruct Hq as [->|[-> Ha]]; simpl; [reflexivity|]. unfold p_regred. now rewrite Ha.
    - destruct Hs as [-> Hs]. now rewrite Hs.
  Qed.
  Lemma sound_mono q c p p' : evolves p p' -> sound q c p -> sound q c p'.
  Proof.
    intros (a1&a2&a3&a4&a5&a6&a7&a8&a9&a10&a11&a12) Hs.
    destruct c as [[m|[]]|[v|]|l|x|x]; simpl in *; try assumption.
    - now rewrite a3.
    - now rewrite a5.
    - destruct Hs; split; auto.
  Qed.

  Definition Inv (st : state T) : Prop :=
    consistent (store st) /\ forall q c, cache st q = Some c -> sound q c (store st).

  Definition triple {A} (Pre : pstore T -> Prop) (m : M A) (Q : A -> pstore T -> Prop) : Prop :=
    forall st, Inv st -> Pre (store st) ->
      Inv (snd (m st)) /\ evolves (store st) (store (snd (m st))) /\ Q (fst (m st)) (store (snd (m st))).
  Definition TT : pstore T -> Prop := fun _ => True.

  Lemma triple_ret A (a : A) (Pre : pstore T -> Prop) : triple Pre (ret a) (fun x p => x = a /\ Pre p).
  Proof. intros st HI HP. simpl. auto using evolves_refl. Qed.
  Lemma triple_bind A B Pre (m : M A) Q (f : A -> M B) R :
    triple Pre m Q -> (forall a, triple (Q a) (f a) R) -> triple Pre (bind m f) R.
  Proof.
    intros Hm Hf st HI HP. unfold bind. specialize (Hm st HI HP). destruct (m st) as [a st1]. simpl in Hm.
    destruct Hm as (HI1 & Hev & HQ). specialize (Hf a st1 HI1 HQ). destruct (f a st1) as [b st2]. simpl in *.
    destruct Hf as (HI2 & Hev2 & HR). eauto using evolves_trans.
  Qed.
  Lemma triple_conseq A (Pre Pre' : pstore T -> Prop) (m : M A) (Q Q' : A -> pstore T -> Prop) :
    triple Pre' m Q' -> (forall p, consistent p -> Pre p -> Pre' p) -> (forall a p, consistent p -> Q' a p -> Q a p) ->
    triple Pre m Q.
  Proof.
    intros H H1 H2 st HI HP. destruct (H st HI (H1 _ (proj1 HI) HP)) as (a & b & c). split; [assumption|]. split; [assumption|].
    apply H2; [apply a | assumption].
  Qed.
  (* a state-independent fact is carried across a computation *)
  Lemma triple_frame A (F : Prop) (Pre : pstore T -> Prop) (m : M A) (Q : A -> pstore T -> Prop) :
    (F -> triple Pre m Q) -> triple (fun p => F /\ Pre p) m (fun a p => F /\ Q a p).
  Proof. intros H st HI [HF HP]. destruct (H HF st HI HP) as (a & b & c). auto. Qed.
  Lemma triple_gets A (f : pstore T -> A) Pre : triple Pre (gets f) (fun a p => a = f p /\ Pre p).
  Proof. intros st HI HP. simpl. auto using evolves_refl. Qed.

  Lemma cached_triple q (compute : M (cval T)) :
    triple TT compute (sound q) -> triple TT (cached q compute) (sound q).
  Proof.
    intros H st HI _. unfold cached. destruct (cache st q) as [c|] eqn:E.
    - simpl. split; [assumption|]. split; [apply evolves_refl|]. apply (proj2 HI _ _ E).
    - specialize (H st HI I). destruct (compute st) as [c st1]. simpl in *. destruct H as ((Hc & Hs) & Hev & Hq).
      split; [|split; assumption]. split; [assumption|]. intros q' c'. simpl.
      destruct (qty_eqb q' q) eqn:Eq.
      + intro Hx. injection Hx as <-. destruct q', q; try discriminate; assumption.
      + apply Hs.
  Qed.
  Lemma val_triple q (g : M (cval T)) :
    triple TT g (sound q) -> triple TT (val g) (fun v _ => v = P q).
  Proof.
    intros H st HI _. unfold val, bind, gets. specialize (H st HI I). destruct (g st) as [c st1]. simpl in *.
    destruct H as (HI1 & Hev & Hs). split; [assumption|]. split; [assumption|].
    apply sound_read; [apply HI1 | assumption].
  Qed.
  (* plain value post-conditions compose without bookkeeping *)
  Definition vtriple {A} (m : M A) (Q : A -> Prop) : Prop := triple TT m (fun a _ => Q a).
  Lemma vbind A B (m : M A) (Q : A -> Prop) (f : A -> M B) (R : B -> pstore T -> Prop) :
    vtriple m Q -> (forall a, Q a -> triple TT (f a) R) -> triple TT (bind m f) R.
  Proof.
    intros Hm Hf. eapply triple_bind; [apply Hm|]. intros a st HI HQ. apply (Hf a HQ st HI I).
  Qed.
  Lemma vret (c : cval T) q : (forall p, consistent p -> sound q c p) -> triple TT (ret c) (sound q).
  Proof. intros H st HI _. simpl. split; [assumption|]. split; [apply evolves_refl|]. apply H, HI. Qed.

  (* ---------------------------------------------------------------------------------------------- *)
  (* more rules                                                                                      *)
  Definition store_pres {A} (m : M A) : Prop := forall st, store (snd (m st)) = store st.
  Lemma triple_frame_pres A (F : pstore T -> Prop) (m : M A) Q :
    store_pres m -> triple TT m Q -> triple F m (fun a p => F p /\ Q a p).
  Proof.
    intros Hp H st HI HF. destruct (H st HI I) as (a & b & c). split; [assumption|]. split; [assumption|].
    split; [|assumption]. now rewrite Hp.
  Qed.
  Lemma triple_frame_st A (F : pstore T -> Prop) (m : M A) Q :
    (forall p p', evolves p p' -> F p -> F p') -> triple TT m Q -> triple F m (fun a p => F p /\ Q a p).
  Proof.
    intros Hst H st HI HF. destruct (H st HI I) as (a & b & c). split; [assumption|]. split; [assumption|].
    split; [|assumption]. eapply Hst; eassumption.
  Qed.
  Lemma triple_weaken_pre A (Pre : pstore T -> Prop) (m : M A) Q : triple TT m Q -> triple Pre m Q.
  Proof. intros H st HI _. apply (H st HI I). Qed.
  Lemma triple_gets_case A B (f : pstore T -> A) (k : A -> M B) Q :
    (forall a, triple (fun p => f p = a) (k a) Q) -> triple TT (bind (gets f) k) Q.
  Proof. intros H st HI _. unfold bind, gets. apply (H (f (store st)) st HI eq_refl). Qed.
  Lemma triple_post A (Pre : pstore T -> Prop) (m : M A) (Q Q' : A -> pstore T -> Prop) :
    triple Pre m Q' -> (forall a p, consistent p -> Q' a p -> Q a p) -> triple Pre m Q.
  Proof. intros H H2. eapply triple_conseq; [apply H| auto | assumption]. Qed.

  Lemma firstn_len {A} (l : list A) : firstn (length l) l = l.
  Proof. apply firstn_all. Qed.

  (* ---------------------------------------------------------------------------------------------- *)
  (* Part C: the getters (the code: copy kept, guard present)                                          *)
  Lemma lf_ok : triple TT (get_lf K inp) (sound QLf).
  Proof.
    apply cached_triple. apply triple_gets_case. intros [l|] st HI E; simpl.
    - split; [assumption|]. split; [apply evolves_refl|].
      destruct HI as ((_&_&_&_&Hl&_) & _). rewrite (Hl _ E). unfold rekey.
      replace (length (funcs inp)) with (length (lf_fresh K inp)) by (unfold lf_fresh; now rewrite map_length).
      now rewrite firstn_len.
    - split; [assumption|]. split; [apply evolves_refl|]. reflexivity.
  Qed.
  Lemma momm_ok : triple TT (get_momm K inp) (sound QMomm).
  Proof.
    apply cached_triple. apply triple_gets_case. intros [l|] st HI E; simpl.
    - split; [assumption|]. split; [apply evolves_refl|].
      destruct HI as ((_&_&_&_&_&_&Hl&_) & _). rewrite (proj1 (Hl _ E)). unfold rekey.
      replace (length (mappers inp)) with (length (momm_fresh K inp)) by (unfold momm_fresh; now rewrite map_length).
      now rewrite firstn_len.
    - split; [assumption|]. split; [apply evolves_refl|]. reflexivity.
  Qed.
  Lemma lf_val : vtriple (val (get_lf K inp)) (fun v => v = PL (lf_fresh K inp)).
  Proof. exact (val_triple QLf _ lf_ok). Qed.
  Lemma omm_list_ok : vtriple (omm_list K inp) (fun l => l = omm_list_of K inp (lf_fresh K inp)).
  Proof.
    unfold omm_list. eapply vbind; [apply lf_val|]. intros a ->. intros st HI _. simpl. auto using evolves_refl.
  Qed.
  Lemma omm_ok : triple TT (get_omm K inp) (sound QOmm).
  Proof.
    apply cached_triple. apply triple_gets_case. intros [m|].
    - intros st HI E. simpl. split; [assumption|]. split; [apply evolves_refl|]. split; [reflexivity|]. now rewrite E.
    - apply triple_weaken_pre. eapply vbind; [apply omm_list_ok|]. intros l ->. intros st HI _. simpl.
      split; [assumption|]. split; [apply evolves_refl|]. reflexivity.
  Qed.
  Lemma wtd_ok : triple TT (get_wtd K inp) (sound QWtd).
  Proof. apply cached_triple. intros st HI _. simpl. split; [assumption|]. split; [apply evolves_refl|]. reflexivity. Qed.
  Lemma reg_ok : triple TT (get_reg K inp) (sound QReg).
  Proof.
    apply cached_triple. apply triple_gets_case. intros [m|] st HI E; simpl.
    - split; [assumption|]. split; [apply evolves_refl|]. split; [now left|]. now rewrite E.
    - split; [assumption|]. split; [apply evolves_refl|]. reflexivity.
  Qed.

  Lemma omm_val : vtriple (val (get_omm K inp)) (fun v => v = PM (p_omm K inp)).
  Proof. exact (val_triple QOmm _ omm_ok). Qed.
  Lemma wtd_val : vtriple (val (get_wtd K inp)) (fun v => v = PV (p_wtd K inp)).
  Proof. exact (val_triple QWtd _ wtd_ok). Qed.
  Lemma reg_val : vtriple (val (get_reg K inp)) (fun v => v = PM (p_reg K inp)).
  Proof. exact (val_triple QReg _ reg_ok). Qed.

  Lemma regred_ok : triple TT (get_regred K inp) (sound QRegRed).
  Proof.
    apply cached_triple. eapply triple_bind; [apply reg_ok|]. intros c.
    destruct (all_reg inp) eqn:Ea.
    - intros st HI Hs. simpl. split; [assumption|]. split; [apply evolves_refl|].
      destruct c as [[m|[]]|[v|]|l|x|x]; simpl in *; try discriminate; try contradiction.
      + unfold p_regred. now rewrite Ea.
      + destruct Hs; discriminate.
      + destruct Hs as [_ Hs]. split; [right; now split | assumption].
      + destruct Hs; discriminate.
    - intros st HI Hs. simpl. split; [assumption|]. split; [apply evolves_refl|].
      rewrite (sound_read _ _ _ (proj1 HI) Hs). simpl. unfold p_regred. now rewrite Ea.
  Qed.
  Lemma regred_val : vtriple (val (get_regred K inp)) (fun v => v = PM (p_regred K inp)).
  Proof. exact (val_triple QRegRed _ regred_ok). Qed.

  Lemma vret_val A (a : A) (Q : A -> Prop) : Q a -> vtriple (ret a) Q.
  Proof. intros H st HI _. simpl. auto using evolves_refl. Qed.

  (* ---- data_vector ---- *)
  Lemma Inv_dvm_set st v :
    Inv st -> is_some (s_dvm (store st)) = true -> v = p_dv K inp mode ->
    (forall w, mode = Some w -> apply_vws K v dvW = p_dv K inp mode) ->
    Inv {| cache := cache st; store := dvm_set v (store st) |} /\ evolves (store st) (dvm_set v (store st)).
  Proof.
    intros [Hc Hs] Hp Hv Hw.
    assert (Hev : evolves (store st) (dvm_set v (store st))).
    { unfold evolves. simpl. repeat split; auto. intros _. now rewrite Hv. }
    split; [|assumption]. split.
    - destruct Hc as (c1&c2&c3&c4&c5&c6&c7&c8&c9).
      refine (conj c1 (conj c2 (conj c3 (conj c4 (conj c5 (conj c6 (conj c7 (conj _ c9)))))))).
      simpl. intros v' Hv'. injection Hv' as <-. split; [intros _ _; assumption | assumption].
    - intros q c Hq. simpl in *. eapply sound_mono; [apply Hev | apply Hs, Hq].
  Qed.

  Lemma dvm_ref_wt_ok w : mode = Some w ->
    triple TT (dvm_ref_wt K inp)
           (fun r p => r = VOwn (p_dvm K inp mode) \/ (r = VAlias /\ is_some (s_dvm p) = true)).
  Proof.
    intro Em. apply triple_gets_case. intros [v|].
    - intros st HI E. simpl. split; [assumption|]. split; [apply evolves_refl|]. right. now rewrite E.
    - apply triple_weaken_pre. eapply vbind; [apply wtd_val|]. intros a ->. intros st HI _. simpl.
      split; [assumption|]. split; [apply evolves_refl|]. left. unfold p_dvm. now rewrite Em.
  Qed.

  Lemma dv_ok_aux mode' : mode' = mode -> triple TT (get_dv K code inp mode') (sound QDv).
  Proof.
    intro Em. apply cached_triple. unfold get_dv. destruct mode' as [w|]; symmetry in Em.
    - (* w-tilde class *)
      destruct (has_func inp) eqn:Ef.
      + eapply triple_bind; [apply (dvm_ref_wt_ok w Em)|]. intros r.
        eapply triple_bind.
        { apply triple_frame_st; [|apply lf_val].
          intros p p' (_&_&_&_&_&_&_&_&_&Hd&_) [H|[H H2]]; [now left|right; split; [assumption|congruence]]. }
        intros lf st HI [Hr ->]. simpl.
        assert (Hpdv : p_dv K inp mode = apply_vws K (p_dvm K inp mode) (dv_func_writes K inp (lf_fresh K inp))).
        { unfold p_dv. now rewrite Em, Ef. }
        assert (HdvW : dvW = dv_func_writes K inp (lf_fresh K inp)) by (unfold dvW; now rewrite Ef).
        destruct Hr as [->|[-> Hp]]; simpl.
        * split; [assumption|]. split; [apply evolves_refl|]. now rewrite Hpdv.
        * destruct (s_dvm (store st)) as [cur|] eqn:Ec; [|discriminate].
          pose proof (proj1 HI) as (_&_&_&_&_&_&_&Hcd&_). specialize (proj2 (Hcd _ Ec) w Em) as Hcd'. clear Hcd.
          rename Hcd' into Hcd. rewrite <- HdvW. rewrite Hcd.
          assert (Hside1 : is_some (s_dvm (store st)) = true) by now rewrite Ec.
          assert (Hside2 : forall w', mode = Some w' -> apply_vws K (p_dv K inp mode) dvW = p_dv K inp mode).
          { intros w' _. rewrite <- Hcd at 1. rewrite apply_vws_idem. assumption. }
          destruct (Inv_dvm_set st (p_dv K inp mode) HI Hside1 eq_refl Hside2) as [HI' Hev].
          split; [exact HI'|]. split; [exact Hev|]. split; reflexivity.
      + apply triple_gets_case. intros [v|].
        * intros st HI E. simpl. split; [assumption|]. split; [apply evolves_refl|]. split; [reflexivity|].
          pose proof (proj1 HI) as (_&_&_&_&_&_&_&Hcd&_). specialize (proj2 (Hcd _ E) w Em) as Hcd'.
          unfold dvW in Hcd'. rewrite Ef in Hcd'. simpl in Hcd'. now rewrite E, Hcd'.
        * apply triple_weaken_pre. eapply vbind; [apply wtd_val|]. intros a ->.
          assert (Hpdv : p_dv K inp mode =
                         if Nat.eqb (length (mappers inp)) 1
                         then match objs inp with o :: _ => k_dv_wt K (p_wtd K inp) (lo_mm o) (lo_p o) | [] => [] end
                         else concat (map (fun o => k_dv_wt K (p_wtd K inp) (lo_mm o) (lo_p o)) (objs inp))).
          { unfold p_dv. now rewrite Em, Ef. }
          destruct (Nat.eqb (length (mappers inp)) 1); intros st HI _; simpl;
            (split; [assumption|]); (split; [apply evolves_refl|]); now rewrite Hpdv.
    - (* mapping class *)
      apply triple_gets_case. intros s. simpl.
      destruct (is_some s && negb (has_func inp)) eqn:Eg.
      + intros st HI E. simpl. split; [assumption|]. split; [apply evolves_refl|]. split; [reflexivity|].
        apply andb_prop in Eg. destruct Eg as [E1 E2]. destruct s as [v|]; [|discriminate].
        pose proof (proj1 HI) as (_&_&_&_&_&_&_&Hcd&_). specialize (proj1 (Hcd _ E) Em) as Hcd'.
        rewrite E, Hcd'; [reflexivity|]. now destruct (has_func inp).
      + apply triple_weaken_pre. apply triple_gets_case. intros [b|].
        * intros st HI E. simpl. split; [assumption|]. split; [apply evolves_refl|].
          pose proof (proj1 HI) as (Ho&_). rewrite (Ho _ E). unfold p_dv. now rewrite Em.
        * apply triple_weaken_pre. eapply vbind with (Q := fun B => B = p_omm K inp).
          { eapply vbind; [apply omm_val|]. intros a ->. now apply vret_val. }
          intros B ->. intros st HI _. simpl. split; [assumption|]. split; [apply evolves_refl|].
          unfold p_dv. now rewrite Em.
  Qed.
  Lemma dv_ok : triple TT (get_dv K code inp mode) (sound QDv).
  Proof. now apply dv_ok_aux. Qed.
End Logic.
