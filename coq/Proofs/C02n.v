(* C02 x C01 -- the natively stored form of the pixel-centre grid.  Grid2D.from_mask(mask).native is C01's native_from applied to the
   slim values (C01: convert (Slim s) store_native = Native (native_from m s)); with C01's theorems it holds the centre of pixel (i,j)
   at [i][j] for every unmasked pixel and (0,0) at masked pixels.  C01 indexes pixels by nat pairs, C02 by Z pairs: bridged here. *)
From Coq Require Import ZArith Reals Lra Lia List Bool.
From PAV Require Import Base.NumOps Gen.Gen_geometry Model.C02 Model.C02x Proofs.C02 Proofs.C02c.
From PAV Require Model.C01 Proofs.C01.
Import ListNotations.

Definition zpair (p : nat * nat) : Z * Z := (Z.of_nat (fst p), Z.of_nat (snd p)).

Lemma map_filter_comm {A B} (f : A -> B) (P : B -> bool) (l : list A) : map f (filter (fun a => P (f a)) l) = filter P (map f l).
Proof. induction l as [|a l IH]; [reflexivity|]. cbn [filter map]. destruct (P (f a)); cbn [map]; now rewrite IH. Qed.
Lemma getm_zpair (m : mask) p : getm m (zpair p) = Model.C01.mget m p.
Proof. unfold getm, Model.C01.mget, zpair. cbn [fst snd]. now rewrite !Nat2Z.id. Qed.
Lemma coords_zpair (m : mask) : coords (rows m) (cols m) = map zpair (Model.C01.all_coords (length m) (Model.C01.width m)).
Proof.
  unfold coords, Model.C01.all_coords, rows, cols, Model.C01.width, seqZ. rewrite !Nat2Z.id.
  generalize (length (hd [] m)) as w. generalize (seq 0 (length m)) as l. intros l w.
  induction l as [|y l IH]; [reflexivity|]. cbn [map flat_map]. rewrite map_app, <- IH. f_equal.
  rewrite !map_map. reflexivity.
Qed.
(* the two enumerations of the unmasked pixels agree *)
Lemma unmasked_is_C01 (m : mask) : unmasked m = map zpair (Model.C01.unmasked_spec m).
Proof.
  unfold unmasked, Model.C01.unmasked_spec. rewrite coords_zpair.
  rewrite <- (map_filter_comm zpair (fun p => negb (getm m p))). f_equal. apply filter_ext. intros p. now rewrite getm_zpair.
Qed.

Local Open Scope R_scope.
(* Grid2D.from_mask(mask).native: the centre of the k-th unmasked pixel sits at that pixel, masked pixels hold (0, 0) *)
Lemma from_mask_native (m : mask) H W sy sx oy ox k d : Model.C01.rectb H W m = true -> (0 < H)%nat -> sy <> 0 -> sx <> 0 ->
  (k < Model.C01.count m)%nat ->
  let G := @Grid2D_from_mask ROps (m, (sy, sx), (oy, ox)) in
  let p := nth k (Model.C01.native_for_slim m) d in
  Model.C01.get2 (0, 0) (Model.C01.native_from (0, 0) m (fst G)) p = @centre_spec ROps (rows m, cols m) (sy, sx) (oy, ox) (zpair p).
Proof.
  intros Hr HH Hy Hx Hk G p. unfold G. rewrite from_mask_obj by assumption. cbn [fst].
  assert (EN : Model.C01.native_for_slim m = Model.C01.unmasked_spec m) by (apply (Proofs.C01.native_for_slim_is_spec m H W); assumption).
  assert (EL : length (map (@centre_spec ROps (rows m, cols m) (sy, sx) (oy, ox)) (unmasked m)) = Model.C01.count m).
  { rewrite map_length, unmasked_is_C01, map_length. unfold Model.C01.count. now rewrite EN. }
  unfold p. rewrite (Proofs.C01.native_at_kth_unmasked (0, 0) m _ H W k d Hr HH EL Hk).
  rewrite unmasked_is_C01, <- EN, map_map.
  rewrite nth_indep with (d' := @centre_spec ROps (rows m, cols m) (sy, sx) (oy, ox) (zpair d)) by (rewrite map_length; exact Hk).
  now rewrite (map_nth (fun q => @centre_spec ROps (rows m, cols m) (sy, sx) (oy, ox) (zpair q))).
Qed.
Lemma from_mask_native_masked (m : mask) H W sy sx oy ox p : Model.C01.rectb H W m = true -> (0 < H)%nat ->
  Model.C01.mget m p = true ->
  Model.C01.get2 (0, 0) (Model.C01.native_from (0, 0) m (fst (@Grid2D_from_mask ROps (m, (sy, sx), (oy, ox))))) p = (0, 0).
Proof. intros Hr HH Hp. apply (Proofs.C01.native_at_masked (0, 0) m _ H W p Hr HH Hp). Qed.
