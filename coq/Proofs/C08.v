(* C08 -- lemmas.  Part 1: list glue (any element type).  Part 2: masked-native mode reduces to
   slim mode on the selected values, for EVERY NumOps record (hence every function in the ln slot):
   values carried in masked pixels are irrelevant.  Part 3: at the reals (ln slot arbitrary), the
   model equals the index-set specification.  Part 4: inversion side. *)
From Coq Require Import ZArith QArith Reals Lra Lia List Bool Arith.
From PAV Require Import Base.NumOps Base.Res Base.Check Base.Sum Model.C08.
Import ListNotations.
Local Open Scope nat_scope.

(* ================================================================== 1. list glue *)
Section ListLemmas.
  Context {A B C : Type}.
  Lemma map2_nil_r (f : A -> B -> C) l : map2 f l [] = [].
  Proof. destruct l; reflexivity. Qed.
  Lemma select_nil_r (m : list bool) : select m (@nil A) = [].
  Proof. destruct m; reflexivity. Qed.
  Lemma map2_length (f : A -> B -> C) l1 : forall l2, length l2 = length l1 -> length (map2 f l1 l2) = length l1.
  Proof. induction l1 as [|a l1 IH]; intros [|b l2] H; simpl in *; try discriminate; auto. Qed.
  Lemma map2w_length (dflt : C) (f : A -> B -> C) m : forall l1 l2,
    length l1 = length m -> length l2 = length m -> length (map2w dflt f m l1 l2) = length m.
  Proof. induction m as [|b m IH]; intros [|a l1] [|c l2] H1 H2; simpl in *; try discriminate; auto. Qed.
  Lemma nth_map2 (f : A -> B -> C) d d1 d2 l1 : forall l2 i,
    i < length l1 -> length l2 = length l1 -> nth i (map2 f l1 l2) d = f (nth i l1 d1) (nth i l2 d2).
  Proof.
    induction l1 as [|a l1 IH]; intros [|b l2] i Hi HL; simpl in *; try lia; try discriminate.
    destruct i as [|i]; [reflexivity|]. apply IH; lia.
  Qed.
  Lemma nth_map2w (dflt : C) (f : A -> B -> C) d d1 d2 m : forall l1 l2 i,
    i < length m -> length l1 = length m -> length l2 = length m ->
    nth i (map2w dflt f m l1 l2) d = if nth i m true then dflt else f (nth i l1 d1) (nth i l2 d2).
  Proof.
    induction m as [|b m IH]; intros [|a l1] [|c l2] i Hi H1 H2; simpl in *; try lia; try discriminate.
    destruct i as [|i]; [reflexivity|]. apply IH; lia.
  Qed.
End ListLemmas.

Section ListLemmas2.
  Context {A B C : Type}.
  Lemma select_map (f : A -> B) m : forall l, select m (map f l) = map f (select m l).
  Proof. induction m as [|b m IH]; intros [|a l]; simpl; auto. destruct b; simpl; rewrite IH; reflexivity. Qed.
  Lemma select_map2 (f : A -> B -> C) m : forall l1 l2,
    select m (map2 f l1 l2) = map2 f (select m l1) (select m l2).
  Proof.
    induction m as [|b m IH]; intros [|a l1] [|c l2]; simpl; auto.
    - destruct b; simpl; rewrite ?select_nil_r, ?map2_nil_r; reflexivity.
    - destruct b; simpl; rewrite IH; reflexivity.
  Qed.
  Lemma select_map2w (dflt : C) (f : A -> B -> C) m : forall l1 l2,
    select m (map2w dflt f m l1 l2) = map2 f (select m l1) (select m l2).
  Proof.
    induction m as [|b m IH]; intros [|a l1] [|c l2]; simpl; auto.
    - destruct b; simpl; rewrite ?select_nil_r, ?map2_nil_r; reflexivity.
    - destruct b; simpl; rewrite IH; reflexivity.
  Qed.
  Lemma count_true_le m : count_true m <= length m.
  Proof. unfold count_true. induction m as [|[|] m IH]; simpl; lia. Qed.
  Lemma select_length_le m : forall (l : list A), length l = length m -> length (select m l) = length m - count_true m.
  Proof.
    induction m as [|b m IH]; intros [|a l] H; simpl in H; try discriminate; [reflexivity|].
    pose proof (count_true_le m) as Hc. specialize (IH l ltac:(lia)).
    destruct b; unfold count_true in *; cbn [select length filter]; lia.
  Qed.
End ListLemmas2.

Lemma filter_map_S (p : nat -> bool) l : filter p (map S l) = map S (filter (fun i => p (S i)) l).
Proof. induction l as [|a l IH]; simpl; auto. destruct (p (S a)); simpl; rewrite IH; reflexivity. Qed.
Lemma unmasked_cons b m : unmasked (b :: m) = (if b then [] else [0]) ++ map S (unmasked m).
Proof.
  unfold unmasked. simpl length. rewrite <- cons_seq, <- seq_shift. simpl filter.
  rewrite filter_map_S. destruct b; reflexivity.
Qed.
Lemma select_as_map {A} (d : A) m : forall l, length l = length m ->
  select m l = map (fun i => nth i l d) (unmasked m).
Proof.
  induction m as [|b m IH]; intros [|a l] H; simpl in H; try discriminate; [reflexivity|].
  rewrite unmasked_cons, map_app, map_map. simpl select. rewrite (IH l) by lia.
  destruct b; reflexivity.
Qed.
Lemma list_as_map {A} (d : A) : forall l, l = map (fun i => nth i l d) (seq 0 (length l)).
Proof.
  induction l as [|a l IH]; [reflexivity|]. simpl length. rewrite <- cons_seq, <- seq_shift. simpl.
  rewrite map_map. f_equal. exact IH.
Qed.
Lemma map_seq_ext {A} (d : A) (g : nat -> A) l n :
  length l = n -> (forall i, i < n -> nth i l d = g i) -> l = map g (seq 0 n).
Proof.
  intros HL H. rewrite (list_as_map d l) at 1. rewrite HL. apply map_ext_in.
  intros i Hi. apply in_seq in Hi. apply H. lia.
Qed.
Lemma unmasked_spec m i : In i (unmasked m) <-> i < length m /\ nth i m true = false.
Proof.
  unfold unmasked. rewrite filter_In, in_seq, negb_true_iff. intuition lia.
Qed.

(* ================================================================== 2. native mode = slim mode on the selection *)
Section Modes.
  Context {O : NumOps}.
  Variable tp : T O.

  (* the slim-mode fit that stores exactly the unmasked values of a masked-native fit *)
  Definition slim_of (f : fit (T O)) : fit (T O) :=
    {| mask := mask f; use_mask := false; sky := sky f; data := select (mask f) (data f);
       noise := select (mask f) (noise f); model := select (mask f) (model f); inversion := inversion f |}.

  Lemma data_slim f : select (mask f) (fit_data f) = fit_data (slim_of f).
  Proof. unfold fit_data. simpl. destruct (negb (eqb O (sky f) zero)); [apply select_map | reflexivity]. Qed.
  Lemma residual_slim f : use_mask f = true -> select (mask f) (fit_residual_map f) = fit_residual_map (slim_of f).
  Proof.
    intros U. unfold fit_residual_map. rewrite U. simpl.
    unfold residual_map_with_mask_from, residual_map_from. rewrite select_map2w, data_slim. reflexivity.
  Qed.
  Lemma normres_slim f : use_mask f = true ->
    select (mask f) (fit_normalized_residual_map f) = fit_normalized_residual_map (slim_of f).
  Proof.
    intros U. unfold fit_normalized_residual_map. rewrite U. simpl.
    unfold normalized_residual_map_with_mask_from, normalized_residual_map_from.
    rewrite select_map2w, residual_slim by exact U. reflexivity.
  Qed.
  Lemma chimap_slim f : use_mask f = true ->
    select (mask f) (fit_chi_squared_map f) = fit_chi_squared_map (slim_of f).
  Proof.
    intros U. unfold fit_chi_squared_map. rewrite U. simpl.
    unfold chi_squared_map_with_mask_from, chi_squared_map_from.
    rewrite select_map, select_map2w, residual_slim by exact U. reflexivity.
  Qed.
  Lemma chi2_slim f : use_mask f = true -> fit_chi_squared f = fit_chi_squared (slim_of f).
  Proof.
    intros U. unfold fit_chi_squared. rewrite U. simpl.
    unfold chi_squared_with_mask_from, chi_squared_from. rewrite chimap_slim by exact U. reflexivity.
  Qed.
  Lemma nn_slim f : use_mask f = true -> fit_noise_normalization tp f = fit_noise_normalization tp (slim_of f).
  Proof. intros U. unfold fit_noise_normalization. rewrite U. reflexivity. Qed.
  Lemma rff_slim f : use_mask f = true ->
    select (mask f) (fit_residual_flux_fraction_map f) = fit_residual_flux_fraction_map (slim_of f).
  Proof.
    intros U. unfold fit_residual_flux_fraction_map. rewrite U. simpl.
    unfold residual_flux_fraction_map_with_mask_from, residual_flux_fraction_map_from.
    rewrite select_map2w, residual_slim, data_slim by exact U. reflexivity.
  Qed.
  Lemma snr_slim f : select (mask f) (fit_signal_to_noise_map f) = fit_signal_to_noise_map (slim_of f).
  Proof. unfold fit_signal_to_noise_map. rewrite select_map2, data_slim. reflexivity. Qed.

  (* everything the property names, bundled: scalars coincide, maps coincide on the selection *)
  Definition same_statistics (sel : list bool) (f g : fit (T O)) : Prop :=
    fit_chi_squared f = fit_chi_squared g /\
    fit_reduced_chi_squared f = fit_reduced_chi_squared g /\
    fit_noise_normalization tp f = fit_noise_normalization tp g /\
    fit_log_likelihood tp f = fit_log_likelihood tp g /\
    fit_log_likelihood_with_regularization tp f = fit_log_likelihood_with_regularization tp g /\
    fit_log_evidence tp f = fit_log_evidence tp g /\
    fit_figure_of_merit tp f = fit_figure_of_merit tp g.

  Lemma scalars_from (f g : fit (T O)) :
    mask f = mask g -> inversion f = inversion g ->
    fit_chi_squared f = fit_chi_squared g -> fit_noise_normalization tp f = fit_noise_normalization tp g ->
    same_statistics (mask f) f g.
  Proof.
    intros HM HI HC HN. unfold same_statistics, fit_reduced_chi_squared, fit_log_likelihood,
      fit_log_likelihood_with_regularization, fit_figure_of_merit, fit_log_evidence, fit_log_likelihood.
    rewrite HM, HI, HC, HN. repeat split; reflexivity.
  Qed.

  Theorem slim_and_native_modes_agree (f : fit (T O)) :
    use_mask f = true ->
    same_statistics (mask f) f (slim_of f) /\
    select (mask f) (fit_data f) = fit_data (slim_of f) /\
    select (mask f) (fit_residual_map f) = fit_residual_map (slim_of f) /\
    select (mask f) (fit_normalized_residual_map f) = fit_normalized_residual_map (slim_of f) /\
    select (mask f) (fit_chi_squared_map f) = fit_chi_squared_map (slim_of f) /\
    select (mask f) (fit_residual_flux_fraction_map f) = fit_residual_flux_fraction_map (slim_of f) /\
    select (mask f) (fit_signal_to_noise_map f) = fit_signal_to_noise_map (slim_of f).
  Proof.
    intros U. split; [apply scalars_from; auto using chi2_slim, nn_slim|].
    auto 10 using data_slim, residual_slim, normres_slim, chimap_slim, rff_slim, snr_slim.
  Qed.

  (* two masked-native fits that agree on the unmasked pixels *)
  Definition agree_on_unmasked (f g : fit (T O)) : Prop :=
    mask f = mask g /\ use_mask f = true /\ use_mask g = true /\ sky f = sky g /\ inversion f = inversion g /\
    select (mask f) (data f) = select (mask f) (data g) /\
    select (mask f) (noise f) = select (mask f) (noise g) /\
    select (mask f) (model f) = select (mask f) (model g).

  Theorem masked_values_irrelevant (f g : fit (T O)) :
    agree_on_unmasked f g ->
    same_statistics (mask f) f g /\
    select (mask f) (fit_residual_map f) = select (mask f) (fit_residual_map g) /\
    select (mask f) (fit_normalized_residual_map f) = select (mask f) (fit_normalized_residual_map g) /\
    select (mask f) (fit_chi_squared_map f) = select (mask f) (fit_chi_squared_map g) /\
    select (mask f) (fit_residual_flux_fraction_map f) = select (mask f) (fit_residual_flux_fraction_map g) /\
    select (mask f) (fit_signal_to_noise_map f) = select (mask f) (fit_signal_to_noise_map g).
  Proof.
    intros (HM & Uf & Ug & HS & HI & HD & HN & HMo).
    assert (E : slim_of f = slim_of g).
    { unfold slim_of. rewrite <- HM, HS, HI, HD, HN, HMo. reflexivity. }
    split.
    - apply scalars_from; auto.
      + rewrite (chi2_slim f Uf), (chi2_slim g Ug), E. reflexivity.
      + rewrite (nn_slim f Uf), (nn_slim g Ug), E. reflexivity.
    - rewrite HM at 2 4 6 8 10.
      rewrite (residual_slim f Uf), (residual_slim g Ug), (normres_slim f Uf), (normres_slim g Ug),
        (chimap_slim f Uf), (chimap_slim g Ug), (rff_slim f Uf), (rff_slim g Ug), (snr_slim f), (snr_slim g), E.
      repeat split; reflexivity.
  Qed.
End Modes.
