(* C11g -- lemmas for PART D: memoised evaluation of a quantity graph refines the pure values, for every graph that
   satisfies the discipline [gdisc], every body function [vf] and every sequence of reads. *)
From Coq Require Import ZArith List Bool Lia.
From PAV Require Import Base.Res Base.Check Model.C11 Model.C11g Proofs.C11.
Import ListNotations.

(* ------------------------------------------------------------------ lists *)
Lemma indexed_nth {A} (l : list A) : forall i n d, nth_error l n = Some d -> In ((i + n)%nat, d) (indexed i l).
Proof.
  induction l as [|x l IH]; intros i [|n] d E; cbn in *; try discriminate.
  - inversion E; subst. left. f_equal. lia.
  - right. replace (i + S n)%nat with (S i + n)%nat by lia. now apply IH.
Qed.
Lemma nth_error_lt {A} (l : list A) n d : nth_error l n = Some d -> (n < length l)%nat.
Proof. intros E. apply nth_error_Some. congruence. Qed.
Lemma forallb_In {A} (f : A -> bool) l x : forallb f l = true -> In x l -> f x = true.
Proof. intros H Hin. rewrite forallb_forall in H. now apply H. Qed.

Section G.
Context (g : graph) (vf : vfn) (Hd : gdisc g = true).

Lemma node_ok_of n d : nth_error g n = Some d -> node_ok g n d = true.
Proof.
  intros E. unfold gdisc in Hd. apply (forallb_In _ _ (n, d) Hd). apply (indexed_nth g 0 n d E).
Qed.

Lemma deps_lt n d k : nth_error g n = Some d -> In k (g_deps d) -> (k < n)%nat.
Proof.
  intros E Hk. pose proof (node_ok_of n d E) as H. unfold node_ok in H.
  repeat (apply andb_true_iff in H; destruct H as [H ?]).
  apply Nat.ltb_lt. exact (forallb_In _ _ k H Hk).
Qed.

(* ---- fuel independence of the pure value and of [priv] *)
Lemma pv_fuel : forall f1 f2 n, (n < f1)%nat -> (n < f2)%nat -> pv f1 g vf n = pv f2 g vf n.
Proof.
  induction f1 as [|f1 IH]; intros f2 n H1 H2; [lia|]. destruct f2 as [|f2]; [lia|]. cbn [pv].
  destruct (nth_error g n) as [d|] eqn:E; [|reflexivity].
  assert (Hm : map (pv f1 g vf) (g_deps d) = map (pv f2 g vf) (g_deps d)).
  { apply map_ext_in. intros k Hk. pose proof (deps_lt n d k E Hk). apply IH; lia. }
  now rewrite Hm.
Qed.

Lemma pval_unfold n d : nth_error g n = Some d ->
  pval g vf n = match g_mode d with
                | MAlias k => nth k (map (pval g vf) (g_deps d)) []
                | _ => vf n (map (pval g vf) (g_deps d))
                end.
Proof.
  intros E. unfold pval at 1. cbn [pv]. rewrite E.
  assert (Hm : map (pv n g vf) (g_deps d) = map (pval g vf) (g_deps d)).
  { apply map_ext_in. intros k Hk. pose proof (deps_lt n d k E Hk). unfold pval. apply pv_fuel; lia. }
  now rewrite Hm.
Qed.

Lemma priv_fuel : forall f1 f2 n, (n < f1)%nat -> (n < f2)%nat -> priv f1 g n = priv f2 g n.
Proof.
  induction f1 as [|f1 IH]; intros f2 n H1 H2; [lia|]. destruct f2 as [|f2]; [lia|]. cbn [priv].
  destruct (nth_error g n) as [d|] eqn:E; [|reflexivity].
  destruct (is_plain d); [|reflexivity]. cbn [andb].
  pose proof (node_ok_of n d E) as Hok. unfold node_ok in Hok.
  repeat (apply andb_true_iff in Hok; destruct Hok as [Hok ?]).
  destruct (g_mode d) as [|k|k [|]]; try reflexivity.
  - match goal with H : (k <? length (g_deps d)) = true |- _ => apply Nat.ltb_lt in H; rename H into Hk end.
    assert (Hin : In (nth k (g_deps d) n) (g_deps d)) by (apply nth_In; exact Hk).
    pose proof (deps_lt n d _ E Hin). apply IH; lia.
  - match goal with H : _ && _ = true |- _ => apply andb_true_iff in H; destruct H as [Hk _]; apply Nat.ltb_lt in Hk end.
    assert (Hin : In (nth k (g_deps d) n) (g_deps d)) by (apply nth_In; exact Hk).
    pose proof (deps_lt n d _ E Hin). apply IH; lia.
Qed.

Lemma privn_unfold n d : nth_error g n = Some d ->
  privn g n = is_plain d && match g_mode d with
                            | MFresh => true
                            | MEdit _ true => true
                            | MAlias k | MEdit k false => privn g (nth k (g_deps d) n)
                            end.
Proof.
  intros E. unfold privn at 1. cbn [priv]. rewrite E. destruct (is_plain d); [|reflexivity]. cbn [andb].
  pose proof (node_ok_of n d E) as Hok. unfold node_ok in Hok.
  repeat (apply andb_true_iff in Hok; destruct Hok as [Hok ?]).
  destruct (g_mode d) as [|k|k [|]]; try reflexivity.
  - match goal with H : (k <? length (g_deps d)) = true |- _ => apply Nat.ltb_lt in H; rename H into Hk end.
    assert (Hin : In (nth k (g_deps d) n) (g_deps d)) by (apply nth_In; exact Hk).
    pose proof (deps_lt n d _ E Hin). unfold privn. apply priv_fuel; lia.
  - match goal with H : _ && _ = true |- _ => apply andb_true_iff in H; destruct H as [Hk _]; apply Nat.ltb_lt in Hk end.
    assert (Hin : In (nth k (g_deps d) n) (g_deps d)) by (apply nth_In; exact Hk).
    pose proof (deps_lt n d _ E Hin). unfold privn. apply priv_fuel; lia.
Qed.

(* ---- the invariant: every cache entry holds the pure value of its node *)
Definition cells (st : gstate) : list cell := map snd (gs_cache st).
Definition Inv (st : gstate) : Prop :=
  forall m c, In (m, c) (gs_cache st) -> (c < length (gs_heap st))%nat /\ hget (gs_heap st) c = pval g vf m.

Lemma cells_In st m c : In (m, c) (gs_cache st) -> In c (cells st).
Proof. intros H. unfold cells. apply in_map_iff. exists (m, c). auto. Qed.
Lemma In_cells st c : In c (cells st) -> exists m, In (m, c) (gs_cache st).
Proof. unfold cells. intros H. apply in_map_iff in H. destruct H as [[m c'] [E H]]. cbn in E. subst. now exists m. Qed.
Lemma Inv_cell_lt st c : Inv st -> In c (cells st) -> (c < length (gs_heap st))%nat.
Proof. intros HI Hc. destruct (In_cells _ _ Hc) as [m Hm]. now destruct (HI m c Hm). Qed.
Lemma remove_keys_In ks l x : In x (remove_keys ks l) -> In x l.
Proof. unfold remove_keys. intros H. apply filter_In in H. tauto. Qed.

(* what one evaluation guarantees, relative to the state [st] it started from *)
Definition Post (st : gstate) (n : nat) (r : gres) : Prop :=
  let '(st', c, w) := r in
  let L := length (gs_heap st) in
  Inv st' /\ (L <= length (gs_heap st'))%nat /\
  (forall c0, (c0 < L)%nat -> hget (gs_heap st') c0 = hget (gs_heap st) c0) /\
  (forall c', In c' (cells st') -> In c' (cells st) \/ (L <= c')%nat) /\
  (c < length (gs_heap st'))%nat /\ hget (gs_heap st') c = pval g vf n /\
  (In c (cells st) \/ (L <= c)%nat) /\
  (privn g n = true -> (L <= c)%nat /\ ~ In c (cells st')) /\
  (forall c0, In c0 w -> (L <= c0)%nat).

Definition cell_post (st st' : gstate) (k : nat) (c : cell) : Prop :=
  let L := length (gs_heap st) in
  (c < length (gs_heap st'))%nat /\ hget (gs_heap st') c = pval g vf k /\
  (In c (cells st) \/ (L <= c)%nat) /\
  (privn g k = true -> (L <= c)%nat /\ ~ In c (cells st')).

Definition PostL (st : gstate) (ks : list nat) (r : gstate * list cell * list cell) : Prop :=
  let '(st', cs, w) := r in
  let L := length (gs_heap st) in
  Inv st' /\ (L <= length (gs_heap st'))%nat /\
  (forall c0, (c0 < L)%nat -> hget (gs_heap st') c0 = hget (gs_heap st) c0) /\
  (forall c', In c' (cells st') -> In c' (cells st) \/ (L <= c')%nat) /\
  Forall2 (cell_post st st') ks cs /\
  (forall c0, In c0 w -> (L <= c0)%nat).

Lemma evs_post (E : gstate -> nat -> gres) ks :
  (forall k st, In k ks -> Inv st -> Post st k (E st k)) ->
  forall st, Inv st -> PostL st ks (evs_with E ks st).
Proof.
  induction ks as [|k t IH]; intros HE st HI.
  - cbn. split; [exact HI|]. split; [lia|]. split; [reflexivity|]. split; [now left|]. split; [constructor|]. intros c0 [].
  - cbn [evs_with].
    pose proof (HE k st (or_introl eq_refl) HI) as Hk.
    destruct (E st k) as [[s1 c] w] eqn:Ek. cbn [Post] in Hk.
    destruct Hk as (HI1 & HL1 & Hold1 & Hcells1 & Hc1 & Hv1 & Horig1 & Hpriv1 & Hw1).
    assert (HE' : forall k0 st0, In k0 t -> Inv st0 -> Post st0 k0 (E st0 k0)) by (intros; apply HE; [now right | assumption]).
    pose proof (IH HE' s1 HI1) as Ht.
    destruct (evs_with E t s1) as [[s2 cs] w'] eqn:Et. cbn [PostL] in Ht.
    destruct Ht as (HI2 & HL2 & Hold2 & Hcells2 & HF2 & Hw2).
    cbn [PostL]. split; [exact HI2|]. split; [lia|]. split; [|split; [|split]].
    + intros c0 Hc0. rewrite Hold2 by lia. now apply Hold1.
    + intros c' Hc'. destruct (Hcells2 c' Hc') as [H|H]; [|right; lia]. destruct (Hcells1 c' H) as [H'|H']; [now left | right; lia].
    + constructor.
      * unfold cell_post. split; [lia|]. split; [rewrite Hold2 by exact Hc1; exact Hv1|]. split; [exact Horig1|].
        intros Hp. destruct (Hpriv1 Hp) as [Hge Hnot]. split; [exact Hge|].
        intros Hin. destruct (Hcells2 c Hin) as [H|H]; [now apply Hnot | lia].
      * eapply F2_impl; [|exact HF2]. intros k0 c0 (A & B & C & D). unfold cell_post.
        split; [exact A|]. split; [exact B|]. split.
        -- destruct C as [C|C]; [|right; lia]. destruct (Hcells1 c0 C) as [H|H]; [now left | right; lia].
        -- intros Hp. destruct (D Hp) as [D1 D2]. split; [lia | exact D2].
    + intros c0 Hin. apply in_app_or in Hin. destruct Hin as [Hin|Hin]; [now apply Hw1|]. pose proof (Hw2 c0 Hin). lia.
Qed.

Lemma F2_values st st' ks cs : Forall2 (cell_post st st') ks cs -> map (hget (gs_heap st')) cs = map (pval g vf) ks.
Proof. intros H; induction H as [|k c ks cs (A & B & _) _ IH]; cbn; [reflexivity|]. now rewrite B, IH. Qed.
Lemma F2_nth_cell st st' ks cs k : Forall2 (cell_post st st') ks cs -> (k < length ks)%nat ->
  cell_post st st' (nth k ks O) (nth k cs O).
Proof.
  intros H; revert k; induction H as [|k0 c0 ks cs Hh _ IH]; intros k Hk; cbn in *; [lia|].
  destruct k as [|k]; [exact Hh | apply IH; lia].
Qed.

(* the body of a node, run after its dependencies *)
Lemma body_post n d st st1 cs w :
  nth_error g n = Some d -> PostL st (g_deps d) (st1, cs, w) ->
  Post st n (let '(st2, c, w2) := run_body vf n d st1 cs in (st2, c, w ++ w2)).
Proof.
  intros E (HI1 & HL1 & Hold1 & Hcells1 & HF & Hw).
  pose proof (node_ok_of n d E) as Hok. unfold node_ok in Hok.
  apply andb_true_iff in Hok. destruct Hok as [Hok Hdrops].
  apply andb_true_iff in Hok. destruct Hok as [Hok Hmode].
  pose proof (F2_values _ _ _ _ HF) as Hvs.
  pose proof (pval_unfold n d E) as Hpv. pose proof (privn_unfold n d E) as Hpr.
  set (L := length (gs_heap st)) in *.
  (* the facts every mode establishes about (h2, c, w2) *)
  assert (Hfacts : exists h2 c w2,
            (let h := gs_heap st1 in let vs := map (hget h) cs in
             match g_mode d with
             | MFresh => let (h', c) := halloc h (vf n vs) in (h', c, [])
             | MAlias k => (h, nth k cs O, [])
             | MEdit k copy => let c0 := nth k cs O in
                               let '(h1', c1) := if copy then halloc h (hget h c0) else (h, c0) in
                               (hset h1' c1 (vf n vs), c1, [c1])
             end) = (h2, c, w2) /\
            (length (gs_heap st1) <= length h2)%nat /\
            (forall c0, (c0 < length (gs_heap st1))%nat -> c0 <> c -> hget h2 c0 = hget (gs_heap st1) c0) /\
            (c < length h2)%nat /\ hget h2 c = pval g vf n /\
            (In c (cells st) \/ (L <= c)%nat) /\
            (~ In c (cells st1) \/ h2 = (gs_heap st1)) /\
            (privn g n = true -> (L <= c)%nat /\ ~ In c (cells st1)) /\
            (forall c0, In c0 w2 -> (L <= c0)%nat)).
  { cbn zeta. rewrite Hvs.
    destruct (g_mode d) as [|k|k copy] eqn:Em.
    - (* MFresh *)
      unfold halloc. eexists _, _, _. split; [reflexivity|].
      split; [rewrite app_length; lia|]. split; [intros c0 Hc0 _; now apply hget_app_old|].
      split; [rewrite app_length; cbn; lia|]. split; [rewrite hget_app_new; now rewrite Hpv|].
      split; [right; exact HL1|].
      assert (Hnot : ~ In (length (gs_heap st1)) (cells st1)) by (intros Hin; pose proof (Inv_cell_lt _ _ HI1 Hin); lia).
      split; [left; exact Hnot|]. split; [intros _; split; [exact HL1 | exact Hnot]|]. intros c0 [].
    - (* MAlias *)
      apply Nat.ltb_lt in Hmode. pose proof (F2_nth_cell _ _ _ _ k HF Hmode) as (A & B & C & D).
      eexists _, _, _. split; [reflexivity|]. split; [lia|]. split; [reflexivity|]. split; [exact A|].
      split; [rewrite B, Hpv; rewrite (nth_indep _ [] (pval g vf O)) by (rewrite map_length; exact Hmode); now rewrite map_nth|].
      split; [exact C|]. split; [now right|]. split; [|intros c0 []].
      intros Hp. rewrite Hpr in Hp. apply andb_true_iff in Hp. destruct Hp as [_ Hp].
      rewrite (nth_indep _ n O) in Hp by exact Hmode. exact (D Hp).
    - (* MEdit *)
      apply andb_true_iff in Hmode. destruct Hmode as [Hk Hcp]. apply Nat.ltb_lt in Hk.
      pose proof (F2_nth_cell _ _ _ _ k HF Hk) as (A & B & C & D).
      destruct copy.
      + (* a copy is edited *)
        unfold halloc. rewrite hset_app_new. eexists _, _, _. split; [reflexivity|].
        split; [rewrite app_length; lia|]. split; [intros c0 Hc0 _; now apply hget_app_old|].
        split; [rewrite app_length; cbn; lia|]. split; [rewrite hget_app_new; now rewrite Hpv|].
        split; [right; exact HL1|].
        assert (Hnot : ~ In (length (gs_heap st1)) (cells st1)) by (intros Hin; pose proof (Inv_cell_lt _ _ HI1 Hin); lia).
        split; [left; exact Hnot|]. split; [intros _; split; [exact HL1 | exact Hnot]|].
        intros c0 [<-|[]]. exact HL1.
      + (* the array received from a private dependency is edited in place *)
        cbn [orb] in Hcp. destruct (D Hcp) as [Hge Hnot].
        eexists _, _, _. split; [reflexivity|]. split; [rewrite hset_length; lia|].
        split; [intros c0 _ Hne; apply hget_hset_other; congruence|].
        split; [rewrite hset_length; exact A|]. split; [rewrite hget_hset_same by exact A; now rewrite Hpv|].
        split; [right; exact Hge|]. split; [left; exact Hnot|]. split; [intros _; split; [exact Hge | exact Hnot]|].
        intros c0 [<-|[]]. exact Hge. }
  destruct Hfacts as (h2 & c & w2 & Ebody & F1 & F2 & F3 & F4 & F5 & F6 & F7 & F8).
  unfold run_body. cbn zeta in Ebody |- *. rewrite Ebody. cbn [Post].
  set (cache1 := if is_plain d then gs_cache st1 else (n, c) :: gs_cache st1).
  (* every entry of cache1 holds its pure value in h2 *)
  assert (Hc1 : forall m c', In (m, c') cache1 -> (c' < length h2)%nat /\ hget h2 c' = pval g vf m).
  { intros m c' Hin.
    assert (Hold : In (m, c') (gs_cache st1) -> (c' < length h2)%nat /\ hget h2 c' = pval g vf m).
    { intros Hin1. destruct (HI1 m c' Hin1) as [Hlt Hv]. split; [lia|].
      destruct F6 as [Hnot | ->]; [|exact Hv].
      rewrite F2; [exact Hv | exact Hlt |]. intros ->. apply Hnot. exact (cells_In _ _ _ Hin1). }
    unfold cache1 in Hin. destruct (is_plain d); [now apply Hold|].
    destruct Hin as [Heq|Hin]; [|now apply Hold]. inversion Heq; subst. split; assumption. }
  assert (Hcells_c1 : forall c', In c' (map snd cache1) -> c' = c \/ In c' (cells st1)).
  { intros c' Hin. unfold cache1 in Hin. destruct (is_plain d); [now right|]. cbn in Hin. destruct Hin as [<-|Hin]; [now left | now right]. }
  assert (Hsub : forall c', In c' (map snd (remove_keys (g_drops d) cache1)) -> In c' (map snd cache1)).
  { intros c' Hin. apply in_map_iff in Hin. destruct Hin as [x [Ex Hx]]. apply in_map_iff. exists x. split; [exact Ex|].
    exact (remove_keys_In _ _ _ Hx). }
  cbn [gs_heap gs_cache cells].
  split. { intros m c' Hin. apply Hc1. exact (remove_keys_In _ _ _ Hin). }
  split; [lia|].
  split. { intros c0 Hc0. destruct (Nat.eq_dec c0 c) as [->|Hne].
           - (* c itself is an old cell: only when it was aliased, and then the heap is unchanged *)
             destruct F6 as [Hnot | ->]; [|now apply Hold1].
             destruct F5 as [Hin | Hge]; [|unfold L in Hge; lia].
             (* c is a cell of the cache of st, below L, not in the cache of st1: its content is still what it was *)
             destruct (g_mode d) as [|k|k [|]] eqn:Em; cbn zeta in Ebody; unfold halloc in Ebody.
             + inversion Ebody; subst. unfold L in Hc0. lia.
             + inversion Ebody; subst. now apply Hold1.
             + rewrite hset_app_new in Ebody. inversion Ebody; subst. unfold L in Hc0. lia.
             + inversion Ebody; subst.
               apply andb_true_iff in Hmode. destruct Hmode as [Hk Hcp]. apply Nat.ltb_lt in Hk. cbn [orb] in Hcp.
               pose proof (F2_nth_cell _ _ _ _ k HF Hk) as (_ & _ & _ & D). destruct (D Hcp) as [Hge _]. unfold L in Hc0. lia.
           - rewrite F2; [now apply Hold1 | unfold L in Hc0; lia | exact Hne]. }
  split. { intros c' Hin. apply Hsub in Hin. destruct (Hcells_c1 c' Hin) as [->|Hin1]; [exact F5 | now apply Hcells1]. }
  split; [exact F3|]. split; [exact F4|]. split; [exact F5|].
  split. { intros Hp. destruct (F7 Hp) as [Hge Hnot]. split; [exact Hge|].
           intros Hin. apply Hsub in Hin. destruct (Hcells_c1 c Hin) as [_|Hin1]; [|now apply Hnot].
           (* c in cache1 as the node's own entry: impossible for a plain node *)
           rewrite Hpr in Hp. apply andb_true_iff in Hp. destruct Hp as [Hpl _].
           unfold cache1 in Hin. rewrite Hpl in Hin. now apply Hnot. }
  intros c0 Hin. apply in_app_or in Hin. destruct Hin as [Hin|Hin]; [now apply Hw | now apply F8].
Qed.

Lemma ev_post : forall f n st, (n < f)%nat -> (n < length g)%nat -> Inv st -> Post st n (ev f g vf st n).
Proof.
  induction f as [|f IH]; intros n st Hf Hn HI; [lia|]. cbn [ev].
  destruct (nth_error g n) as [d|] eqn:E; [|apply nth_error_None in E; lia].
  destruct (if is_plain d then None else assoc n (gs_cache st)) as [c|] eqn:Ehit.
  - (* already cached *)
    destruct (is_plain d) eqn:Epl; [discriminate|]. apply assoc_In in Ehit.
    destruct (HI n c Ehit) as [Hlt Hv]. cbn [Post].
    split; [exact HI|]. split; [lia|]. split; [reflexivity|]. split; [now left|]. split; [exact Hlt|]. split; [exact Hv|].
    split; [left; exact (cells_In _ _ _ Ehit)|]. split; [|intros c0 []].
    intros Hp. rewrite (privn_unfold n d E), Epl in Hp. discriminate.
  - assert (HE : forall k st0, In k (g_deps d) -> Inv st0 -> Post st0 k (ev f g vf st0 k)).
    { intros k st0 Hk HI0. pose proof (deps_lt n d k E Hk). apply IH; [lia | lia | exact HI0]. }
    pose proof (evs_post (ev f g vf) (g_deps d) HE st HI) as HL.
    destruct (evs_with (ev f g vf) (g_deps d) st) as [[st1 cs] w] eqn:Ee.
    exact (body_post n d st st1 cs w E HL).
Qed.

(* ---- reads by the user *)
Lemma gread_ok st n : Inv st ->
  let '(st1, v, w) := gread g vf st n in
  Inv st1 /\ v = gspec g vf n /\ (length (gs_heap st) <= length (gs_heap st1))%nat /\
  (forall c0, (c0 < length (gs_heap st))%nat -> hget (gs_heap st1) c0 = hget (gs_heap st) c0) /\
  (forall c0, In c0 w -> (length (gs_heap st) <= c0)%nat).
Proof.
  intros HI. unfold gread, gspec. destruct (Nat.ltb n (length g)) eqn:En.
  - apply Nat.ltb_lt in En. pose proof (ev_post (S n) n st (Nat.lt_succ_diag_r n) En HI) as HP.
    destruct (ev (S n) g vf st n) as [[st1 c] w]. cbn [Post] in HP.
    destruct HP as (A & B & C & _ & _ & F & _ & _ & W).
    split; [exact A|]. split; [exact F|]. split; [exact B|]. split; [exact C | exact W].
  - split; [exact HI|]. split; [reflexivity|]. split; [lia|]. split; [reflexivity | intros c0 []].
Qed.

Lemma gruns_ok reads : forall st, Inv st ->
  fst (gruns g vf st reads) = map (gspec g vf) reads /\ Inv (snd (gruns g vf st reads)) /\
  (forall c0, (c0 < length (gs_heap st))%nat -> hget (gs_heap (snd (gruns g vf st reads))) c0 = hget (gs_heap st) c0).
Proof.
  induction reads as [|n t IH]; intros st HI; cbn [gruns]; [cbn; auto|].
  pose proof (gread_ok st n HI) as Hr. destruct (gread g vf st n) as [[st1 v] w]. destruct Hr as (HI1 & -> & HL & Hold & _).
  destruct (IH st1 HI1) as (Ho & HI2 & Hold2). destruct (gruns g vf st1 t) as [l st2]. cbn [fst snd] in *.
  split; [now rewrite Ho|]. split; [exact HI2|]. intros c0 Hc0. rewrite Hold2 by lia. now apply Hold.
Qed.

(* ---- the initial state: the caller's inputs *)
Definition input_cells (st : gstate) : list (nat * cell) := gs_cache st.

Lemma ginit_aux_inv : forall (t : graph) (i : nat) (st : gstate),
  (forall k d, nth_error t k = Some d -> nth_error g (i + k) = Some d) ->
  Inv st -> Inv (ginit_aux t vf i st).
Proof.
  induction t as [|d t IH]; intros i st Hsub HI; cbn [ginit_aux]; [exact HI|].
  apply IH.
  - intros k d' E. replace (S i + k)%nat with (i + S k)%nat by lia. now apply Hsub.
  - destruct (is_input d) eqn:Ein; [|exact HI].
    assert (Ed : nth_error g i = Some d) by (replace i with (i + 0)%nat by lia; now apply Hsub).
    intros m c Hin. cbn [gs_cache gs_heap] in *. destruct Hin as [Heq|Hin].
    + inversion Heq; subst. split; [rewrite app_length; cbn; lia|]. rewrite hget_app_new.
      pose proof (node_ok_of m d Ed) as Hok. unfold node_ok in Hok.
      apply andb_true_iff in Hok. destruct Hok as [Hok _]. apply andb_true_iff in Hok. destruct Hok as [Hok _].
      apply andb_true_iff in Hok. destruct Hok as [_ Hin]. rewrite Ein in Hin. cbn in Hin.
      apply andb_true_iff in Hin. destruct Hin as [Hnil Hfr].
      rewrite (pval_unfold m d Ed). destruct (g_deps d); [|discriminate]. destruct (g_mode d); try discriminate. reflexivity.
    + destruct (HI m c Hin) as [Hlt Hv]. split; [rewrite app_length; lia|]. now rewrite hget_app_old.
Qed.

Lemma ginit_inv : Inv (ginit g vf).
Proof. unfold ginit. apply ginit_aux_inv; [intros k d E; exact E | intros m c []]. Qed.

(* THE MAIN THEOREM OF PART D: every read, after any reads, reports the pure value of its node *)
Lemma graph_reads_pure reads : gobservations g vf reads = map (gspec g vf) reads.
Proof. unfold gobservations. apply (gruns_ok reads (ginit g vf) ginit_inv). Qed.

(* the caller's inputs are never written: every cell that exists before the first read keeps its contents *)
Lemma graph_inputs_kept reads c0 : (c0 < length (gs_heap (ginit g vf)))%nat ->
  hget (gs_heap (gfinal g vf reads)) c0 = hget (gs_heap (ginit g vf)) c0.
Proof. intros Hc. unfold gfinal. now apply (gruns_ok reads (ginit g vf) ginit_inv). Qed.

(* order / number independence: what a read reports does not depend on the reads made before it *)
Lemma graph_order_independence h1 h2 n :
  last (gobservations g vf (h1 ++ [n])) [] = last (gobservations g vf (h2 ++ [n])) [].
Proof. rewrite !graph_reads_pure, !map_app. cbn [map]. now rewrite !last_last. Qed.
End G.

(* ------------------------------------------------------------------ effect summaries of the graph machine are sound:
   a cell that exists before an evaluation and holds something else after it is in the write list (no discipline assumed) *)
Section GEffects.
Context (g : graph) (vf : vfn).

Definition Eff (st : gstate) (r : gres) : Prop :=
  let '(st', c, w) := r in
  (length (gs_heap st) <= length (gs_heap st'))%nat /\
  (forall c0, (c0 < length (gs_heap st))%nat -> hget (gs_heap st') c0 <> hget (gs_heap st) c0 -> In c0 w).
Definition EffL (st : gstate) (r : gstate * list cell * list cell) : Prop :=
  let '(st', cs, w) := r in
  (length (gs_heap st) <= length (gs_heap st'))%nat /\
  (forall c0, (c0 < length (gs_heap st))%nat -> hget (gs_heap st') c0 <> hget (gs_heap st) c0 -> In c0 w).

Lemma evs_eff (E : gstate -> nat -> gres) ks : (forall k st, Eff st (E st k)) -> forall st, EffL st (evs_with E ks st).
Proof.
  intros HE. induction ks as [|k t IH]; intros st; cbn [evs_with].
  - split; [lia|]. intros c0 _ H. now elim H.
  - pose proof (HE k st) as Hk. destruct (E st k) as [[s1 c] w]. cbn [Eff] in Hk. destruct Hk as [L1 W1].
    pose proof (IH s1) as Ht. destruct (evs_with E t s1) as [[s2 cs] w']. cbn [EffL] in *. destruct Ht as [L2 W2].
    split; [lia|]. intros c0 Hc0 Hne. apply in_or_app.
    destruct (list_eq_dec Z.eq_dec (hget (gs_heap s1) c0) (hget (gs_heap st) c0)) as [Heq|Hne1].
    + right. apply W2; [lia|]. now rewrite Heq.
    + left. now apply W1.
Qed.

Lemma body_eff n d st1 cs :
  Eff st1 (run_body vf n d st1 cs).
Proof.
  unfold run_body. cbn zeta.
  destruct (g_mode d) as [|k|k [|]]; unfold halloc; cbn [Eff gs_heap].
  - split; [rewrite app_length; lia|]. intros c0 Hc0 Hne. rewrite hget_app_old in Hne by exact Hc0. now elim Hne.
  - split; [lia|]. intros c0 _ Hne. now elim Hne.
  - rewrite hset_app_new. split; [rewrite app_length; lia|]. intros c0 Hc0 Hne. rewrite hget_app_old in Hne by exact Hc0. now elim Hne.
  - split; [rewrite hset_length; lia|]. intros c0 Hc0 Hne.
    destruct (Nat.eq_dec (nth k cs O) c0) as [->|Hd]; [now left|]. rewrite hget_hset_other in Hne by exact Hd. now elim Hne.
Qed.

Lemma ev_eff : forall f st n, Eff st (ev f g vf st n).
Proof.
  induction f as [|f IH]; intros st n; cbn [ev].
  - split; [lia|]. intros c0 _ H. now elim H.
  - destruct (nth_error g n) as [d|]; [|split; [lia|]; intros c0 _ H; now elim H].
    destruct (if is_plain d then None else assoc n (gs_cache st)) as [c|]; [split; [lia|]; intros c0 _ H; now elim H|].
    pose proof (evs_eff (ev f g vf) (g_deps d) (fun k s => IH s k) st) as HL.
    destruct (evs_with (ev f g vf) (g_deps d) st) as [[st1 cs] w]. cbn [EffL] in HL. destruct HL as [L1 W1].
    pose proof (body_eff n d st1 cs) as HB. destruct (run_body vf n d st1 cs) as [[st2 c] w2]. cbn [Eff] in *. destruct HB as [L2 W2].
    split; [lia|]. intros c0 Hc0 Hne. apply in_or_app.
    destruct (list_eq_dec Z.eq_dec (hget (gs_heap st1) c0) (hget (gs_heap st) c0)) as [Heq|Hne1].
    + right. apply W2; [lia|]. now rewrite Heq.
    + left. now apply W1.
Qed.

Lemma graph_effects_sound st n c0 :
  (c0 < length (gs_heap st))%nat ->
  hget (gs_heap (fst (fst (gread g vf st n)))) c0 <> hget (gs_heap st) c0 ->
  In c0 (snd (gread g vf st n)).
Proof.
  unfold gread. destruct (Nat.ltb n (length g)); [|cbn; intros _ H; now elim H].
  pose proof (ev_eff (S n) st n) as HE. destruct (ev (S n) g vf st n) as [[st1 c] w]. cbn [Eff fst snd] in *.
  intros Hc Hne. now apply HE.
Qed.
End GEffects.

(* ------------------------------------------------------------------ the graphs of the library *)
Lemma instances_disciplined :
  gdisc (g_mesh false false) = true /\ gdisc (g_mesh true false) = true /\ gdisc g_fit = true /\
  gdisc (g_chain false) = true /\ gdisc g_interf = true /\ gdisc g_wtilde = true.
Proof. vm_compute. repeat split. Qed.
Lemma mutant_graphs_not_disciplined :
  gdisc (g_mesh false true) = false /\ gdisc (g_mesh true true) = false /\ gdisc (g_chain true) = false.
Proof. vm_compute. repeat split. Qed.

Lemma instance_reads_pure (k : nat) (vf : vfn) (reads : list nat) :
  (k < 6)%nat -> gobservations (ginstance k) vf reads = map (gspec (ginstance k) vf) reads.
Proof.
  intros Hk. apply graph_reads_pure.
  destruct k as [|[|[|[|[|[|k]]]]]]; try lia; vm_compute; reflexivity.
Qed.

(* refutations: the two defect classes are order dependent in the machine *)
Local Open Scope Z_scope.
(* node 4 = areas: [-1; 4; 9]; node 5 (for_split) replaces -1 and clips at 6; node 7 (areas_for_magnification) replaces -1 by 0 *)
Definition vf_mesh : vfn := fun n vs =>
  match n, vs with
  | 4%nat, _ => [-1; 4; 9]
  | 5%nat, [a] => map (fun x => if x =? -1 then 6 else Z.min x 6) a
  | 7%nat, [a] => map (fun x => if x =? -1 then 0 else x) a
  | _, _ => [Z.of_nat n]
  end.
Lemma mesh_areas_cached_refuted :
  gobservations (g_mesh true true) vf_mesh [5%nat; 4%nat] <> map (gspec (g_mesh true true) vf_mesh) [5%nat; 4%nat] /\
  gobservations (g_mesh true true) vf_mesh [7%nat; 5%nat] <> map (gspec (g_mesh true true) vf_mesh) [7%nat; 5%nat] /\
  last (gobservations (g_mesh true true) vf_mesh [5%nat; 7%nat]) [] <> last (gobservations (g_mesh true true) vf_mesh [7%nat]) [] /\
  gobservations (g_mesh true false) vf_mesh [5%nat; 4%nat; 7%nat; 5%nat; 4%nat] = [[6; 4; 6]; [-1; 4; 9]; [0; 4; 9]; [6; 4; 6]; [-1; 4; 9]].
Proof. repeat split; vm_compute; discriminate. Qed.
(* C11_1: `noise_map.native` returning the natively stored object itself: deriving the noise-scaled dataset writes into the source *)
Definition vf_chain : vfn := fun n vs =>
  match n, vs with
  | 1%nat, _ => [2; 2; 2]
  | 13%nat, [_; a] => a
  | 14%nat, [a; _] => map (fun x => x + 100) a
  | 20%nat, [_; a] => a
  | _, _ => [Z.of_nat n]
  end.
Lemma chain_native_alias_refuted :
  gobservations (g_chain true) vf_chain [20%nat; 15%nat; 20%nat] <> map (gspec (g_chain true) vf_chain) [20%nat; 15%nat; 20%nat] /\
  hget (gs_heap (gfinal (g_chain true) vf_chain [15%nat])) 1%nat <> hget (gs_heap (ginit (g_chain true) vf_chain)) 1%nat /\
  gobservations (g_chain false) vf_chain [20%nat; 15%nat; 20%nat] = map (gspec (g_chain false) vf_chain) [20%nat; 15%nat; 20%nat].
Proof. repeat split; vm_compute; discriminate. Qed.
Local Close Scope Z_scope.

(* ------------------------------------------------------------------ PART B inside PART D
   In the graphs above curvature_reg_matrix is a node that builds a new array from curvature_matrix and regularization_matrix
   and deletes the curvature_matrix entry; the code adds INTO the cached curvature matrix and deletes the entry (PART B, Model/C11.v
   [istep]).  The two machines report the same values for every sequence of curvature_matrix / curvature_reg_matrix reads. *)
Definition g_crm : graph :=
  [ cached [];                         (* 0: curvature_matrix *)
    cached [];                         (* 1: regularization_matrix *)
    mkG GCached [0; 1]%nat MFresh [0%nat] ].   (* 2: curvature_reg_matrix *)
Definition vf_crm (add : adder) (F H : arr) : vfn := fun n vs =>
  match n with
  | 0%nat => F
  | 1%nat => H
  | _ => add (nth 0 vs []) (nth 1 vs [])
  end.
Definition node_of_iq (q : iq) : nat := match q with QF => 0%nat | _ => 2%nat end.
Definition is_matrix_read (q : iq) : bool := match q with QF | QFR => true | _ => false end.

Lemma partB_agrees_with_graph_node (add : adder) (F H D U : arr) (pre : ipre) (qs : list iq) :
  forallb is_matrix_read qs = true ->
  irun add ifaithful pre F H D U (ist0 F D) qs = gobservations g_crm (vf_crm add F H) (map node_of_iq qs).
Proof.
  intros Hq. rewrite inversion_reads_pure. rewrite graph_reads_pure by (vm_compute; reflexivity).
  rewrite map_map. induction qs as [|q t IH]; [reflexivity|].
  cbn [forallb] in Hq. apply andb_true_iff in Hq. destruct Hq as [Hq Ht]. cbn [map]. rewrite (IH Ht). f_equal.
  destruct q; try discriminate; reflexivity.
Qed.
