(* C04 -- data vector and curvature matrix = normal equations, in the mapping and the w-tilde formalism.
   Executable model of
     inversion_imaging_util.py : data_vector_via_blurred_mapping_matrix_from, w_tilde_data_imaging_from,
        w_tilde_curvature_value_from, w_tilde_curvature_imaging_from, w_tilde_curvature_preload_imaging_from,
        data_vector_via_w_tilde_data_imaging_from, curvature_matrix_via_w_tilde_curvature_preload_imaging_from,
        curvature_matrix_off_diags_via_w_tilde_curvature_preload_imaging_from,
        curvature_matrix_off_diags_via_mapper_and_linear_func_curvature_vector_from,
        data_linear_func_matrix_from, curvature_matrix_off_diags_via_data_linear_func_matrix_from
     inversion_util.py : curvature_matrix_via_mapping_matrix_from, curvature_matrix_with_added_to_diag_from,
        curvature_matrix_mirrored_from, curvature_matrix_via_w_tilde_from,
        mapped_reconstructed_data_via_image_to_pix_unique_from, mapped_reconstructed_data_via_mapping_matrix_from
     inversion/abstract.py : param_range_list_from, cls_list_from, total_params, no_regularization_index_list,
        operated_mapping_matrix (hstack), source_quantity_dict_from, mapped_reconstructed_data
     imaging/abstract.py : operated_mapping_matrix_list, linear_func_operated_mapping_matrix_dict
     imaging/mapping.py  : data_vector, curvature_matrix, mapped_reconstructed_data_dict
     imaging/w_tilde.py  : w_tilde_data, data_vector (3 branches), curvature_matrix (mapper diag blocks, off-diagonal
        mapper blocks, mapper/function-list blocks, function-list blocks, mirror, diagonal term), mapped_reconstructed_data_dict
     factory.py : inversion_imaging_from (choice of formalism);  dataset.py : Imaging.w_tilde.
   The convolver (frames, convolve_matrix, convolve_no_blurring) is the model of C03.
   A linear object is abstract: a mapper is a mapping matrix together with its sparse unique-mapping encoding
   (data_to_pix_unique, data_weights, pix_lengths), a function list is a matrix (optionally with an operated override).
   Loops that accumulate ([out[i] += v]) are scatter loops over flat row-major buffers (a numpy 2-D array is one);
   in-place symmetrisation loops and slice/block assignments are sequential folds.  No proofs here. *)
From Coq Require Import ZArith List Bool QArith Qabs.
From PAV Require Import Base.Res Base.Check Base.NumOps Base.Sum Model.C03.
Import ListNotations.
Local Open Scope Z_scope.

(* walking a flat buffer with a running index: row k takes the next [lens[k]] entries *)
Fixpoint rows_of {A} (flat : list A) (lens : list nat) : list (list A) :=
  match lens with
  | [] => []
  | n :: t => firstn n flat :: rows_of (skipn n flat) t
  end.
(* for i: for j in range(i+1, len) *)
Fixpoint pairs_lt {A} (l : list A) : list (A * A) :=
  match l with
  | [] => []
  | x :: t => map (pair x) t ++ pairs_lt t
  end.
Definition pairs (n0 n1 : nat) : list (nat * nat) := flat_map (fun i => map (pair i) (seq 0 n1)) (seq 0 n0).
(* for i in range(P): for j in range(i, P) *)
Definition upper_pairs (P : nat) : list (nat * nat) := flat_map (fun i => map (pair i) (seq i (P - i))) (seq 0 P).

Section Model.
  Context {O : NumOps}.
  Notation T := (T O).
  Definition vec := list T.
  Definition mat := list (list T).
  Definition mget (M : mat) (i j : nat) : T := nthT (nth i M []) j.
  Definition ncols (M : mat) : nat := length (hd [] M).
  Definition zmat (n p : nat) : mat := repeat (zeros p) n.
  Definition reshape (n p : nat) (flat : vec) : mat :=
    map (fun i => map (fun j => nthT flat (i * p + j)) (seq 0 p)) (seq 0 n).
  Definition mat_add (F : mat) (i j : nat) (v : T) : mat := upd_set F i (upd_add (nth i F []) j v).
  Definition mat_set (F : mat) (i j : nat) (v : T) : mat := upd_set F i (upd_set (nth i F []) j v).
  Definition transpose (M : mat) : mat :=
    map (fun j => map (fun i => mget M i j) (seq 0 (length M))) (seq 0 (ncols M)).
  Definition vadd (a b : vec) : vec := map (fun p => add O (fst p) (snd p)) (combine a b).
  Definition madd (A B : mat) : mat := map (fun p => vadd (fst p) (snd p)) (combine A B).

  (* ================= mapping formalism ================= *)
  (* data_vector_via_blurred_mapping_matrix_from: data_vector[pix] += image[i] * B[i, pix] / noise[i] ** 2.0 *)
  Definition dv_blurred (B : mat) (d s : vec) : vec :=
    let P := ncols B in
    scatter (flat_map (fun i => map (fun p => (p, div O (mul O (nthT d i) (mget B i p)) (sq (nthT s i)))) (seq 0 P))
                      (seq 0 (length B))) (zeros P).

  (* mapping_matrix / noise_map[:, None] *)
  Definition div_rows (B : mat) (s : vec) : mat :=
    map (fun i => map (fun b => div O b (nthT s i)) (nth i B [])) (seq 0 (length B)).
  (* mapping_matrix / noise_map[:, None] ** 2 *)
  Definition div_rows_sq (B : mat) (s : vec) : mat :=
    map (fun i => map (fun b => div O b (sq (nthT s i))) (nth i B [])) (seq 0 (length B)).
  (* np.dot(A.T, A'): numpy's dot is the oracle "sum of products" *)
  Definition dotTN (A A' : mat) : mat :=
    map (fun p => map (fun q => sumT (map (fun i => mul O (mget A i p) (mget A' i q)) (seq 0 (length A))))
                      (seq 0 (ncols A'))) (seq 0 (ncols A)).
  (* np.dot(A, A') *)
  Definition dotNN (A A' : mat) : mat :=
    map (fun i => map (fun q => sumT (map (fun k => mul O (mget A i k) (mget A' k q)) (seq 0 (length A'))))
                      (seq 0 (ncols A'))) (seq 0 (length A)).
  (* curvature_matrix_with_added_to_diag_from *)
  Definition add_to_diag (F : mat) (value : T) (idx : list nat) : mat :=
    fold_left (fun F i => mat_add F i i value) idx F.
  (* curvature_matrix_via_mapping_matrix_from *)
  Definition curv_mapping (B : mat) (s : vec) (add : bool) (idx : list nat) (eps : T) : mat :=
    let A := div_rows B s in
    let F := dotTN A A in
    if add && negb (Nat.eqb (length idx) 0) then add_to_diag F eps idx else F.
  (* curvature_matrix_via_w_tilde_from (dense w_tilde; testing aid of the code) *)
  Definition curv_dense_w (W M : mat) : mat := dotTN M (dotNN W M).

  (* curvature_matrix_mirrored_from: the four conditional writes of every (i, j), in loop order *)
  Definition mirror_step (C : mat) (M : mat) (ij : nat * nat) : mat :=
    let i := fst ij in let j := snd ij in
    let M1 := if negb (eqb O (mget C i j) zero) then mat_set (mat_set M i j (mget C i j)) j i (mget C i j) else M in
    if negb (eqb O (mget C j i) zero) then mat_set (mat_set M1 i j (mget C j i)) j i (mget C j i) else M1.
  Definition mirrored (C : mat) : mat :=
    let n0 := length C in let n1 := ncols C in
    fold_left (mirror_step C) (pairs n0 n1) (zmat n0 n1).

  (* mapped_reconstructed_data_via_mapping_matrix_from *)
  Definition mapped_via_matrix (B : mat) (r : vec) : vec :=
    map (fun i => sumT (map (fun j => mul O (nthT r j) (mget B i j)) (seq 0 (length r)))) (seq 0 (length B)).

  (* ================= w-tilde formalism ================= *)
  (* the sparse unique-mapping encoding of a mapper *)
  Record enc := { e_du : list (list Z); e_dw : mat; e_pl : list nat }.
  Definition enc_row (e : enc) (d : nat) : list (nat * T) :=
    firstn (nth d (e_pl e) 0%nat) (combine (map Z.to_nat (nth d (e_du e) [])) (nth d (e_dw e) [])).

  Definition kat (K : kernel) (ky kx : Z) : T := getZ zero K (ky, kx).

  (* w_tilde_data_imaging_from.  weight_map_native = image_native / noise_map_native ** 2 is NaN exactly where the
     (zero-filled) native arrays are 0/0, i.e. at masked pixels: the isnan skip is the test noise = 0. *)
  Definition wt_data_value (img noise : px -> T) (K : kernel) (p : px) : T :=
    let sy := - (rows K / 2) in let sx := - (cols K / 2) in
    sumT (flat_map (fun ky => flat_map (fun kx =>
        let q := (fst p + ky + sy, snd p + kx + sx) in
        if eqb O (noise q) zero then [] else [mul O (kat K ky kx) (div O (img q) (sq (noise q)))])
      (seqZ 0 (cols K))) (seqZ 0 (rows K))).
  Definition wt_data (img noise : px -> T) (K : kernel) (nfs : list px) : vec := map (wt_data_value img noise K) nfs.

  (* w_tilde_curvature_value_from (renormalize=False) *)
  Definition wt_value (noise : px -> T) (K : kernel) (p0 p1 : px) : T :=
    let kh := rows K in let kw := cols K in
    let sy := - (kh / 2) in let sx := - (kw / 2) in
    let oy := fst p0 - fst p1 in let ox := snd p0 - snd p1 in
    if (oy <? 2 * sy) || (oy >? - 2 * sy) || (ox <? 2 * sx) || (ox >? - 2 * sx) then zero else
    sumT (flat_map (fun ky => flat_map (fun kx =>
        let value := noise (fst p0 + ky + sy, snd p0 + kx + sx) in
        if ltb O zero value then
          let k1y := ky + oy in let k1x := kx + ox in
          if (k1y >=? 0) && (k1x >=? 0) && (k1y <? kh) && (k1x <? kw)
          then [mul O (mul O (kat K ky kx) (kat K k1y k1x)) (sq (div O one value))] else []
        else [])
      (seqZ 0 kw)) (seqZ 0 kh)).

  (* w_tilde_curvature_imaging_from: upper triangle then mirrored *)
  Definition wt_dense (noise : px -> T) (K : kernel) (nfs : list px) : mat :=
    let n := length nfs in
    map (fun i0 => map (fun i1 =>
        if Nat.leb i0 i1 then wt_value noise K (nth i0 nfs (0, 0)) (nth i1 nfs (0, 0))
        else wt_value noise K (nth i1 nfs (0, 0)) (nth i0 nfs (0, 0))) (seq 0 n)) (seq 0 n).

  (* w_tilde_curvature_preload_imaging_from: per pixel ip0 the kept (ip1, value) with ip1 >= ip0, diagonal halved,
     kept iff value != 0; then flattened together with the row lengths *)
  Definition preload_rows (noise : px -> T) (K : kernel) (nfs : list px) : list (list (nat * T)) :=
    let n := length nfs in
    map (fun i0 => flat_map (fun i1 =>
        let v := wt_value noise K (nth i0 nfs (0, 0)) (nth i1 nfs (0, 0)) in
        let v' := if Nat.eqb i0 i1 then div O v two else v in
        if eqb O v' zero then [] else [(i1, v')]) (seq i0 (n - i0))) (seq 0 n).
  Definition preload (noise : px -> T) (K : kernel) (nfs : list px) : vec * list nat * list nat :=
    let r := preload_rows noise K nfs in
    (map snd (concat r), map fst (concat r), map (@length _) r).

  (* the common quadruple loop: curvature_matrix[pix_0, pix_1] += data_0_weight * data_1_weight * w_tilde_value *)
  Definition curv_entries (rws : list (list (nat * T))) (e0 e1 : enc) (P1 : nat) : list (nat * T) :=
    flat_map (fun dr => flat_map (fun iw =>
        flat_map (fun pw0 => map (fun pw1 =>
            ((fst pw0 * P1 + fst pw1)%nat, mul O (mul O (snd pw0) (snd pw1)) (snd iw)))
          (enc_row e1 (fst iw))) (enc_row e0 (fst dr))) (snd dr))
      (combine (seq 0 (length rws)) rws).
  (* curvature_matrix_via_w_tilde_curvature_preload_imaging_from *)
  Definition curv_preload (pre : vec) (idx lens : list nat) (e : enc) (P : nat) : mat :=
    let rws := rows_of (combine idx pre) lens in
    let F0 := scatter (curv_entries rws e e P) (zeros (P * P)) in
    (* for i: for j >= i: F[i, j] += F[j, i] *)
    let F1 := fold_left (fun F ij => upd_add F (fst ij * P + snd ij) (nthT F (snd ij * P + fst ij))) (upper_pairs P) F0 in
    (* for i: for j >= i: F[j, i] = F[i, j] *)
    let F2 := fold_left (fun F ij => upd_set F (snd ij * P + fst ij) (nthT F (fst ij * P + snd ij))) (upper_pairs P) F1 in
    reshape P P F2.
  (* curvature_matrix_off_diags_via_w_tilde_curvature_preload_imaging_from *)
  Definition off_preload (pre : vec) (idx lens : list nat) (e0 : enc) (P0 : nat) (e1 : enc) (P1 : nat) : mat :=
    let rws := rows_of (combine idx pre) lens in
    reshape P0 P1 (scatter (curv_entries rws e0 e1 P1) (zeros (P0 * P1))).
  (* InversionImagingWTilde._curvature_matrix_off_diag_from *)
  Definition off_diag (pre : vec) (idx lens : list nat) (e0 : enc) (P0 : nat) (e1 : enc) (P1 : nat) : mat :=
    madd (off_preload pre idx lens e0 P0 e1 P1) (transpose (off_preload pre idx lens e1 P1 e0 P0)).

  (* data_vector_via_w_tilde_data_imaging_from *)
  Definition dv_wtd (wd : vec) (e : enc) (P : nat) : vec :=
    scatter (flat_map (fun d0 => map (fun pw => (fst pw, mul O (snd pw) (nthT wd d0))) (enc_row e d0))
                      (seq 0 (length wd))) (zeros P).

  (* curvature_matrix_off_diags_via_mapper_and_linear_func_curvature_vector_from:
     off_diag[pix_0, :] += data_0_weight * curvature_weights[data_index, :] * kernel_value *)
  Definition off_mapper_func (e : enc) (P : nat) (cw : mat) (frames : list (list (nat * T))) : mat :=
    let L := ncols cw in
    reshape P L (scatter (flat_map (fun d0 => flat_map (fun pw => flat_map (fun ik =>
        map (fun l => ((fst pw * L + l)%nat, mul O (mul O (snd pw) (mget cw (fst ik) l)) (snd ik))) (seq 0 L))
      (nth d0 frames [])) (enc_row e d0)) (seq 0 (length (e_dw e)))) (zeros (P * L))).
  (* data_linear_func_matrix_from *)
  Definition data_linear_func_matrix (cw : mat) (frames : list (list (nat * T))) : mat :=
    let L := ncols cw in
    reshape (length cw) L (scatter (flat_map (fun d0 => flat_map (fun ik =>
        map (fun l => ((d0 * L + l)%nat, mul O (snd ik) (mget cw (fst ik) l))) (seq 0 L))
      (nth d0 frames [])) (seq 0 (length cw))) (zeros (length cw * L))).
  (* curvature_matrix_off_diags_via_data_linear_func_matrix_from *)
  Definition off_via_dlfm (dl : mat) (e : enc) (P : nat) : mat :=
    let L := ncols dl in
    reshape P L (scatter (flat_map (fun d0 => flat_map (fun pw =>
        map (fun l => ((fst pw * L + l)%nat, mul O (mget dl d0 l) (snd pw))) (seq 0 L))
      (enc_row e d0)) (seq 0 (length (e_dw e)))) (zeros (P * L))).

  (* mapped_reconstructed_data_via_image_to_pix_unique_from *)
  Definition mapped_via_unique (e : enc) (r : vec) : vec :=
    map (fun d0 => sumT (map (fun pw => mul O (snd pw) (nthT r (fst pw))) (enc_row e d0))) (seq 0 (length (e_du e))).

  (* ================= the ordered list of linear objects ================= *)
  Inductive lobj :=
  | LMapper (e : enc) (M : mat) (P : nat) (reg : bool)
  | LFunc (M : mat) (ov : option mat) (P : nat) (reg : bool).
  Definition params (o : lobj) : nat := match o with LMapper _ _ P _ => P | LFunc _ _ P _ => P end.
  Definition is_mapper (o : lobj) : bool := match o with LMapper _ _ _ _ => true | _ => false end.
  Definition is_func (o : lobj) : bool := negb (is_mapper o).
  Definition has_reg (o : lobj) : bool := match o with LMapper _ _ _ r => r | LFunc _ _ _ r => r end.
  Definition enc_of (o : lobj) : enc :=
    match o with LMapper e _ _ _ => e | _ => {| e_du := []; e_dw := []; e_pl := [] |} end.
  (* param_range_list_from(cls): running pixel_count over the whole list, appended when isinstance *)
  Fixpoint ranges_from (cls : lobj -> bool) (objs : list lobj) (count : nat) : list (nat * nat) :=
    match objs with
    | [] => []
    | o :: t => (if cls o then [(count, (count + params o)%nat)] else []) ++ ranges_from cls t (count + params o)
    end.
  Definition total_params (objs : list lobj) : nat := fold_left (fun a o => (a + params o)%nat) objs 0%nat.
  (* no_regularization_index_list *)
  Definition noreg_index_list (objs : list lobj) : list nat :=
    flat_map (fun orr => if has_reg (fst orr) then [] else seq (fst (snd orr)) (snd (snd orr) - fst (snd orr)))
             (combine objs (ranges_from (fun _ => true) objs 0)).

  (* operated_mapping_matrix_list / linear_func_operated_mapping_matrix_dict *)
  Definition opmat (c : convolver) (o : lobj) : mat :=
    match o with
    | LMapper _ M _ _ => convolve_matrix c M
    | LFunc M None _ _ => convolve_matrix c M
    | LFunc _ (Some ov) _ _ => ov
    end.
  Definition hstack (Ms : list mat) (n : nat) : mat := map (fun i => concat (map (fun M => nth i M []) Ms)) (seq 0 n).
  Definition op_matrix (c : convolver) (objs : list lobj) (n : nat) : mat := hstack (map (opmat c) objs) n.

  (* InversionImagingMapping.data_vector / .curvature_matrix *)
  Definition D_mapping (c : convolver) (objs : list lobj) (d s : vec) : vec :=
    dv_blurred (op_matrix c objs (length d)) d s.
  Definition F_mapping (c : convolver) (objs : list lobj) (n : nat) (s : vec) (eps : T) : mat :=
    curv_mapping (op_matrix c objs n) s true (noreg_index_list objs) eps.

  (* v[lo:lo+len(w)] = w ;  F[r0:r0+h, c0:c0+w] = Bk *)
  Definition set_slice (v : vec) (lo : nat) (w : vec) : vec := firstn lo v ++ w ++ skipn (lo + length w) v.
  Definition set_block (F : mat) (r0 c0 : nat) (Bk : mat) : mat :=
    fold_left (fun F i => upd_set F (r0 + i) (set_slice (nth (r0 + i) F []) c0 (nth i Bk []))) (seq 0 (length Bk)) F.

  (* the slim -> native view of a masked array: zero at masked pixels *)
  Definition native (m : mask) (v : vec) : px -> T := lookup (unmasked m) v.

  (* InversionImagingWTilde.data_vector *)
  Definition D_wt (c : convolver) (m : mask) (K : kernel) (objs : list lobj) (d s : vec) : vec :=
    let wd := wt_data (native m d) (native m s) K (unmasked m) in
    let ms := combine (filter is_mapper objs) (ranges_from is_mapper objs 0) in
    let fs := combine (filter is_func objs) (ranges_from is_func objs 0) in
    if existsb is_func objs then
      (* _data_vector_func_list_and_mapper *)
      let dv1 := fold_left (fun dv orr => set_slice dv (fst (snd orr)) (dv_wtd wd (enc_of (fst orr)) (params (fst orr))))
                           ms (zeros (total_params objs)) in
      fold_left (fun dv orr => set_slice dv (fst (snd orr)) (dv_blurred (opmat c (fst orr)) d s)) fs dv1
    else if Nat.eqb (length (filter is_mapper objs)) 1 then
      (* _data_vector_x1_mapper: linear_obj_list[0] *)
      match objs with o :: _ => dv_wtd wd (enc_of o) (params o) | [] => [] end
    else
      (* _data_vector_multi_mapper *)
      concat (map (fun o => dv_wtd wd (enc_of o) (params o)) objs).

  (* InversionImagingWTilde.curvature_matrix before the mirror: the sequence of block assignments *)
  Definition F_wt_pre (c : convolver) (pre : vec) (idx lens : list nat) (objs : list lobj) (s : vec) : mat :=
    let tp := total_params objs in
    let ms := combine (filter is_mapper objs) (ranges_from is_mapper objs 0) in
    let fs := combine (filter is_func objs) (ranges_from is_func objs 0) in
    (* _curvature_matrix_mapper_diag *)
    let C1 := fold_left (fun C orr => let o := fst orr in let lo := fst (snd orr) in
                  set_block C lo lo (curv_preload pre idx lens (enc_of o) (params o))) ms (zmat tp tp) in
    (* _curvature_matrix_multi_mapper *)
    let C2 := fold_left (fun C ij => let oi := fst (fst ij) in let oj := fst (snd ij) in
                  set_block C (fst (snd (fst ij))) (fst (snd (snd ij)))
                    (off_diag pre idx lens (enc_of oi) (params oi) (enc_of oj) (params oj))) (pairs_lt ms) C1 in
    if existsb is_func objs then
      (* _curvature_matrix_func_list_and_mapper *)
      let C3 := fold_left (fun C mf => let om := fst (fst mf) in let of_ := fst (snd mf) in
                    set_block C (fst (snd (fst mf))) (fst (snd (snd mf)))
                      (off_mapper_func (enc_of om) (params om) (div_rows_sq (opmat c of_) s) (image_frames c)))
                  (list_prod ms fs) C2 in
      fold_left (fun C ff => let o0 := fst (fst ff) in let o1 := fst (snd ff) in
                    set_block C (fst (snd (fst ff))) (fst (snd (snd ff)))
                      (dotTN (div_rows (opmat c o0) s) (div_rows (opmat c o1) s)))
                (list_prod fs fs) C3
    else C2.
  Definition F_wt (c : convolver) (m : mask) (K : kernel) (objs : list lobj) (s : vec) (eps : T) : mat :=
    let '(pre, idx, lens) := preload (native m s) K (unmasked m) in
    let C := mirrored (F_wt_pre c pre idx lens objs s) in
    let nr := noreg_index_list objs in
    if negb (Nat.eqb (length nr) 0) then add_to_diag C eps nr else C.

  (* factory.inversion_imaging_from (no preloads) *)
  Definition use_wt_eff (objs : list lobj) (use_w_tilde : bool) : bool :=
    if forallb is_func objs then false else use_w_tilde.

  (* source_quantity_dict_from: consecutive slices *)
  Fixpoint slices (objs : list lobj) (r : vec) : list vec :=
    match objs with
    | [] => []
    | o :: t => firstn (params o) r :: slices t (skipn (params o) r)
    end.
  (* mapped_reconstructed_data = sum(dict.values()) *)
  Definition vsum (n : nat) (vs : list vec) : vec := fold_left vadd vs (zeros n).
  Definition mapped_mapping (c : convolver) (objs : list lobj) (n : nat) (r : vec) : vec :=
    vsum n (map (fun orr => mapped_via_matrix (opmat c (fst orr)) (snd orr)) (combine objs (slices objs r))).
  Definition mapped_wt (c : convolver) (objs : list lobj) (n : nat) (r : vec) : vec :=
    vsum n (map (fun orr =>
        match fst orr with
        | LMapper e _ _ _ => convolve_no_blurring c (mapped_via_unique e (snd orr))
        | o => map (fun row => sumT (map (fun p => mul O (fst p) (snd p)) (combine (snd orr) row))) (opmat c o)
        end) (combine objs (slices objs r))).

  Record inv_out := { o_wt : bool; o_B : mat; o_D : vec; o_F : mat }.
  (* [wt]: which class the factory instantiated (InversionImagingWTilde / InversionImagingMapping) *)
  Definition inversion (m : mask) (K : kernel) (d s : vec) (objs : list lobj) (wt : bool) (eps : T) : res inv_out :=
    match convolver_init m K with
    | Raise e => Raise e
    | Ok c =>
        let n := length d in
        if wt
        then Ok {| o_wt := true; o_B := op_matrix c objs n; o_D := D_wt c m K objs d s; o_F := F_wt c m K objs s eps |}
        else Ok {| o_wt := false; o_B := op_matrix c objs n; o_D := D_mapping c objs d s; o_F := F_mapping c objs n s eps |}
    end.
  Definition mapped_data (m : mask) (K : kernel) (n : nat) (objs : list lobj) (wt : bool) (r : vec) : res vec :=
    match convolver_init m K with
    | Raise e => Raise e
    | Ok c => Ok (if wt then mapped_wt c objs n r else mapped_mapping c objs n r)
    end.

  (* ================= the w_tilde object is handed over separately ================= *)
  (* WTildeImaging: the three tables and noise_map_value.  factory.inversion_imaging_from passes preloads.w_tilde if that is
     not None, else dataset.w_tilde (an Imaging computes it from ITS noise map; a DatasetInterface carries whatever it was given) *)
  Record wtilde := { w_pre : vec; w_idx : list nat; w_lens : list nat; w_nmv : T }.
  (* dataset.py Imaging.w_tilde of the dataset with mask m, psf K and noise map sw: nothing in it depends on the data *)
  Definition imaging_w_tilde (m : mask) (K : kernel) (sw : vec) : wtilde :=
    let '(pre, idx, lens) := preload (native m sw) K (unmasked m) in
    {| w_pre := pre; w_idx := idx; w_lens := lens; w_nmv := nthT sw 0 |}.
  (* InversionImagingWTilde.curvature_matrix on the tables of the object it was given *)
  Definition F_wt_of (c : convolver) (w : wtilde) (objs : list lobj) (s : vec) (eps : T) : mat :=
    let C := mirrored (F_wt_pre c (w_pre w) (w_idx w) (w_lens w) objs s) in
    let nr := noreg_index_list objs in
    if negb (Nat.eqb (length nr) 0) then add_to_diag C eps nr else C.
  (* factory.inversion_imaging_from: which class is instantiated.  settings_use = settings.use_w_tilde,
     preload_use = preloads.use_w_tilde (None unless a Preloads object sets it) *)
  Definition factory_use_wt (objs : list lobj) (settings_use : bool) (preload_use : option bool) : bool :=
    let u := if forallb is_func objs then false
             else match preload_use with Some b => b | None => settings_use end in
    if negb settings_use then false else u.
  Definition factory_w (dataset_w : wtilde) (preload_w : option wtilde) : wtilde :=
    match preload_w with Some w => w | None => dataset_w end.
  (* the instance: InversionImagingWTilde.__init__ runs w_tilde.check_noise_map(noise_map) -- noise_map[0] != noise_map_value
     raises InversionException (settings.use_w_tilde is True whenever the factory chooses this class); the data vector uses the
     data and noise map of the dataset that was PASSED IN (w_tilde_data is computed from self.data / self.noise_map), the
     curvature matrix the tables of the w_tilde object *)
  Definition inversion_w (m : mask) (K : kernel) (d s : vec) (w : wtilde) (objs : list lobj) (wt : bool) (eps : T) : res inv_out :=
    match convolver_init m K with
    | Raise e => Raise e
    | Ok c =>
        let n := length d in
        if wt
        then if eqb O (nthT s 0) (w_nmv w)
             then Ok {| o_wt := true; o_B := op_matrix c objs n; o_D := D_wt c m K objs d s; o_F := F_wt_of c w objs s eps |}
             else Raise InversionException
        else Ok {| o_wt := false; o_B := op_matrix c objs n; o_D := D_mapping c objs d s; o_F := F_mapping c objs n s eps |}
    end.
  Definition inversion_from (m : mask) (K : kernel) (d s : vec) (dataset_w : wtilde) (preload_w : option wtilde)
             (objs : list lobj) (settings_use : bool) (preload_use : option bool) (eps : T) : res inv_out :=
    inversion_w m K d s (factory_w dataset_w preload_w) objs (factory_use_wt objs settings_use preload_use) eps.

  (* ================= cached properties of ONE instance read in any order, any number of times ================= *)
  (* abstract.py: operated_mapping_matrix, data_vector, curvature_matrix, curvature_reg_matrix are cached_property entries of
     the instance's __dict__.  Only one of them is ever written in place: curvature_reg_matrix with a single linear object
     (len(regularization_list) == 1) that has a regularization takes the CACHED curvature_matrix array, adds the regularization
     matrix into it, and deletes the __dict__ entry "curvature_matrix" so that the next read recomputes it into a new array.
     Without any regularization it returns the cached curvature_matrix array itself (an alias, never written); otherwise
     np.add allocates.  reconstruction reads data_vector, then curvature_reg_matrix (keyword arguments, in that order).
     Arrays live in heap cells; [Fv], [Dv], [Bv], [H] are the values the (pure) computations give. *)
  Inductive rq := RB | RD | RF | RFR | RRec.
  Inductive rout := OutM (M : mat) | OutV (v : vec) | OutNone.
  Record istate := { i_heap : list mat; i_F : option nat; i_FR : option nat }.
  Definition ist0 : istate := {| i_heap := []; i_F := None; i_FR := None |}.
  Definition hcell (h : list mat) (c : nat) : mat := nth c h [].
  (* cached read of curvature_matrix: the cached array, or a new array holding the computed value *)
  Definition read_F (Fv : mat) (st : istate) : istate * nat :=
    match i_F st with
    | Some c => (st, c)
    | None => ({| i_heap := i_heap st ++ [Fv]; i_F := Some (length (i_heap st)); i_FR := i_FR st |}, length (i_heap st))
    end.
  (* [entry_deleted]: the `del self.__dict__["curvature_matrix"]` of curvature_reg_matrix (true in the code) *)
  Definition read_FR (entry_deleted : bool) (objs : list lobj) (Fv H : mat) (st : istate) : istate * nat :=
    match i_FR st with
    | Some c => (st, c)
    | None =>
        let '(st1, c) := read_F Fv st in
        if negb (existsb has_reg objs) then
          ({| i_heap := i_heap st1; i_F := i_F st1; i_FR := Some c |}, c)
        else if Nat.eqb (length objs) 1 then
          ({| i_heap := upd_set (i_heap st1) c (madd (hcell (i_heap st1) c) H);
              i_F := if entry_deleted then None else i_F st1; i_FR := Some c |}, c)
        else
          ({| i_heap := i_heap st1 ++ [madd (hcell (i_heap st1) c) H]; i_F := i_F st1;
              i_FR := Some (length (i_heap st1)) |}, length (i_heap st1))
    end.
  (* operated_mapping_matrix and data_vector are cached values that nothing writes to: reading them has no effect on the cells *)
  Definition rstep (entry_deleted : bool) (objs : list lobj) (Bv : mat) (Dv : vec) (Fv H : mat) (st : istate) (q : rq)
    : istate * rout :=
    match q with
    | RB => (st, OutM Bv)
    | RD => (st, OutV Dv)
    | RF => let '(st1, c) := read_F Fv st in (st1, OutM (hcell (i_heap st1) c))
    | RFR => let '(st1, c) := read_FR entry_deleted objs Fv H st in (st1, OutM (hcell (i_heap st1) c))
    | RRec => let '(st1, _) := read_FR entry_deleted objs Fv H st in (st1, OutNone)
    end.
  Fixpoint rrun (entry_deleted : bool) (objs : list lobj) (Bv : mat) (Dv : vec) (Fv H : mat) (st : istate) (qs : list rq)
    : list rout :=
    match qs with
    | [] => []
    | q :: t => let '(st1, v) := rstep entry_deleted objs Bv Dv Fv H st q in v :: rrun entry_deleted objs Bv Dv Fv H st1 t
    end.
  (* what every read has to return, whatever was read before *)
  Definition rpure (objs : list lobj) (Bv : mat) (Dv : vec) (Fv H : mat) (q : rq) : rout :=
    match q with
    | RB => OutM Bv | RD => OutV Dv | RF => OutM Fv
    | RFR => OutM (if existsb has_reg objs then madd Fv H else Fv)
    | RRec => OutNone
    end.
  (* aa.Inversion(dataset, linear_obj_list, settings, preloads) followed by a sequence of reads on the instance *)
  Definition inversion_reads (m : mask) (K : kernel) (d s : vec) (w : wtilde) (objs : list lobj) (wt : bool) (eps : T)
             (H : mat) (qs : list rq) : res (list rout) :=
    match inversion_w m K d s w objs wt eps with
    | Raise e => Raise e
    | Ok o => Ok (rrun true objs (o_B o) (o_D o) (o_F o) H ist0 qs)
    end.

  (* ================= specification (no frames, no preload, no blocks) ================= *)
  (* blurred mapping matrix: every column is the true 2-D convolution of that column placed on the mask *)
  Definition B_spec_obj (m : mask) (K : kernel) (o : lobj) : mat :=
    let conv (M : mat) := map (fun t => map (fun p => conv_full (combined m [] (column M p) []) K t) (seq 0 (params o)))
                              (unmasked m) in
    match o with
    | LMapper _ M _ _ => conv M
    | LFunc M None _ _ => conv M
    | LFunc _ (Some ov) _ _ => ov
    end.
  Definition B_spec (m : mask) (K : kernel) (objs : list lobj) : mat :=
    map (fun i => flat_map (fun o => nth i (B_spec_obj m K o) []) objs) (seq 0 (length (unmasked m))).
  Definition D_spec (B : mat) (d s : vec) (P : nat) : vec :=
    map (fun p => sumT (map (fun i => div O (mul O (mget B i p) (nthT d i)) (sq (nthT s i))) (seq 0 (length B)))) (seq 0 P).
  Definition unreg_flags (objs : list lobj) : list bool := flat_map (fun o => repeat (negb (has_reg o)) (params o)) objs.
  Definition F_spec (B : mat) (s : vec) (flags : list bool) (eps : T) : mat :=
    let P := length flags in
    map (fun p => map (fun q =>
        let f := sumT (map (fun i => div O (mul O (mget B i p) (mget B i q)) (sq (nthT s i))) (seq 0 (length B))) in
        if Nat.eqb p q && nth p flags false then add O f eps else f) (seq 0 P)) (seq 0 P).
  Definition mapped_spec (B : mat) (r : vec) : vec :=
    map (fun row => sumT (map (fun p => mul O (fst p) (snd p)) (combine row r))) B.
  (* dense overlap matrix W[s,t] = sum_i C[i,s] C[i,t] / sigma_i^2, C = the convolution operator on unit images *)
  Definition unit_vec (n k : nat) : vec := map (fun i => if Nat.eqb i k then one else zero) (seq 0 n).
  Definition C_spec (m : mask) (K : kernel) : mat :=
    let U := unmasked m in let n := length U in
    map (fun t => map (fun k => conv_full (combined m [] (unit_vec n k) []) K t) (seq 0 n)) U.
  Definition W_spec (m : mask) (K : kernel) (s : vec) : mat :=
    let C := C_spec m K in let n := length C in
    map (fun a => map (fun b => sumT (map (fun i => div O (mul O (mget C i a) (mget C i b)) (sq (nthT s i))) (seq 0 n)))
                      (seq 0 n)) (seq 0 n).
  (* the matrix a unique-mapping encoding stands for *)
  Definition enc_matrix (e : enc) (n P : nat) : mat :=
    map (fun d => map (fun p => sumT (map snd (filter (fun pw => Nat.eqb (fst pw) p) (enc_row e d)))) (seq 0 P)) (seq 0 n).
End Model.

(* ---------------- correspondence cases (values are exact rationals) ---------------- *)
Definition close (tol a b : Q) : bool := Qle_bool (Qabs (a - b)) (tol * (1 + Qabs b)).
Definition qv_close (tol : Q) := list_eqb (close tol).
Definition qm_close (tol : Q) := list_eqb (qv_close tol).
Definition nat_list_eqb := list_eqb Nat.eqb.
(* closeness RELATIVE TO THE SCALE OF THE COLUMNS (tolerance cases; tol = 0 means equality): every entry is compared against a
   bound on the sum of the absolute values of the terms it is made of.  Column p of the operated matrix is bounded by
   cs_p = (sum |K|) * max_d |M[d][p]| (max_d |ov[d][p]| for an operated override), so
   |B[i][p]| <= cs_p, |D[p]| <= cs_p * sum_i |d_i| / s_i^2, |F[p][q]| <= cs_p * cs_q * sum_i 1 / s_i^2 (+ |eps| on a flagged
   diagonal entry, + |H[p][q]| for curvature_reg_matrix), |mapped[i]| <= sum_p cs_p * |r_p|: a column scaled by 2^-20 is
   compared at the same relative precision as a column of order one. *)
Definition qsum (v : qv) : Q := fold_right Qplus 0%Q v.
Definition qmaxl (v : qv) : Q := fold_right (fun a b => if Qle_bool a b then b else a) 0%Q v.
Definition colmax (M : qm) (p : nat) : Q := qmaxl (map (fun row => Qabs (nth p row 0%Q)) M).
Definition ksum (K : qm) : Q := qsum (map Qabs (concat K)).
Definition within (tol bound a b : Q) : bool := Qle_bool (Qabs (a - b)) (tol * bound).
Definition qv_within (tol : Q) (bnd : nat -> Q) (a b : qv) : bool :=
  Nat.eqb (length a) (length b) &&
  forallb (fun ix => within tol (bnd (fst ix)) (fst (snd ix)) (snd (snd ix))) (combine (seq 0 (length a)) (combine a b)).
Definition qm_within (tol : Q) (bnd : nat -> nat -> Q) (A B : qm) : bool :=
  Nat.eqb (length A) (length B) &&
  forallb (fun ir => qv_within tol (bnd (fst ir)) (fst (snd ir)) (snd (snd ir))) (combine (seq 0 (length A)) (combine A B)).

Inductive qobj :=
| QMapper (du : list (list Z)) (dw : qm) (pl : list nat) (M : qm) (P : nat) (reg : bool)
| QFunc (M : qm) (ov : option qm) (P : nat) (reg : bool).
Definition to_lobj (o : qobj) : @lobj QOps :=
  match o with
  | QMapper du dw pl M P reg => @LMapper QOps (@Build_enc QOps du dw pl) M P reg
  | QFunc M ov P reg => @LFunc QOps M ov P reg
  end.
Definition qenc (du : list (list Z)) (dw : qm) (pl : list nat) : @enc QOps := @Build_enc QOps du dw pl.
Definition colscales (K : qm) (objs : list qobj) : qv :=
  flat_map (fun o => match o with
    | QMapper _ _ _ M P _ => map (fun p => (ksum K * colmax M p)%Q) (seq 0 P)
    | QFunc M None P _ => map (fun p => (ksum K * colmax M p)%Q) (seq 0 P)
    | QFunc _ (Some ov) P _ => map (fun p => colmax ov p) (seq 0 P)
    end) objs.
(* the bounds of one inversion: columns, data norm sum |d|/s^2, noise norm sum 1/s^2, flagged diagonal *)
Record scales := { sc_cs : qv; sc_dn : Q; sc_sn : Q; sc_eps : Q; sc_fl : list bool }.
Definition scales_of (K : qm) (d s : qv) (objs : list qobj) (eps : Q) : scales :=
  {| sc_cs := colscales K objs;
     sc_dn := qsum (map (fun ds => (Qabs (fst ds) / (snd ds * snd ds))%Q) (combine d s));
     sc_sn := qsum (map (fun x => (1 / (x * x))%Q) s);
     sc_eps := Qabs eps;
     sc_fl := @unreg_flags QOps (map to_lobj objs) |}.
Definition bB (sc : scales) (_ p : nat) : Q := nth p (sc_cs sc) 0%Q.
Definition bD (sc : scales) (p : nat) : Q := (nth p (sc_cs sc) 0%Q * sc_dn sc)%Q.
Definition bF (sc : scales) (H : qm) (p q : nat) : Q :=
  (nth p (sc_cs sc) 0%Q * nth q (sc_cs sc) 0%Q * sc_sn sc
   + (if Nat.eqb p q && nth p (sc_fl sc) false then sc_eps sc else 0) + Qabs (nth q (nth p H []) 0%Q))%Q.
Definition bMapped (K : qm) (objs : list qobj) (r : qv) : Q :=
  qsum (map (fun cr => (fst cr * Qabs (snd cr))%Q) (combine (colscales K objs) r)).
Definition inv_close (tol : Q) (sc : scales) (B0 : qm) (D0 : qv) (F0 : qm) (B : qm) (D : qv) (F : qm) : bool :=
  qm_within tol (bB sc) B0 B && qv_within tol (bD sc) D0 D && qm_within tol (bF sc []) F0 F.
(* one read of the sequence against its reference value *)
Definition rout_close (tol : Q) (sc : scales) (H : qm) (q : rq) (ref out : @rout QOps) : bool :=
  match q, ref, out with
  | RB, OutM A, OutM B => qm_within tol (bB sc) A B
  | RD, OutV a, OutV b => qv_within tol (bD sc) a b
  | RF, OutM A, OutM B => qm_within tol (bF sc []) A B
  (* the regularization matrix is not dyadic (Constant adds 1e-8 to its diagonal): F + H is rounded once, relative error 2^-53 *)
  | RFR, OutM A, OutM B => qm_within (tol + (1 # 1000000000000)) (bF sc H) A B
  | RRec, OutNone, OutNone => true
  | _, _, _ => false
  end.
Fixpoint routs_close (tol : Q) (sc : scales) (H : qm) (qs : list rq) (refs outs : list (@rout QOps)) : bool :=
  match qs, refs, outs with
  | [], [], [] => true
  | q :: qt, r :: rt, o :: ot => rout_close tol sc H q r o && routs_close tol sc H qt rt ot
  | _, _, _ => false
  end.

Inductive case :=
(* aa.Inversion(dataset, linear_obj_list, settings): operated_mapping_matrix, data_vector, curvature_matrix of the instance the
   factory returned ([wt]: it is an InversionImagingWTilde; which class is chosen is not part of the comparison: by the theorems
   the two give the same values) *)
| KInv (m : mask) (K : qm) (d s : qv) (objs : list qobj) (wt : bool) (eps tol : Q) (B : qm) (D : qv) (F : qm)
(* the same through an instance whose w_tilde object was made by Imaging.w_tilde of a dataset with noise map [sw] (its data
   are irrelevant): dataset.w_tilde of the Imaging itself (sw = s), DatasetInterface(data, noise_map, convolver,
   w_tilde=imaging.w_tilde), Preloads(w_tilde=other_imaging.w_tilde).  [out] = None: InversionException (check_noise_map) *)
| KInvW (m : mask) (K : qm) (d s sw : qv) (objs : list qobj) (wt : bool) (eps tol : Q) (out : option (qm * qv * qm))
(* ONE instance, its cached properties read in the order [qs] (repeats allowed); [H] = its regularization_matrix *)
| KSeq (m : mask) (K : qm) (d s : qv) (objs : list qobj) (wt : bool) (eps tol : Q) (H : qm) (qs : list rq) (outs : list (@rout QOps))
(* mapped_reconstructed_data for a given reconstruction *)
| KMapped (m : mask) (K : qm) (n : nat) (objs : list qobj) (wt : bool) (tol : Q) (r : qv) (out : qv)
(* util functions *)
| KDvBlurred (B : qm) (d s : qv) (tol : Q) (out : qv)
| KCurvMapping (B : qm) (s : qv) (add : bool) (idx : list nat) (eps tol : Q) (out : qm)
| KAddDiag (F : qm) (v : Q) (idx : list nat) (out : qm)
| KMirror (C : qm) (out : qm)
| KWtData (m : mask) (K : qm) (d s : qv) (out : qv)
| KWtDense (m : mask) (K : qm) (s : qv) (out : qm)
| KPreload (m : mask) (K : qm) (s : qv) (pre : qv) (idx lens : list nat)
| KCurvPreload (pre : qv) (idx lens : list nat) (du : list (list Z)) (dw : qm) (pl : list nat) (P : nat) (tol : Q) (out : qm)
| KOffPreload (pre : qv) (idx lens : list nat) (du0 : list (list Z)) (dw0 : qm) (pl0 : list nat) (P0 : nat)
              (du1 : list (list Z)) (dw1 : qm) (pl1 : list nat) (P1 : nat) (tol : Q) (out : qm)
| KDvWtd (wd : qv) (du : list (list Z)) (dw : qm) (pl : list nat) (P : nat) (tol : Q) (out : qv)
| KOffMapperFunc (m : mask) (K : qm) (du : list (list Z)) (dw : qm) (pl : list nat) (P : nat) (cw : qm) (tol : Q) (out : qm)
| KDlfm (m : mask) (K : qm) (cw : qm) (du : list (list Z)) (dw : qm) (pl : list nat) (P : nat) (tol : Q) (dl out : qm)
| KMappedUnique (du : list (list Z)) (dw : qm) (pl : list nat) (r : qv) (tol : Q) (out : qv)
| KMappedMatrix (B : qm) (r : qv) (tol : Q) (out : qv)
| KCurvDenseW (W M : qm) (tol : Q) (out : qm).

Definition agree (k : case) : bool :=
  match k with
  | KInv m K d s objs use eps tol B D F =>
      match @inversion QOps m K d s (map to_lobj objs) use eps with
      | Ok o => inv_close tol (scales_of K d s objs eps) (o_B o) (o_D o) (o_F o) B D F
      | Raise _ => false
      end
  | KInvW m K d s sw objs use eps tol out =>
      match @inversion_w QOps m K d s (@imaging_w_tilde QOps m K sw) (map to_lobj objs) use eps, out with
      | Ok o, Some (B, D, F) => inv_close tol (scales_of K d s objs eps) (o_B o) (o_D o) (o_F o) B D F
      | Raise InversionException, None => true
      | _, _ => false
      end
  | KSeq m K d s objs use eps tol H qs outs =>
      match @inversion_reads QOps m K d s (@imaging_w_tilde QOps m K s) (map to_lobj objs) use eps H qs with
      | Ok refs => routs_close tol (scales_of K d s objs eps) H qs refs outs
      | Raise _ => false
      end
  | KMapped m K n objs use tol r out =>
      match @mapped_data QOps m K n (map to_lobj objs) use r with
      | Ok v => qv_within tol (fun _ => bMapped K objs r) v out
      | Raise _ => false
      end
  | KDvBlurred B d s tol out => qv_close tol (@dv_blurred QOps B d s) out
  | KCurvMapping B s add idx eps tol out => qm_close tol (@curv_mapping QOps B s add idx eps) out
  | KAddDiag F v idx out => qm_eqb (@add_to_diag QOps F v idx) out
  | KMirror C out => qm_eqb (@mirrored QOps C) out
  | KWtData m K d s out => qv_eqb (@wt_data QOps (@native QOps m d) (@native QOps m s) K (unmasked m)) out
  | KWtDense m K s out => qm_eqb (@wt_dense QOps (@native QOps m s) K (unmasked m)) out
  | KPreload m K s pre idx lens =>
      let '(p, i, l) := @preload QOps (@native QOps m s) K (unmasked m) in
      qv_eqb p pre && nat_list_eqb i idx && nat_list_eqb l lens
  | KCurvPreload pre idx lens du dw pl P tol out => qm_close tol (@curv_preload QOps pre idx lens (qenc du dw pl) P) out
  | KOffPreload pre idx lens du0 dw0 pl0 P0 du1 dw1 pl1 P1 tol out =>
      qm_close tol (@off_preload QOps pre idx lens (qenc du0 dw0 pl0) P0 (qenc du1 dw1 pl1) P1) out
  | KDvWtd wd du dw pl P tol out => qv_close tol (@dv_wtd QOps wd (qenc du dw pl) P) out
  | KOffMapperFunc m K du dw pl P cw tol out =>
      with_conv m K false (fun c => qm_close tol (@off_mapper_func QOps (qenc du dw pl) P cw (image_frames c)) out)
  | KDlfm m K cw du dw pl P tol dl out =>
      with_conv m K false (fun c =>
        let dl' := @data_linear_func_matrix QOps cw (image_frames c) in
        qm_close tol dl' dl && qm_close tol (@off_via_dlfm QOps dl' (qenc du dw pl) P) out)
  | KMappedUnique du dw pl r tol out => qv_close tol (@mapped_via_unique QOps (qenc du dw pl) r) out
  | KMappedMatrix B r tol out => qv_close tol (@mapped_via_matrix QOps B r) out
  | KCurvDenseW W M tol out => qm_close tol (@curv_dense_w QOps W M) out
  end.

(* ---- spec verdict on the implementation's output: conv_full, plain sums, no frames / preload / blocks ---- *)
Definition valid_dataset (m : mask) (K : qm) : bool := odd_kernel K && footprints_inside m K.
Definition is_symmetric (tol : Q) (F : qm) : bool := qm_close tol (@transpose QOps F) F.
Definition qmget := @mget QOps.
Definition total_P (objs : list (@lobj QOps)) : nat := length (unreg_flags objs).
(* M^T W M for dense W *)
Definition mtwm (M0 W M1 : qm) : qm := @dotTN QOps M0 (@dotNN QOps W M1).
Definition enc_shape_ok (du : list (list Z)) (dw : qm) (pl : list nat) (P : nat) : bool :=
  forallb (fun d => forallb (fun pw => Nat.ltb (fst pw) P) (@enc_row QOps (qenc du dw pl) d)) (seq 0 (length pl)).

(* the normal equations of the dataset that was passed in, from conv_full and plain sums; F symmetric *)
Definition inv_spec_ok (m : mask) (K : qm) (d s : qv) (objs : list qobj) (eps tol : Q) (B : qm) (D : qv) (F : qm) : bool :=
  let lo := map to_lobj objs in
  let sc := scales_of K d s objs eps in
  let Bs := @B_spec QOps m K lo in
  inv_close tol sc B D F Bs (@D_spec QOps Bs d s (total_P lo)) (@F_spec QOps Bs s (unreg_flags lo) eps)
  && qm_within tol (bF sc []) (@transpose QOps F) F.

Definition spec_ok (k : case) : bool :=
  match k with
  | KInv m K d s objs use eps tol B D F =>
      negb (valid_dataset m K) || inv_spec_ok m K d s objs eps tol B D F
  | KInvW m K d s sw objs use eps tol out =>
      negb (valid_dataset m K) ||
      (* the first noise value differs and the w-tilde class is used: must be refused; a w_tilde object made from the SAME
         noise map (whatever data that other dataset had): the normal equations of the data and noise map passed in; a
         stale object that passes the first-value test: no claim *)
      if use && negb (Qeq_bool (nth 0 s 0%Q) (nth 0 sw 0%Q)) then match out with None => true | Some _ => false end
      else if negb use || qv_eqb s sw then
        match out with Some (B, D, F) => inv_spec_ok m K d s objs eps tol B D F | None => false end
      else true
  | KSeq m K d s objs use eps tol H qs outs =>
      negb (valid_dataset m K) ||
      let lo := map to_lobj objs in
      let Bs := @B_spec QOps m K lo in
      let Ds := @D_spec QOps Bs d s (total_P lo) in
      let Fs := @F_spec QOps Bs s (unreg_flags lo) eps in
      routs_close tol (scales_of K d s objs eps) H qs (map (@rpure QOps lo Bs Ds Fs H) qs) outs
  | KMapped m K n objs use tol r out =>
      negb (valid_dataset m K) ||
      qv_within tol (fun _ => bMapped K objs r) out (@mapped_spec QOps (@B_spec QOps m K (map to_lobj objs)) r)
  | KDvBlurred B d s tol out => qv_close tol out (@D_spec QOps B d s (@ncols QOps B))
  | KCurvMapping B s add idx eps tol out =>
      let P := @ncols QOps B in
      qm_close tol out (@F_spec QOps B s (map (fun p => add && existsb (Nat.eqb p) idx) (seq 0 P)) eps)
      || negb (Nat.eqb (length (nodup Nat.eq_dec idx)) (length idx))
  | KAddDiag F v idx out =>
      qm_eqb out (map (fun i => map (fun j => if Nat.eqb i j then (qmget F i j + inject_Z (Z.of_nat (count_occ Nat.eq_dec idx i)) * v)%Q
                                              else qmget F i j) (seq 0 (length (nth i F [])))) (seq 0 (length F)))
  | KMirror C out =>
      let n := length C in
      qm_eqb out (map (fun a => map (fun b =>
          let lo := Nat.min a b in let hi := Nat.max a b in
          if Qeq_bool (qmget C lo hi) 0%Q then qmget C hi lo else qmget C lo hi) (seq 0 n)) (seq 0 n))
  | KWtData m K d s out =>
      negb (valid_dataset m K) ||
      let C := @C_spec QOps m K in let n := length C in
      qv_eqb out (map (fun k => fold_right Qplus 0%Q (map (fun i => (qmget C i k * nth i d 0%Q / (nth i s 0%Q * nth i s 0%Q))%Q) (seq 0 n))) (seq 0 n))
  | KWtDense m K s out => negb (valid_dataset m K) || qm_eqb out (@W_spec QOps m K s)
  | KPreload m K s pre idx lens =>
      negb (valid_dataset m K) ||
      (* the preload stands for the upper triangle (diagonal halved) of the overlap matrix, every non-zero kept *)
      let W := @W_spec QOps m K s in
      let n := length (unmasked m) in
      let rws := rows_of (combine idx pre) lens in
      Nat.eqb (length rws) n &&
      forallb (fun i0 => forallb (fun i1 =>
          let v := if Nat.eqb i0 i1 then (qmget W i0 i1 / 2)%Q else qmget W i0 i1 in
          Qeq_bool v (fold_right Qplus 0%Q (map snd (filter (fun iw => Nat.eqb (fst iw) i1) (nth i0 rws [])))))
        (seq i0 (n - i0))) (seq 0 n)
      && forallb (fun ir => forallb (fun iw => Nat.leb (fst ir) (fst iw)) (snd ir)) (combine (seq 0 (length rws)) rws)
  | KCurvPreload pre idx lens du dw pl P tol out =>
      negb (enc_shape_ok du dw pl P) ||
      (* the symmetric matrix the preload stands for *)
      let n := length lens in
      let rws := rows_of (combine idx pre) lens in
      let U := map (fun a => map (fun b => fold_right Qplus 0%Q (map snd (filter (fun iw => Nat.eqb (fst iw) b) (nth a rws [])))) (seq 0 n)) (seq 0 n) in
      let W := map (fun a => map (fun b => (qmget U a b + qmget U b a)%Q) (seq 0 n)) (seq 0 n) in
      let M := @enc_matrix QOps (qenc du dw pl) n P in
      qm_close tol out (mtwm M W M)
  | KOffPreload pre idx lens du0 dw0 pl0 P0 du1 dw1 pl1 P1 tol out =>
      negb (enc_shape_ok du0 dw0 pl0 P0 && enc_shape_ok du1 dw1 pl1 P1) ||
      let n := length lens in
      let rws := rows_of (combine idx pre) lens in
      let U := map (fun a => map (fun b => fold_right Qplus 0%Q (map snd (filter (fun iw => Nat.eqb (fst iw) b) (nth a rws [])))) (seq 0 n)) (seq 0 n) in
      qm_close tol out (mtwm (@enc_matrix QOps (qenc du0 dw0 pl0) n P0) U (@enc_matrix QOps (qenc du1 dw1 pl1) n P1))
  | KDvWtd wd du dw pl P tol out =>
      negb (enc_shape_ok du dw pl P) ||
      let M := @enc_matrix QOps (qenc du dw pl) (length wd) P in
      qv_close tol out (map (fun p => fold_right Qplus 0%Q (map (fun d => (qmget M d p * nth d wd 0%Q)%Q) (seq 0 (length wd)))) (seq 0 P))
  | KOffMapperFunc m K du dw pl P cw tol out =>
      negb (valid_dataset m K && enc_shape_ok du dw pl P) ||
      (* (C M)^T cw *)
      let n := length (unmasked m) in
      let BM := @dotNN QOps (@C_spec QOps m K) (@enc_matrix QOps (qenc du dw pl) n P) in
      qm_close tol out (@dotTN QOps BM cw)
  | KDlfm m K cw du dw pl P tol dl out =>
      negb (valid_dataset m K && enc_shape_ok du dw pl P) ||
      let n := length (unmasked m) in
      let BM := @dotNN QOps (@C_spec QOps m K) (@enc_matrix QOps (qenc du dw pl) n P) in
      qm_close tol dl (@dotTN QOps (@C_spec QOps m K) cw) && qm_close tol out (@dotTN QOps BM cw)
  | KMappedUnique du dw pl r tol out =>
      negb (enc_shape_ok du dw pl (length r)) ||
      qv_close tol out (@mapped_spec QOps (@enc_matrix QOps (qenc du dw pl) (length du) (length r)) r)
  | KMappedMatrix B r tol out => qv_close tol out (@mapped_spec QOps (map (firstn (length r)) B) r)
  | KCurvDenseW W M tol out => qm_close tol out (mtwm M W M)
  end.

Definition check (k : case) : nat := verdict (agree k) (spec_ok k).
