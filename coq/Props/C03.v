(* C03 -- Masked PSF blurring equals true 2-D convolution restricted to the mask.
   Statements only; every proof is [exact <lemma of Proofs/C03.v or Proofs/C03s.v>].  All theorems are about the executable
   model of Model/C03.v instantiated at the reals ([ROps]); the same Gallina terms are executed at exact
   rationals ([QOps]) against autoarray/operators/convolver.py by the correspondence run.
   Notation: [unmasked m] = the mask's pixels in slim (row-major) order; [bmask c] = the blurring mask built
   by the convolver; [combined m bm img bimg] = the native image holding img on the mask, bimg on the blurring
   region and zero elsewhere; [conv_full N K t] = sum_{a,b} K[a][b] * N(t + half - (a,b)) (flipped, centred
   kernel, N zero outside the frame). *)
From Coq Require Import ZArith Reals List Bool.
From PAV Require Import Base.Res Base.NumOps Base.Sum Model.C03 Model.C03Lib Proofs.C03 Proofs.C03s.
Import ListNotations.
Local Open Scope Z_scope.

(* ---- the slim index table: -1 at masked pixels, position in the slim order at unmasked pixels ---- *)
Theorem C03_mask_index_array_is_slim_position : forall m q d, rectb m = true -> inframe m q = true ->
  if getZ true m q then getZ (-1) (mask_index_array m) q = -1
  else 0 <= getZ (-1) (mask_index_array m) q /\
       (Z.to_nat (getZ (-1)%Z (mask_index_array m) q) < length (unmasked m))%nat /\
       nth (Z.to_nat (getZ (-1) (mask_index_array m) q)) (unmasked m) d = q.
Proof. exact midx_spec. Qed.

(* ---- T1: image + blurring image: every unmasked pixel gets the full convolution of the combined image ---- *)
Theorem C03_convolve_is_conv_full : forall m (K : list (list R)) c (img bimg : list R) k,
  rectb m = true -> @convolver_init ROps m K = Ok c ->
  length img = length (unmasked m) -> length bimg = length (unmasked (bmask c)) -> (k < length (unmasked m))%nat ->
  nth k (@convolve ROps c img bimg) 0%R =
  @conv_full ROps (@combined ROps m (bmask c) img bimg) K (nth k (unmasked m) (0, 0)).
Proof. exact convolve_is_conv_full. Qed.

(* the same as an equality of slim arrays, the blurring region given as a set (the form the correspondence
   run evaluates on the implementation's output) *)
Theorem C03_convolve_spec_form : forall m (K : list (list R)) c (img bimg : list R),
  rectb m = true -> @convolver_init ROps m K = Ok c ->
  length img = length (unmasked m) -> length bimg = length (unmasked (blur_region m (rows K / 2) (cols K / 2))) ->
  @convolve ROps c img bimg =
  map (@conv_full ROps (@combined ROps m (blur_region m (rows K / 2) (cols K / 2)) img bimg) K) (unmasked m).
Proof. exact convolve_spec_form. Qed.

(* the blurring mask built by the constructor is exactly: masked pixels within (kh/2, kw/2) of an unmasked one *)
Theorem C03_blurring_mask_is_region : forall m (K : list (list R)) c, @convolver_init ROps m K = Ok c ->
  bmask c = blur_region m (rows K / 2) (cols K / 2).
Proof. exact convolver_bmask_is_blur_region. Qed.

(* ---- T2: without a blurring image: convolution of the image that is zero outside the mask ---- *)
Theorem C03_no_blurring_is_conv_of_masked_image : forall m (K : list (list R)) c (img : list R) k,
  rectb m = true -> @convolver_init ROps m K = Ok c ->
  length img = length (unmasked m) -> (k < length (unmasked m))%nat ->
  nth k (@convolve_no_blurring ROps c img) 0%R =
  @conv_full ROps (@combined ROps m (bmask c) img []) K (nth k (unmasked m) (0, 0)).
Proof. exact no_blurring_is_conv_of_masked_image. Qed.

(* ---- T3: mapping matrix: every column is the operator applied to that column (any real entries: the
        skipped entries are exactly the zeros), hence the full convolution of each column; linearity ---- *)
Theorem C03_convolve_matrix_columnwise : forall c (M : list (list R)) j, (j < length (hd [] M))%nat ->
  @column ROps (@convolve_matrix ROps c M) j = @convolve_no_blurring ROps c (@column ROps M j).
Proof. exact convolve_matrix_columnwise. Qed.
Theorem C03_convolve_matrix_is_conv_full : forall m (K : list (list R)) c (M : list (list R)) j,
  rectb m = true -> @convolver_init ROps m K = Ok c ->
  length M = length (unmasked m) -> (j < length (hd [] M))%nat ->
  @column ROps (@convolve_matrix ROps c M) j =
  map (@conv_full ROps (@combined ROps m (bmask c) (@column ROps M j) []) K) (unmasked m).
Proof. exact convolve_matrix_is_conv_full. Qed.
Theorem C03_operator_is_linear : forall m (K : list (list R)) c a b (u v : list R),
  rectb m = true -> @convolver_init ROps m K = Ok c ->
  length u = length (unmasked m) -> length v = length (unmasked m) ->
  @convolve_no_blurring ROps c (@lincomb ROps a u b v) =
  @lincomb ROps a (@convolve_no_blurring ROps c u) b (@convolve_no_blurring ROps c v).
Proof. exact convolve_no_blurring_linear. Qed.

(* ---- T4: only the values on the mask and its blurring region enter ---- *)
Theorem C03_outside_irrelevant : forall m c (g1 g2 : list (list R)),
  (forall q, In q (unmasked m ++ unmasked (bmask c)) -> @img_fun ROps g1 q = @img_fun ROps g2 q) ->
  @convolve ROps c (@slim_of ROps g1 (unmasked m)) (@slim_of ROps g1 (unmasked (bmask c))) =
  @convolve ROps c (@slim_of ROps g2 (unmasked m)) (@slim_of ROps g2 (unmasked (bmask c))).
Proof. exact outside_irrelevant. Qed.

(* ---- T5: construction: even kernels rejected; otherwise MaskException iff a footprint leaves the frame ---- *)
Theorem C03_even_kernel_rejected : forall m (K : list (list R)),
  @convolver_init ROps m K = Raise KernelException <-> (rows K mod 2 = 0 \/ cols K mod 2 = 0).
Proof. exact even_kernel_rejected. Qed.
Theorem C03_footprint_outside_rejected : forall m (K : list (list R)), oddb (rows K) = true -> oddb (cols K) = true ->
  (@convolver_init ROps m K = Raise MaskException <-> footprints_in m (rows K) (cols K) = false).
Proof. exact footprint_outside_rejected. Qed.
Theorem C03_convolver_init_cases : forall m (K : list (list R)),
  match @convolver_init ROps m K with
  | Raise e => if oddb (rows K) && oddb (cols K) then footprints_in m (rows K) (cols K) = false /\ e = MaskException
               else e = KernelException
  | Ok c => oddb (rows K) && oddb (cols K) = true /\ footprints_in m (rows K) (cols K) = true /\
            n_image c = length (unmasked m) /\ length (blurring_frames c) = length (unmasked (bmask c))
  end.
Proof. exact convolver_init_cases. Qed.

(* ---- T6: the whole-frame convolution (scipy convolve2d(mode="same") contract = conv_full of the native
        image), slimmed by the mask, equals the masked convolution of the native image's values on the mask
        and on the blurring region -- whatever the native image holds elsewhere; zero residual ---- *)
Theorem C03_whole_frame_agrees : forall m (K : list (list R)) c (g : list (list R)),
  rectb m = true -> @convolver_init ROps m K = Ok c ->
  @convolved_array ROps m g K =
  @convolve ROps c (@slim_of ROps g (unmasked m)) (@slim_of ROps g (unmasked (bmask c))).
Proof. exact whole_frame_agrees. Qed.
Theorem C03_zero_residual : forall m (K : list (list R)) c (g : list (list R)) k,
  rectb m = true -> @convolver_init ROps m K = Ok c ->
  (nth k (@convolved_array ROps m g K) 0 -
   nth k (@convolve ROps c (@slim_of ROps g (unmasked m)) (@slim_of ROps g (unmasked (bmask c)))) 0 = 0)%R.
Proof. exact zero_residual. Qed.

(* the public method (own odd-kernel check, no footprint condition): even kernels rejected, otherwise the
   full convolution of the native image at the unmasked pixels; and it agrees with the convolver *)
Theorem C03_whole_frame_method : forall m (g : list (list R)) (K : list (list R)),
  @convolved_array_checked ROps m g K =
  if oddb (rows K) && oddb (cols K) then Ok (map (@conv_full ROps (@img_fun ROps g) K) (unmasked m))
  else Raise KernelException.
Proof. exact whole_checked_cases. Qed.
Theorem C03_whole_frame_method_agrees : forall m (K : list (list R)) c (g : list (list R)),
  rectb m = true -> @convolver_init ROps m K = Ok c ->
  @convolved_array_checked ROps m g K =
  Ok (@convolve ROps c (@slim_of ROps g (unmasked m)) (@slim_of ROps g (unmasked (bmask c)))).
Proof. exact whole_checked_agrees. Qed.

(* ---- T7: the noise-free simulator (SimulatorImaging.via_image_from with add_poisson_noise_to_data=False; model
        [simulate sky subtract normalize image K], [sim_psf] = the PSF the dataset carries, K / sum K when
        normalize_psf): even kernels are rejected; otherwise the data is, pixel by pixel over the whole frame, the true
        convolution of the image with that PSF, plus the sky level exactly when the sky is NOT subtracted -- for every
        background sky level (the sky added before the noise step is the sky subtracted afterwards) ---- *)
Theorem C03_simulated_data_is_whole_frame_convolution : forall (sky : R) subtract normalize (g K : list (list R)),
  rectb g = true ->
  @simulate ROps sky subtract normalize g K =
  if oddb (rows K) && oddb (cols K)
  then Ok (map (fun p => (@conv_full ROps (@img_fun ROps g) (@sim_psf ROps normalize K) p
                          + (if subtract then 0 else sky))%R) (all_px g))
  else Raise KernelException.
Proof. exact simulate_cases. Qed.
(* Imaging.apply_mask ([masked_data]: the whole-frame data read at the unmasked pixels) followed by the masked
   dataset's convolver: the image that generated a sky-subtracted noise-free simulation is fitted with zero residual *)
Theorem C03_simulated_masked_agrees : forall (sky : R) normalize (g K : list (list R)) data m c,
  rectb g = true -> rectb m = true -> same_shape g m = true ->
  @simulate ROps sky true normalize g K = Ok data ->
  @convolver_init ROps m (@sim_psf ROps normalize K) = Ok c ->
  @masked_data ROps _ g data m =
  @convolve ROps c (@slim_of ROps g (unmasked m)) (@slim_of ROps g (unmasked (bmask c))).
Proof. exact simulate_masked_agrees. Qed.
Theorem C03_simulated_zero_residual : forall (sky : R) normalize (g K : list (list R)) data m c k,
  rectb g = true -> rectb m = true -> same_shape g m = true ->
  @simulate ROps sky true normalize g K = Ok data ->
  @convolver_init ROps m (@sim_psf ROps normalize K) = Ok c ->
  (nth k (@masked_data ROps _ g data m) 0 -
   nth k (@convolve ROps c (@slim_of ROps g (unmasked m)) (@slim_of ROps g (unmasked (bmask c)))) 0 = 0)%R.
Proof. exact simulate_zero_residual. Qed.

(* ---- non-vacuity: a 4x5 frame, L-shaped mask of three pixels, asymmetric signed 3x3 kernel ---- *)
Definition ex_m : mask := [[true; true; true; true; true]; [true; false; false; true; true];
                           [true; true; false; true; true]; [true; true; true; true; true]].
Definition ex_K : list (list R) := [[1; 2; -3]; [4; 5; 6]; [-7; 8; 9]]%R.
Example C03_hyps_satisfiable :
  rectb ex_m = true /\ oddb (rows ex_K) = true /\ oddb (cols ex_K) = true /\ footprints_in ex_m (rows ex_K) (cols ex_K) = true /\
  unmasked ex_m = [(1, 1); (1, 2); (2, 2)] /\
  (exists c, @convolver_init ROps ex_m ex_K = Ok c /\
             unmasked (bmask c) = [(0,0);(0,1);(0,2);(0,3);(1,0);(1,3);(2,0);(2,1);(2,3);(3,1);(3,2);(3,3)]) /\
  footprints_in [[false; true]; [true; true]] 3 3 = false.
Proof.
  repeat split; try (vm_compute; reflexivity).
  pose proof (C03_convolver_init_cases ex_m ex_K) as H.
  destruct (@convolver_init ROps ex_m ex_K) as [c|e] eqn:E.
  - exists c. split; [reflexivity|]. rewrite (C03_blurring_mask_is_region ex_m ex_K c E). vm_compute. reflexivity.
  - exfalso. vm_compute in H. destruct H as [H _]. discriminate H.
Qed.

(* non-vacuity of T7: a 4x5 image, sky level 5, normalised and raw PSF, on the mask above *)
Definition ex_g : list (list R) := [[1; 2; 3; 4; 5]; [0; 1; 0; 2; 0]; [3; 0; -1; 0; 2]; [1; 1; 1; 1; 1]]%R.
Example C03_sim_hyps_satisfiable :
  rectb ex_g = true /\ same_shape ex_g ex_m = true /\
  (forall normalize, exists data, @simulate ROps 5%R true normalize ex_g ex_K = Ok data) /\
  (forall normalize, exists c, @convolver_init ROps ex_m (@sim_psf ROps normalize ex_K) = Ok c).
Proof.
  split; [vm_compute; reflexivity|]. split; [vm_compute; reflexivity|]. split.
  - intros normalize. rewrite C03_simulated_data_is_whole_frame_convolution by (vm_compute; reflexivity).
    replace (oddb (rows ex_K) && oddb (cols ex_K)) with true by (vm_compute; reflexivity). eexists. reflexivity.
  - intros normalize. pose proof (C03_convolver_init_cases ex_m (@sim_psf ROps normalize ex_K)) as H.
    destruct (@convolver_init ROps ex_m (@sim_psf ROps normalize ex_K)) as [c|e]; [now exists c|].
    exfalso. rewrite sim_psf_rows, sim_psf_cols in H. vm_compute in H. destruct H as [H _]. discriminate H.
Qed.

(* ---- T9: one-hot kernels (a single entry c at cell ab: unit shifts, basis kernels of the operator on the kernel side).
        [one_hot K ab c]: ab is a cell of K, K[ab] = c, every other cell is zero.  The true convolution is then the image
        shifted by (centre - ab) and scaled by c, at EVERY position ab -- so is the whole-frame method
        (Kernel2D.convolved_array(_with_mask)_from) and the masked Convolver; and a unit one-hot kernel leaves every image
        unchanged iff its entry sits at the centre ("one non-zero entry and sum 1" does not mean "no blur"). *)
Theorem C03_one_hot_kernel_is_shift : forall (N : px -> R) (K : list (list R)) ab c t,
  @one_hot ROps K ab c -> @conv_full ROps N K t = (c * N (@shift_src ROps K t ab))%R.
Proof. exact conv_full_one_hot. Qed.
Theorem C03_whole_frame_one_hot : forall m (g : list (list R)) (K : list (list R)) ab c,
  oddb (rows K) && oddb (cols K) = true -> @one_hot ROps K ab c ->
  @convolved_array_checked ROps m g K =
  Ok (map (fun t => (c * @img_fun ROps g (@shift_src ROps K t ab))%R) (unmasked m)).
Proof. exact whole_one_hot. Qed.
Theorem C03_convolver_one_hot : forall m (K : list (list R)) cv (img bimg : list R) ab c,
  rectb m = true -> @convolver_init ROps m K = Ok cv ->
  length img = length (unmasked m) -> length bimg = length (unmasked (bmask cv)) -> @one_hot ROps K ab c ->
  @convolve ROps cv img bimg =
  map (fun t => (c * @combined ROps m (bmask cv) img bimg (@shift_src ROps K t ab))%R) (unmasked m).
Proof. exact convolve_one_hot. Qed.
Theorem C03_unit_kernel_no_blur_iff_centred : forall (K : list (list R)) ab,
  @one_hot ROps K ab 1%R ->
  ((forall (N : px -> R) t, @conv_full ROps N K t = N t) <-> ab = (rows K / 2, cols K / 2)).
Proof. exact unit_kernel_identity_iff_centred. Qed.
(* non-vacuity: the 3x3 kernel with the 1 at [1,2] (off centre) is one-hot; with ex_m the convolver exists *)
Definition ex_shift : list (list R) := [[0; 0; 0]; [0; 0; 1]; [0; 0; 0]]%R.
Example C03_one_hot_satisfiable :
  @one_hot ROps ex_shift (1, 2) 1%R /\ oddb (rows ex_shift) && oddb (cols ex_shift) = true /\
  (1, 2) <> (rows ex_shift / 2, cols ex_shift / 2) /\ exists cv, @convolver_init ROps ex_m ex_shift = Ok cv.
Proof.
  split; [|split; [vm_compute; reflexivity|split; [vm_compute; discriminate|]]].
  - exact one_hot_example.
  - pose proof (C03_convolver_init_cases ex_m ex_shift) as H.
    destruct (@convolver_init ROps ex_m ex_shift) as [cv|e]; [now exists cv|].
    exfalso. vm_compute in H. destruct H as [H _]. discriminate H.
Qed.

Print Assumptions C03_mask_index_array_is_slim_position.
Print Assumptions C03_convolve_is_conv_full. Print Assumptions C03_convolve_spec_form.
Print Assumptions C03_blurring_mask_is_region. Print Assumptions C03_no_blurring_is_conv_of_masked_image.
Print Assumptions C03_convolve_matrix_columnwise. Print Assumptions C03_convolve_matrix_is_conv_full.
Print Assumptions C03_operator_is_linear. Print Assumptions C03_outside_irrelevant.
Print Assumptions C03_even_kernel_rejected. Print Assumptions C03_footprint_outside_rejected.
Print Assumptions C03_convolver_init_cases. Print Assumptions C03_whole_frame_agrees. Print Assumptions C03_zero_residual.
Print Assumptions C03_whole_frame_method. Print Assumptions C03_whole_frame_method_agrees.
Print Assumptions C03_simulated_data_is_whole_frame_convolution. Print Assumptions C03_simulated_masked_agrees.
Print Assumptions C03_simulated_zero_residual.
Print Assumptions C03_one_hot_kernel_is_shift. Print Assumptions C03_whole_frame_one_hot.
Print Assumptions C03_convolver_one_hot. Print Assumptions C03_unit_kernel_no_blur_iff_centred.
