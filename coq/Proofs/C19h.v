(* C19 -- lemmas about in-place writes, histories on one array object and whole layouts
   (model: Model/C19x.v [arun], [lay_rot], [lay_ext] on top of the GENERATED functions; spec: Model/C19.v). *)
From Coq Require Import ZArith List Bool Lia.
From PAV Require Import Base.Res Base.Check Gen.Gen_layout Model.C19 Model.C19x Proofs.C19.
Import ListNotations.
Local Open Scope Z_scope.

(* ---------- pixel-wise maps ---------- *)
Lemma mapi_from_ext {A B} (f g : Z -> A -> B) : forall (l : list A) k,
  (forall i x, k <= i -> In x l -> f i x = g i x) -> mapi_from k f l = mapi_from k g l.
Proof.
  induction l as [|y l IH]; intros k Hfg; cbn [mapi_from]; [reflexivity|].
  rewrite Hfg by (try lia; now left). f_equal. apply IH. intros i x Hi Hx. apply Hfg; [lia|now right].
Qed.

Lemma mapi_from_id {A} (f : Z -> A -> A) : forall (l : list A) k,
  (forall i x, k <= i -> f i x = x) -> mapi_from k f l = l.
Proof.
  induction l as [|y l IH]; intros k Hf; cbn [mapi_from]; [reflexivity|].
  rewrite Hf by lia. f_equal. apply IH. intros i x Hi. apply Hf; lia.
Qed.

Lemma mapi_from_length {A B} (f : Z -> A -> B) : forall (l : list A) k, length (mapi_from k f l) = length l.
Proof. induction l as [|y l IH]; intros k; cbn [mapi_from length]; [reflexivity|]. now rewrite IH. Qed.

(* ---------- the slice assignment is the pixel-wise assignment ---------- *)
Definition fill1n {A} (l : list A) (a b : nat) (f : A -> A) : list A :=
  firstn a l ++ map f (firstn (b - a) (skipn a l)) ++ skipn b l.

Lemma fill1_fill1n {A} (l : list A) a b f : 0 <= a <= b -> fill1 l a b f = fill1n l (Z.to_nat a) (Z.to_nat b) f.
Proof.
  intros Hab. unfold fill1, fill1n, slice1.
  now replace (Z.to_nat (b - a)) with (Z.to_nat b - Z.to_nat a)%nat by lia.
Qed.

Lemma fill1n_pointwise {A} (f : A -> A) : forall (l : list A) (a b : nat) k, (a <= b)%nat ->
  fill1n l a b f =
  mapi_from k (fun i x => if (k + Z.of_nat a <=? i) && (i <? k + Z.of_nat b) then f x else x) l.
Proof.
  induction l as [|y l IH]; intros a b k Hab.
  - unfold fill1n. now rewrite skipn_nil, !firstn_nil, skipn_nil.
  - destruct a as [|a'].
    + destruct b as [|b'].
      * unfold fill1n. cbn [firstn skipn Nat.sub map app].
        symmetry. apply mapi_from_id. intros i x Hi.
        destruct (Z.leb_spec (k + Z.of_nat 0) i); destruct (Z.ltb_spec i (k + Z.of_nat 0)); cbn [andb]; try reflexivity; lia.
      * unfold fill1n. cbn [firstn skipn Nat.sub map app mapi_from].
        replace ((k + Z.of_nat 0 <=? k) && (k <? k + Z.of_nat (S b'))) with true
          by (symmetry; apply andb_true_intro; split; [apply Z.leb_le|apply Z.ltb_lt]; lia).
        f_equal.
        specialize (IH 0%nat b' (k + 1) (Nat.le_0_l _)). unfold fill1n in IH.
        cbn [firstn skipn app] in IH. rewrite Nat.sub_0_r in IH. rewrite IH.
        apply mapi_from_ext. intros i x Hi _.
        replace (k + 1 + Z.of_nat 0 <=? i) with (k + Z.of_nat 0 <=? i)
          by (destruct (Z.leb_spec (k + Z.of_nat 0) i); destruct (Z.leb_spec (k + 1 + Z.of_nat 0) i); try reflexivity; lia).
        replace (i <? k + 1 + Z.of_nat b') with (i <? k + Z.of_nat (S b'))
          by (destruct (Z.ltb_spec i (k + Z.of_nat (S b'))); destruct (Z.ltb_spec i (k + 1 + Z.of_nat b')); try reflexivity; lia).
        reflexivity.
    + destruct b as [|b']; [lia|].
      unfold fill1n. cbn [firstn skipn Nat.sub app mapi_from].
      replace ((k + Z.of_nat (S a') <=? k) && (k <? k + Z.of_nat (S b'))) with false
        by (symmetry; apply andb_false_intro1; apply Z.leb_gt; lia).
      f_equal.
      specialize (IH a' b' (k + 1) ltac:(lia)). unfold fill1n in IH. rewrite IH.
      apply mapi_from_ext. intros i x Hi _.
      replace (k + 1 + Z.of_nat a' <=? i) with (k + Z.of_nat (S a') <=? i)
        by (destruct (Z.leb_spec (k + Z.of_nat (S a')) i); destruct (Z.leb_spec (k + 1 + Z.of_nat a') i); try reflexivity; lia).
      replace (i <? k + 1 + Z.of_nat b') with (i <? k + Z.of_nat (S b'))
        by (destruct (Z.ltb_spec i (k + Z.of_nat (S b'))); destruct (Z.ltb_spec i (k + 1 + Z.of_nat b')); try reflexivity; lia).
      reflexivity.
Qed.

Lemma fill1_pointwise {A} (f : A -> A) (l : list A) a b : 0 <= a <= b ->
  fill1 l a b f = mapi_from 0 (fun i x => if (a <=? i) && (i <? b) then f x else x) l.
Proof.
  intros Hab. rewrite fill1_fill1n by assumption.
  rewrite (fill1n_pointwise f l (Z.to_nat a) (Z.to_nat b) 0) by lia.
  apply mapi_from_ext. intros i x _ _. now rewrite !Z.add_0_l, !Z2Nat.id by lia.
Qed.

Lemma fill2_is_fill_spec {A} (m : list (list A)) (r : reg2) v :
  (let '(y0, y1, x0, x1) := r in 0 <= y0 <= y1 /\ 0 <= x0 <= x1) -> fill2 m r v = fill_spec m r v.
Proof.
  destruct r as [[[y0 y1] x0] x1]. intros [Hy Hx]. unfold fill2, fill_spec.
  rewrite fill1_pointwise by assumption.
  apply mapi_from_ext. intros i row _ _. unfold in_regb.
  destruct ((y0 <=? i) && (i <? y1)); cbn [andb].
  - now rewrite fill1_pointwise by assumption.
  - symmetry. now apply mapi_from_id.
Qed.

Lemma valid2b_bounds (r : reg2) : valid2b r = true -> let '(y0, y1, x0, x1) := r in 0 <= y0 <= y1 /\ 0 <= x0 <= x1.
Proof. destruct r as [[[y0 y1] x0] x1]. unfold valid2b. intros H. boolhyps. lia. Qed.
Lemma inside2b_valid s r : inside2b s r = true -> valid2b r = true.
Proof. destruct r as [[[y0 y1] x0] x1]. unfold inside2b. intros H. boolhyps. assumption. Qed.

Lemma fill2_valid_spec {A} (m : list (list A)) r v : valid2b r = true -> fill2 m r v = fill_spec m r v.
Proof. intros H. apply fill2_is_fill_spec. now apply valid2b_bounds. Qed.

(* the pixel-wise assignment keeps the shape *)
Lemma fill_spec_shape (m : list (list Z)) r v H W : rectb H W m = true -> rectb H W (fill_spec m r v) = true.
Proof.
  unfold rectb, fill_spec. intros E. boolhyps. rewrite mapi_from_length. apply andb_true_intro. split; [now apply Z.eqb_eq|].
  rewrite forallb_forall in H1 |- *.
  assert (G : forall (l : list (list Z)) k row,
            (forall x, In x l -> (Z.of_nat (length x) =? W) = true) ->
            In row (mapi_from k (fun i row0 => mapi_from 0 (fun j x => if in_regb r i j then v else x) row0) l) ->
            (Z.of_nat (length row) =? W) = true).
  { induction l as [|y l IH]; intros k row Hl Hin; cbn [mapi_from] in Hin; [destruct Hin|].
    destruct Hin as [<-|Hin].
    - rewrite mapi_from_length. apply Hl. now left.
    - eapply IH; [|exact Hin]. intros x Hx. apply Hl. now right. }
  intros row Hin. eapply G; eauto.
Qed.

(* ---------- writing through a region and rotating commute ---------- *)
Lemma fill1_rev {A} (l : list A) a b n f :
  Z.of_nat (length l) = n -> 0 <= a <= b -> b <= n ->
  rev (fill1 l a b f) = fill1 (rev l) (n - b) (n - a) f.
Proof.
  intros Hn Hab Hb. unfold fill1.
  rewrite (slice1_rev l a b n) by assumption.
  rewrite !rev_app_distr, <- app_assoc, map_rev.
  rewrite firstn_rev, skipn_rev.
  replace (length l - Z.to_nat (n - b))%nat with (Z.to_nat b) by lia.
  replace (length l - Z.to_nat (n - a))%nat with (Z.to_nat a) by lia.
  reflexivity.
Qed.

Lemma fill1_map {A} (h : A -> A) (g g' : A -> A) (l : list A) a b :
  (forall x, In x l -> h (g x) = g' (h x)) -> map h (fill1 l a b g) = fill1 (map h l) a b g'.
Proof.
  intros Hc. unfold fill1. rewrite !map_app, firstn_map, skipn_map, slice1_map, !map_map.
  f_equal. f_equal. apply map_ext_in. intros x Hx. apply Hc. eapply slice1_In; eauto.
Qed.

Lemma fill2_flip_rows {A} (m : list (list A)) H y0 y1 x0 x1 v :
  Z.of_nat (length m) = H -> 0 <= y0 <= y1 -> y1 <= H ->
  rev (fill2 m (y0, y1, x0, x1) v) = fill2 (rev m) (H - y1, H - y0, x0, x1) v.
Proof. intros. unfold fill2. now apply fill1_rev. Qed.

Lemma fill2_flip_cols {A} (m : list (list A)) W y0 y1 x0 x1 v :
  (forall row, In row m -> Z.of_nat (length row) = W) -> 0 <= x0 <= x1 -> x1 <= W ->
  map (@rev A) (fill2 m (y0, y1, x0, x1) v) = fill2 (map (@rev A) m) (y0, y1, W - x1, W - x0) v.
Proof.
  intros Hrows Hx Hw. unfold fill2. apply fill1_map.
  intros row Hin. apply fill1_rev; auto.
Qed.

Lemma write_rotate_commute {A} (m : list (list A)) H W (r : reg2) c v :
  rectb H W m = true -> inside2b (H, W) r = true -> cornerb c = true ->
  rot_array_spec (fill2 m r v) c = fill2 (rot_array_spec m c) (rot_region_spec r (H, W) c) v.
Proof.
  intros Hrect Hin Hc. destruct (rectb_rows _ _ _ Hrect) as [Hlen Hrows].
  destruct r as [[[y0 y1] x0] x1], c as [a b].
  unfold inside2b, valid2b, cornerb in *. cbn [fst snd] in *. boolhyps.
  unfold rot_array_spec, rot_region_spec. cbn [fst snd].
  assert (Hrows' : forall row, In row (rev m) -> Z.of_nat (length row) = W)
    by (intros row Hr; apply Hrows; now apply in_rev).
  destruct (a =? 0); destruct (b =? 1).
  - rewrite (fill2_flip_rows m H) by (auto; lia).
    now rewrite (fill2_flip_cols (rev m) W) by (auto; lia).
  - now rewrite (fill2_flip_rows m H) by (auto; lia).
  - now rewrite (fill2_flip_cols m W) by (auto; lia).
  - reflexivity.
Qed.

(* reading back the written region gives the written value everywhere; rows / columns are those of the region *)
Lemma slice1_fill1_same {A} (l : list A) a b f :
  0 <= a <= b -> b <= Z.of_nat (length l) -> slice1 (fill1 l a b f) a b = map f (slice1 l a b).
Proof.
  intros Hab Hb. unfold fill1 at 1. unfold slice1 at 1.
  assert (L1 : length (firstn (Z.to_nat a) l) = Z.to_nat a) by (rewrite firstn_length_le; lia).
  rewrite skipn_app, L1, Nat.sub_diag. cbn [skipn].
  rewrite (skipn_all2 (firstn (Z.to_nat a) l)) by lia. cbn [app].
  assert (L2 : length (map f (slice1 l a b)) = Z.to_nat (b - a)).
  { rewrite map_length. unfold slice1. rewrite firstn_length_le; [reflexivity|]. rewrite skipn_length. lia. }
  rewrite firstn_app, L2, Nat.sub_diag. cbn [firstn]. rewrite app_nil_r.
  rewrite firstn_all2 by lia. reflexivity.
Qed.

Lemma slice2_fill2_same {A} (m : list (list A)) H W (r : reg2) v :
  rectb H W m = true -> inside2b (H, W) r = true ->
  slice2 (fill2 m r v) r = map (map (fun _ => v)) (slice2 m r).
Proof.
  intros Hrect Hin. destruct (rectb_rows _ _ _ Hrect) as [Hlen Hrows].
  destruct r as [[[y0 y1] x0] x1]. unfold inside2b, valid2b in Hin. cbn [fst snd] in Hin. boolhyps.
  unfold slice2, fill2. rewrite slice1_fill1_same by lia. rewrite !map_map.
  apply map_ext_in. intros row Hrow. apply slice1_fill1_same; [lia|].
  rewrite (Hrows row) by (eapply slice1_In; eauto). lia.
Qed.

(* ---------- reflexivity of the boolean equalities ---------- *)
Lemma list_eqb_refl {A} (eqb : A -> A -> bool) : (forall x, eqb x x = true) -> forall l, list_eqb eqb l l = true.
Proof. intros He. induction l as [|x l IH]; cbn [list_eqb]; [reflexivity|]. now rewrite He, IH. Qed.
Lemma arr_eqb_refl m : arr_eqb m m = true.
Proof. apply list_eqb_refl. apply list_eqb_refl. apply Z.eqb_refl. Qed.
Lemma oarr_eqb_refl o : oarr_eqb o o = true.
Proof. destruct o; cbn; [apply arr_eqb_refl|reflexivity]. Qed.
Lemma reg1_eqb_refl r : reg1_eqb r r = true.
Proof. unfold reg1_eqb. now rewrite !Z.eqb_refl. Qed.
Lemma reg2_eqb_refl r : reg2_eqb r r = true.
Proof. destruct r as [[[a b] c] d]. unfold reg2_eqb. now rewrite !Z.eqb_refl. Qed.

(* ---------- histories on one array object ---------- *)
(* the contents / corner the MODEL holds after a prefix of the history *)
Definition mwrites (pre : list astep) (m : list (list Z)) : list (list Z) :=
  fold_left (fun m s => match s with AWrite r v => fill2 m r v | _ => m end) pre m.
(* number of observations made by a prefix *)
Fixpoint nobs (pre : list astep) : nat :=
  match pre with
  | [] => 0
  | (ARead | ASlice _ | AEditOut _ _ | ALast) :: t => S (nobs t)
  | (AWrite _ _ | ACorner _ | ADerive) :: t => nobs t
  end.

(* whatever happened before (reads, edits of returned arrays, copies, earlier writes): a read returns the rotation
   of the CURRENT contents for the CURRENT corner, and nothing else *)
Lemma hist_read_current : forall pre post m c last,
  nth_error (arun (pre ++ ARead :: post) m c last) (nobs pre) =
  Some (rotate_array_via_roe_corner_from (mwrites pre m) (acorner pre c)).
Proof.
  induction pre as [|s pre IH]; intros post m c last.
  - reflexivity.
  - destruct s; cbn [app arun nobs nth_error mwrites acorner fold_left]; apply IH.
Qed.

Lemma hist_slice_current : forall pre post r m c last,
  nth_error (arun (pre ++ ASlice r :: post) m c last) (nobs pre) = Some (Some (slice2 (mwrites pre m) r)).
Proof.
  induction pre as [|s pre IH]; intros post r m c last.
  - reflexivity.
  - destruct s; cbn [app arun nobs nth_error mwrites fold_left]; apply IH.
Qed.

(* on histories whose regions are valid the model's contents are the specification's contents *)
Lemma mwrites_awrites s : forall pre m, forallb (astep_okb s) pre = true -> mwrites pre m = awrites pre m.
Proof.
  induction pre as [|st pre IH]; intros m Hok; [reflexivity|].
  cbn [forallb] in Hok. apply andb_prop in Hok. destruct Hok as [Hst Hpre].
  unfold mwrites, awrites in *. cbn [fold_left].
  destruct st; try (apply IH; assumption).
  cbn [astep_okb] in Hst. rewrite (fill2_valid_spec m r v) by (eapply inside2b_valid; eauto). now apply IH.
Qed.

Lemma awrites_app pre s m : awrites (pre ++ [s]) m = match s with AWrite r v => fill_spec (awrites pre m) r v | _ => awrites pre m end.
Proof. unfold awrites. now rewrite fold_left_app. Qed.
Lemma acorner_app pre s c : acorner (pre ++ [s]) c = match s with ACorner c' => c' | _ => acorner pre c end.
Proof. unfold acorner. now rewrite fold_left_app. Qed.

Lemma firstn_length_app {A} (pre rest : list A) : firstn (length pre) (pre ++ rest) = pre.
Proof. rewrite firstn_app, Nat.sub_diag, firstn_all. cbn [firstn]. apply app_nil_r. Qed.

(* the specification of histories accepts everything the model returns *)
Lemma hist_model_meets_spec_gen s m0 c0 : forall rest pre prev,
  forallb (astep_okb s) (pre ++ rest) = true -> cornerb (acorner pre c0) = true ->
  aspec_from (pre ++ rest) (length pre) rest m0 c0 prev
             (arun rest (awrites pre m0) (acorner pre c0) prev) = true.
Proof.
  induction rest as [|st rest IH]; intros pre prev Hok Hc; [reflexivity|].
  assert (Hstep : astep_okb s st = true).
  { rewrite forallb_app in Hok. apply andb_prop in Hok. destruct Hok as [_ Hok]. cbn [forallb] in Hok.
    now apply andb_prop in Hok. }
  assert (Hall : pre ++ st :: rest = (pre ++ [st]) ++ rest) by (now rewrite <- app_assoc).
  assert (Hlen : S (length pre) = length (pre ++ [st])) by (rewrite app_length; cbn; lia).
  cbn [aspec_from]. rewrite firstn_length_app.
  destruct st; cbn [arun].
  - (* ARead *)
    rewrite (rot_array_ok _ _ Hc), oarr_eqb_refl. cbn [andb].
    rewrite Hall, Hlen.
    replace (awrites pre m0) with (awrites (pre ++ [ARead]) m0) by apply awrites_app.
    replace (acorner pre c0) with (acorner (pre ++ [ARead]) c0) at 2 by apply acorner_app.
    apply IH; [now rewrite <- Hall | now rewrite acorner_app].
  - (* ASlice *)
    rewrite oarr_eqb_refl. cbn [andb]. rewrite Hall, Hlen.
    replace (awrites pre m0) with (awrites (pre ++ [ASlice r]) m0) by apply awrites_app.
    replace (acorner pre c0) with (acorner (pre ++ [ASlice r]) c0) by apply acorner_app.
    apply IH; [now rewrite <- Hall | now rewrite acorner_app].
  - (* AWrite *)
    rewrite Hall, Hlen.
    cbn [astep_okb] in Hstep.
    rewrite (fill2_valid_spec _ r v) by (eapply inside2b_valid; eauto).
    replace (fill_spec (awrites pre m0) r v) with (awrites (pre ++ [AWrite r v]) m0) by apply awrites_app.
    replace (acorner pre c0) with (acorner (pre ++ [AWrite r v]) c0) by apply acorner_app.
    apply IH; [now rewrite <- Hall | now rewrite acorner_app].
  - (* AEditOut *)
    cbn [astep_okb] in Hstep.
    destruct prev as [a|]; cbn [option_map].
    + destruct (inside2b (shape_of a) r); [|reflexivity].
      rewrite (fill2_valid_spec a r v) by assumption. rewrite oarr_eqb_refl. cbn [andb].
      rewrite Hall, Hlen.
      replace (awrites pre m0) with (awrites (pre ++ [AEditOut r v]) m0) by apply awrites_app.
      replace (acorner pre c0) with (acorner (pre ++ [AEditOut r v]) c0) by apply acorner_app.
      apply IH; [now rewrite <- Hall | now rewrite acorner_app].
    + cbn [oarr_eqb option_eqb andb]. rewrite Hall, Hlen.
      replace (awrites pre m0) with (awrites (pre ++ [AEditOut r v]) m0) by apply awrites_app.
      replace (acorner pre c0) with (acorner (pre ++ [AEditOut r v]) c0) by apply acorner_app.
      apply IH; [now rewrite <- Hall | now rewrite acorner_app].
  - (* ALast *)
    rewrite oarr_eqb_refl. cbn [andb]. rewrite Hall, Hlen.
    replace (awrites pre m0) with (awrites (pre ++ [ALast]) m0) by apply awrites_app.
    replace (acorner pre c0) with (acorner (pre ++ [ALast]) c0) by apply acorner_app.
    apply IH; [now rewrite <- Hall | now rewrite acorner_app].
  - (* ACorner *)
    rewrite Hall, Hlen. cbn [astep_okb] in Hstep.
    specialize (IH (pre ++ [ACorner c]) prev). rewrite awrites_app, acorner_app in IH.
    apply IH; [now rewrite <- Hall | assumption].
  - (* ADerive *)
    rewrite Hall, Hlen.
    replace (awrites pre m0) with (awrites (pre ++ [ADerive]) m0) by apply awrites_app.
    replace (acorner pre c0) with (acorner (pre ++ [ADerive]) c0) by apply acorner_app.
    apply IH; [now rewrite <- Hall | now rewrite acorner_app].
Qed.

Lemma hist_model_meets_spec m0 c0 steps :
  ahist_okb m0 c0 steps = true -> aspec_from steps 0 steps m0 c0 None (arun steps m0 c0 None) = true.
Proof.
  unfold ahist_okb. intros H. boolhyps.
  apply (hist_model_meets_spec_gen (shape_of m0) m0 c0 steps [] None); assumption.
Qed.

(* ---------- whole layouts ---------- *)
Lemma rot_region_opt_ok (o : option reg2) s c :
  oforall (inside2b s) o = true -> cornerb c = true ->
  rotate_region_via_roe_corner_from o s c = Ok (option_map (fun r => rot_region_spec r s c) o).
Proof. destruct o as [r|]; intros Hi Hc; [now apply rot_region_ok|reflexivity]. Qed.

Lemma lay_rot_ok (l : layout) c :
  lay_insideb l = true -> cornerb c = true -> lay_rot l c = Ok (lay_rot_spec l c).
Proof.
  destruct l as [[[[s c0] po] sp] so]. unfold lay_insideb, lay_rot, lay_rot_spec. intros H Hc. boolhyps.
  rewrite !rot_region_opt_ok by assumption. reflexivity.
Qed.

Lemma ext_opt_ok (o : option reg2) e :
  oforall valid2b o = true -> valid2b e = true ->
  region_after_extraction o e = Ok (obind o (fun r => overlap2 r e)).
Proof. destruct o as [r|]; intros Ho He; [now apply extraction_is_overlap|reflexivity]. Qed.

Lemma lay_ext_ok (l : layout) e :
  lay_validb l = true -> valid2b e = true -> lay_ext l e = Ok (lay_ext_spec l e).
Proof.
  destruct l as [[[[s c0] po] sp] so]. unfold lay_validb, lay_ext, lay_ext_spec. intros H He. boolhyps.
  rewrite !ext_opt_ok by assumption. reflexivity.
Qed.

Lemma oforall_rot s c (o : option reg2) :
  oforall (inside2b s) o = true -> oforall (inside2b s) (option_map (fun r => rot_region_spec r s c) o) = true.
Proof. destruct o as [r|]; cbn; [apply rot_region_inside|reflexivity]. Qed.

Lemma lay_rot_inside (l : layout) c : lay_insideb l = true -> lay_insideb (lay_rot_spec l c) = true.
Proof.
  destruct l as [[[[s c0] po] sp] so]. unfold lay_insideb, lay_rot_spec. intros H. boolhyps.
  now rewrite !oforall_rot by assumption.
Qed.

Lemma lay_rot_twice (l : layout) c :
  lay_rot_spec (lay_rot_spec l c) c = let '(s, c0, po, sp, so) := l in (s, c, po, sp, so).
Proof.
  destruct l as [[[[s c0] po] sp] so]. unfold lay_rot_spec.
  assert (G : forall o : option reg2,
            option_map (fun r => rot_region_spec r s c) (option_map (fun r => rot_region_spec r s c) o) = o)
    by (intros [r|]; cbn; [now rewrite rot_region_involutive|reflexivity]).
  now rewrite !G.
Qed.

Lemma lay_rot_twice_model (l : layout) c :
  lay_insideb l = true -> cornerb c = true ->
  rbind (lay_rot l c) (fun l' => lay_rot l' c) = Ok (let '(s, c0, po, sp, so) := l in (s, c, po, sp, so)).
Proof.
  intros Hi Hc. rewrite (lay_rot_ok l c Hi Hc). cbn [rbind].
  rewrite (lay_rot_ok _ c (lay_rot_inside l c Hi) Hc). now rewrite lay_rot_twice.
Qed.

(* ---------- phase 3: read-only attributes, lists of regions ---------- *)
Lemma props1_ok (s : reg1) : props1 s = props1_spec s.
Proof. destruct s as [a b]. reflexivity. Qed.
Lemma props2_ok (s : reg2) (p : reg1) : props2 s p = props2_spec s p.
Proof. destruct s as [[[y0 y1] x0] x1]. destruct p as [a b]. reflexivity. Qed.
Lemma pat_rot_ok (rs : list (option reg2)) s c :
  forallb (oforall (inside2b s)) rs = true -> cornerb c = true -> pat_rot rs s c = Ok (pat_rot_spec rs s c).
Proof.
  intros H Hc. unfold pat_rot, pat_rot_spec. induction rs as [|r rs IH]; [reflexivity|].
  cbn [forallb] in H. apply andb_prop in H. destruct H as [Hr Hrs].
  cbn [mapM_res map]. rewrite rot_region_opt_ok by assumption. cbn [rbind]. rewrite IH by assumption. reflexivity.
Qed.
Lemma pat_rot_twice (rs : list (option reg2)) s c :
  forallb (oforall (inside2b s)) rs = true -> cornerb c = true ->
  rbind (pat_rot rs s c) (fun rs' => pat_rot rs' s c) = Ok rs.
Proof.
  intros H Hc. rewrite pat_rot_ok by assumption. cbn [rbind].
  assert (Hin : forallb (oforall (inside2b s)) (pat_rot_spec rs s c) = true).
  { unfold pat_rot_spec. rewrite forallb_forall in *. intros o Ho. apply in_map_iff in Ho. destruct Ho as [o' [<- Ho']].
    specialize (H o' Ho'). destruct o' as [r|]; [|reflexivity]. cbn [option_map oforall] in *. now apply rot_region_inside. }
  rewrite pat_rot_ok by assumption. f_equal. unfold pat_rot_spec. rewrite map_map.
  rewrite <- (map_id rs) at 2. apply map_ext. intros [r|]; [|reflexivity]. cbn [option_map]. now rewrite rot_region_involutive.
Qed.
