(* C04, part 2 -- the three facts about the convolver built by Convolver.__init__ (model C03) that Proofs/C04.v takes as
   hypotheses, proved from the characterisation of mask_index_array / frame_at_coordinates in Proofs/C03.v:
     frames_ok      every scatter target of every image frame is a slim index < n
     wd_is_adjoint  w_tilde_data_imaging_from            = C^T N^-1 d
     W_is_overlap   w_tilde_curvature_(value/imaging)_from = C^T N^-1 C
   with C = Cop c, the operator carried by the frames.  Then the full (hypothesis-free) forms of the theorems. *)
From Coq Require Import ZArith Reals Lra Lia List Bool Arith ZifyBool.
From PAV Require Import Base.Res Base.NumOps Base.Sum Model.C03 Model.C03Lib Model.C04 Model.C04Lib.
From PAV Require Proofs.C03.
From PAV Require Import Proofs.C04.
Import ListNotations.
Local Open Scope R_scope.
Module P3 := PAV.Proofs.C03.

Notation RK := (list (list R)).
Ltac foldU := repeat match goal with |- context [@nth ?A ?k (unmasked ?m) (0%Z, 0%Z)] =>
  change (@nth A k (unmasked m) (0%Z, 0%Z)) with (Uat m k) end.

(* ================================================================== 1. frames_ok *)
Theorem init_frames_ok m (K : RK) c : rectb m = true -> @convolver_init ROps m K = Ok c ->
  frames_ok c (length (unmasked m)).
Proof.
  intros R Hc. destruct (P3.init_ok_inv m K c Hc) as (_ & _ & _ & HI & _). split.
  - rewrite HI. apply map_length.
  - intros s tk Hin. rewrite HI in Hin.
    destruct (lt_dec s (length (unmasked m))) as [L|L].
    + rewrite (P3.nth_map_lt _ _ _ (0%Z, 0%Z)) in Hin by exact L.
      pose proof (P3.frame_targets m K (nth s (unmasked m) (0%Z, 0%Z)) R) as F. rewrite Forall_forall in F. now apply F.
    + rewrite nth_overflow in Hin by (rewrite map_length; lia). contradiction.
Qed.

(* ================================================================== 2. the entries of the frame operator *)
Lemma map_scale_one (l : list (nat * R)) : map (P3.scale 1) l = l.
Proof.
  induction l as [|[i v] l IH]; [reflexivity|]. cbn [map]. rewrite IH. unfold P3.scale. cbn [fst snd]. now rewrite Rmult_1_l.
Qed.

(* Cop c i s = sum over the kernel cells that send pixel s onto pixel i *)
Lemma Cop_cells m (K : RK) c i s : rectb m = true -> @convolver_init ROps m K = Ok c ->
  (i < length (unmasked m))%nat -> (s < length (unmasked m))%nat ->
  Cop c i s = sumR (map (fun ij => if px_eqb (P3.tgt K (Uat m s) ij) (Uat m i) then P3.kval K ij else 0) (P3.kcells K)).
Proof.
  intros R Hc Hi Hs. destruct (P3.init_ok_inv m K c Hc) as (_ & _ & _ & HI & _).
  unfold Cop. rewrite HI. rewrite (P3.nth_map_lt _ _ _ (0%Z, 0%Z)) by exact Hs.
  match goal with |- context [hits i ?l] => rewrite <- (map_scale_one l) end.
  rewrite P3.frame_hits by assumption. apply sumR_map_ext. intros ij _. unfold Uat.
  destruct (px_eqb _ _); lra.
Qed.

Lemma Uat_eqb m i j : (i < length (unmasked m))%nat -> (j < length (unmasked m))%nat ->
  px_eqb (Uat m i) (Uat m j) = Nat.eqb i j.
Proof.
  intros Hi Hj. destruct (Nat.eqb i j) eqn:E.
  - apply Nat.eqb_eq in E. subst. apply P3.px_eqb_refl.
  - apply P3.px_eqb_neq. intros H. apply Nat.eqb_neq in E. apply E.
    apply (proj1 (NoDup_nth (unmasked m) (0%Z, 0%Z)) (P3.NoDup_unmasked m)); auto.
Qed.

(* the value [f i] filed under the native pixel [q] when q is the i-th unmasked pixel, 0 when q is masked / outside *)
Definition pick (m : mask) (f : nat -> R) (q : px) : R :=
  sumR (map (fun i => if px_eqb q (Uat m i) then f i else 0) (seq 0 (length (unmasked m)))).
Lemma pick_at m f i : (i < length (unmasked m))%nat -> pick m f (Uat m i) = f i.
Proof.
  intros Hi. unfold pick.
  transitivity (sumR (map (fun x => if Nat.eqb x i then f x else 0) (seq 0 (length (unmasked m))))).
  - apply sumR_map_ext. intros x Hx. apply in_seq in Hx. rewrite Uat_eqb by lia. now rewrite Nat.eqb_sym.
  - apply sumR_seq_pick. lia.
Qed.
Lemma pick_notin m f q : ~ In q (unmasked m) -> pick m f q = 0.
Proof.
  intros H. apply sumR_map_zero. intros i Hi. apply in_seq in Hi. destruct (px_eqb q (Uat m i)) eqn:E; auto.
  apply P3.px_eqb_eq in E. exfalso. apply H. subst q. apply nth_In. lia.
Qed.

(* sum_i Cop c i k * f i, gathered along the frame of pixel k *)
Lemma Cop_sum m (K : RK) c (f : nat -> R) k : rectb m = true -> @convolver_init ROps m K = Ok c ->
  (k < length (unmasked m))%nat ->
  sumR (map (fun i => Cop c i k * f i) (seq 0 (length (unmasked m)))) =
  sumR (map (fun ij => P3.kval K ij * pick m f (P3.tgt K (Uat m k) ij)) (P3.kcells K)).
Proof.
  intros R Hc Hk.
  transitivity (sumR (map (fun i => sumR (map (fun ij =>
      (if px_eqb (P3.tgt K (Uat m k) ij) (Uat m i) then P3.kval K ij else 0) * f i) (P3.kcells K))) (seq 0 (length (unmasked m))))).
  - apply sumR_map_ext. intros i Hi. apply in_seq in Hi. rewrite (Cop_cells m K c i k) by (auto; lia).
    now rewrite sumR_map_mul_l.
  - rewrite (sumR_swap (fun i ij => (if px_eqb (P3.tgt K (Uat m k) ij) (Uat m i) then P3.kval K ij else 0) * f i)).
    apply sumR_map_ext. intros ij _. unfold pick. rewrite <- sumR_map_scal.
    apply sumR_map_ext. intros i _. destruct (px_eqb _ _); lra.
Qed.

(* the slim -> native view reads back the slim value *)
Lemma lookup_nth (ps : list px) d : NoDup ps -> forall (v : list R) i, (i < length ps)%nat -> length v = length ps ->
  @lookup ROps ps v (nth i ps d) = nth i v 0.
Proof.
  induction 1 as [|p ps Hn Hd IH]; intros v i Hi Hl; [cbn in Hi; lia|].
  destruct v as [|a v]; [discriminate|]. cbn [lookup]. destruct i as [|i]; cbn [nth].
  - now rewrite P3.px_eqb_refl.
  - destruct (px_eqb p (nth i ps d)) eqn:E.
    + apply P3.px_eqb_eq in E. exfalso. apply Hn. rewrite E. apply nth_In. cbn in Hi. lia.
    + apply IH; cbn in *; lia.
Qed.
Lemma native_at m (v : list R) i : (i < length (unmasked m))%nat -> length v = length (unmasked m) ->
  @native ROps m v (Uat m i) = nth i v 0.
Proof. intros. unfold native, Uat. apply lookup_nth; auto. apply P3.NoDup_unmasked. Qed.
Lemma native_out m (v : list R) q : ~ In q (unmasked m) -> @native ROps m v q = 0.
Proof. intros. unfold native. now apply P3.lookup_notin. Qed.
Lemma unmasked_cases m q : (exists i, (i < length (unmasked m))%nat /\ q = Uat m i) \/ ~ In q (unmasked m).
Proof.
  destruct (mz m q) eqn:E.
  - right. rewrite P3.in_unmasked. congruence.
  - left. apply P3.in_unmasked in E. apply (In_nth _ _ (0%Z, 0%Z)) in E. destruct E as [i [Hi E]]. exists i. split; auto.
Qed.

(* a double loop over the kernel cells as one sum over [kcells] *)
Lemma sumR_cells (K : RK) (G : Z -> Z -> list R) :
  sumR (flat_map (fun a => flat_map (fun b => G a b) (seqZ 0 (cols K))) (seqZ 0 (rows K))) =
  sumR (map (fun ij => sumR (G (fst ij) (snd ij))) (P3.kcells K)).
Proof. rewrite (P3.flat_prod G). unfold P3.kcells. now rewrite P3.sumR_flat_map. Qed.

(* ================================================================== 3. w_tilde_data_imaging_from = C^T N^-1 d *)
Lemma wt_data_value_cells (img noise : px -> R) (K : RK) p :
  @wt_data_value ROps img noise K p =
  sumR (map (fun ij => let q := P3.tgt K p ij in
                       if Reqb (noise q) 0 then 0 else P3.kval K ij * (img q / (noise q * noise q))) (P3.kcells K)).
Proof.
  unfold wt_data_value. cbv zeta. rewrite sumT_sumR. rfix.
  rewrite sumR_cells.
  apply sumR_map_ext. intros [ky kx] _. cbn [fst snd].
  replace (fst p + ky + - (rows K / 2), snd p + kx + - (cols K / 2))%Z with (P3.tgt K p (ky, kx))
    by (unfold P3.tgt; cbn [fst snd]; f_equal; lia).
  runfold. destruct (Reqb (noise (P3.tgt K p (ky, kx))) 0); cbn [sumR]; [reflexivity|].
  unfold kat, P3.kval. lra.
Qed.

Theorem wt_data_is_adjoint m (K : RK) c (d s : list R) : rectb m = true -> @convolver_init ROps m K = Ok c ->
  length d = length (unmasked m) -> length s = length (unmasked m) ->
  (forall i, (i < length (unmasked m))%nat -> nth i s 0 <> 0) ->
  wd_is_adjoint c d s (@wt_data ROps (@native ROps m d) (@native ROps m s) K (unmasked m)) (length (unmasked m)).
Proof.
  intros R Hc Hd Hs Hnz k Hk. unfold wt_data. rewrite (P3.nth_map_lt _ _ _ (0%Z, 0%Z)) by exact Hk. foldU.
  rewrite (Cop_sum m K c (fun i => nth i d 0 / (nth i s 0 * nth i s 0)) k) by assumption.
  rewrite wt_data_value_cells. apply sumR_map_ext. intros ij _. cbv zeta.
  destruct (unmasked_cases m (P3.tgt K (Uat m k) ij)) as [[i [Hi ->]]|Hout].
  - rewrite pick_at, !native_at by assumption.
    destruct (Reqb (nth i s 0) 0) eqn:E; [apply Reqb_true in E; exfalso; now apply (Hnz i)|]. reflexivity.
  - rewrite pick_notin, !native_out by exact Hout.
    destruct (Reqb 0 0) eqn:E; [lra | apply Reqb_false in E; lra].
Qed.

(* ================================================================== 4. w_tilde_curvature_value_from = (C^T N^-1 C)[d0][d1] *)
Lemma existsb_kcells (K : RK) x : existsb (fun s => px_eqb s x) (P3.kcells K) = inrange K x.
Proof.
  apply eq_iff_eq_true. rewrite existsb_exists. split.
  - intros [y [Hy E]]. apply P3.px_eqb_eq in E. subst y. apply P3.in_kcells in Hy. unfold inrange. rfix. lia.
  - intros H. exists x. split; [apply P3.in_kcells; unfold inrange in H; rfix; lia | apply P3.px_eqb_refl].
Qed.
Lemma NoDup_kcells (K : RK) : NoDup (P3.kcells K).
Proof. apply P3.NoDup_list_prod; apply P3.NoDup_seqZ. Qed.

(* C[i, s] = K[offset of pixel i from pixel s + half] when that is inside the kernel, else 0 *)
Theorem Cop_kz m (K : RK) c i s : rectb m = true -> @convolver_init ROps m K = Ok c ->
  (i < length (unmasked m))%nat -> (s < length (unmasked m))%nat ->
  Cop c i s = kz K (koff K (Uat m i) (Uat m s)).
Proof.
  intros R Hc Hi Hs. rewrite (Cop_cells m K c i s) by assumption.
  transitivity (sumR (map (fun ij => if px_eqb ij (koff K (Uat m i) (Uat m s)) then P3.kval K ij else 0) (P3.kcells K))).
  - apply sumR_map_ext. intros ij _.
    replace (px_eqb (P3.tgt K (Uat m s) ij) (Uat m i)) with (px_eqb ij (koff K (Uat m i) (Uat m s))); [reflexivity|].
    unfold px_eqb, P3.tgt, koff. cbn [fst snd]. rfix. lia.
  - rewrite (sumR_indicator px_eqb (P3.kval K)) by (apply P3.px_eqb_eq || apply NoDup_kcells).
    rewrite existsb_kcells. reflexivity.
Qed.

Lemma wt_value_cells (noise : px -> R) (K : RK) p0 p1 :
  @wt_value ROps noise K p0 p1 =
  sumR (map (fun ij => let q := P3.tgt K p0 ij in
                       if Rltb 0 (noise q)
                       then P3.kval K ij * kz K (fst ij + (fst p0 - fst p1), snd ij + (snd p0 - snd p1))%Z * / (noise q * noise q)
                       else 0) (P3.kcells K)).
Proof.
  unfold wt_value. cbv zeta. rfix.
  match goal with |- (if ?g then _ else _) = _ => destruct g eqn:G end.
  - (* early return: no kernel cell can overlap *)
    symmetry. apply sumR_map_zero. intros ij Hij. apply P3.in_kcells in Hij.
    destruct (Rltb 0 (noise (P3.tgt K p0 ij))); [|reflexivity].
    unfold kz, inrange. cbn [fst snd]. rfix.
    replace ((fst ij + (fst p0 - fst p1) >=? 0) && (snd ij + (snd p0 - snd p1) >=? 0)
             && (fst ij + (fst p0 - fst p1) <? rows K) && (snd ij + (snd p0 - snd p1) <? cols K))%Z with false.
    + unfold zero. cbn. lra.
    + pose proof (Z.div_mod (rows K) 2 ltac:(lia)). pose proof (Z.mod_pos_bound (rows K) 2 ltac:(lia)).
      pose proof (Z.div_mod (cols K) 2 ltac:(lia)). pose proof (Z.mod_pos_bound (cols K) 2 ltac:(lia)). lia.
  - rewrite sumT_sumR. rfix.
    rewrite sumR_cells.
    apply sumR_map_ext. intros [ky kx] _. cbn [fst snd].
    replace (fst p0 + ky + - (rows K / 2), snd p0 + kx + - (cols K / 2))%Z with (P3.tgt K p0 (ky, kx))
      by (unfold P3.tgt; cbn [fst snd]; f_equal; lia).
    runfold. destruct (Rltb 0 (noise (P3.tgt K p0 (ky, kx)))) eqn:L; [|reflexivity].
    apply Rltb_true in L. unfold kz, inrange. cbn [fst snd]. rfix.
    destruct ((ky + (fst p0 - fst p1) >=? 0) && (kx + (snd p0 - snd p1) >=? 0)
              && (ky + (fst p0 - fst p1) <? rows K) && (kx + (snd p0 - snd p1) <? cols K))%Z; cbn [sumR].
    + unfold kat, P3.kval. runfold. field. lra.
    + lra.
Qed.

Theorem wt_value_is_overlap m (K : RK) c (s : list R) d0 d1 : rectb m = true -> @convolver_init ROps m K = Ok c ->
  length s = length (unmasked m) -> (forall i, (i < length (unmasked m))%nat -> 0 < nth i s 0) ->
  (d0 < length (unmasked m))%nat -> (d1 < length (unmasked m))%nat ->
  @wt_value ROps (@native ROps m s) K (Uat m d0) (Uat m d1) =
  sumR (map (fun i => Cop c i d0 * Cop c i d1 * / (nth i s 0 * nth i s 0)) (seq 0 (length (unmasked m)))).
Proof.
  intros R Hc Hs Hpos H0 H1.
  transitivity (sumR (map (fun i => Cop c i d0 * (Cop c i d1 * / (nth i s 0 * nth i s 0))) (seq 0 (length (unmasked m)))));
    [|apply sumR_map_ext; intros; ring].
  rewrite (Cop_sum m K c (fun i => Cop c i d1 * / (nth i s 0 * nth i s 0)) d0) by assumption.
  rewrite wt_value_cells. apply sumR_map_ext. intros ij _. cbv zeta.
  destruct (unmasked_cases m (P3.tgt K (Uat m d0) ij)) as [[i [Hi E]]|Hout].
  - replace (fst ij + (fst (Uat m d0) - fst (Uat m d1)), snd ij + (snd (Uat m d0) - snd (Uat m d1)))%Z
      with (koff K (P3.tgt K (Uat m d0) ij) (Uat m d1)) by (unfold koff, P3.tgt; cbn [fst snd]; rfix; f_equal; lia).
    rewrite E. rewrite pick_at, native_at by assumption.
    rewrite (Cop_kz m K c i d1) by assumption.
    assert (L : Rltb 0 (nth i s 0) = true) by (apply Rltb_true; now apply Hpos). rewrite L. ring.
  - rewrite pick_notin, native_out by exact Hout.
    assert (L : Rltb 0 0 = false) by (apply Rltb_false; lra). rewrite L. ring.
Qed.

(* w_tilde_curvature_imaging_from (and, through preload_represents_dense, the preload) is C^T N^-1 C *)
Theorem wt_dense_is_overlap m (K : RK) c (s : list R) : rectb m = true -> @convolver_init ROps m K = Ok c ->
  length s = length (unmasked m) -> (forall i, (i < length (unmasked m))%nat -> 0 < nth i s 0) ->
  W_is_overlap c s (@wt_dense ROps (@native ROps m s) K (unmasked m)) (length (unmasked m)).
Proof.
  intros R Hc Hs Hpos d0 d1 H0 H1. rewrite mget_wt_dense by assumption. unfold Wv. foldU.
  destruct (Nat.leb d0 d1).
  - now apply wt_value_is_overlap.
  - rewrite (wt_value_is_overlap m K c s d1 d0) by assumption. apply sumR_map_ext. intros; ring.
Qed.

(* ================================================================== 5. the full theorems *)
Lemma pos_nonzero (s : list R) n : (forall i, (i < n)%nat -> 0 < nth i s 0) -> forall i, (i < n)%nat -> nth i s 0 <> 0.
Proof. intros H i Hi. specialize (H i Hi). lra. Qed.

Section Full.
  Variables (m : mask) (K : RK) (c : @convolver ROps).
  Hypothesis Hrect : rectb m = true.
  Hypothesis Hc : @convolver_init ROps m K = Ok c.
  Notation n := (length (unmasked m)).

  Theorem wt_diag_block_full (s : list R) e P a b :
    length s = n -> (forall i, (i < n)%nat -> 0 < nth i s 0) -> enc_ok e P -> (a < P)%nat -> (b < P)%nat ->
    let '(pre, idx, lens) := @preload ROps (@native ROps m s) K (unmasked m) in
    mget (@curv_preload ROps pre idx lens e P) a b =
    sumR (map (fun i => Bm e c n i a * Bm e c n i b / (nth i s 0 * nth i s 0)) (seq 0 n)).
  Proof. intros Hs Hpos. apply wt_diag_block. now apply (wt_dense_is_overlap m K c s). Qed.

  Theorem wt_off_block_full (s : list R) e0 P0 e1 P1 a b :
    length s = n -> (forall i, (i < n)%nat -> 0 < nth i s 0) -> enc_ok e0 P0 -> enc_ok e1 P1 -> (a < P0)%nat -> (b < P1)%nat ->
    let '(pre, idx, lens) := @preload ROps (@native ROps m s) K (unmasked m) in
    mget (@off_diag ROps pre idx lens e0 P0 e1 P1) a b =
    sumR (map (fun i => Bm e0 c n i a * Bm e1 c n i b / (nth i s 0 * nth i s 0)) (seq 0 n)).
  Proof. intros Hs Hpos. apply wt_off_block. now apply (wt_dense_is_overlap m K c s). Qed.

  Theorem mirrored_wt_is_normal_full objs (s : list R) :
    (0 < n)%nat -> length s = n -> (forall i, (i < n)%nat -> 0 < nth i s 0) -> (forall o, In o objs -> wf_obj c n o) ->
    forall a b, (a < tp objs)%nat -> (b < tp objs)%nat ->
    let noise := @native ROps m s in let nfs := unmasked m in
    shape (tp objs) (tp objs) (@F_wt_pre ROps c (fst (fst (@preload ROps noise K nfs))) (snd (fst (@preload ROps noise K nfs))) (snd (@preload ROps noise K nfs)) objs s) /\
    mget (mirrored (@F_wt_pre ROps c (fst (fst (@preload ROps noise K nfs))) (snd (fst (@preload ROps noise K nfs))) (snd (@preload ROps noise K nfs)) objs s)) a b
    = Snorm (op_matrix c objs n) s n a b.
  Proof.
    intros Hn Hs Hpos Hwf a b Ha Hb. cbv zeta. apply mirrored_wt_is_normal; auto.
    - now apply (init_frames_ok m K c).
    - now apply pos_nonzero.
    - now apply (wt_dense_is_overlap m K c s).
  Qed.

  Theorem F_wt_eq_F_mapping_full objs (s : list R) eps a b :
    (0 < n)%nat -> length s = n -> (forall i, (i < n)%nat -> 0 < nth i s 0) -> (forall o, In o objs -> wf_obj c n o) ->
    (a < tp objs)%nat -> (b < tp objs)%nat ->
    mget (@F_wt ROps c m K objs s eps) a b = mget (@F_mapping ROps c objs n s eps) a b.
  Proof.
    intros Hn Hs Hpos Hwf Ha Hb. rewrite F_wt_is_gen. apply F_wt_eq_F_mapping; auto.
    - now apply (init_frames_ok m K c).
    - now apply pos_nonzero.
    - now apply (wt_dense_is_overlap m K c s).
  Qed.

  Theorem F_wt_symmetric_full objs (s : list R) eps a b :
    (0 < n)%nat -> length s = n -> (forall i, (i < n)%nat -> 0 < nth i s 0) -> (forall o, In o objs -> wf_obj c n o) ->
    (a < tp objs)%nat -> (b < tp objs)%nat ->
    mget (@F_wt ROps c m K objs s eps) a b = mget (@F_wt ROps c m K objs s eps) b a.
  Proof.
    intros Hn Hs Hpos Hwf Ha Hb. rewrite F_wt_is_gen. apply F_wt_symmetric; auto.
    - now apply (init_frames_ok m K c).
    - now apply pos_nonzero.
    - now apply (wt_dense_is_overlap m K c s).
  Qed.

  (* the w-tilde data vector of one mapper = its block B_i^T N^-1 d of the mapping formalism *)
  Theorem wt_data_vector_block_full (d s : list R) e P p :
    length d = n -> length s = n -> (forall i, (i < n)%nat -> nth i s 0 <> 0) -> enc_ok e P -> (p < P)%nat ->
    nth p (@dv_wtd ROps (@wt_data ROps (@native ROps m d) (@native ROps m s) K (unmasked m)) e P) 0 =
    sumR (map (fun i => nth i d 0 * Bm e c n i p / (nth i s 0 * nth i s 0)) (seq 0 n)).
  Proof.
    intros Hd Hs Hnz He Hp. apply wt_data_vector_block; auto.
    - unfold wt_data. apply map_length.
    - now apply (wt_data_is_adjoint m K c d s).
  Qed.

  Theorem D_wt_eq_D_mapping_mappers_full objs (d s : list R) a :
    forallb (@is_mapper ROps) objs = true -> (0 < n)%nat -> length d = n -> length s = n ->
    (forall i, (i < n)%nat -> nth i s 0 <> 0) -> (forall o, In o objs -> wf_obj c n o) -> (a < tp objs)%nat ->
    nth a (@D_wt ROps c m K objs d s) 0 = nth a (@D_mapping ROps c objs d s) 0.
  Proof.
    intros Hall Hn Hd Hs Hnz Hwf Ha. apply (D_wt_eq_D_mapping_mappers c m K objs d s n); auto.
    - now apply (init_frames_ok m K c).
    - now apply (wt_data_is_adjoint m K c d s).
  Qed.
End Full.

(* ================================================================== 6. the w-tilde data vector for ANY ordered list of objects *)
(* a sequence of slice assignments v[off_k : off_k + params_k] = Wf k, k running over a list of object indices *)
Lemma fold_slices objs (Wf : nat -> list R) : forall ks (v : list R), length v = tp objs ->
  (forall k, In k ks -> (k < length objs)%nat /\ length (Wf k) = params (ob objs k)) ->
  length (fold_left (fun dv k => @set_slice ROps dv (off objs k) (Wf k)) ks v) = tp objs /\
  forall i la, (i < length objs)%nat -> (la < params (ob objs i))%nat ->
    nth (off objs i + la) (fold_left (fun dv k => @set_slice ROps dv (off objs k) (Wf k)) ks v) 0 =
    if existsb (Nat.eqb i) ks then nth la (Wf i) 0 else nth (off objs i + la) v 0.
Proof.
  induction ks as [|k ks IH]; intros v Hv Hks; cbn [fold_left existsb].
  - split; auto.
  - destruct (Hks k (or_introl eq_refl)) as [Hk Hlen].
    pose proof (off_bound objs k Hk) as Hb.
    assert (Hfit : (off objs k + length (Wf k) <= length v)%nat) by (rewrite Hlen, Hv; exact Hb).
    destruct (IH (@set_slice ROps v (off objs k) (Wf k))) as [L C].
    + rewrite set_slice_length; auto.
    + intros k' Hk'. apply Hks. now right.
    + split; [exact L|]. intros i la Hi Hla. rewrite (C i la Hi Hla).
      destruct (existsb (Nat.eqb i) ks) eqn:X.
      * now rewrite orb_true_r.
      * rewrite orb_false_r. rewrite nth_set_slice by exact Hfit. rewrite Hlen.
        destruct (Nat.eqb i k) eqn:E.
        -- apply Nat.eqb_eq in E. subst k.
           assert (A : Nat.leb (off objs i) (off objs i + la) && Nat.ltb (off objs i + la) (off objs i + params (ob objs i)) = true).
           { apply andb_true_iff. split; [apply Nat.leb_le; lia | apply Nat.ltb_lt; lia]. }
           rewrite A. f_equal. lia.
        -- destruct (Nat.leb (off objs k) (off objs i + la) && Nat.ltb (off objs i + la) (off objs k + params (ob objs k))) eqn:A; [|reflexivity].
           exfalso. apply andb_true_iff in A. destruct A as [A1 A2]. apply Nat.leb_le in A1. apply Nat.ltb_lt in A2.
           apply Nat.eqb_neq in E. apply E. symmetry. apply (locate_range objs i k la (off objs i + la)%nat); auto.
Qed.
(* the same, in the form the model writes it: a fold over (object, range) pairs *)
Lemma fold_slices_ent objs cls (g : @lobj ROps -> list R) (v : list R) : length v = tp objs ->
  (forall k, (k < length objs)%nat -> cls (ob objs k) = true -> length (g (ob objs k)) = params (ob objs k)) ->
  let v' := fold_left (fun dv (orr : @lobj ROps * (nat * nat)) => @set_slice ROps dv (fst (snd orr)) (g (fst orr)))
                      (combine (filter cls objs) (@ranges_from ROps cls objs 0)) v in
  length v' = tp objs /\
  forall i la, (i < length objs)%nat -> (la < params (ob objs i))%nat ->
    nth (off objs i + la) v' 0 = if cls (ob objs i) then nth la (g (ob objs i)) 0 else nth (off objs i + la) v 0.
Proof.
  intros Hv Hg. cbv zeta. rewrite entries_idx.
  rewrite (fold_left_map (fun dv (orr : @lobj ROps * (nat * nat)) => @set_slice ROps dv (fst (snd orr)) (g (fst orr))) (ent objs)).
  cbn [ent fst snd].
  destruct (fold_slices objs (fun k => g (ob objs k)) (idxs cls objs) v Hv) as [L C].
  - intros k Hk. apply idxs_In in Hk. destruct Hk as [Hk Hc]. split; auto.
  - split; [exact L|]. intros i la Hi Hla. rewrite (C i la Hi Hla).
    destruct (cls (ob objs i)) eqn:Ec.
    + assert (X : existsb (Nat.eqb i) (idxs cls objs) = true).
      { apply existsb_exists. exists i. split; [apply idxs_In; auto | apply Nat.eqb_refl]. }
      now rewrite X.
    + assert (X : existsb (Nat.eqb i) (idxs cls objs) = false).
      { destruct (existsb (Nat.eqb i) (idxs cls objs)) eqn:X; [|reflexivity]. apply existsb_exists in X.
        destruct X as [k [Hk E]]. apply Nat.eqb_eq in E. subst k. apply idxs_In in Hk. destruct Hk as [_ Hk]. congruence. }
      now rewrite X.
Qed.

Lemma no_func_all_mappers objs : existsb (@is_func ROps) objs = false -> forallb (@is_mapper ROps) objs = true.
Proof.
  induction objs as [|o t IH]; cbn; auto. intros H. apply orb_false_iff in H. destruct H as [H1 H2].
  unfold is_func in H1. apply negb_false_iff in H1. rewrite H1. cbn. auto.
Qed.

Section FullData.
  Variables (m : mask) (K : RK) (c : @convolver ROps).
  Hypothesis Hrect : rectb m = true.
  Hypothesis Hc : @convolver_init ROps m K = Ok c.
  Notation n := (length (unmasked m)).

  (* InversionImagingWTilde.data_vector = InversionImagingMapping.data_vector, entry by entry, for every ordered list of mappers and
     function lists (all three branches: _data_vector_x1_mapper, _data_vector_multi_mapper, _data_vector_func_list_and_mapper) *)
  Theorem D_wt_eq_D_mapping_full objs (d s : list R) a :
    (0 < n)%nat -> length d = n -> length s = n ->
    (forall i, (i < n)%nat -> nth i s 0 <> 0) -> (forall o, In o objs -> wf_obj c n o) -> (a < tp objs)%nat ->
    nth a (@D_wt ROps c m K objs d s) 0 = nth a (@D_mapping ROps c objs d s) 0.
  Proof.
    intros Hn Hd Hs Hnz Hwf Ha.
    destruct (existsb (@is_func ROps) objs) eqn:Ef.
    2:{ apply (D_wt_eq_D_mapping_mappers_full m K c Hrect Hc); auto. now apply no_func_all_mappers. }
    destruct (locate_exists objs a Ha) as (i & la & Hi & Hla & ->).
    assert (Hsh : forall o, In o objs -> shape n (params o) (opmat c o)) by (intros o Ho; now destruct (Hwf o Ho) as (_ & H & _)).
    assert (Hin : In (ob objs i) objs) by (unfold ob; now apply nth_In).
    rewrite (D_mapping_blocks c objs d s n) by auto.
    unfold D_wt. rewrite Ef.
    set (wd := @wt_data ROps (@native ROps m d) (@native ROps m s) K (unmasked m)).
    set (g1 := fun o : @lobj ROps => @dv_wtd ROps wd (enc_of o) (params o)).
    set (g2 := fun o : @lobj ROps => @dv_blurred ROps (opmat c o) d s).
    destruct (fold_slices_ent objs is_mapper g1 (@zeros ROps (total_params objs))) as [L1 C1].
    { unfold zeros. now rewrite repeat_length, total_params_tp. }
    { intros k _ _. unfold g1. apply dv_wtd_length. }
    destruct (fold_slices_ent objs is_func g2
                (fold_left (fun dv (orr : @lobj ROps * (nat * nat)) => @set_slice ROps dv (fst (snd orr)) (g1 (fst orr)))
                           (combine (filter is_mapper objs) (@ranges_from ROps is_mapper objs 0)) (@zeros ROps (total_params objs))) L1) as [_ C2].
    { intros k Hk _. unfold g2. rewrite dv_blurred_length. apply (ncols_shape _ n); auto. apply Hsh. unfold ob. now apply nth_In. }
    cbv zeta in C1, C2. unfold g1, g2 in C1, C2. rewrite (C2 i la Hi Hla). clear C2. rfix. rewrite (C1 i la Hi Hla). clear C1.
    pose proof (Hwf _ Hin) as W.
    unfold is_func. destruct (ob objs i) as [e M P r|M ov P r] eqn:Eo; cbn [is_mapper negb].
    - (* a mapper: written by the first fold, untouched by the second *)
      cbn [is_mapper enc_of params]. cbn [params] in Hla.
      pose proof W as W2. destruct W as (_ & _ & He & _).
      unfold wd. etransitivity; [apply (wt_data_vector_block_full m K c Hrect Hc d s e P la); auto|].
      apply sumR_map_ext. intros k Hk. apply in_seq in Hk.
      rewrite (mapper_block_is_Bm c n e M P r k la W2 (init_frames_ok m K c Hrect Hc)) by (lia || assumption). reflexivity.
    - (* a function list: dv_blurred of its own operated matrix *)
      cbn [params] in Hla. destruct W as (_ & Hshape & _). cbn [params] in Hshape.
      rewrite dv_blurred_spec by (rewrite (ncols_shape _ n P Hshape Hn); exact Hla).
      destruct Hshape as [HL _]. rewrite HL. reflexivity.
  Qed.
End FullData.

(* ================================================================== 7. mapped_reconstructed_data: the two formalisms give the same list *)
Lemma slices_lengths : forall objs (r : list R) o rs, length r = tp objs -> In (o, rs) (combine objs (@slices ROps objs r)) ->
  In o objs /\ length rs = params o.
Proof.
  induction objs as [|o0 t IH]; intros r o rs Hr Hin; [contradiction|].
  cbn [slices combine] in Hin. rewrite tp_cons in Hr. destruct Hin as [E|Hin].
  - inversion E; subst. split; [now left|]. rewrite firstn_length. rfix. lia.
  - destruct (IH (skipn (params o0) r) o rs) as [H1 H2]; auto.
    + rewrite skipn_length. rfix. lia.
    + split; [now right | exact H2].
Qed.
Lemma mapped_via_matrix_length (B : @mat ROps) (r : list R) : length (@mapped_via_matrix ROps B r) = length B.
Proof. unfold mapped_via_matrix. now rewrite map_length, seq_length. Qed.
Lemma mapped_via_unique_length e (r : list R) : length (@mapped_via_unique ROps e r) = length (e_du e).
Proof. unfold mapped_via_unique. now rewrite map_length, seq_length. Qed.
Lemma no_blurring_length (c : @convolver ROps) (img : list R) : length (@convolve_no_blurring ROps c img) = length img.
Proof. rewrite P3.no_blurring_as_convolve. apply P3.convolve_length. Qed.

(* a mapper's term: convolution of M r (w-tilde class) = (convolved M) r (mapping class) *)
Lemma mapped_mapper_term (c : @convolver ROps) n e M P reg (rs : list R) :
  wf_obj c n (LMapper e M P reg) -> frames_ok c n -> length rs = P ->
  @convolve_no_blurring ROps c (@mapped_via_unique ROps e rs) = @mapped_via_matrix ROps (@convolve_matrix ROps c M) rs.
Proof.
  intros W Hfr Hrs. pose proof W as (_ & _ & He & Hrep & _ & Hdu & HM & HP).
  pose proof (shape_convolve_matrix c M) as [HLc _].
  apply (P3.nth_ext_len _ _ 0).
  - rewrite no_blurring_length, mapped_via_unique_length, mapped_via_matrix_length. rfix. lia.
  - intros i Hi. rewrite no_blurring_length, mapped_via_unique_length, Hdu in Hi.
    rewrite (convolve_no_blurring_is_Cop c _ n i) by (auto; rewrite mapped_via_unique_length; exact Hdu).
    rewrite mapped_via_matrix_spec by (rfix; lia).
    transitivity (sumR (map (fun s0 => sumR (map (fun p => E e s0 p * nth p rs 0 * Cop c i s0) (seq 0 (length rs)))) (seq 0 n))).
    + apply sumR_map_ext. intros s0 Hs0. apply in_seq in Hs0.
      rewrite mapped_via_unique_spec by (rewrite ?Hrs, ?Hdu; auto; lia). now rewrite sumR_map_mul_l.
    + rewrite (sumR_swap (fun s0 p => E e s0 p * nth p rs 0 * Cop c i s0)). apply sumR_map_ext. intros p Hp. apply in_seq in Hp.
      rewrite (convolve_matrix_is_Cop c M n i p) by (auto; lia). rewrite <- sumR_map_mul_l.
      apply sumR_map_ext. intros s0 Hs0. apply in_seq in Hs0. rewrite Hrep by lia. ring.
Qed.
(* a function list's term: the two classes write the same matrix-vector product differently *)
Lemma mapped_func_term (B : @mat ROps) n P (rs : list R) : shape n P B -> length rs = P ->
  map (fun row => @sumT ROps (map (fun p => mul ROps (fst p) (snd p)) (combine rs row))) B = @mapped_via_matrix ROps B rs.
Proof.
  intros [HL HR] Hrs. apply (P3.nth_ext_len _ _ 0).
  - now rewrite map_length, mapped_via_matrix_length.
  - intros i Hi. rewrite map_length in Hi.
    rewrite (P3.nth_map_lt _ _ _ []) by exact Hi. rewrite mapped_via_matrix_spec by exact Hi. rewrite sumT_sumR. rfix.
    rewrite (combine_nth_map rs (@nth (list R) i B []) 0 0 P) by (auto; apply HR; lia). rewrite map_map, Hrs.
    apply sumR_map_ext. intros j _. cbn [fst snd]. ropen. rewrite mget_R. apply Rmult_comm.
Qed.

Section FullMapped.
  Variables (m : mask) (K : RK) (c : @convolver ROps).
  Hypothesis Hrect : rectb m = true.
  Hypothesis Hc : @convolver_init ROps m K = Ok c.
  Notation n := (length (unmasked m)).
  (* InversionImagingWTilde.mapped_reconstructed_data = InversionImagingMapping.mapped_reconstructed_data (as lists), for every
     ordered list of mappers and function lists and every reconstruction vector of the right length *)
  Theorem mapped_wt_eq_mapped_mapping objs (r : list R) :
    (forall o, In o objs -> wf_obj c n o) -> length r = tp objs ->
    @mapped_wt ROps c objs n r = @mapped_mapping ROps c objs n r.
  Proof.
    intros Hwf Hr. unfold mapped_wt, mapped_mapping. f_equal. apply map_ext_in. intros [o rs] Hin.
    destruct (slices_lengths objs r o rs Hr Hin) as [Ho Hl]. pose proof (Hwf o Ho) as W. cbn [fst snd].
    destruct o as [e M P reg|M ov P reg]; cbn [params] in Hl.
    - cbn [opmat]. apply (mapped_mapper_term c n e M P reg rs); auto. now apply (init_frames_ok m K c).
    - destruct W as (_ & Hsh & _). cbn [params] in Hsh. now apply (mapped_func_term _ n P).
  Qed.
End FullMapped.
