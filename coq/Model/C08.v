(* C08 -- Fit statistics and evidence follow their definitions on unmasked pixels only.

   (a) MODEL of autoarray/fit/fit_util.py, fit/fit_dataset.py (AbstractFit, FitDataset),
       fit/fit_imaging.py (FitImaging.data) and the evidence terms of
       inversion/inversion/abstract.py, written once over [NumOps]; it keeps the code's shape:
       plain element-wise maps, the [np.<op>(a, b, out=zeros_like(a), where=mask==0)] variants,
       boolean-mask selection [a[mask == 0]], the three chi-squared code paths, the class-level
       dispatch on [use_mask_in_fit], the [background_sky_level != 0.0] branch, the
       [np.delete(., idx, 0)] / [np.delete(., idx, 1)] reduction driven by
       [no_regularization_index_list] (itself the code's running [pixel_count] loop).
   (b) SPECIFICATION: index-set definitions ([unmasked], [reg_indices], [principal_sub], sums of
       per-pixel terms, quadratic form) that never mention where-masks, selection or deletion.
   (c) correspondence: [case], [agree], [spec_ok], [check].

   Arrays are lists; a native 2-D array is passed flattened row-major together with the
   flattened mask ([true] = masked): every numpy operation used by the anchored code is
   element-wise, a full sum, or a boolean-mask selection (which is row-major), so the 2-D
   structure plays no role.

   [ln] is the [lnT] slot of [NumOps]; [with_ln O f] replaces it.  Theorems are proved for
   EVERY function in that slot.  [tp] stands for the constant [2 * np.pi].
   Oracle contract (trusted, exercised by the correspondence run): numpy.linalg.cholesky and
   scipy splu yield the log-determinant of the matrix they are given:
   [2 * sum(log(diag(cholesky(M))))] = [log det M]  ->  [logdet M := lnT (det M)]. *)
From Coq Require Import ZArith QArith Qabs List Bool Arith.
From PAV Require Import Base.NumOps Base.Res Base.Check.
From PAV Require Export Model.C08Lib.
Import ListNotations.
Local Open Scope nat_scope.

Definition with_ln (O : NumOps) (f : T O -> T O) : NumOps :=
  {| T := T O; add := add O; sub := sub O; mul := mul O; div := div O; opp := opp O; ofZ := ofZ O;
     leb := leb O; ltb := ltb O; eqb := eqb O; floorZ := floorZ O; sqrtT := sqrtT O;
     cos2pi := cos2pi O; sin2pi := sin2pi O; lnT := f |}.

Definition count_true (l : list bool) : nat := length (filter (fun b => b) l).

(* input records, generic in the carrier so that the same value is a [fit Q] / [fit R] *)
Record inv (A : Type) := {
  objs : list (nat * bool);          (* linear_obj_list: (params, regularization is not None) *)
  blocks : list (list (list A));     (* linear_obj.regularization.regularization_matrix_from(.) per object
                                        (ignored when the object has no regularization) *)
  curv : list (list A);              (* curvature_matrix F *)
  recon : list A }.                  (* reconstruction s *)
Arguments objs {A} _. Arguments blocks {A} _. Arguments curv {A} _. Arguments recon {A} _.
Record fit (A : Type) := {
  mask : list bool;                  (* dataset.mask, flattened; true = masked *)
  use_mask : bool;                   (* use_mask_in_fit *)
  sky : A;                           (* dataset_model.background_sky_level *)
  data : list A; noise : list A; model : list A;   (* dataset.data, dataset.noise_map, model_data *)
  inversion : option (inv A) }.
Arguments mask {A} _. Arguments use_mask {A} _. Arguments sky {A} _. Arguments data {A} _.
Arguments noise {A} _. Arguments model {A} _. Arguments inversion {A} _.

(* ================================================================== (a) the model *)
Section Model.
  Context {O : NumOps}.
  Variable tp : T O.    (* 2 * np.pi *)

  (* ---- fit_util.py *)
  Definition residual_map_from (d m : list (T O)) := map2 (sub O) d m.
  Definition normalized_residual_map_from (r n : list (T O)) := map2 (div O) r n.
  Definition chi_squared_map_from (r n : list (T O)) := map sq (map2 (div O) r n).
  Definition chi_squared_from (cm : list (T O)) : T O := sumT cm.
  Definition lognorm (x : T O) : T O := lnT O (mul O tp (sq x)).      (* log(2*pi*x**2.0) *)
  Definition noise_normalization_from (n : list (T O)) : T O := sumT (map lognorm n).

  Definition residual_map_with_mask_from (d : list (T O)) (mk : list bool) (m : list (T O)) :=
    map2w zero (sub O) mk d m.
  Definition normalized_residual_map_with_mask_from (r n : list (T O)) (mk : list bool) :=
    map2w zero (div O) mk r n.
  Definition chi_squared_map_with_mask_from (r n : list (T O)) (mk : list bool) :=
    map sq (map2w zero (div O) mk r n).
  Definition chi_squared_with_mask_from (cm : list (T O)) (mk : list bool) : T O := sumT (select mk cm).
  Definition chi_squared_with_mask_fast_from (d : list (T O)) (mk : list bool) (m n : list (T O)) : T O :=
    sumT (map sq (map2 (div O) (select mk (map2 (sub O) d m)) (select mk n))).
  Definition noise_normalization_with_mask_from (n : list (T O)) (mk : list bool) : T O :=
    sumT (map lognorm (select mk n)).

  (* -0.5 * (...): Python evaluates the sum left to right *)
  Definition log_likelihood_from (chi nn : T O) : T O := mul O (opp O half) (add O chi nn).
  Definition log_likelihood_with_regularization_from (chi reg nn : T O) : T O :=
    mul O (opp O half) (add O (add O chi reg) nn).
  Definition log_evidence_from (chi reg ldc ldr nn : T O) : T O :=
    mul O (opp O half) (add O (sub O (add O (add O chi reg) ldc) ldr) nn).

  (* np.divide(residual_map, data, ...): a zero denominator gives inf / nan, modelled as [None] *)
  Definition divopt (a b : T O) : option (T O) := if eqb O b zero then None else Some (div O a b).
  Definition residual_flux_fraction_map_from (r d : list (T O)) := map2 divopt r d.
  Definition residual_flux_fraction_map_with_mask_from (r d : list (T O)) (mk : list bool) :=
    map2w (Some zero) divopt mk r d.

  (* ---- inversion/inversion/abstract.py *)
  (* param_range_list_from(cls=LinearObj): running pixel_count *)
  Fixpoint param_ranges (count : nat) (os : list (nat * bool)) : list (nat * nat) :=
    match os with
    | [] => []
    | o :: t => (count, count + fst o) :: param_ranges (count + fst o) t
    end.
  (* for obj, reg, range in zip(...): if reg is None: list += range(range[0], range[1]) *)
  Definition no_regularization_index_list (os : list (nat * bool)) : list nat :=
    flat_map (fun p : (nat * bool) * (nat * nat) =>
                if snd (fst p) then [] else seq (fst (snd p)) (snd (snd p) - fst (snd p)))
             (combine os (param_ranges 0 os)).
  Definition total_params (os : list (nat * bool)) : nat := fold_left (fun a o => (a + fst o)%nat) os 0%nat.
  Definition all_have_reg (os : list (nat * bool)) : bool := forallb snd os.
  Definition has_reg (os : list (nat * bool)) : bool := existsb snd os.

  (* LinearObj.regularization_matrix: zeros((params, params)) without a regularization *)
  Definition obj_block (o : nat * bool) (b : list (list (T O))) : list (list (T O)) :=
    if snd o then b else repeat (repeat zero (fst o)) (fst o).
  (* scipy.linalg.block_diag *)
  Fixpoint block_diag_from (left total : nat) (bs : list (nat * list (list (T O)))) : list (list (T O)) :=
    match bs with
    | [] => []
    | (w, b) :: t =>
        map (fun row => repeat zero left ++ row ++ repeat zero (total - left - w)) b
        ++ block_diag_from (left + w) total t
    end.
  Definition regularization_matrix (iv : inv (T O)) : list (list (T O)) :=
    block_diag_from 0 (total_params (objs iv))
      (map2 (fun o b => (fst o, obj_block o b)) (objs iv) (blocks iv)).
  (* curvature_reg_matrix: F if nothing is regularized, else F + H (in place or np.add) *)
  Definition curvature_reg_matrix (iv : inv (T O)) : list (list (T O)) :=
    if negb (has_reg (objs iv)) then curv iv
    else map2 (map2 (add O)) (curv iv) (regularization_matrix iv).
  (* np.delete(M, idx, 0) then np.delete(M, idx, 1), skipped when every object is regularized *)
  Definition reduce_matrix (os : list (nat * bool)) (M : list (list (T O))) : list (list (T O)) :=
    if all_have_reg os then M
    else map (np_delete (no_regularization_index_list os)) (np_delete (no_regularization_index_list os) M).
  Definition regularization_matrix_reduced (iv : inv (T O)) := reduce_matrix (objs iv) (regularization_matrix iv).
  Definition curvature_reg_matrix_reduced (iv : inv (T O)) := reduce_matrix (objs iv) (curvature_reg_matrix iv).
  Definition reconstruction_reduced (iv : inv (T O)) : list (T O) :=
    if all_have_reg (objs iv) then recon iv else np_delete (no_regularization_index_list (objs iv)) (recon iv).

  Definition dotT (a b : list (T O)) : T O := sumT (map2 (mul O) a b).
  Definition matvec (M : list (list (T O))) (v : list (T O)) : list (T O) := map (fun row => dotT row v) M.
  (* np.matmul(s_r.T, np.matmul(H_r, s_r)) *)
  Definition regularization_term (iv : inv (T O)) : T O :=
    if negb (has_reg (objs iv)) then zero
    else dotT (reconstruction_reduced iv) (matvec (regularization_matrix_reduced iv) (reconstruction_reduced iv)).

  (* determinant by expansion along the first row (oracle contract of cholesky / splu, see header) *)
  Fixpoint drop_nth {A} (j : nat) (l : list A) : list A :=
    match l, j with
    | [], _ => []
    | _ :: t, Datatypes.O => t
    | a :: t, S j' => a :: drop_nth j' t
    end.
  Fixpoint det_fuel (fuel : nat) (M : list (list (T O))) : T O :=
    match fuel with
    | Datatypes.O => one
    | S fuel' =>
        match M with
        | [] => one
        | row :: rest =>
            sumT (map (fun j => let c := mul O (nth j row zero) (det_fuel fuel' (map (drop_nth j) rest)) in
                                if Nat.even j then c else opp O c)
                      (seq 0 (length row)))
        end
    end.
  Definition det (M : list (list (T O))) : T O := det_fuel (length M) M.
  Definition logdet (M : list (list (T O))) : T O := lnT O (det M).
  Definition log_det_curvature_reg_matrix_term (iv : inv (T O)) : T O :=
    if negb (has_reg (objs iv)) then zero else logdet (curvature_reg_matrix_reduced iv).
  Definition log_det_regularization_matrix_term (iv : inv (T O)) : T O :=
    if negb (has_reg (objs iv)) then zero else logdet (regularization_matrix_reduced iv).

  (* ---- fit_imaging.py / fit_dataset.py *)
  (* FitImaging.data: if background_sky_level != 0.0: data - background_sky_level *)
  Definition fit_data (f : fit (T O)) : list (T O) :=
    if negb (eqb O (sky f) zero) then map (fun d => sub O d (sky f)) (data f) else data f.
  Definition fit_residual_map (f : fit (T O)) : list (T O) :=
    if use_mask f then residual_map_with_mask_from (fit_data f) (mask f) (model f)
    else residual_map_from (fit_data f) (model f).
  Definition fit_normalized_residual_map (f : fit (T O)) : list (T O) :=
    if use_mask f then normalized_residual_map_with_mask_from (fit_residual_map f) (noise f) (mask f)
    else normalized_residual_map_from (fit_residual_map f) (noise f).
  Definition fit_chi_squared_map (f : fit (T O)) : list (T O) :=
    if use_mask f then chi_squared_map_with_mask_from (fit_residual_map f) (noise f) (mask f)
    else chi_squared_map_from (fit_residual_map f) (noise f).
  (* noise_covariance_matrix is None throughout (outside the property) *)
  Definition fit_chi_squared (f : fit (T O)) : T O :=
    if use_mask f then chi_squared_with_mask_from (fit_chi_squared_map f) (mask f)
    else chi_squared_from (fit_chi_squared_map f).
  Definition fit_noise_normalization (f : fit (T O)) : T O :=
    if use_mask f then noise_normalization_with_mask_from (noise f) (mask f)
    else noise_normalization_from (noise f).
  Definition fit_log_likelihood (f : fit (T O)) : T O :=
    log_likelihood_from (fit_chi_squared f) (fit_noise_normalization f).
  Definition fit_log_likelihood_with_regularization (f : fit (T O)) : option (T O) :=
    match inversion f with
    | Some iv => Some (log_likelihood_with_regularization_from (fit_chi_squared f) (regularization_term iv)
                                                               (fit_noise_normalization f))
    | None => None
    end.
  Definition fit_log_evidence (f : fit (T O)) : option (T O) :=
    match inversion f with
    | Some iv => Some (log_evidence_from (fit_chi_squared f) (regularization_term iv)
                         (log_det_curvature_reg_matrix_term iv) (log_det_regularization_matrix_term iv)
                         (fit_noise_normalization f))
    | None => None
    end.
  Definition fit_figure_of_merit (f : fit (T O)) : option (T O) :=
    match inversion f with
    | Some _ => fit_log_evidence f
    | None => Some (fit_log_likelihood f)
    end.
  Definition fit_residual_flux_fraction_map (f : fit (T O)) : list (option (T O)) :=
    if use_mask f then residual_flux_fraction_map_with_mask_from (fit_residual_map f) (fit_data f) (mask f)
    else residual_flux_fraction_map_from (fit_residual_map f) (fit_data f).
  (* signal_to_noise_map = data / noise_map; signal_to_noise_map[signal_to_noise_map < 0] = 0.
     A zero noise value (possible in masked pixels only) gives -inf (clipped to 0), +inf or nan ([None]) *)
  Definition snr_elem (d n : T O) : option (T O) :=
    if eqb O n zero then (if ltb O d zero then Some zero else None)
    else let s := div O d n in Some (if ltb O s zero then zero else s).
  Definition fit_signal_to_noise_map (f : fit (T O)) : list (option (T O)) :=
    map2 snr_elem (fit_data f) (noise f).
  (* chi_squared / int(np.size(mask) - np.sum(mask)); a Python float divided by int 0 raises *)
  Definition fit_reduced_chi_squared (f : fit (T O)) : res (T O) :=
    let n := (length (mask f) - count_true (mask f))%nat in
    if Nat.eqb n 0 then Raise OtherException else Ok (div O (fit_chi_squared f) (ofNat n)).
End Model.

(* ================================================================== (b) the specification *)
Section Spec.
  Context {O : NumOps}.
  Variable tp : T O.

  Definition at_ (l : list (T O)) (i : nat) : T O := nth i l zero.
  (* the unmasked pixel indices of a mask *)
  Definition unmasked (mk : list bool) : list nat :=
    filter (fun i => negb (nth i mk true)) (seq 0 (length mk)).
  (* the pixels a fit is evaluated on: unmasked pixels (masked-native mode) / every stored value (slim mode) *)
  Definition fit_pixels (f : fit (T O)) : list nat :=
    if use_mask f then unmasked (mask f) else seq 0 (length (data f)).
  Definition excluded (f : fit (T O)) (i : nat) : bool := use_mask f && nth i (mask f) true.

  Definition s_data (f : fit (T O)) (i : nat) : T O := sub O (at_ (data f) i) (sky f).
  Definition s_residual (f : fit (T O)) (i : nat) : T O := sub O (s_data f i) (at_ (model f) i).
  Definition s_normres (f : fit (T O)) (i : nat) : T O := div O (s_residual f i) (at_ (noise f) i).
  Definition s_chi (f : fit (T O)) (i : nat) : T O := sq (s_normres f i).
  Definition s_lognorm (f : fit (T O)) (i : nat) : T O := lnT O (mul O tp (sq (at_ (noise f) i))).
  Definition s_chi_squared (f : fit (T O)) : T O := sumT (map (s_chi f) (fit_pixels f)).
  Definition s_noise_normalization (f : fit (T O)) : T O := sumT (map (s_lognorm f) (fit_pixels f)).
  Definition s_log_likelihood (f : fit (T O)) : T O :=
    opp O (div O (add O (s_chi_squared f) (s_noise_normalization f)) two).

  (* regularized parameter indices: parameter i belongs to the object whose range contains it *)
  Fixpoint regd_at (os : list (nat * bool)) (i : nat) : bool :=
    match os with
    | [] => false
    | o :: t => if (i <? fst o)%nat then snd o else regd_at t (i - fst o)
    end.
  Definition n_params (os : list (nat * bool)) : nat := list_sum (map fst os).
  Definition reg_indices (os : list (nat * bool)) : list nat := filter (regd_at os) (seq 0 (n_params os)).
  Definition mat_at (M : list (list (T O))) (i j : nat) : T O := nth j (nth i M []) zero.
  Definition principal_sub (M : list (list (T O))) (idx : list nat) : list (list (T O)) :=
    map (fun i => map (fun j => mat_at M i j) idx) idx.
  (* H[i][j] = block of the regularized object owning both i and j, else 0 *)
  Fixpoint s_H_at (os : list (nat * bool)) (bs : list (list (list (T O)))) (i j : nat) : T O :=
    match os, bs with
    | o :: t, b :: tb =>
        if (i <? fst o)%nat then (if (j <? fst o)%nat then (if snd o then mat_at b i j else zero) else zero)
        else if (j <? fst o)%nat then zero else s_H_at t tb (i - fst o) (j - fst o)
    | _, _ => zero
    end.
  Definition s_H (iv : inv (T O)) (i j : nat) : T O := s_H_at (objs iv) (blocks iv) i j.
  Definition s_FH (iv : inv (T O)) (i j : nat) : T O := add O (mat_at (curv iv) i j) (s_H iv i j).
  Definition tabulate (g : nat -> nat -> T O) (idx : list nat) : list (list (T O)) :=
    map (fun i => map (fun j => g i j) idx) idx.
  (* s^T H s over regularized indices only *)
  Definition s_regularization_term (iv : inv (T O)) : T O :=
    let R := reg_indices (objs iv) in
    sumT (map (fun i => sumT (map (fun j => mul O (mul O (at_ (recon iv) i) (s_H iv i j)) (at_ (recon iv) j)) R)) R).
  Definition s_logdet_FH (iv : inv (T O)) : T O := lnT O (det (tabulate (s_FH iv) (reg_indices (objs iv)))).
  Definition s_logdet_H (iv : inv (T O)) : T O := lnT O (det (tabulate (s_H iv) (reg_indices (objs iv)))).
  (* -(chi2 + s^T H s + log det(F+H) - log det(H) + normalization)/2; with no regularized object the
     three inversion terms are absent (their index set is empty) *)
  Definition s_log_evidence (f : fit (T O)) (iv : inv (T O)) : T O :=
    if has_reg (objs iv)
    then opp O (div O (add O (sub O (add O (add O (s_chi_squared f) (s_regularization_term iv)) (s_logdet_FH iv))
                                     (s_logdet_H iv)) (s_noise_normalization f)) two)
    else s_log_likelihood f.
  Definition s_log_likelihood_with_regularization (f : fit (T O)) (iv : inv (T O)) : T O :=
    opp O (div O (add O (add O (s_chi_squared f) (s_regularization_term iv)) (s_noise_normalization f)) two).
  Definition s_figure_of_merit (f : fit (T O)) : T O :=
    match inversion f with Some iv => s_log_evidence f iv | None => s_log_likelihood f end.
  (* derived maps, per pixel *)
  Definition s_signal_to_noise (f : fit (T O)) (i : nat) : T O :=
    if ltb O (s_data f i) zero then zero else div O (s_data f i) (at_ (noise f) i).
  Definition s_residual_flux_fraction (f : fit (T O)) (i : nat) : T O := div O (s_residual f i) (s_data f i).

  (* an element-wise map of a fit: the default 0 in excluded pixels, [g i] elsewhere *)
  Definition per_pixel (f : fit (T O)) (g : nat -> T O) : list (T O) :=
    map (fun i => if excluded f i then zero else g i) (seq 0 (length (data f))).

  (* shapes under which the real code does not raise *)
  Definition fit_okb (f : fit (T O)) : bool :=
    Nat.eqb (length (noise f)) (length (data f)) && Nat.eqb (length (model f)) (length (data f)) &&
    (if use_mask f then Nat.eqb (length (mask f)) (length (data f))
     else Nat.eqb (length (mask f) - count_true (mask f)) (length (data f))).
  Definition squareb {A} (n : nat) (M : list (list A)) : bool :=
    Nat.eqb (length M) n && forallb (fun r => Nat.eqb (length r) n) M.
  Definition inv_okb (iv : inv (T O)) : bool :=
    Nat.eqb (length (blocks iv)) (length (objs iv)) &&
    forallb (fun p => squareb (fst (fst p)) (snd p) || negb (snd (fst p))) (combine (objs iv) (blocks iv)) &&
    squareb (n_params (objs iv)) (curv iv) && Nat.eqb (length (recon iv)) (n_params (objs iv)).
  Definition fit_inv_okb (f : fit (T O)) : bool := match inversion f with Some iv => inv_okb iv | None => true end.
  Definition noise_positiveb (f : fit (T O)) : bool := forallb (fun i => ltb O zero (at_ (noise f) i)) (fit_pixels f).
End Spec.

(* ================================================================== (c) correspondence *)
Local Open Scope Q_scope.
(* finite ln table supplied by the harness (execution device only): ln x for the finitely many
   arguments that occur; a missing key yields a sentinel no implementation value is close to *)
Definition ln_lookup (tbl : list (Q * Q)) (x : Q) : Q :=
  match find (fun p => Qeq_bool (fst p) x) tbl with
  | Some p => snd p
  | None => inject_Z 1000000000000000000000000000000
  end.
Definition QL (tbl : list (Q * Q)) : NumOps := with_ln QOps (ln_lookup tbl).

Definition tol : Q := 1 # 1000000000.
Definition Qmax1 (a : Q) : Q := if Qle_bool 1 (Qabs a) then Qabs a else 1.
(* |a - b| <= 1e-9 * max(1, |a|) *)
Definition close (a b : Q) : bool := Qle_bool (Qabs (a - b)) (tol * Qmax1 a).
Definition exact (a b : Q) : bool := Qeq_bool a b.
Definition lq (e : Q -> Q -> bool) := list_eqb e.
Definition oq (e : Q -> Q -> bool) := option_eqb e.
Definition mq (e : Q -> Q -> bool) := list_eqb (list_eqb e).

Record fitout := {
  o_data : list Q; o_residual : list Q; o_normres : list Q; o_chimap : list Q;
  o_chi2 : Q; o_redchi2 : res Q; o_nn : Q; o_ll : Q; o_llreg : option Q; o_evidence : option Q;
  o_fom : option Q; o_rff : list (option Q); o_snr : list (option Q) }.
Record invout := {
  o_noreg : list nat; o_H : list (list Q); o_FH : list (list Q); o_Hred : list (list Q);
  o_FHred : list (list Q); o_sred : list Q; o_regterm : Q; o_ldc : Q; o_ldr : Q }.
Record utilout := {
  u_res : list Q; u_nres : list Q; u_cmap : list Q; u_chi2 : Q; u_nn : Q;
  u_resw : list Q; u_nresw : list Q; u_cmapw : list Q; u_chi2w : Q; u_fast : Q; u_nnw : Q;
  u_rff : list (option Q); u_rffw : list (option Q) }.

Inductive case :=
| KFit (tbl : list (Q * Q)) (tp : Q) (f : fit Q) (out : fitout)
| KInv (tbl : list (Q * Q)) (iv : inv Q) (out : invout)
| KUtil (tbl : list (Q * Q)) (tp : Q) (mk : list bool) (d n m : list Q) (out : utilout)
| KCompose (chi reg ldc ldr nn : Q) (out : Q * Q * Q).

Definition agree_fit_e (e : Q -> Q -> bool) (tbl : list (Q * Q)) (tp : Q) (f : fit Q) (o : fitout) : bool :=
  let O := QL tbl in
  lq e (@fit_data O f) (o_data o) &&
  lq e (@fit_residual_map O f) (o_residual o) &&
  lq e (@fit_normalized_residual_map O f) (o_normres o) &&
  lq e (@fit_chi_squared_map O f) (o_chimap o) &&
  e (@fit_chi_squared O f) (o_chi2 o) &&
  res_eqb close (@fit_reduced_chi_squared O f) (o_redchi2 o) &&
  close (@fit_noise_normalization O tp f) (o_nn o) &&
  close (@fit_log_likelihood O tp f) (o_ll o) &&
  oq close (@fit_log_likelihood_with_regularization O tp f) (o_llreg o) &&
  oq close (@fit_log_evidence O tp f) (o_evidence o) &&
  oq close (@fit_figure_of_merit O tp f) (o_fom o) &&
  list_eqb (oq close) (@fit_residual_flux_fraction_map O f) (o_rff o) &&
  list_eqb (oq e) (@fit_signal_to_noise_map O f) (o_snr o).
Definition agree_fit := agree_fit_e exact.

Definition agree_inv_e (e : Q -> Q -> bool) (tbl : list (Q * Q)) (iv : inv Q) (o : invout) : bool :=
  let O := QL tbl in
  list_eqb Nat.eqb (@no_regularization_index_list (objs iv)) (o_noreg o) &&
  mq e (@regularization_matrix O iv) (o_H o) &&
  mq e (@curvature_reg_matrix O iv) (o_FH o) &&
  mq e (@regularization_matrix_reduced O iv) (o_Hred o) &&
  mq e (@curvature_reg_matrix_reduced O iv) (o_FHred o) &&
  lq e (@reconstruction_reduced O iv) (o_sred o) &&
  e (@regularization_term O iv) (o_regterm o) &&
  close (@log_det_curvature_reg_matrix_term O iv) (o_ldc o) &&
  close (@log_det_regularization_matrix_term O iv) (o_ldr o).
Definition agree_inv := agree_inv_e exact.

Definition agree_util (tbl : list (Q * Q)) (tp : Q) (mk : list bool) (d n m : list Q) (o : utilout) : bool :=
  let O := QL tbl in
  let r := @residual_map_from O d m in
  let rw := @residual_map_with_mask_from O d mk m in
  lq exact r (u_res o) &&
  lq exact (@normalized_residual_map_from O r n) (u_nres o) &&
  lq exact (@chi_squared_map_from O r n) (u_cmap o) &&
  exact (@chi_squared_from O (@chi_squared_map_from O r n)) (u_chi2 o) &&
  close (@noise_normalization_from O tp n) (u_nn o) &&
  lq exact rw (u_resw o) &&
  lq exact (@normalized_residual_map_with_mask_from O rw n mk) (u_nresw o) &&
  lq exact (@chi_squared_map_with_mask_from O rw n mk) (u_cmapw o) &&
  exact (@chi_squared_with_mask_from O (@chi_squared_map_with_mask_from O rw n mk) mk) (u_chi2w o) &&
  exact (@chi_squared_with_mask_fast_from O d mk m n) (u_fast o) &&
  close (@noise_normalization_with_mask_from O tp n mk) (u_nnw o) &&
  list_eqb (oq close) (@residual_flux_fraction_map_from O r d) (u_rff o) &&
  list_eqb (oq close) (@residual_flux_fraction_map_with_mask_from O rw d mk) (u_rffw o).

Definition agree (k : case) : bool :=
  match k with
  | KFit tbl tp f o => agree_fit tbl tp f o
  | KInv tbl iv o => agree_inv tbl iv o
  | KUtil tbl tp mk d n m o => agree_util tbl tp mk d n m o
  | KCompose chi reg ldc ldr nn (ll, llr, ev) =>
      exact (@log_likelihood_from QOps chi nn) ll &&
      exact (@log_likelihood_with_regularization_from QOps chi reg nn) llr &&
      exact (@log_evidence_from QOps chi reg ldc ldr nn) ev
  end.

(* ---- the specification applied to the implementation's output (never calls the model) *)
Definition all_idx (n : nat) (p : nat -> bool) : bool := forallb p (seq 0 n).
(* an element-wise map: right length, the default value in excluded pixels, [g i] elsewhere *)
Definition map_ok (e : Q -> Q -> bool) (len : nat) (excl : nat -> bool) (g : nat -> Q) (out : list Q) : bool :=
  Nat.eqb (length out) len &&
  all_idx len (fun i => if excl i then exact (nth i out 1) 0 else e (g i) (nth i out 0)).

Definition spec_fit_e (e : Q -> Q -> bool) (tbl : list (Q * Q)) (tp : Q) (f : fit Q) (o : fitout) : bool :=
  let O := QL tbl in
  let len := length (data f) in
  let ex := @excluded O f in
  let none := fun _ : nat => false in
  (* in-scope inputs only (the harness generates nothing else): an out-of-scope case is rejected, never waved through *)
  (@fit_okb O f && @noise_positiveb O f && @fit_inv_okb O f) &&
  (map_ok e len none (@s_data O f) (o_data o) &&
   map_ok e len ex (@s_residual O f) (o_residual o) &&
   map_ok e len ex (@s_normres O f) (o_normres o) &&
   map_ok e len ex (@s_chi O f) (o_chimap o) &&
   e (@s_chi_squared O f) (o_chi2 o) &&
   (let n := length (@fit_pixels O f) in
    match o_redchi2 o with
    | Ok v => negb (Nat.eqb n 0) && close (Qdiv (@s_chi_squared O f) (inject_Z (Z.of_nat n))) v
    | Raise _ => Nat.eqb n 0
    end) &&
   close (@s_noise_normalization O tp f) (o_nn o) &&
   close (@s_log_likelihood O tp f) (o_ll o) &&
   oq close (option_map (@s_log_likelihood_with_regularization O tp f) (inversion f)) (o_llreg o) &&
   oq close (option_map (@s_log_evidence O tp f) (inversion f)) (o_evidence o) &&
   oq close (Some (@s_figure_of_merit O tp f)) (o_fom o) &&
   (* residual flux fraction = residual / data wherever data <> 0 (a zero denominator is not a number) *)
   Nat.eqb (length (o_rff o)) len &&
   all_idx len (fun i =>
     if ex i then oq exact (nth i (o_rff o) None) (Some 0)
     else if Qeq_bool (@s_data O f i) 0 then oq exact (nth i (o_rff o) (Some 0)) None
     else oq close (Some (@s_residual_flux_fraction O f i)) (nth i (o_rff o) None)) &&
   (* signal to noise is not masked by the code: it is defined on every stored pixel with positive noise *)
   Nat.eqb (length (o_snr o)) len &&
   all_idx len (fun i => if Qle_bool (@at_ O (noise f) i) 0 then true
                         else oq e (Some (@s_signal_to_noise O f i)) (nth i (o_snr o) None))).
Definition spec_fit := spec_fit_e exact.

Definition spec_inv_e (e : Q -> Q -> bool) (tbl : list (Q * Q)) (iv : inv Q) (o : invout) : bool :=
  let O := QL tbl in
  let R := reg_indices (objs iv) in
  @inv_okb O iv &&
  (mq e (@tabulate O (@s_H O iv) R) (o_Hred o) &&
   mq e (@tabulate O (@s_FH O iv) R) (o_FHred o) &&
   lq e (map (@at_ O (recon iv)) R) (o_sred o) &&
   e (@s_regularization_term O iv) (o_regterm o) &&
   (if has_reg (objs iv) then close (@s_logdet_FH O iv) (o_ldc o) && close (@s_logdet_H O iv) (o_ldr o)
    else exact 0 (o_ldc o) && exact 0 (o_ldr o))).
Definition spec_inv := spec_inv_e exact.

Definition spec_util (tbl : list (Q * Q)) (tp : Q) (mk : list bool) (d n m : list Q) (o : utilout) : bool :=
  let O := QL tbl in
  let len := length d in
  let none := fun _ : nat => false in
  let ex := fun i => nth i mk true in
  let fs := {| mask := mk; use_mask := false; sky := 0; data := d; noise := n; model := m; inversion := None |} in
  let fw := {| mask := mk; use_mask := true; sky := 0; data := d; noise := n; model := m; inversion := None |} in
  (Nat.eqb (length n) len && Nat.eqb (length m) len && Nat.eqb (length mk) len) &&
  (map_ok exact len none (@s_residual O fs) (u_res o) &&
   map_ok exact len none (@s_normres O fs) (u_nres o) &&
   map_ok exact len none (@s_chi O fs) (u_cmap o) &&
   exact (@s_chi_squared O fs) (u_chi2 o) &&
   close (@s_noise_normalization O tp fs) (u_nn o) &&
   map_ok exact len ex (@s_residual O fw) (u_resw o) &&
   map_ok exact len ex (@s_normres O fw) (u_nresw o) &&
   map_ok exact len ex (@s_chi O fw) (u_cmapw o) &&
   exact (@s_chi_squared O fw) (u_chi2w o) &&
   exact (@s_chi_squared O fw) (u_fast o) &&
   close (@s_noise_normalization O tp fw) (u_nnw o) &&
   Nat.eqb (length (u_rff o)) len && Nat.eqb (length (u_rffw o)) len &&
   all_idx len (fun i =>
     (if Qeq_bool (nth i d 0) 0 then oq exact (nth i (u_rff o) (Some 0)) None
      else oq close (Some (@s_residual_flux_fraction O fs i)) (nth i (u_rff o) None)) &&
     (if ex i then oq exact (nth i (u_rffw o) None) (Some 0)
      else if Qeq_bool (nth i d 0) 0 then oq exact (nth i (u_rffw o) (Some 0)) None
      else oq close (Some (@s_residual_flux_fraction O fw i)) (nth i (u_rffw o) None)))).

Definition spec_ok (k : case) : bool :=
  match k with
  | KFit tbl tp f o => spec_fit tbl tp f o
  | KInv tbl iv o => spec_inv tbl iv o
  | KUtil tbl tp mk d n m o => spec_util tbl tp mk d n m o
  | KCompose chi reg ldc ldr nn (ll, llr, ev) =>
      exact (- ((chi + nn) / 2)) ll && exact (- ((chi + reg + nn) / 2)) llr &&
      exact (- ((chi + reg + ldc - ldr + nn) / 2)) ev
  end.

Definition check (k : case) : nat := verdict (agree k) (spec_ok k).
