(* C20 -- Triangle up-sampling tiles exactly; neighbourhoods and selections are faithful.
   Statements only; every proof is [exact <lemma of Proofs/C20.v>].  The routines the statements are about
   (up_sample_triangles, neighborhood_triangles, a_* = ArrayTriangles, c_* = CoordinateArrayTriangles, point_mask,
   shape_mask, ...) are the executable model of Model/C20.v instantiated at the real numbers; the vocabulary
   (inside, strictly_inside, subdivision, edge_neighbour, same_triangle_set, total_area, lattice_children, lattice_neighbours) is Model/C20Spec.v.
   HEIGHT_FACTOR is the universally quantified [h] ([T ROps] is [R]). *)
From Coq Require Import ZArith List Bool Reals Lra.
From PAV Require Import Base.Res Base.NumOps Model.C20 Model.C20Spec Model.C20Scale Model.C20Rewire Proofs.C20 Proofs.C20Hist Proofs.C20Scale Proofs.C20Rewire.
Import ListNotations.
Local Open Scope R_scope.

(* ------------------------------------------------------------ ArrayTriangles: index rows
   idx_in_range is the guard under which vertices[indices] does not raise; the statements about ArrayTriangles
   below carry it, the raising branch is its own statement, and every operation returns index rows in range *)
Theorem C20_array_triangles_in_range : forall (A : @atri ROps),
  idx_in_range A = true -> a_triangles_checked A = Ok (a_triangles A).
Proof. exact (@a_triangles_checked_ok ROps). Qed.
Theorem C20_array_triangles_out_of_range : forall (A : @atri ROps),
  idx_in_range A = false -> a_triangles_checked A = Raise IndexError.
Proof. exact (@a_triangles_checked_raise ROps). Qed.
Theorem C20_array_triangle_corners_are_vertices : forall (A : @atri ROps) (t : rtri),
  idx_in_range A = true -> In t (a_triangles A) ->
  In (v0 t) (snd A) /\ In (v1 t) (snd A) /\ In (v2 t) (snd A).
Proof. exact (@a_triangles_corners ROps). Qed.
Theorem C20_array_outputs_in_range : forall (A : @atri ROps),
  idx_in_range (a_up_sample A) = true /\ idx_in_range (a_neighborhood A) = true
  /\ forall sel, idx_in_range (a_for_indexes A sel) = true.
Proof. exact a_outputs_in_range. Qed.

(* ------------------------------------------------------------ up-sampling: count, subdivision, tiling, area, corners *)
Theorem C20_count_quadruples : forall (ts : list rtri),
  length (up_sample_triangles ts) = (4 * length ts)%nat.
Proof. exact (@up_sample_length ROps). Qed.

(* the output consists of exactly the midpoint subdivisions of the inputs *)
Theorem C20_up_sample_is_subdivision : forall (ts : list rtri),
  same_triangle_set (up_sample_triangles ts) (flat_map subdivision ts).
Proof. exact up_sample_is_subdivision. Qed.

(* the subdivision tiles its parent: inside it, covering it, with pairwise disjoint interiors, a quarter of the
   (signed) area each *)
Theorem C20_subdivision_inside_parent : forall (t c : rtri) (p : rpt),
  In c (subdivision t) -> inside c p -> inside t p.
Proof. exact subdivision_inside_parent. Qed.
Theorem C20_subdivision_covers_parent : forall (t : rtri) (p : rpt),
  inside t p -> exists c, In c (subdivision t) /\ inside c p.
Proof. exact subdivision_covers_parent. Qed.
Theorem C20_subdivision_interiors_disjoint : forall (t c1 c2 : rtri) (p : rpt) (i j : nat),
  nondegenerate t -> i <> j ->
  nth_error (subdivision t) i = Some c1 -> nth_error (subdivision t) j = Some c2 ->
  strictly_inside c1 p -> strictly_inside c2 p -> False.
Proof. exact subdivision_interiors_disjoint. Qed.
Theorem C20_subdivision_quarter_area : forall (t c : rtri),
  In c (subdivision t) -> signed2 c = signed2 t / 4.
Proof. exact subdivision_signed2. Qed.

(* total area is conserved, in the code's own area formula *)
Theorem C20_area_formula : forall (ts : list rtri), @area ROps ts = total_area ts.
Proof. exact area_is_total_area. Qed.
Theorem C20_area_conserved : forall (ts : list rtri),
  @area ROps (up_sample_triangles ts) = @area ROps ts.
Proof. exact area_conserved. Qed.

(* every corner of every input triangle is a corner of an output triangle *)
Theorem C20_vertices_preserved : forall (ts : list rtri) (t : rtri) (p : rpt),
  In t ts -> is_corner p t -> exists c, In c (up_sample_triangles ts) /\ is_corner p c.
Proof. exact vertices_preserved. Qed.

(* ArrayTriangles.up_sample: de-duplicating the corners (np.unique) does not change the triangles *)
Theorem C20_array_up_sample : forall (A : @atri ROps),
  idx_in_range A = true -> a_triangles (a_up_sample A) = up_sample_triangles (a_triangles A).
Proof. exact a_up_sample_triangles_g. Qed.

(* CoordinateArrayTriangles.up_sample: the lattice children, with the halved side, the shifted y offset and
   flipped := true, are the midpoint children of the parents' triangles -- for both parities, both flip states,
   every h, side and offset *)
Theorem C20_coordinate_children_are_midpoint_children : forall (h : T ROps) (S : cs ROps) (c : zpt),
  let t := @c_tri ROps h S c in
  Forall2 tri_perm (map (@c_tri ROps h (c_up_sample h S)) (lattice_children (flip_of (c_flipped S) c) c))
          (if flip_of (c_flipped S) c then [child_d t; child_b t; child_a t; child_c t]
           else [child_c t; child_a t; child_b t; child_d t]).
Proof. exact coord_children_geometry. Qed.
Theorem C20_coordinate_up_sample_matches_array_up_sample : forall (h : T ROps) (S : cs ROps),
  same_triangle_set (@c_triangles ROps h (c_up_sample h S)) (up_sample_triangles (@c_triangles ROps h S)).
Proof. exact c_up_sample_exact. Qed.
(* the four lattice children of a cell are distinct cells, and a cell of the finer lattice has one parent only *)
Theorem C20_lattice_children_distinct : forall (down : bool) (c : zpt), NoDup (lattice_children down c).
Proof. exact lattice_children_distinct. Qed.
Theorem C20_lattice_child_has_unique_parent : forall (fl : bool) (c1 c2 c' : zpt),
  In c' (lattice_children (flip_of fl c1) c1) -> In c' (lattice_children (flip_of fl c2) c2) -> c1 = c2.
Proof. exact lattice_child_unique_parent. Qed.
Theorem C20_coordinate_count_quadruples : forall (h : T ROps) (S : cs ROps),
  c_len (@c_up_sample ROps h S) = (4 * c_len S)%nat.
Proof. exact (@c_up_sample_len ROps). Qed.
Theorem C20_coordinate_vertices_preserved : forall (h : T ROps) (S : cs ROps) (t : rtri) (p : rpt),
  In t (@c_triangles ROps h S) -> is_corner p t ->
  exists c, In c (@c_triangles ROps h (c_up_sample h S)) /\ is_corner p c.
Proof. exact c_vertices_preserved. Qed.
(* the closed-form area of the lattice representation is the sum of its triangles' areas, and is conserved *)
Theorem C20_coordinate_area_formula : forall (h : T ROps) (S : cs ROps),
  0 <= h -> @c_area ROps h S = total_area (c_triangles h S).
Proof. exact c_area_is_total_area. Qed.
Theorem C20_coordinate_area_conserved : forall (h : T ROps) (S : cs ROps),
  @c_area ROps h (c_up_sample h S) = c_area h S.
Proof. exact c_up_sample_area. Qed.

(* ------------------------------------------------------------ neighbourhoods *)
(* the three constructed triangles are the edge neighbours (shared edge, third corner reflected through the edge's
   midpoint, opposite orientation hence on the other side of the edge, same area) ... *)
Theorem C20_reflections_are_edge_neighbours : forall (t : rtri),
  edge_neighbour 0 t (refl0 t) /\ edge_neighbour 1 t (refl1 t) /\ edge_neighbour 2 t (refl2 t).
Proof. exact refl_edge_neighbour. Qed.
Theorem C20_reflections_flip_orientation : forall (t : rtri),
  signed2 (refl0 t) = - signed2 t /\ signed2 (refl1 t) = - signed2 t /\ signed2 (refl2 t) = - signed2 t.
Proof. exact refl_signed2. Qed.
(* ... and the neighbourhood list holds every triangle with its three edge neighbours and nothing else *)
Theorem C20_neighborhood_members : forall (ts : list rtri) (n : rtri),
  In n (neighborhood_triangles ts) <-> exists t, In t ts /\ self_or_neighbour t n.
Proof. exact neighborhood_spec. Qed.
(* ArrayTriangles.neighborhood (np.unique on corners, np.sort + np.unique on index rows) keeps that set *)
Theorem C20_array_neighborhood_exact : forall (A : @atri ROps),
  idx_in_range A = true ->
  same_triangle_set (a_triangles (a_neighborhood A)) (neighborhood_triangles (a_triangles A)).
Proof. exact a_neighborhood_exact_g. Qed.
(* CoordinateArrayTriangles.neighborhood: the lattice neighbours are the edge reflections, both parities *)
Theorem C20_coordinate_neighbours_are_reflections : forall (h : T ROps) (S : cs ROps) (c : zpt),
  let t := @c_tri ROps h S c in
  Forall2 tri_perm (map (@c_tri ROps h S) (lattice_neighbours (flip_of (c_flipped S) c) c))
          (if flip_of (c_flipped S) c then [t; refl1 t; refl2 t; refl0 t] else [t; refl2 t; refl1 t; refl0 t]).
Proof. exact coord_neighbours_geometry. Qed.
Theorem C20_coordinate_neighborhood_exact : forall (h : T ROps) (S : cs ROps),
  same_triangle_set (@c_triangles ROps h (c_neighborhood S)) (neighborhood_triangles (@c_triangles ROps h S)).
Proof. exact c_neighborhood_exact. Qed.

(* np.unique leaves no repeated index row, vertex or lattice cell; up-sampling distinct cells gives distinct cells *)
Theorem C20_array_neighborhood_rows_distinct : forall (A : @atri ROps),
  NoDup (fst (a_neighborhood A)) /\ NoDup (snd (a_neighborhood A)).
Proof. exact a_neighborhood_rows_distinct. Qed.
Theorem C20_array_up_sample_vertices_distinct : forall (A : @atri ROps), NoDup (snd (a_up_sample A)).
Proof. exact (fun A => reindex_vertices_distinct (up_sample_triangles (a_triangles A))). Qed.
Theorem C20_coordinate_neighborhood_cells_distinct : forall (S : cs ROps), NoDup (c_coords (c_neighborhood S)).
Proof. exact (@c_neighborhood_coords_distinct ROps). Qed.
Theorem C20_coordinate_up_sample_cells_distinct : forall (h : T ROps) (S : cs ROps),
  NoDup (c_coords S) -> NoDup (c_coords (c_up_sample h S)).
Proof. exact (@c_up_sample_coords_distinct ROps). Qed.

(* ------------------------------------------------------------ histories: the user edits vertices[j] = p in place, then reads
   a_edits A es is the object after the writes es (in order).  Index rows and vertex count are unchanged (so the rows stay in
   range and every statement of this file applies to the edited object), and .triangles shows, for every corner, the LAST
   value written to its vertex slot, or the original row if the slot was never written: a function of the current arrays. *)
Theorem C20_read_after_edits : forall (A : @atri ROps) (es : list (nat * rpt)),
  edits_in_range A es = true ->
  fst (a_edits A es) = fst A /\ length (snd (a_edits A es)) = length (snd A)
  /\ idx_in_range (a_edits A es) = idx_in_range A
  /\ a_triangles (a_edits A es)
     = map (fun r => (slot_after (snd A) es (i0 r), slot_after (snd A) es (i1 r), slot_after (snd A) es (i2 r))) (fst A).
Proof. exact (@a_edits_read ROps). Qed.
Theorem C20_edit_slots : forall (vs : list rpt) (es : list (nat * rpt)) (i j : nat) (p : rpt),
  (forallb (fun e : nat * rpt => negb (Nat.eqb (fst e) i)) es = true -> slot_after vs es i = getv vs i)
  /\ slot_after vs (es ++ [(j, p)]) j = p.
Proof. intros vs es i j p. split; [exact (@slot_after_untouched ROps vs es i)|exact (@slot_after_last ROps vs es j p)]. Qed.

(* second kind of history: the user re-wires triangles in place, indices[r] = (a, b, c), then reads.
   a_rewires A es is the object after the writes es (in order).  The vertex array and the number of triangles are unchanged,
   and triangle i is made of the vertices addressed by the LAST row written to position i, or by the original row if the
   position was never written; if every written row addresses a vertex the object stays in range, so every statement of this
   file applies to it. *)
Theorem C20_read_after_rewires : forall (A : @atri ROps) (es : list (nat * idx3)),
  rewires_in_range (fst A) es = true ->
  snd (a_rewires A es) = snd A /\ length (fst (a_rewires A es)) = length (fst A)
  /\ a_triangles (a_rewires A es)
     = map (fun i => row_tri (snd A) (row_after (fst A) es i)) (seq 0 (length (fst A))).
Proof. exact (@a_rewires_read ROps). Qed.
Theorem C20_rewires_stay_in_range : forall (A : @atri ROps) (es : list (nat * idx3)),
  idx_in_range A = true ->
  forallb (fun e : nat * idx3 => Nat.ltb (i0 (snd e)) (length (snd A)) && Nat.ltb (i1 (snd e)) (length (snd A))
                                 && Nat.ltb (i2 (snd e)) (length (snd A))) es = true ->
  idx_in_range (a_rewires A es) = true.
Proof. exact (@a_rewires_in_range ROps). Qed.
Theorem C20_rewire_rows : forall (rows : list idx3) (es : list (nat * idx3)) (i j : nat) (p : idx3),
  (forallb (fun e : nat * idx3 => negb (Nat.eqb (fst e) i)) es = true -> row_after rows es i = getrow rows i)
  /\ row_after rows (es ++ [(j, p)]) j = p.
Proof. intros rows es i j p. split; [exact (row_after_untouched rows es i)|exact (row_after_last rows es j p)]. Qed.

(* ------------------------------------------------------------ selections; the two representations *)
Theorem C20_array_for_indexes : forall (A : @atri ROps) (sel : list nat),
  idx_in_range A = true -> Forall (fun i => (i < length (fst A))%nat) sel ->
  map Some (a_triangles (a_for_indexes A sel)) = map (nth_error (a_triangles A)) sel.
Proof. exact a_for_indexes_triangles_g. Qed.
Theorem C20_coordinate_for_indexes : forall (h : T ROps) (S : cs ROps) (sel : list nat),
  Forall (fun i => (i < length (c_coords S))%nat) sel ->
  map Some (@c_triangles ROps h (c_for_indexes S sel)) = map (nth_error (@c_triangles ROps h S)) sel.
Proof. exact (@c_for_indexes_triangles ROps). Qed.
(* vertices / indices of a coordinate array, and with_vertices(vertices), describe the coordinate array's triangles *)
Theorem C20_representations_agree : forall (h : T ROps) (S : cs ROps),
  a_triangles (@c_with_vertices ROps h S (snd (c_repr h S))) = c_triangles h S.
Proof. exact c_representations_agree. Qed.
Theorem C20_representation_indices_in_range : forall (h : T ROps) (S : cs ROps),
  idx_in_range (@c_repr ROps h S) = true.
Proof. exact c_repr_in_range. Qed.

(* ------------------------------------------------------------ containment *)
(* Point.mask is the closed-triangle membership test; a degenerate triangle contains nothing (x/0 -> nan) *)
Theorem C20_point_mask_is_inside : forall (p : rpt) (t : rtri),
  nondegenerate t -> (point_mask p t = true <-> inside t p).
Proof. exact point_mask_iff_inside. Qed.
Theorem C20_point_mask_degenerate : forall (p : rpt) (t : rtri), signed2 t = 0 -> point_mask p t = false.
Proof. exact point_mask_degenerate. Qed.
(* every shape is reported for a triangle that contains the shape's reference point *)
Theorem C20_shape_mask_if_reference_point_inside : forall (s : shape ROps) (t : rtri),
  nondegenerate t -> inside t (shape_ref s) -> shape_mask s t = true.
Proof. exact shape_mask_if_reference_point_inside. Qed.
(* containing_indices returns exactly the positions whose triangle the shape's mask accepts, in both representations *)
Theorem C20_array_containing_indices : forall (A : @atri ROps) (s : shape ROps) (i : nat),
  idx_in_range A = true ->
  (In i (a_containing A s) <-> exists t, nth_error (a_triangles A) i = Some t /\ shape_mask s t = true).
Proof. exact a_containing_spec_g. Qed.
Theorem C20_coordinate_containing_indices : forall (h : T ROps) (S : cs ROps) (s : shape ROps) (i : nat),
  In i (@c_containing ROps h S s) <-> exists t, nth_error (@c_triangles ROps h S) i = Some t /\ shape_mask s t = true.
Proof. exact c_containing_spec. Qed.
(* the orientation test the correspondence run applies to the implementation's output is the same notion *)
Theorem C20_checker_inside_is_inside : forall (p : rpt) (t : rtri),
  @spec_inside ROps p t = true <-> nondegenerate t /\ inside t p.
Proof. exact spec_inside_iff. Qed.

(* likewise the executable subdivision / neighbour lists the run compares the implementation's output with *)
Theorem C20_checker_children_are_subdivision : forall (t : rtri),
  same_triangle_set (@spec_children ROps t) (subdivision t).
Proof. exact spec_children_is_subdivision. Qed.
Theorem C20_checker_neighbours_are_neighbours : forall (t n : rtri),
  In n (@spec_neighbours ROps t) <-> self_or_neighbour t n.
Proof. exact spec_neighbours_are_neighbours. Qed.

(* ------------------------------------------------------------ no intrinsic length scale
   scale_pt / scale_tri / scale_shape multiply every length by s (Model/C20Scale.v).  Every containment decision of every
   shape is unchanged when shape and triangle are scaled together (so a triangle of side 1e-12 is treated exactly like a
   triangle of side 1: no absolute tolerance), and subdivision, reflection and area are covariant. *)
Theorem C20_containment_scale_invariant : forall (s : R) (sh : shape ROps) (t : rtri),
  0 < s -> shape_mask (scale_shape s sh) (scale_tri s t) = shape_mask sh t.
Proof. exact shape_mask_scale. Qed.
Theorem C20_operations_scale_covariant : forall (s : R) (ts : list rtri),
  up_sample_triangles (map (scale_tri s) ts) = map (scale_tri s) (up_sample_triangles ts)
  /\ neighborhood_triangles (map (scale_tri s) ts) = map (scale_tri s) (neighborhood_triangles ts)
  /\ area (map (scale_tri s) ts) = s * s * area ts.
Proof. intros s ts. split; [apply up_sample_scale|]. split; [apply neighborhood_scale|apply area_scale]. Qed.

(* ------------------------------------------------------------ non-vacuity *)
Definition ex_t : rtri := ((0, 0), (4, 0), (1, 3)).
Example C20_hyps_satisfiable :
  nondegenerate ex_t /\ inside ex_t (2, 1) /\ strictly_inside ex_t (2, 1)
  /\ Forall (fun i => (i < length (fst ([(0, 1, 2); (1, 2, 3)]%nat, [(0, 0); (4, 0); (1, 3); (5, 3)])))%nat) [1; 0; 1]%nat
  /\ idx_in_range ([(0, 1, 2); (1, 2, 3)]%nat, [(0, 0); (4, 0); (1, 3); (5, 3)]) = true
  /\ idx_in_range ([(0, 1, 4)]%nat, [(0, 0); (4, 0); (1, 3); (5, 3)]) = false
  /\ NoDup [(0, 0); (1, 0); (-1, 2)]%Z
  /\ 0 <= sqrt 3 / 2.
Proof.
  unfold nondegenerate, inside, strictly_inside, ex_t, signed2, comb, v0, v1, v2. cbn [fst snd length].
  split; [lra|]. split; [exists (1 / 4), (5 / 12), (1 / 3); repeat split; try lra; f_equal; lra|].
  split; [exists (1 / 4), (5 / 12), (1 / 3); repeat split; try lra; f_equal; lra|].
  split; [repeat constructor|]. split; [reflexivity|]. split; [reflexivity|].
  split; [repeat constructor; cbn; intuition discriminate|]. apply Rmult_le_pos; [apply sqrt_pos|lra].
Qed.

(* a history of three in-place edits (slot 1 written twice, the last write wins) on a two-triangle object *)
Example C20_edits_satisfiable :
  let A : @atri ROps := ([(0, 1, 2); (1, 2, 3)]%nat, [(0, 0); (4, 0); (1, 3); (5, 3)]) in
  let es : list (nat * rpt) := [(1%nat, (7, 7)); (3%nat, (2, 2)); (1%nat, (8, 1))] in
  edits_in_range A es = true /\ idx_in_range A = true
  /\ a_triangles (a_edits A es) = [((0, 0), (8, 1), (1, 3)); ((8, 1), (1, 3), (2, 2))].
Proof. cbv zeta. split; [reflexivity|]. split; reflexivity. Qed.

(* a history of three row writes (position 0 written twice, the last write wins) on a two-triangle object *)
Example C20_rewires_satisfiable :
  let A : @atri ROps := ([(0, 1, 2); (1, 2, 3)]%nat, [(0, 0); (4, 0); (1, 3); (5, 3)]) in
  let es : list (nat * idx3) := [(0, (3, 3, 0)); (1, (2, 1, 0)); (0, (3, 1, 0))]%nat in
  rewires_in_range (fst A) es = true /\ idx_in_range A = true
  /\ forallb (fun e : nat * idx3 => Nat.ltb (i0 (snd e)) (length (snd A)) && Nat.ltb (i1 (snd e)) (length (snd A))
                                    && Nat.ltb (i2 (snd e)) (length (snd A))) es = true
  /\ a_triangles (a_rewires A es) = [((5, 3), (4, 0), (0, 0)); ((1, 3), (4, 0), (0, 0))].
Proof. cbv zeta. split; [reflexivity|]. split; [reflexivity|]. split; reflexivity. Qed.

Print Assumptions C20_count_quadruples. Print Assumptions C20_up_sample_is_subdivision.
Print Assumptions C20_subdivision_inside_parent. Print Assumptions C20_subdivision_covers_parent.
Print Assumptions C20_subdivision_interiors_disjoint. Print Assumptions C20_subdivision_quarter_area.
Print Assumptions C20_area_formula. Print Assumptions C20_area_conserved. Print Assumptions C20_vertices_preserved.
Print Assumptions C20_array_up_sample. Print Assumptions C20_coordinate_children_are_midpoint_children.
Print Assumptions C20_coordinate_up_sample_matches_array_up_sample. Print Assumptions C20_coordinate_count_quadruples.
Print Assumptions C20_coordinate_area_formula. Print Assumptions C20_coordinate_area_conserved.
Print Assumptions C20_reflections_are_edge_neighbours. Print Assumptions C20_reflections_flip_orientation.
Print Assumptions C20_neighborhood_members. Print Assumptions C20_array_neighborhood_exact.
Print Assumptions C20_coordinate_neighbours_are_reflections. Print Assumptions C20_coordinate_neighborhood_exact.
Print Assumptions C20_array_for_indexes. Print Assumptions C20_coordinate_for_indexes.
Print Assumptions C20_representations_agree. Print Assumptions C20_representation_indices_in_range.
Print Assumptions C20_point_mask_is_inside. Print Assumptions C20_point_mask_degenerate.
Print Assumptions C20_shape_mask_if_reference_point_inside. Print Assumptions C20_array_containing_indices.
Print Assumptions C20_coordinate_containing_indices. Print Assumptions C20_checker_inside_is_inside.
Print Assumptions C20_coordinate_vertices_preserved. Print Assumptions C20_checker_children_are_subdivision.
Print Assumptions C20_checker_neighbours_are_neighbours.
Print Assumptions C20_array_triangles_in_range. Print Assumptions C20_array_triangles_out_of_range.
Print Assumptions C20_array_triangle_corners_are_vertices. Print Assumptions C20_array_outputs_in_range.
Print Assumptions C20_array_neighborhood_rows_distinct. Print Assumptions C20_array_up_sample_vertices_distinct.
Print Assumptions C20_coordinate_neighborhood_cells_distinct. Print Assumptions C20_coordinate_up_sample_cells_distinct.
Print Assumptions C20_lattice_children_distinct. Print Assumptions C20_lattice_child_has_unique_parent.
Print Assumptions C20_read_after_edits. Print Assumptions C20_edit_slots.
Print Assumptions C20_read_after_rewires. Print Assumptions C20_rewires_stay_in_range. Print Assumptions C20_rewire_rows.
Print Assumptions C20_containment_scale_invariant. Print Assumptions C20_operations_scale_covariant.
