(* C14 -- part 3: row-major scans over the unmasked pixels, scaled coordinates (at R), the parity-preserving resize
   keeps coordinates, the automatic padding of Imaging.apply_mask keeps the (coordinate, data, noise) triples. *)
From Coq Require Import ZArith List Bool Lia Reals Lra.
From PAV Require Import Base.Res Base.Check Base.NumOps Model.C14 Proofs.C14 Proofs.C14b.
Import ListNotations.
Local Open Scope Z_scope.

(* ------------------------------------------------------------------ row-major scan of the unmasked pixels *)
Definition scan {C} (R0 R1 : nat) (g : nat -> nat -> bool) (F : nat -> nat -> C) : list C :=
  flat_map (fun y => flat_map (fun x => if g y x then [] else [F y x]) (seq 0 R1)) (seq 0 R0).

Lemma scan_ext {C} R0 R1 g g' (F F' : nat -> nat -> C) :
  (forall y x, (y < R0)%nat -> (x < R1)%nat -> g y x = g' y x /\ (g y x = false -> F y x = F' y x)) ->
  scan R0 R1 g F = scan R0 R1 g' F'.
Proof.
  intros HX. unfold scan. apply flat_map_ext_in. intros y Hy. apply in_seq in Hy.
  apply flat_map_ext_in. intros x Hx. apply in_seq in Hx.
  destruct (HX y x ltac:(lia) ltac:(lia)) as [E1 E2]. rewrite <- E1. destruct (g y x); [reflexivity|]. now rewrite E2.
Qed.
Lemma map_scan {C D} (h : C -> D) R0 R1 g (F : nat -> nat -> C) : map h (scan R0 R1 g F) = scan R0 R1 g (fun y x => h (F y x)).
Proof.
  unfold scan. rewrite map_flat_map. apply flat_map_ext_in. intros y _. rewrite map_flat_map.
  apply flat_map_ext_in. intros x _. destruct (g y x); reflexivity.
Qed.
Lemma combine_app_eq {C D} (l1 : list C) : forall (l1' : list D) l2 l2', length l1 = length l1' ->
  combine (l1 ++ l2) (l1' ++ l2') = combine l1 l1' ++ combine l2 l2'.
Proof. induction l1 as [|h t IH]; intros [|h' t'] l2 l2' HL; cbn in *; try lia; [reflexivity|]. f_equal. apply IH. lia. Qed.
Lemma combine_flat_map {B C D} (f : B -> list C) (h : B -> list D) (l : list B) :
  (forall x, length (f x) = length (h x)) -> combine (flat_map f l) (flat_map h l) = flat_map (fun x => combine (f x) (h x)) l.
Proof. intros HL. induction l as [|a t IH]; cbn; [reflexivity|]. rewrite combine_app_eq by apply HL. now rewrite IH. Qed.
Lemma flat_map_length_ext {B C D} (f : B -> list C) (h : B -> list D) (l : list B) :
  (forall x, length (f x) = length (h x)) -> length (flat_map f l) = length (flat_map h l).
Proof. intros HL. induction l as [|a t IH]; cbn; [reflexivity|]. rewrite !app_length, IH, HL. reflexivity. Qed.
Lemma combine_scan {C D} R0 R1 g (F : nat -> nat -> C) (G : nat -> nat -> D) :
  combine (scan R0 R1 g F) (scan R0 R1 g G) = scan R0 R1 g (fun y x => (F y x, G y x)).
Proof.
  unfold scan. rewrite combine_flat_map.
  - apply flat_map_ext_in. intros y _. rewrite combine_flat_map; [|intros x; destruct (g y x); reflexivity].
    apply flat_map_ext_in. intros x _. destruct (g y x); reflexivity.
  - intros y. apply flat_map_length_ext. intros x. destruct (g y x); reflexivity.
Qed.

Lemma seq_shift_add t : forall H s, seq (s + t) H = map (fun y => (y + t)%nat) (seq s H).
Proof. induction H as [|H IH]; intros s; cbn; [reflexivity|]. f_equal. apply (IH (S s)). Qed.
(* a flat_map whose function vanishes outside the window [t, t + H) *)
Lemma flat_map_window {C} (f : nat -> list C) t H R : (t + H <= R)%nat ->
  (forall y, (y < R)%nat -> (y < t \/ t + H <= y)%nat -> f y = []) ->
  flat_map f (seq 0 R) = flat_map (fun y => f (y + t)%nat) (seq 0 H).
Proof.
  intros HR HZ. replace R with (t + (H + (R - t - H)))%nat by lia. rewrite !seq_app, !flat_map_app. cbn [plus].
  rewrite (flat_map_nil f (seq 0 t)) by (intros y Hy; apply in_seq in Hy; apply HZ; lia).
  rewrite (flat_map_nil f (seq (t + H) _)) by (intros y Hy; apply in_seq in Hy; apply HZ; lia).
  rewrite app_nil_r. cbn [app]. rewrite <- (Nat.add_0_l t) at 1. rewrite seq_shift_add, flat_map_map. reflexivity.
Qed.

(* the scan of a frame whose pixels outside a window are all masked is the scan of the window *)
Lemma scan_embed {C} H W R0 R1 t0 t1 g g' (F : nat -> nat -> C) :
  (t0 + H <= R0)%nat -> (t1 + W <= R1)%nat ->
  (forall y x, (y < R0)%nat -> (x < R1)%nat ->
     g' y x = if (Nat.leb t0 y && Nat.ltb y (t0 + H) && Nat.leb t1 x && Nat.ltb x (t1 + W))%bool
              then g (y - t0)%nat (x - t1)%nat else true) ->
  scan R0 R1 g' F = scan H W g (fun y x => F (y + t0)%nat (x + t1)%nat).
Proof.
  intros H0 H1 HG. unfold scan. rewrite (flat_map_window _ t0 H R0 H0).
  - apply flat_map_ext_in. intros y Hy. apply in_seq in Hy. rewrite (flat_map_window _ t1 W R1 H1).
    + apply flat_map_ext_in. intros x Hx. apply in_seq in Hx. rewrite HG by lia.
      assert (X1 : Nat.leb t0 (y + t0) = true) by (apply Nat.leb_le; lia).
      assert (X2 : Nat.ltb (y + t0) (t0 + H) = true) by (apply Nat.ltb_lt; lia).
      assert (X3 : Nat.leb t1 (x + t1) = true) by (apply Nat.leb_le; lia).
      assert (X4 : Nat.ltb (x + t1) (t1 + W) = true) by (apply Nat.ltb_lt; lia).
      rewrite X1, X2, X3, X4. cbn [andb]. replace (y + t0 - t0)%nat with y by lia. replace (x + t1 - t1)%nat with x by lia.
      reflexivity.
    + intros x Hx Ho. rewrite HG by lia.
      destruct (Nat.leb_spec t1 x), (Nat.ltb_spec x (t1 + W)); try lia; rewrite ?andb_false_r; reflexivity.
  - intros y Hy Ho. apply flat_map_nil. intros x Hx. apply in_seq in Hx. rewrite HG by lia.
    destruct (Nat.leb_spec t0 y), (Nat.ltb_spec y (t0 + H)); try lia; cbn [andb]; reflexivity.
Qed.

Lemma Entries_get2 {B} (m : list (list B)) R0 R1 f : Entries m R0 R1 f ->
  forall y x d, (y < Z.to_nat R0)%nat -> (x < Z.to_nat R1)%nat -> get2 d m y x = f (Z.of_nat y) (Z.of_nat x).
Proof.
  intros (_ & _ & _ & HE) y x d Hy Hx. specialize (HE (Z.of_nat y) (Z.of_nat x) d ltac:(lia) ltac:(lia)).
  unfold zget2 in HE. now rewrite !Nat2Z.id in HE.
Qed.

(* the scan the model performs over a mask held as a list of rows, read through its entry function *)
Lemma scan_entries {C} (m : list (list bool)) R0 R1 g (F : nat -> nat -> C) :
  Entries m R0 R1 g ->
  flat_map (fun y => flat_map (fun x => if get2 true m y x then [] else [F y x]) (seq 0 (length (hd [] m)))) (seq 0 (length m))
  = scan (Z.to_nat R0) (Z.to_nat R1) (fun y x => g (Z.of_nat y) (Z.of_nat x)) F.
Proof.
  intros (H0 & H1 & [HL HC] & HE). unfold scan. rewrite HL.
  destruct (Z.to_nat R0) as [|n] eqn:En; [reflexivity|].
  rewrite hd_nth0, HC by lia. apply flat_map_ext_in. intros y Hy. apply in_seq in Hy.
  apply flat_map_ext_in. intros x Hx. apply in_seq in Hx.
  specialize (HE (Z.of_nat y) (Z.of_nat x) true ltac:(lia) ltac:(lia)). unfold zget2 in HE. rewrite !Nat2Z.id in HE.
  rewrite HE. reflexivity.
Qed.

Lemma unmasked_coords_scan (m : list (list bool)) R0 R1 g : Entries m R0 R1 g ->
  unmasked_coords m = scan (Z.to_nat R0) (Z.to_nat R1) (fun y x => g (Z.of_nat y) (Z.of_nat x)) (fun y x => (Z.of_nat y, Z.of_nat x)).
Proof. intros HE. unfold unmasked_coords. now apply scan_entries. Qed.
Lemma slim_of_scan {B} (zero : B) (a : list (list B)) (m : list (list bool)) R0 R1 g : Entries m R0 R1 g ->
  slim_of zero a m = scan (Z.to_nat R0) (Z.to_nat R1) (fun y x => g (Z.of_nat y) (Z.of_nat x)) (fun y x => get2 zero a y x).
Proof. intros HE. unfold slim_of. now apply scan_entries. Qed.
Lemma grid_scan {O : NumOps} (m : list (list bool)) R0 R1 g (ge : @geom O) : Entries m R0 R1 g ->
  grid_slim_via_mask m ge = scan (Z.to_nat R0) (Z.to_nat R1) (fun y x => g (Z.of_nat y) (Z.of_nat x))
                                 (fun y x => pixel_centre_code (nrows m) (ncols m) ge (Z.of_nat y) (Z.of_nat x)).
Proof. intros HE. unfold grid_slim_via_mask. cbv zeta. now apply scan_entries. Qed.
Lemma triples_scan {O : NumOps} {B} (zero : B) data noise (m : list (list bool)) R0 R1 g (ge : @geom O) : Entries m R0 R1 g ->
  triples_spec zero data noise m ge =
  scan (Z.to_nat R0) (Z.to_nat R1) (fun y x => g (Z.of_nat y) (Z.of_nat x))
       (fun y x => (pixel_centre_spec (nrows m) (ncols m) ge (Z.of_nat y) (Z.of_nat x), (get2 zero data y x, get2 zero noise y x))).
Proof. intros HE. unfold triples_spec. cbv zeta. now apply scan_entries. Qed.

(* ------------------------------------------------------------------ scaled coordinates at R *)
Local Open Scope R_scope.
Definition rgeom := @geom ROps.

(* grid_2d_slim_via_mask_from's two assignments give the pixel-centre formula *)
Lemma centre_code_is_spec H W sy sx oy ox y x : sy <> 0 -> sx <> 0 ->
  @pixel_centre_code ROps H W (sy, sx, oy, ox) y x = @pixel_centre_spec ROps H W (sy, sx, oy, ox) y x.
Proof.
  intros Hy Hx. unfold pixel_centre_code, pixel_centre_spec, central_scaled, two. cbn [T add sub mul div opp ofZ ROps fst snd].
  f_equal; field; assumption.
Qed.

Lemma half_diff_even (n r : Z) : Z.even (r - n) = true -> IZR (n / 2 - r / 2)%Z = (IZR n - IZR r) / 2.
Proof.
  intros HE. apply Z.even_spec in HE. destruct HE as [q Hq].
  replace (n / 2 - r / 2)%Z with (- q)%Z by zdiv. replace r with (n + 2 * q)%Z by lia.
  rewrite opp_IZR, plus_IZR, mult_IZR. lra.
Qed.

(* when the parity of each axis is kept, pixel (i, j) of the resized frame has the coordinate its source pixel
   (i + H/2 - r0/2, j + W/2 - r1/2) had in the original frame -- for the code's formula (no condition on the scales) *)
Lemma centre_code_shift H W r0 r1 (g : rgeom) i j : Z.even (r0 - H) = true -> Z.even (r1 - W) = true ->
  @pixel_centre_code ROps r0 r1 g i j = @pixel_centre_code ROps H W g (i + (H / 2 - r0 / 2)) (j + (W / 2 - r1 / 2)).
Proof.
  intros E0 E1. destruct g as [[[sy sx] oy] ox].
  unfold pixel_centre_code, central_scaled, two. cbn [T add sub mul div opp ofZ ROps fst snd].
  rewrite !plus_IZR, (half_diff_even H r0 E0), (half_diff_even W r1 E1), !minus_IZR. f_equal; lra.
Qed.
Lemma centre_spec_shift H W r0 r1 (g : rgeom) i j : Z.even (r0 - H) = true -> Z.even (r1 - W) = true ->
  @pixel_centre_spec ROps r0 r1 g i j = @pixel_centre_spec ROps H W g (i + (H / 2 - r0 / 2)) (j + (W / 2 - r1 / 2)).
Proof.
  intros E0 E1. destruct g as [[[sy sx] oy] ox].
  unfold pixel_centre_spec, two. cbn [T add sub mul div opp ofZ ROps fst snd].
  rewrite !plus_IZR, (half_diff_even H r0 E0), (half_diff_even W r1 E1), !minus_IZR. f_equal; lra.
Qed.
(* and the shift is not harmless when the parity changes: half a pixel *)
Lemma centre_shift_parity_change_refuted :
  @pixel_centre_spec ROps 3 3 (1, 1, 0, 0) 0 0 <> @pixel_centre_spec ROps 2 2 (1, 1, 0, 0) (0 + (2 / 2 - 3 / 2)) (0 + (2 / 2 - 3 / 2)).
Proof.
  unfold pixel_centre_spec, two. cbn [T add sub mul div opp ofZ ROps fst snd].
  change (2 / 2 - 3 / 2)%Z with 0%Z. cbn [Z.add Z.sub Z.opp Z.pos_sub Pos.pred_double]. intros HE. injection HE as HE _. lra.
Qed.
Local Close Scope R_scope.

(* ------------------------------------------------------------------ Mask2D.resized_from + Grid2D.from_mask *)
(* MAIN 5 (list form): after a parity-preserving resize of a mask (pad value 1) the grid of the new mask lists, for
   every unmasked pixel of the new mask, the coordinate its source pixel had in the original frame *)
Lemma resize_keeps_coordinates_grid (m : list (list bool)) H W r0 r1 (g : rgeom) :
  rectb H W m = true -> 0 < H -> 0 < r0 -> 0 <= r1 -> Z.even (r0 - H) = true -> Z.even (r1 - W) = true ->
  exists m', mask_resized_from m (r0, r1) 1 = Ok m' /\ m' = resize_spec true m r0 r1 /\
    grid_slim_via_mask m' g =
    map (fun p => @pixel_centre_code ROps H W g (fst p + (H / 2 - r0 / 2)) (snd p + (W / 2 - r1 / 2))) (unmasked_coords m').
Proof.
  intros HB HP Hr0 Hr1 E0 E1. pose proof (Entries_self true _ _ _ HB HP) as HE.
  destruct (mask_resized_entries m H W _ r0 r1 1 HE HP ltac:(lia) Hr1) as (m' & EQ & HM).
  exists m'. split; [exact EQ|]. split.
  - rewrite (mask_resized_is_spec m H W r0 r1 1 HB HP ltac:(lia) Hr1) in EQ. now inversion EQ.
  - destruct (Entries_shape _ _ _ _ HM Hr0) as [S0 S1].
    rewrite (grid_scan m' _ _ _ g HM), (unmasked_coords_scan m' _ _ _ HM), map_scan, S0, S1. cbn [fst snd].
    apply scan_ext. intros y x _ _. split; [reflexivity|]. intros _. now apply centre_code_shift.
Qed.

(* ------------------------------------------------------------------ Imaging.apply_mask: automatic padding *)
Section Apply.
  Context {B : Type} (zero : B).

  Lemma to_nat_lt (y : nat) (R : Z) : (y < Z.to_nat R)%nat -> 0 <= Z.of_nat y < R.
  Proof. lia. Qed.

  (* unpadded: masking alone *)
  Lemma triples_unpadded (data noise : list (list B)) (m : list (list bool)) H W sy sx oy ox d n :
    rectb H W data = true -> rectb H W noise = true -> rectb H W m = true -> 0 < H -> sy <> 0%R -> sx <> 0%R ->
    mask_apply zero data m = Ok d -> mask_apply zero noise m = Ok n ->
    @triples_of ROps B zero (sy, sx, oy, ox) (d, m) (n, m) = @triples_spec ROps B zero data noise m (sy, sx, oy, ox).
  Proof.
    intros HD HN HM HP Hsy Hsx ED EN.
    pose proof (Entries_self zero _ _ _ HD HP) as XD. pose proof (Entries_self zero _ _ _ HN HP) as XN.
    pose proof (Entries_self true _ _ _ HM HP) as XM.
    destruct (mask_apply_entries zero data m H W _ _ XD XM) as (d' & ED' & YD). rewrite ED in ED'. inversion ED'. subst d'.
    destruct (mask_apply_entries zero noise m H W _ _ XN XM) as (n' & EN' & YN). rewrite EN in EN'. inversion EN'. subst n'.
    unfold triples_of. cbn [fst snd].
    rewrite (grid_scan m _ _ _ _ XM), (slim_of_scan zero d m _ _ _ XM), (slim_of_scan zero n m _ _ _ XM).
    rewrite !combine_scan, (triples_scan zero data noise m _ _ _ _ XM).
    apply scan_ext. intros y x Hy Hx. split; [reflexivity|]. intros G. cbv beta in G.
    rewrite (Entries_get2 _ _ _ _ YD), (Entries_get2 _ _ _ _ YN) by assumption.
    unfold masked_fun. rewrite G. unfold zget2. rewrite !Nat2Z.id.
    rewrite centre_code_is_spec by assumption. reflexivity.
  Qed.

  (* padded by an odd kernel, pad value 1 (masked): the padded frame's triples are the original ones *)
  Lemma triples_padded (data noise : list (list B)) (m : list (list bool)) H W k0 k1 sy sx oy ox d n d' n' :
    rectb H W data = true -> rectb H W noise = true -> rectb H W m = true -> 0 < H -> sy <> 0%R -> sx <> 0%R ->
    Z.odd k0 = true -> Z.odd k1 = true -> 1 <= k0 -> 1 <= k1 ->
    mask_apply zero data m = Ok d -> mask_apply zero noise m = Ok n ->
    padded_before_convolution_from zero (d, m) (k0, k1) 1 = Ok d' ->
    padded_before_convolution_from zero (n, m) (k0, k1) 1 = Ok n' ->
    snd n' = snd d' /\ snd d' = resize_spec true m (H + (k0 - 1)) (W + (k1 - 1)) /\
    @triples_of ROps B zero (sy, sx, oy, ox) d' n' = @triples_spec ROps B zero data noise m (sy, sx, oy, ox).
  Proof.
    intros HD HN HM HP Hsy Hsx O0 O1 Hk0 Hk1 ED EN EPD EPN.
    pose proof (rectb_W_nonneg _ _ _ HM HP) as HW.
    pose proof (Entries_self zero _ _ _ HD HP) as XD. pose proof (Entries_self zero _ _ _ HN HP) as XN.
    pose proof (Entries_self true _ _ _ HM HP) as XM.
    destruct (mask_apply_entries zero data m H W _ _ XD XM) as (d0 & ED' & YD). rewrite ED in ED'. inversion ED'. subst d0.
    destruct (mask_apply_entries zero noise m H W _ _ XN XM) as (n0 & EN' & YN). rewrite EN in EN'. inversion EN'. subst n0.
    destruct (padded_entries zero (d, m) H W _ _ k0 k1 1 (conj YD XM) HP Hk0 Hk1) as (pd & EPD' & [PD1 PD2]).
    rewrite EPD in EPD'. inversion EPD'. subst pd.
    destruct (padded_entries zero (n, m) H W _ _ k0 k1 1 (conj YN XM) HP Hk0 Hk1) as (pn & EPN' & [PN1 PN2]).
    rewrite EPN in EPN'. inversion EPN'. subst pn. cbv zeta in PD1, PD2, PN1, PN2.
    set (r0 := H + (k0 - 1)) in *. set (r1 := W + (k1 - 1)) in *.
    assert (SM : snd n' = snd d') by (apply (Entries_ext true _ _ _ _ _ _ PN2 PD2); reflexivity).
    split; [exact SM|]. split.
    { apply (Entries_ext true _ _ _ _ _ _ PD2 (resize_spec_entries true m H W _ r0 r1 XM ltac:(lia) ltac:(lia))). reflexivity. }
    destruct (Entries_shape _ _ _ _ PD2 ltac:(lia)) as [S0 S1]. destruct (Entries_shape _ _ _ _ XM HP) as [M0 M1].
    unfold triples_of. rewrite SM.
    rewrite (grid_scan (snd d') _ _ _ _ PD2), (slim_of_scan zero (fst d') (snd d') _ _ _ PD2), (slim_of_scan zero (fst n') (snd d') _ _ _ PD2).
    rewrite !combine_scan, (triples_scan zero data noise m _ _ _ _ XM), S0, S1, M0, M1.
    assert (C0 : k0 - 1 = 2 * ((k0 - 1) / 2)) by (rewrite Z.odd_spec in O0; destruct O0 as [q ->]; zdiv).
    assert (C1 : k1 - 1 = 2 * ((k1 - 1) / 2)) by (rewrite Z.odd_spec in O1; destruct O1 as [q ->]; zdiv).
    set (c0 := (k0 - 1) / 2) in *. set (c1 := (k1 - 1) / 2) in *.
    assert (D0 : H / 2 - r0 / 2 = - c0) by (unfold r0; zdiv). assert (D1 : W / 2 - r1 / 2 = - c1) by (unfold r1; zdiv).
    rewrite (scan_embed (Z.to_nat H) (Z.to_nat W) (Z.to_nat r0) (Z.to_nat r1) (Z.to_nat c0) (Z.to_nat c1)
               (fun y x => zget2 true m (Z.of_nat y) (Z.of_nat x))); [| lia | lia |].
    - apply scan_ext. intros y x Hy Hx. split; [reflexivity|]. intros G. cbv beta in G. apply to_nat_lt in Hy, Hx.
      assert (SH : forall (C : Type) (pad : C) (F : Z -> Z -> C),
                resized_fun H W r0 r1 pad F (Z.of_nat y + c0) (Z.of_nat x + c1) = F (Z.of_nat y) (Z.of_nat x)).
      { intros C pad F. replace c0 with (r0 / 2 - H / 2) by lia. replace c1 with (r1 / 2 - W / 2) by lia.
        now apply resized_fun_at_shift. }
      rewrite (Entries_get2 _ _ _ _ PD1), (Entries_get2 _ _ _ _ PN1) by lia.
      replace (Z.of_nat (y + Z.to_nat c0)) with (Z.of_nat y + c0) by lia.
      replace (Z.of_nat (x + Z.to_nat c1)) with (Z.of_nat x + c1) by lia.
      unfold masked_fun at 1 3. rewrite !SH, G. unfold masked_fun. rewrite G. unfold zget2. rewrite !Nat2Z.id.
      f_equal. rewrite centre_code_is_spec by assumption.
      assert (EV0 : Z.even (r0 - H) = true) by (rewrite Z.even_spec; exists c0; lia).
      assert (EV1 : Z.even (r1 - W) = true) by (rewrite Z.even_spec; exists c1; lia).
      rewrite (centre_spec_shift H W r0 r1 _ _ _ EV0 EV1).
      rewrite D0, D1. f_equal; lia.
    - intros y x Hy Hx. apply to_nat_lt in Hy, Hx. unfold resized_fun, inr. rewrite D0, D1.
      destruct (Nat.leb_spec (Z.to_nat c0) y), (Nat.ltb_spec y (Z.to_nat c0 + Z.to_nat H)),
               (Nat.leb_spec (Z.to_nat c1) x), (Nat.ltb_spec x (Z.to_nat c1 + Z.to_nat W)); cbn [andb];
      destruct (Z.leb_spec 0 (Z.of_nat y + - c0)), (Z.ltb_spec (Z.of_nat y + - c0) H),
               (Z.leb_spec 0 (Z.of_nat x + - c1)), (Z.ltb_spec (Z.of_nat x + - c1) W); cbn [andb]; try lia; try reflexivity.
      f_equal; lia.
  Qed.

  (* MAIN 6: Imaging.apply_mask (with or without the automatic padding) leaves the (coordinate, data, noise) triples
     of the unmasked pixels unchanged; data and noise map end on the same mask, which is the input mask or its
     centred embedding padded with masked pixels *)
  Lemma auto_padding_keeps_triples (data noise : list (list B)) (m : list (list bool)) H W psf sy sx oy ox :
    rectb H W data = true -> rectb H W noise = true -> rectb H W m = true -> 0 < H -> sy <> 0%R -> sx <> 0%R ->
    match psf with Some k => odd_kernel k = true | None => True end ->
    exists d' n', imaging_apply_mask zero data noise m psf = Ok (d', n') /\ snd n' = snd d' /\
      @triples_of ROps B zero (sy, sx, oy, ox) d' n' = @triples_spec ROps B zero data noise m (sy, sx, oy, ox) /\
      (snd d' = m \/ exists k, psf = Some k /\ blurring_raises m k = true /\
                               snd d' = resize_spec true m (H + (fst k - 1)) (W + (snd k - 1))).
  Proof.
    intros HD HN HM HP Hsy Hsx HK.
    pose proof (Entries_self zero _ _ _ HD HP) as XD. pose proof (Entries_self zero _ _ _ HN HP) as XN.
    pose proof (Entries_self true _ _ _ HM HP) as XM.
    destruct (mask_apply_entries zero data m H W _ _ XD XM) as (d & ED & YD).
    destruct (mask_apply_entries zero noise m H W _ _ XN XM) as (n & EN & YN).
    unfold imaging_apply_mask. rewrite ED, EN. cbn [bind].
    assert (PLAIN : exists d' n', Ok ((d, m), (n, m)) = Ok (d', n') /\ snd n' = snd d' /\
      @triples_of ROps B zero (sy, sx, oy, ox) d' n' = @triples_spec ROps B zero data noise m (sy, sx, oy, ox) /\
      (snd d' = m \/ exists k, psf = Some k /\ blurring_raises m k = true /\
                               snd d' = resize_spec true m (H + (fst k - 1)) (W + (snd k - 1)))).
    { exists (d, m), (n, m). split; [reflexivity|]. split; [reflexivity|]. split; [|left; reflexivity].
      now apply (triples_unpadded data noise m H W). }
    destruct psf as [[k0 k1]|]; [|exact PLAIN].
    destruct (blurring_raises m (k0, k1)) eqn:EB; [|exact PLAIN].
    unfold odd_kernel in HK. cbn [fst snd] in HK. boolp.
    destruct (padded_entries zero (d, m) H W _ _ k0 k1 1 (conj YD XM) HP ltac:(lia) ltac:(lia)) as (pd & EPD & _).
    destruct (padded_entries zero (n, m) H W _ _ k0 k1 1 (conj YN XM) HP ltac:(lia) ltac:(lia)) as (pn & EPN & _).
    rewrite EPD, EPN. cbn [bind]. exists pd, pn. split; [reflexivity|].
    destruct (triples_padded data noise m H W k0 k1 sy sx oy ox d n pd pn) as (T1 & T2 & T3); try assumption; try lia.
    split; [exact T1|]. split; [exact T3|]. right. exists (k0, k1). cbn [fst snd]. repeat split; assumption.
  Qed.
End Apply.

(* MAIN 5 (pixel form): a parity-preserving Array2D.resized_from keeps, for every surviving pixel, its mask entry, its
   value and its scaled coordinate *)
Lemma parity_preserving_resize_keeps_coordinates {B} (zero : B) (arr : arr2d B) H W r0 r1 mpv (g : rgeom) :
  rectb H W (fst arr) = true -> rectb H W (snd arr) = true -> 0 < H -> 0 <= r0 -> 0 <= r1 ->
  Z.even (r0 - H) = true -> Z.even (r1 - W) = true ->
  exists out, array_resized_from zero arr (r0, r1) mpv = Ok out /\
    rectb r0 r1 (fst out) = true /\ rectb r0 r1 (snd out) = true /\
    forall i j, 0 <= i < r0 -> 0 <= j < r1 ->
      let y := i + (H / 2 - r0 / 2) in let x := j + (W / 2 - r1 / 2) in
      0 <= y < H -> 0 <= x < W ->
      zget2 true (snd out) i j = zget2 true (snd arr) y x /\
      zget2 zero (fst out) i j = zget2 zero (fst (normal_arr zero arr)) y x /\
      @pixel_centre_code ROps r0 r1 g i j = @pixel_centre_code ROps H W g y x.
Proof.
  intros HA HM HP Hr0 Hr1 E0 E1. pose proof (properA_entries zero H W arr (conj HA (conj HM HP))) as HE.
  destruct (array_resized_entries zero arr H W _ _ r0 r1 mpv HE HP Hr0 Hr1) as (out & EQ & [OA OM]).
  exists out. split; [exact EQ|].
  split; [destruct OA as (_ & _ & RA & _); now apply Rect_rectb|]. split; [destruct OM as (_ & _ & RM & _); now apply Rect_rectb|].
  intros i j Hi Hj y x Hy Hx.
  destruct OA as (_ & _ & _ & GA). destruct OM as (_ & _ & _ & GM).
  destruct (normal_arr_entries zero arr H W _ _ HE) as [(_ & _ & _ & GN) _].
  rewrite (GA i j zero Hi Hj), (GM i j true Hi Hj), (GN y x zero Hy Hx).
  assert (IR : inr y H && inr x W = true).
  { unfold inr. rewrite !andb_true_iff. repeat split; try (apply Z.leb_le; lia); apply Z.ltb_lt; lia. }
  unfold masked_fun, resized_fun. fold y x. rewrite IR. repeat split. now apply centre_code_shift.
Qed.
