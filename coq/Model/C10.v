(* C10 -- blurring, edge and border pixel sets.  Executable definitions only, no proofs.

   Part 1  numpy-style 2-D boolean arrays (list of rows, [true] = masked), reads/writes with Z indices.
   Part 2  MODEL of the anchored code, loop by loop:
             autoarray/mask/mask_2d_util.py   blurring_mask_2d_from, check_if_edge_pixel, total_edge_pixels_from,
                                              edge_1d_indexes_from, native_index_for_slim_index_2d_from,
                                              check_if_border_pixel, total_border_pixels_from,
                                              border_slim_indexes_from, buffed_mask_2d_from
             autoarray/mask/derive/mask_2d.py     blurring_from, edge, border, edge_buffed
             autoarray/mask/derive/indexes_2d.py  edge_slim, edge_native, border_slim, border_native
             autoarray/mask/derive/grid_2d.py     edge, border   (grid_2d_slim_via_mask_from)
             autoarray/structures/grids/uniform_2d.py  Grid2D.blurring_grid_from
   Part 3  independent SPECIFICATION (set-theoretic, no loops with state).
   Part 4  correspondence for one operation: [case1], [agree1] (model = implementation), [spec_ok] (specification accepts
           the implementation's output; never calls Part 2).
   Part 5  histories (objects edited in place, copied, derived, re-read): [hstep], [hist_ok], [case], [agree], [spec_ok], [check]. *)
From Coq Require Import ZArith List Bool Lia.
From PAV Require Import Base.Res Base.Check.
Import ListNotations.
Local Open Scope Z_scope.

(* ------------------------------------------------------------------------------------------ *)
(* Part 1: arrays                                                                              *)
(* ------------------------------------------------------------------------------------------ *)
Definition mask := list (list bool).
Definition px := (Z * Z)%type.

Definition shape0 (m : mask) : Z := Z.of_nat (length m).              (* mask_2d.shape[0] *)
Definition shape1 (m : mask) : Z := Z.of_nat (length (hd [] m)).      (* mask_2d.shape[1] *)
(* every row has the length of the first one *)
Definition rectb (m : mask) : bool := forallb (fun r => Z.of_nat (length r) =? shape1 m) m.

(* numpy: a negative index counts from the end *)
Definition norm (n i : Z) : Z := if i <? 0 then i + n else i.
(* mask_2d[y, x].  Reads beyond the array (IndexError in numpy) are totalised to [true]; the code
   guards every read, the theorems only speak about in-range reads. *)
Definition get (m : mask) (y x : Z) : bool :=
  let y' := norm (shape0 m) y in let x' := norm (shape1 m) x in
  if (0 <=? y') && (0 <=? x') then nth (Z.to_nat x') (nth (Z.to_nat y') m []) true else true.

Fixpoint upd {A} (l : list A) (n : nat) (f : A -> A) : list A :=
  match l with
  | [] => []
  | a :: t => match n with O => f a :: t | S k => a :: upd t k f end
  end.
(* mask_2d[y, x] = v *)
Definition set (m : mask) (y x : Z) (v : bool) : mask :=
  let y' := norm (shape0 m) y in let x' := norm (shape1 m) x in
  if (0 <=? y') && (0 <=? x')
  then upd m (Z.to_nat y') (fun r => upd r (Z.to_nat x') (fun _ => v)) else m.
(* np.full((H, W), v) *)
Definition full (H W : Z) (v : bool) : mask := repeat (repeat v (Z.to_nat W)) (Z.to_nat H).

(* range(lo, hi) *)
Definition zrange (lo hi : Z) : list Z := map (fun i => lo + Z.of_nat i) (seq 0 (Z.to_nat (hi - lo))).
(* for y in range(H): for x in range(W): -- the row-major scan order, which is also the slim order *)
Definition coords (H W : Z) : list px := flat_map (fun y => map (fun x => (y, x)) (zrange 0 W)) (zrange 0 H).
Definition scan (m : mask) : list px := coords (shape0 m) (shape1 m).
Definition getp (m : mask) (p : px) : bool := get m (fst p) (snd p).

(* ------------------------------------------------------------------------------------------ *)
(* Part 2: model of the code                                                                   *)
(* ------------------------------------------------------------------------------------------ *)

(* --- blurring_mask_2d_from ---------------------------------------------------------------- *)
(* iteration space of the four nested loops, in execution order:
     for y, for x, if not mask[y,x]: for y1 in range((-kh+1)//2, (kh+1)//2): for x1 in range((-kw+1)//2, (kw+1)//2)
   Python's // is floor division = Coq's Z.div for a positive divisor. *)
Definition blur_iter (m : mask) (kh kw : Z) : list (Z * Z * Z * Z) :=
  flat_map (fun p => if getp m p then [] else
      flat_map (fun y1 => map (fun x1 => (fst p, snd p, y1, x1)) (zrange ((- kw + 1) / 2) ((kw + 1) / 2)))
               (zrange ((- kh + 1) / 2) ((kh + 1) / 2)))
    (scan m).
(* loop body: in-frame -> unmask the target if the input mask has it masked; else raise *)
Definition blur_step (m : mask) (acc : res mask) (t : Z * Z * Z * Z) : res mask :=
  let '(y, x, y1, x1) := t in
  match acc with
  | Raise e => Raise e
  | Ok b =>
      if (0 <=? x + x1) && (x + x1 <=? shape1 m - 1) && (0 <=? y + y1) && (y + y1 <=? shape0 m - 1)
      then Ok (if get m (y + y1) (x + x1) then set b (y + y1) (x + x1) false else b)
      else Raise MaskException
  end.
Definition blurring_mask_2d_from (m : mask) (kh kw : Z) : res mask :=
  fold_left (blur_step m) (blur_iter m kh kw) (Ok (full (shape0 m) (shape1 m) true)).
(* DeriveMask2D.blurring_from: parity test (Python % with positive modulus = Z.modulo), then the
   util, then Mask2D(mask=...) which keeps the array *)
Definition blurring_from (m : mask) (kh kw : Z) : res mask :=
  if (kh mod 2 =? 0) || (kw mod 2 =? 0) then Raise MaskException else blurring_mask_2d_from m kh kw.

(* --- edge --------------------------------------------------------------------------------- *)
Definition check_if_edge_pixel (m : mask) (y x : Z) : bool :=
  if (y =? 0) || (x =? 0) || (y =? shape0 m - 1) || (x =? shape1 m - 1) then true
  else if get m (y + 1) x || get m (y - 1) x || get m y (x + 1) || get m y (x - 1)
          || get m (y + 1) (x + 1) || get m (y + 1) (x - 1) || get m (y - 1) (x + 1) || get m (y - 1) (x - 1)
       then true else false.

Definition total_edge_pixels_from (m : mask) : nat :=
  fold_left (fun tot p =>
      if negb (getp m p) then (if check_if_edge_pixel m (fst p) (snd p) then S tot else tot) else tot)
    (scan m) 0%nat.

(* edge_pixels = np.zeros(total); edge_index = 0; regular_index = 0; scan with the two counters *)
Definition edge_step (m : mask) (st : list Z * nat * Z) (p : px) : list Z * nat * Z :=
  let '(arr, ei, ri) := st in
  if negb (getp m p) then
    (if check_if_edge_pixel m (fst p) (snd p) then (upd arr ei (fun _ => ri), S ei, ri + 1) else (arr, ei, ri + 1))
  else (arr, ei, ri).
Definition edge_1d_indexes_from (m : mask) : list Z :=
  fst (fst (fold_left (edge_step m) (scan m) (repeat 0 (total_edge_pixels_from m), 0%nat, 0))).

(* --- border ------------------------------------------------------------------------------- *)
(* native_index_for_slim_index_2d_from: rows (y, x) of the unmasked pixels in scan order (the code
   preallocates and writes at a running index; modelled as appending -- C01 owns this routine) *)
Definition native_index_for_slim_index_2d_from (m : mask) : list px :=
  fold_left (fun acc p => if negb (getp m p) then acc ++ [p] else acc) (scan m) [].

(* np.sum of a boolean slice *)
Fixpoint count_true (l : list bool) : Z :=
  match l with [] => 0 | b :: t => (if b then 1 else 0) + count_true t end.
Definition col_slice (m : mask) (x y0 y1 : Z) : list bool := map (fun y => get m y x) (zrange y0 y1).  (* mask_2d[y0:y1, x] *)
Definition row_slice (m : mask) (y x0 x1 : Z) : list bool := map (fun x => get m y x) (zrange x0 x1).  (* mask_2d[y, x0:x1] *)

Definition check_if_border_pixel (m : mask) (edge_pixel_slim : Z) (native_to_slim : list px) : bool :=
  let p := nth (Z.to_nat edge_pixel_slim) native_to_slim (0, 0) in
  let y := fst p in let x := snd p in
  if (count_true (col_slice m x 0 y) =? y)
     || (count_true (row_slice m y x (shape1 m)) =? shape1 m - x - 1)
     || (count_true (col_slice m x y (shape0 m)) =? shape0 m - y - 1)
     || (count_true (row_slice m y 0 x) =? x)
  then true else false.

Definition total_border_pixels_from (m : mask) (edge_pixels : list Z) (native_to_slim : list px) : nat :=
  fold_left (fun tot e => if check_if_border_pixel m e native_to_slim then S tot else tot) edge_pixels 0%nat.

Definition border_step (m : mask) (n2s : list px) (st : list Z * nat) (e : Z) : list Z * nat :=
  let '(arr, bi) := st in
  if check_if_border_pixel m e n2s then (upd arr bi (fun _ => e), S bi) else (arr, bi).
Definition border_slim_indexes_from (m : mask) : list Z :=
  let edge_pixels := edge_1d_indexes_from m in
  let n2s := native_index_for_slim_index_2d_from m in
  let total := total_border_pixels_from m edge_pixels n2s in
  fst (fold_left (border_step m n2s) edge_pixels (repeat 0 total, 0%nat)).

(* --- buffed_mask_2d_from (derive_mask.edge_buffed uses buffer = 1) --------------------------- *)
Definition buffed_iter (m : mask) (buffer : Z) : list px :=
  flat_map (fun p => if getp m p then [] else
      flat_map (fun y0 => map (fun x0 => (y0, x0)) (zrange (snd p - buffer) (snd p + 1 + buffer)))
               (zrange (fst p - buffer) (fst p + 1 + buffer)))
    (scan m).
Definition buffed_step (m : mask) (b : mask) (q : px) : mask :=
  let '(y0, x0) := q in
  if (0 <=? y0) && (0 <=? x0) && (y0 <=? shape0 m - 1) && (x0 <=? shape1 m - 1) then set b y0 x0 false else b.
Definition buffed_mask_2d_from (m : mask) (buffer : Z) : mask :=
  fold_left (buffed_step m) (buffed_iter m buffer) m.

(* --- the derived views ---------------------------------------------------------------------- *)
(* numpy fancy indexing a[idx] with non-negative integer indices *)
Definition take {A} (l : list A) (d : A) (idx : list Z) : list A := map (fun k => nth (Z.to_nat k) l d) idx.
(* mask[ys, xs] = False *)
Definition scatter_false (b : mask) (l : list px) : mask := fold_left (fun b p => set b (fst p) (snd p) false) l b.

Definition edge_slim := edge_1d_indexes_from.
Definition border_slim := border_slim_indexes_from.
Definition native_for_slim := native_index_for_slim_index_2d_from.
Definition edge_native (m : mask) : list px := take (native_for_slim m) (0, 0) (edge_slim m).
Definition border_native (m : mask) : list px := take (native_for_slim m) (0, 0) (border_slim m).
Definition mask_edge (m : mask) : mask := scatter_false (full (shape0 m) (shape1 m) true) (edge_native m).
Definition mask_border (m : mask) : mask := scatter_false (full (shape0 m) (shape1 m) true) (border_native m).
Definition mask_edge_buffed (m : mask) : mask := buffed_mask_2d_from m 1.

(* Coordinates.  geom = (sy, sx, oy, ox): integer pixel scales and origin.  A coordinate is stored
   DOUBLED so that it is an integer:  2*gy = sy*(H-1-2y) + 2*oy,  2*gx = sx*(2x-(W-1)) + 2*ox, which is
   -(y - ((H-1)/2 + oy/sy))*sy and (x - ((W-1)/2 - ox/sx))*sx of grid_2d_slim_via_mask_from. *)
Definition geom := (Z * Z * Z * Z)%type.
Definition coord2 (H W : Z) (g : geom) (p : px) : Z * Z :=
  let '(sy, sx, oy, ox) := g in (sy * (H - 1 - 2 * fst p) + 2 * oy, sx * (2 * snd p - (W - 1)) + 2 * ox).
Definition grid_2d_slim_via_mask_from (m : mask) (g : geom) : list (Z * Z) :=
  map (coord2 (shape0 m) (shape1 m) g) (filter (fun p => negb (getp m p)) (scan m)).
Definition grid_edge (m : mask) (g : geom) : list (Z * Z) := take (grid_2d_slim_via_mask_from m g) (0, 0) (edge_slim m).
Definition grid_border (m : mask) (g : geom) : list (Z * Z) := take (grid_2d_slim_via_mask_from m g) (0, 0) (border_slim m).
(* Grid2D.blurring_grid_from = Grid2D.from_mask(blurring mask) *)
Definition blurring_grid_from (m : mask) (kh kw : Z) (g : geom) : res (list (Z * Z)) :=
  match blurring_from m kh kw with
  | Ok b => Ok (grid_2d_slim_via_mask_from b g)
  | Raise e => Raise e
  end.

(* ------------------------------------------------------------------------------------------ *)
(* Part 3: specification                                                                       *)
(* ------------------------------------------------------------------------------------------ *)
(* slim order: the unmasked pixels in row-major order; slim index k denotes [pixel_of_slim m k] *)
Definition unmasked_pixels (m : mask) : list px := filter (fun p => negb (getp m p)) (scan m).
Definition pixel_at (U : list px) (k : Z) : px := nth (Z.to_nat k) U (0, 0).
Definition pixel_of_slim (m : mask) (k : Z) : px := pixel_at (unmasked_pixels m) k.
Definition inb (m : mask) (p : px) : bool :=
  (0 <=? fst p) && (fst p <? shape0 m) && (0 <=? snd p) && (snd p <? shape1 m).
(* the array whose entry (y, x) is f y x *)
Definition build (H W : Z) (f : px -> bool) : mask := map (fun y => map (fun x => f (y, x)) (zrange 0 W)) (zrange 0 H).
Definition px_eqb (p q : px) : bool := (fst p =? fst q) && (snd p =? snd q).
Definition memp (p : px) (l : list px) : bool := existsb (px_eqb p) l.

(* blurring: half-widths of an odd kernel; footprint of p = pixels within the half-widths of p *)
Definition half (k : Z) : Z := (k - 1) / 2.
Definition within (hy hx : Z) (p q : px) : bool :=
  (Z.abs (fst p - fst q) <=? hy) && (Z.abs (snd p - snd q) <=? hx).
Definition footprint_inside (m : mask) (hy hx : Z) (p : px) : bool :=
  (0 <=? fst p - hy) && (fst p + hy <? shape0 m) && (0 <=? snd p - hx) && (snd p + hx <? shape1 m).
Definition blur_spec (m : mask) (kh kw : Z) : res mask :=
  let U := unmasked_pixels m in
  if forallb (footprint_inside m (half kh) (half kw)) U
  then Ok (build (shape0 m) (shape1 m) (fun q => negb (getp m q && existsb (within (half kh) (half kw) q) U)))
  else Raise MaskException.
Definition odd_pos (k : Z) : bool := (0 <? k) && Z.odd k.

(* edge: the eight neighbours *)
Definition nbrs (p : px) : list px :=
  [(fst p + 1, snd p); (fst p - 1, snd p); (fst p, snd p + 1); (fst p, snd p - 1);
   (fst p + 1, snd p + 1); (fst p + 1, snd p - 1); (fst p - 1, snd p + 1); (fst p - 1, snd p - 1)].
(* p has a masked pixel among its in-array neighbours: MUST be an edge pixel *)
Definition must_edge (m : mask) (p : px) : bool := existsb (fun q => inb m q && getp m q) (nbrs p).
(* all eight neighbours of p exist and are unmasked: must NOT be an edge pixel *)
Definition interior (m : mask) (p : px) : bool := forallb (fun q => inb m q && negb (getp m q)) (nbrs p).
(* what the code does in between (outer-ring pixels whose in-array neighbours are all unmasked):
   a neighbour outside the array counts as masked *)
Definition touches (m : mask) (p : px) : bool := negb (interior m p).

Fixpoint increasing (l : list Z) : bool :=
  match l with
  | a :: (b :: _) as t => (a <? b) && increasing t
  | _ => true
  end.
Definition memz (k : Z) (l : list Z) : bool := existsb (Z.eqb k) l.
(* two-sided acceptance test of a claimed edge_slim ([let U]: the slim order is computed once) *)
Definition edge_spec_ok (m : mask) (out : list Z) : bool :=
  let U := unmasked_pixels m in
  let n := Z.of_nat (length U) in
  increasing out
  && forallb (fun k => (0 <=? k) && (k <? n) && negb (interior m (pixel_at U k))) out
  && forallb (fun k => negb (must_edge m (pixel_at U k)) || memz k out) (zrange 0 n).

(* border: from p, a straight walk to the array boundary in one of the four axis directions meets only
   masked pixels *)
Definition walk_clear (m : mask) (p : px) : bool :=
  let y := fst p in let x := snd p in
  forallb (fun y' => get m y' x) (zrange 0 y) || forallb (fun x' => get m y x') (zrange (x + 1) (shape1 m))
  || forallb (fun y' => get m y' x) (zrange (y + 1) (shape0 m)) || forallb (fun x' => get m y x') (zrange 0 x).
Definition border_of (m : mask) (edge : list Z) : list Z :=
  let U := unmasked_pixels m in filter (fun k => walk_clear m (pixel_at U k)) edge.

(* buffed: unmasked iff within Chebyshev distance [buffer] of an unmasked pixel *)
Definition buffed_spec (m : mask) (buffer : Z) : mask :=
  let U := unmasked_pixels m in build (shape0 m) (shape1 m) (fun q => negb (existsb (within buffer buffer q) U)).

(* views of a set given by its slim indices *)
Definition native_of (m : mask) (sl : list Z) : list px := let U := unmasked_pixels m in map (pixel_at U) sl.
Definition mask_of (m : mask) (nat_ : list px) : mask := build (shape0 m) (shape1 m) (fun q => negb (memp q nat_)).
Definition grid_of (m : mask) (g : geom) (nat_ : list px) : list (Z * Z) := map (coord2 (shape0 m) (shape1 m) g) nat_.

(* ------------------------------------------------------------------------------------------ *)
(* Part 4: correspondence                                                                      *)
(* ------------------------------------------------------------------------------------------ *)
Definition mask_eqb : mask -> mask -> bool := list_eqb (list_eqb Bool.eqb).
Definition zl_eqb : list Z -> list Z -> bool := list_eqb Z.eqb.
Definition pxl_eqb : list px -> list px -> bool := list_eqb px_eqb.
Definition rmask_eqb := res_eqb mask_eqb.
Definition rgrid_eqb := res_eqb pxl_eqb.

(* everything the public classes return for one mask *)
Record views := {
  v_edge_slim : list Z; v_edge_native : list px; v_border_slim : list Z; v_border_native : list px;
  v_mask_edge : mask; v_mask_border : mask; v_mask_buffed : mask;
  v_grid_edge : list (Z * Z); v_grid_edge_mask : mask; v_grid_border : list (Z * Z); v_grid_border_mask : mask }.

(* one observed operation on one mask *)
Inductive case1 :=
  (* mask_2d_util.blurring_mask_2d_from *)
| KBlurUtil (m : mask) (kh kw : Z) (out : res mask)
  (* Mask2D.derive_mask.blurring_from *)
| KBlur (m : mask) (kh kw : Z) (out : res mask)
  (* Grid2D.blurring_grid_from: doubled coordinates *)
| KBlurGrid (m : mask) (kh kw : Z) (g : geom) (out : res (list (Z * Z)))
  (* mask_2d_util: total_edge_pixels_from, edge_1d_indexes_from, border_slim_indexes_from, buffed_mask_2d_from(buffer) *)
| KUtil (m : mask) (total : Z) (edge border : list Z) (buffer : Z) (buffed : mask)
  (* mask_2d_util.check_if_edge_pixel on every unmasked pixel, in scan order *)
| KCheckEdge (m : mask) (out : list bool)
  (* Mask2D.derive_indexes / derive_mask / derive_grid *)
| KViews (m : mask) (g : geom) (v : views)
  (* np.array(mask): the contents only (used inside histories, where the mask field of every read is the contents
     the implementation shows at that moment) *)
| KContents (m : mask).

Definition agree1 (k : case1) : bool :=
  match k with
  | KBlurUtil m kh kw out => rmask_eqb (blurring_mask_2d_from m kh kw) out
  | KBlur m kh kw out => rmask_eqb (blurring_from m kh kw) out
  | KBlurGrid m kh kw g out => rgrid_eqb (blurring_grid_from m kh kw g) out
  | KUtil m total edge border buffer buffed =>
      (Z.of_nat (total_edge_pixels_from m) =? total) && zl_eqb (edge_1d_indexes_from m) edge
      && zl_eqb (border_slim_indexes_from m) border && mask_eqb (buffed_mask_2d_from m buffer) buffed
  | KCheckEdge m out =>
      list_eqb Bool.eqb (map (fun p => check_if_edge_pixel m (fst p) (snd p)) (unmasked_pixels m)) out
  | KViews m g v =>
      zl_eqb (edge_slim m) (v_edge_slim v) && pxl_eqb (edge_native m) (v_edge_native v)
      && zl_eqb (border_slim m) (v_border_slim v) && pxl_eqb (border_native m) (v_border_native v)
      && mask_eqb (mask_edge m) (v_mask_edge v) && mask_eqb (mask_border m) (v_mask_border v)
      && mask_eqb (mask_edge_buffed m) (v_mask_buffed v)
      && pxl_eqb (grid_edge m g) (v_grid_edge v) && mask_eqb (mask_edge m) (v_grid_edge_mask v)
      && pxl_eqb (grid_border m g) (v_grid_border v) && mask_eqb (mask_border m) (v_grid_border_mask v)
  | KContents _ => true
  end.

(* the specification's verdict on what the IMPLEMENTATION returned (no model function below) *)
Definition blur_grid_spec (m : mask) (kh kw : Z) (g : geom) : res (list (Z * Z)) :=
  match blur_spec m kh kw with
  | Ok b => Ok (grid_of m g (unmasked_pixels b))
  | Raise e => Raise e
  end.
Definition set_views_ok (m : mask) (g : geom) (sl : list Z) (nat_ : list px) (mk : mask) (gr : list (Z * Z)) (gmk : mask) : bool :=
  pxl_eqb nat_ (native_of m sl) && mask_eqb mk (mask_of m nat_) && pxl_eqb (unmasked_pixels mk) nat_
  && pxl_eqb gr (grid_of m g nat_) && mask_eqb gmk mk.

Definition spec_ok1 (k : case1) : bool :=
  match k with
  | KBlurUtil m kh kw out =>
      (* the property only speaks about odd kernel shapes *)
      negb (rectb m && odd_pos kh && odd_pos kw) || rmask_eqb out (blur_spec m kh kw)
  | KBlur m kh kw out =>
      if rectb m && odd_pos kh && odd_pos kw then rmask_eqb out (blur_spec m kh kw)
      else negb (rectb m && (0 <? kh) && (0 <? kw)) || rmask_eqb out (Raise MaskException)
  | KBlurGrid m kh kw g out =>
      if rectb m && odd_pos kh && odd_pos kw then rgrid_eqb out (blur_grid_spec m kh kw g)
      else negb (rectb m && (0 <? kh) && (0 <? kw)) || rgrid_eqb out (Raise MaskException)
  | KUtil m total edge border buffer buffed =>
      negb (rectb m) ||
      ((total =? Z.of_nat (length edge)) && edge_spec_ok m edge && zl_eqb border (border_of m edge)
       && (negb (0 <=? buffer) || mask_eqb buffed (buffed_spec m buffer)))
  | KCheckEdge m out =>
      negb (rectb m) ||
      ((length out =? length (unmasked_pixels m))%nat
       && forallb (fun pb => (negb (must_edge m (fst pb)) || snd pb) && (negb (interior m (fst pb)) || negb (snd pb)))
            (combine (unmasked_pixels m) out))
  | KViews m g v =>
      negb (rectb m) ||
      (edge_spec_ok m (v_edge_slim v) && zl_eqb (v_border_slim v) (border_of m (v_edge_slim v))
       && set_views_ok m g (v_edge_slim v) (v_edge_native v) (v_mask_edge v) (v_grid_edge v) (v_grid_edge_mask v)
       && set_views_ok m g (v_border_slim v) (v_border_native v) (v_mask_border v) (v_grid_border v) (v_grid_border_mask v)
       && mask_eqb (v_mask_buffed v) (buffed_spec m 1))
  | KContents _ => true
  end.

(* ------------------------------------------------------------------------------------------ *)
(* Part 5: histories -- several Mask2D objects, edited in place, copied, derived from one      *)
(* another, and read again.                                                                    *)
(*                                                                                             *)
(* MODEL of the object layer (autoarray/abstract_ndarray.py, autoarray/mask/mask_2d.py):       *)
(*   - a Mask2D owns one boolean array (Mask.__init__: mask.astype("bool") copies);            *)
(*   - obj[y, x] = v writes that array in place (AbstractNDArray.__setitem__);                  *)
(*   - copy() / copy.copy / copy.deepcopy / Mask2D(mask=obj) give a new object with its own    *)
(*     array of the same contents (__copy__: new._array = self._array.copy());                  *)
(*   - derive_indexes / derive_mask / derive_grid are plain @property: every read builds a new *)
(*     Derive* object around the mask and every view is recomputed from np.array(self.mask),   *)
(*     so a read returns the pure function (Part 2) of the CURRENT contents and changes        *)
(*     nothing; the Mask2D objects returned by derive_mask.* own fresh arrays.                 *)
(* The state of a history is therefore just the list of the objects' contents.                *)
(* ------------------------------------------------------------------------------------------ *)
Definition case_mask (k : case1) : mask :=
  match k with
  | KBlurUtil m _ _ _ | KBlur m _ _ _ | KBlurGrid m _ _ _ _ | KUtil m _ _ _ _ _ | KCheckEdge m _ | KViews m _ _
  | KContents m => m
  end.

(* a Mask2D derived from another one through the public API *)
Inductive dsel :=
| DEdge                    (* derive_mask.edge, derive_grid.edge.mask *)
| DBorder                  (* derive_mask.border, derive_grid.border.mask *)
| DBuffed                  (* derive_mask.edge_buffed *)
| DBlur (kh kw : Z)        (* derive_mask.blurring_from(k), Grid2D.blurring_grid_from(mask, k).mask *)
| DInvert.                 (* invert() *)

(* model: the Part 2 function of the source contents *)
Definition derive (c : mask) (d : dsel) : res mask :=
  match d with
  | DEdge => Ok (mask_edge c)
  | DBorder => Ok (mask_border c)
  | DBuffed => Ok (mask_edge_buffed c)
  | DBlur kh kw => blurring_from c kh kw
  | DInvert => Ok (map (map negb) c)          (* np.invert *)
  end.
Definition derive_agree (c : mask) (d : dsel) (out : mask) : bool := rmask_eqb (derive c d) (Ok out).
(* specification (Part 3 only): edge = unmasked and not interior; border = edge and a clear walk *)
Definition derive_spec_ok (c : mask) (d : dsel) (out : mask) : bool :=
  match d with
  | DEdge => mask_eqb out (build (shape0 c) (shape1 c) (fun q => negb (negb (getp c q) && touches c q)))
  | DBorder => mask_eqb out (build (shape0 c) (shape1 c) (fun q => negb (negb (getp c q) && touches c q && walk_clear c q)))
  | DBuffed => negb (rectb c) || mask_eqb out (buffed_spec c 1)
  | DBlur kh kw => spec_ok1 (KBlur c kh kw (Ok out))
  | DInvert => negb (rectb c) || mask_eqb out (build (shape0 c) (shape1 c) (fun q => negb (getp c q)))
  end.

Inductive hstep :=
  (* a new object with these contents: Mask2D(mask=array / list), obj.with_new_array(array), obj.resized_from(...) *)
| HNew (m : mask)
  (* a new object with the contents of object o and its own array: o.copy(), copy.copy(o), copy.deepcopy(o), Mask2D(mask=o) *)
| HCopy (o : nat)
  (* the Mask2D that the implementation derived from object o (it returned [out]) becomes a new object *)
| HDerive (o : nat) (d : dsel) (out : mask)
  (* o[y, x] = v  (also o.mask[y, x] = v, o[y][x] = v, o[boolean key] = v cell by cell) *)
| HEdit (o : nat) (y x : Z) (v : bool)
  (* some views of object o are read (selector numbers, in this order) and the values thrown away *)
| HTouch (o : nat) (sels : list Z)
  (* operation k is observed on object o; the mask field of k is what np.array(o) shows at that moment *)
| HRead (o : nat) (k : case1).

Definition hstate := list mask.                   (* contents of object 0, 1, 2, ... *)
Definition contents (st : hstate) (o : nat) : mask := nth o st [].
Definition step_state (st : hstate) (s : hstep) : hstate :=
  match s with
  | HNew m => st ++ [m]
  | HCopy o => st ++ [contents st o]
  | HDerive _ _ out => st ++ [out]
  | HEdit o y x v => upd st o (fun c => set c y x v)
  | HTouch _ _ | HRead _ _ => st                 (* reading changes nothing *)
  end.
(* [ok1] judges a single observed operation, [dok] a derived mask *)
Definition step_ok (ok1 : case1 -> bool) (dok : mask -> dsel -> mask -> bool) (st : hstate) (s : hstep) : bool :=
  match s with
  | HRead o k => mask_eqb (case_mask k) (contents st o) && ok1 k
  | HDerive o d out => dok (contents st o) d out
  | _ => true
  end.
Fixpoint hist_ok (ok1 : case1 -> bool) (dok : mask -> dsel -> mask -> bool) (st : hstate) (steps : list hstep) : bool :=
  match steps with
  | [] => true
  | s :: t => step_ok ok1 dok st s && hist_ok ok1 dok (step_state st s) t
  end.
(* independent description of "the current contents": the state after the first i steps *)
Definition state_after (steps : list hstep) (i : nat) : hstate := fold_left step_state (firstn i steps) [].

Inductive case :=
| K1 (k : case1)
| KHist (steps : list hstep).

Definition agree (k : case) : bool :=
  match k with
  | K1 k => agree1 k
  | KHist steps => hist_ok agree1 derive_agree [] steps
  end.
Definition spec_ok (k : case) : bool :=
  match k with
  | K1 k => spec_ok1 k
  | KHist steps => hist_ok spec_ok1 derive_spec_ok [] steps
  end.

Definition check (k : case) : nat := verdict (agree k) (spec_ok k).
