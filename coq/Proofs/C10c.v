(* C10 -- lemmas, part 3: the specification's acceptance test [spec_ok] accepts whatever the model returns
   (so the correspondence verdict 3 = "model agrees with the implementation but the specification rejects it"
   cannot occur: a non-zero verdict always means the implementation differs from the model). *)
From Coq Require Import ZArith List Bool Lia.
From PAV Require Import Base.Res Base.Check Model.C10 Proofs.C10 Proofs.C10b.
Import ListNotations.
Local Open Scope Z_scope.

(* ------------------------------------------------------------------ boolean equalities reflect equality *)
Lemma list_eqb_eq {A} (eqb : A -> A -> bool) : (forall a b, eqb a b = true -> a = b) ->
  forall l1 l2, list_eqb eqb l1 l2 = true -> l1 = l2.
Proof.
  intros E. induction l1 as [|a t IH]; intros [|b u] H; cbn in H; try discriminate; [reflexivity|].
  apply andb_true_iff in H. destruct H as (H1 & H2). f_equal; auto.
Qed.

Lemma list_eqb_refl {A} (eqb : A -> A -> bool) : (forall a, eqb a a = true) -> forall l, list_eqb eqb l l = true.
Proof. intros E. induction l as [|a t IH]; cbn; [reflexivity|]. now rewrite E, IH. Qed.

Lemma bool_eqb_eq a b : Bool.eqb a b = true -> a = b.
Proof. apply eqb_prop. Qed.

Lemma px_eqb_eq p q : px_eqb p q = true -> p = q.
Proof. unfold px_eqb. rewrite andb_true_iff, !Z.eqb_eq. destruct p, q; cbn. intros (-> & ->). reflexivity. Qed.
Lemma px_eqb_refl p : px_eqb p p = true.
Proof. unfold px_eqb. now rewrite !Z.eqb_refl. Qed.

Lemma mask_eqb_eq a b : mask_eqb a b = true -> a = b.
Proof. apply list_eqb_eq. apply list_eqb_eq. apply bool_eqb_eq. Qed.
Lemma mask_eqb_refl a : mask_eqb a a = true.
Proof. apply list_eqb_refl. apply list_eqb_refl. apply eqb_reflx. Qed.
Lemma zl_eqb_eq a b : zl_eqb a b = true -> a = b.
Proof. apply list_eqb_eq. intros x y. apply Z.eqb_eq. Qed.
Lemma zl_eqb_refl a : zl_eqb a a = true.
Proof. apply list_eqb_refl. apply Z.eqb_refl. Qed.
Lemma pxl_eqb_eq a b : pxl_eqb a b = true -> a = b.
Proof. apply list_eqb_eq. apply px_eqb_eq. Qed.
Lemma pxl_eqb_refl a : pxl_eqb a a = true.
Proof. apply list_eqb_refl. apply px_eqb_refl. Qed.

Lemma exn_eqb_eq e f : exn_eqb e f = true -> e = f.
Proof. destruct e, f; cbn; intros H; try discriminate; reflexivity. Qed.
Lemma exn_eqb_refl e : exn_eqb e e = true.
Proof. destruct e; reflexivity. Qed.

Lemma res_eqb_eq {A} (eqb : A -> A -> bool) : (forall a b, eqb a b = true -> a = b) ->
  forall x y, res_eqb eqb x y = true -> x = y.
Proof. intros E [a|e] [b|f] H; cbn in H; try discriminate; f_equal; auto using exn_eqb_eq. Qed.
Lemma res_eqb_refl {A} (eqb : A -> A -> bool) : (forall a, eqb a a = true) -> forall x, res_eqb eqb x x = true.
Proof. intros E [a|e]; cbn; auto using exn_eqb_refl. Qed.

Lemma rmask_eqb_eq x y : rmask_eqb x y = true -> x = y.
Proof. apply res_eqb_eq. apply mask_eqb_eq. Qed.
Lemma rmask_eqb_refl x : rmask_eqb x x = true.
Proof. apply res_eqb_refl. apply mask_eqb_refl. Qed.
Lemma rgrid_eqb_eq x y : rgrid_eqb x y = true -> x = y.
Proof. apply res_eqb_eq. apply pxl_eqb_eq. Qed.
Lemma rgrid_eqb_refl x : rgrid_eqb x x = true.
Proof. apply res_eqb_refl. apply pxl_eqb_refl. Qed.

(* ------------------------------------------------------------------ per operation *)
Lemma not_odd_pos_even k : 0 <? k = true -> odd_pos k = false -> Z.even k = true.
Proof. unfold odd_pos. intros -> H. cbn [andb] in H. rewrite <- Z.negb_odd, H. reflexivity. Qed.

Lemma blur_public_accepted m kh kw :
  (if rectb m && odd_pos kh && odd_pos kw then rmask_eqb (blurring_from m kh kw) (blur_spec m kh kw)
   else negb (rectb m && (0 <? kh) && (0 <? kw)) || rmask_eqb (blurring_from m kh kw) (Raise MaskException)) = true.
Proof.
  destruct (rectb m) eqn:Hr; cbn [andb negb orb]; [|reflexivity].
  destruct (odd_pos kh) eqn:Hkh; cbn [andb].
  - destruct (odd_pos kw) eqn:Hkw.
    + rewrite blurring_from_odd by assumption. apply rmask_eqb_refl.
    + destruct (0 <? kh); cbn [andb negb orb]; [|reflexivity].
      destruct (0 <? kw) eqn:Pw; cbn [negb orb]; [|reflexivity].
      rewrite blurring_from_even by (right; now apply not_odd_pos_even). reflexivity.
  - destruct (0 <? kh) eqn:Ph; cbn [andb negb orb]; [|reflexivity].
    destruct (0 <? kw); cbn [negb orb]; [|reflexivity].
    rewrite blurring_from_even by (left; now apply not_odd_pos_even). reflexivity.
Qed.

Lemma blur_grid_public_accepted m kh kw g :
  (if rectb m && odd_pos kh && odd_pos kw then rgrid_eqb (blurring_grid_from m kh kw g) (blur_grid_spec m kh kw g)
   else negb (rectb m && (0 <? kh) && (0 <? kw)) || rgrid_eqb (blurring_grid_from m kh kw g) (Raise MaskException)) = true.
Proof.
  destruct (rectb m) eqn:Hr; cbn [andb negb orb]; [|reflexivity].
  destruct (odd_pos kh) eqn:Hkh; cbn [andb].
  - destruct (odd_pos kw) eqn:Hkw.
    + rewrite blurring_grid_is_spec by assumption. apply rgrid_eqb_refl.
    + destruct (0 <? kh); cbn [andb negb orb]; [|reflexivity].
      destruct (0 <? kw) eqn:Pw; cbn [negb orb]; [|reflexivity].
      unfold blurring_grid_from. rewrite blurring_from_even by (right; now apply not_odd_pos_even). reflexivity.
  - destruct (0 <? kh) eqn:Ph; cbn [andb negb orb]; [|reflexivity].
    destruct (0 <? kw); cbn [negb orb]; [|reflexivity].
    unfold blurring_grid_from. rewrite blurring_from_even by (left; now apply not_odd_pos_even). reflexivity.
Qed.

Lemma combine_map_r {A B} (f : A -> B) l : combine l (map f l) = map (fun a => (a, f a)) l.
Proof. induction l as [|a t IH]; cbn; [reflexivity|]. now rewrite IH. Qed.

Lemma check_edge_accepted m :
  ((length (map (cie m) (unmasked_pixels m)) =? length (unmasked_pixels m))%nat
   && forallb (fun pb => (negb (must_edge m (fst pb)) || snd pb) && (negb (interior m (fst pb)) || negb (snd pb)))
        (combine (unmasked_pixels m) (map (cie m) (unmasked_pixels m)))) = true.
Proof.
  rewrite map_length, Nat.eqb_refl. cbn [andb]. rewrite combine_map_r. apply forallb_forall. intros pb Hpb.
  apply in_map_iff in Hpb. destruct Hpb as (p & <- & Hp). cbn [fst snd].
  rewrite (cie_touches m p) by now apply unmasked_inarr. unfold touches.
  destruct (interior m p) eqn:I; cbn [negb orb andb].
  - rewrite andb_true_r, orb_false_r. apply negb_true_iff.
    destruct (must_edge m p) eqn:M; [|reflexivity]. apply must_edge_touches in M. unfold touches in M. rewrite I in M. discriminate.
  - now rewrite orb_true_r.
Qed.

Lemma set_views_edge_accepted m g :
  set_views_ok m g (edge_slim m) (edge_native m) (mask_edge m) (grid_edge m g) (mask_edge m) = true.
Proof.
  destruct (views_agree_edge m g) as (V1 & V2 & V3 & V4). unfold set_views_ok.
  rewrite V3. rewrite <- V1, <- V2, <- V4. now rewrite !pxl_eqb_refl, !mask_eqb_refl.
Qed.

Lemma set_views_border_accepted m g :
  set_views_ok m g (border_slim m) (border_native m) (mask_border m) (grid_border m g) (mask_border m) = true.
Proof.
  destruct (views_agree_border m g) as (V1 & V2 & V3 & V4). unfold set_views_ok.
  rewrite V3. rewrite <- V1, <- V2, <- V4. now rewrite !pxl_eqb_refl, !mask_eqb_refl.
Qed.

(* ------------------------------------------------------------------ the theorem *)
Lemma agree1_implies_spec_ok1 k : agree1 k = true -> spec_ok1 k = true.
Proof.
  destruct k as [m kh kw out|m kh kw out|m kh kw g out|m total edge border buffer buffed|m out|m g v|m]; cbn [agree1 spec_ok1]; intros H.
  - apply rmask_eqb_eq in H. subst out.
    destruct (rectb m && odd_pos kh && odd_pos kw) eqn:Gd; cbn [negb orb]; [|reflexivity].
    rewrite !andb_true_iff in Gd. destruct Gd as ((Hr & Hkh) & Hkw).
    rewrite blurring_is_spec by assumption. apply rmask_eqb_refl.
  - apply rmask_eqb_eq in H. subst out. apply blur_public_accepted.
  - apply rgrid_eqb_eq in H. subst out. apply blur_grid_public_accepted.
  - rewrite !andb_true_iff in H. destruct H as (((Ht & He) & Hb) & Hf).
    apply Z.eqb_eq in Ht. apply zl_eqb_eq in He. apply zl_eqb_eq in Hb. apply mask_eqb_eq in Hf. subst total edge border buffed.
    destruct (rectb m) eqn:Hr; cbn [negb orb]; [|reflexivity].
    rewrite edge_total, Z.eqb_refl. fold (edge_slim m). rewrite edge_slim_accepted. fold (border_slim m).
    rewrite border_exact, zl_eqb_refl. cbn [andb].
    destruct (0 <=? buffer) eqn:Bf; cbn [negb orb]; [|reflexivity].
    rewrite buffed_is_spec by (try assumption; now apply Z.leb_le). apply mask_eqb_refl.
  - apply (list_eqb_eq Bool.eqb bool_eqb_eq) in H. subst out.
    destruct (rectb m); cbn [negb orb]; [|reflexivity]. apply check_edge_accepted.
  - rewrite !andb_true_iff in H.
    destruct H as ((((((((((H1 & H2) & H3) & H4) & H5) & H6) & H7) & H8) & H9) & H10) & H11).
    apply zl_eqb_eq in H1, H3. apply pxl_eqb_eq in H2, H4, H8, H10. apply mask_eqb_eq in H5, H6, H7, H9, H11.
    destruct v as [es en bs bn me mb mf ge gem gb gbm]. cbn [v_edge_slim v_edge_native v_border_slim v_border_native v_mask_edge
      v_mask_border v_mask_buffed v_grid_edge v_grid_edge_mask v_grid_border v_grid_border_mask] in *. subst.
    destruct (rectb m) eqn:Hr; cbn [negb orb]; [|reflexivity].
    rewrite edge_slim_accepted, border_exact, zl_eqb_refl. rewrite <- border_exact.
    rewrite set_views_edge_accepted, set_views_border_accepted. cbn [andb].
    rewrite edge_buffed_is_spec by assumption. apply mask_eqb_refl.
  - reflexivity.
Qed.
