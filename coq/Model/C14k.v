(* C14 (part k) -- the correspondence: one case per observed operation (inputs AND what the implementation
   returned), [agree] (model output = implementation output), [spec_ok] (the independent specification accepts the
   implementation's output; never calls the model), [check].  Executable Gallina only. *)
From Coq Require Import ZArith QArith List Bool Lia.
From PAV Require Import Base.Res Base.Check Base.NumOps Model.C14 Model.C14g.
Import ListNotations.
Local Open Scope Z_scope.

Inductive case :=
| KResizeU (m : zarr) (rs origin : Z * Z) (pad : Z) (out : res zarr)
| KExtractU (m : zarr) (y0 y1 x0 x1 : Z) (out : res zarr)
| KMaskResize (m : barr) (rs : Z * Z) (padv : Z) (out : res barr)
| KArrResize (a : a2) (rs : Z * Z) (mpv : Z) (out : res a2)
| KArrPad (a : a2) (k : Z * Z) (mpv : Z) (out : res a2)
| KArrTrim (a : a2) (k : Z * Z) (out : res a2)
  (* padded_before_convolution_from then trimmed_after_convolution_from *)
| KPadTrim (a : a2) (k : Z * Z) (mpv : Z) (out : res a2)
  (* resized_from(rs) then resized_from(original shape) *)
| KEnlargeShrink (a : a2) (rs : Z * Z) (mpv : Z) (out : res a2)
| KTrimArr (mshape : Z * Z) (p : zarr) (ishape : Z * Z) (out : zarr)
  (* padded = arr.padded_before_convolution_from(k); padded.mask.trimmed_array_from(padded, arr.shape_native) *)
| KPadTrimArr (a : a2) (k : Z * Z) (out : res zarr)
| KZoomRegion (m : barr) (out : res (Z * Z * Z * Z))
| KZoom (a : a2) (buffer : Z) (out : res zarr)
| KApplyMask (data noise : zarr) (m : barr) (k : option (Z * Z)) (g : qgeom)
             (out : res (barr * (list Z * list Z) * list (Q * Q)))
  (* Imaging.apply_mask(mask) then .trimmed_after_convolution_from(k): mask, native data, native noise map, slim grid *)
| KApplyMaskTrim (data noise : zarr) (m : barr) (k : Z * Z) (g : qgeom)
                 (out : res (barr * (zarr * zarr) * list (Q * Q)))
  (* Mask2D.resized_from(rs, pad_value=1) then Grid2D.from_mask *)
| KResizeCoords (m : barr) (rs : Z * Z) (g : qgeom) (out : res (barr * list (Q * Q)))
  (* Array2D.zoomed_around_mask(buffer): shape_native, pixel scales and origin of the result's mask *)
| KZoomGeo (m : barr) (g : qgeom) (b : Z) (out : res ((Z * Z) * qgeom))
  (* Mask2D: (mask_centre, zoom_centre), (zoom_offset_pixels, zoom_offset_scaled), zoom_mask_unmasked (shape, scales, origin) *)
| KMaskZoom (m : barr) (g : qgeom) (out : res (((Q * Q) * (Q * Q)) * ((Q * Q) * (Q * Q)) * ((Z * Z) * qgeom)))
  (* ds.apply_mask(m1) [then .trimmed_after_convolution_from(k) when trim] then .apply_mask(m2): observed like KApplyMask *)
| KApplyChain (data noise : zarr) (m1 m2 : barr) (k : option (Z * Z)) (trim : bool) (g : qgeom)
              (out : res (barr * (list Z * list Z) * list (Q * Q)))
  (* Grid2D.padded_grid_from(kernel_shape_native=k) of a grid on a frame of the given shape: shape of the padded grid's mask, the grid *)
| KPadGrid (shape k : Z * Z) (g : qgeom) (out : res ((Z * Z) * list (Q * Q))).

Definition geom_eqb (a b : qgeom) : bool :=
  let '(a0, a1, a2, a3) := a in let '(b0, b1, b2, b3) := b in
  Qeq_bool a0 b0 && Qeq_bool a1 b1 && Qeq_bool a2 b2 && Qeq_bool a3 b3.
Definition zz_eqb := prod_eqb Z.eqb Z.eqb.
Definition zg_eqb := prod_eqb zz_eqb geom_eqb.
Definition mz_eqb := prod_eqb (prod_eqb (prod_eqb qq_eqb qq_eqb) (prod_eqb qq_eqb qq_eqb)) zg_eqb.

(* what the harness reads off a masked dataset: mask, slim data, slim noise map, slim grid *)
Definition observe_ds (g : qgeom) (d n : a2) : barr * (list Z * list Z) * list (Q * Q) :=
  (snd d, (slim_of 0 (fst d) (snd d), slim_of 0 (fst n) (snd n)), @grid_slim_via_mask QOps (snd d) g).

Definition agree (k : case) : bool :=
  match k with
  | KResizeU m rs origin pad out => res_eqb zarr_eqb (resized_array_2d_from 0 m rs origin pad) out
  | KExtractU m y0 y1 x0 x1 out => res_eqb zarr_eqb (extracted_array_2d_from 0 m y0 y1 x0 x1) out
  | KMaskResize m rs padv out => res_eqb barr_eqb (mask_resized_from m rs padv) out
  | KArrResize a rs mpv out => res_eqb a2_eqb (array_resized_from 0 a rs mpv) out
  | KArrPad a k mpv out => res_eqb a2_eqb (padded_before_convolution_from 0 a k mpv) out
  | KArrTrim a k out => res_eqb a2_eqb (trimmed_after_convolution_from 0 a k) out
  | KPadTrim a k mpv out =>
      res_eqb a2_eqb (bind (padded_before_convolution_from 0 a k mpv) (fun p => trimmed_after_convolution_from 0 p k)) out
  | KEnlargeShrink a rs mpv out =>
      res_eqb a2_eqb (bind (array_resized_from 0 a rs mpv) (fun p => array_resized_from 0 p (shape2 (snd a)) mpv)) out
  | KTrimArr ms p is out => zarr_eqb (trimmed_array_from ms p is) out
  | KPadTrimArr a k out =>
      res_eqb zarr_eqb (bind (padded_before_convolution_from 0 a k 0)
                             (fun p => Ok (trimmed_array_from (shape2 (snd p)) (fst p) (shape2 (snd a))))) out
  | KZoomRegion m out => res_eqb reg_eqb (zoom_region m) out
  | KZoom a b out => res_eqb zarr_eqb (zoomed_around_mask 0 a b) out
  | KApplyMask data noise m k g out =>
      res_eqb am_eqb
        (bind (imaging_apply_mask 0 data noise m k) (fun '(d, n) =>
           Ok (snd d, (slim_of 0 (fst d) (snd d), slim_of 0 (fst n) (snd n)), @grid_slim_via_mask QOps (snd d) g)))
        out
  | KApplyMaskTrim data noise m k g out =>
      res_eqb amt_eqb
        (bind (imaging_apply_mask 0 data noise m (Some k)) (fun dn =>
         bind (dataset_trimmed 0 dn k) (fun '(d, n) =>
           Ok (snd d, (fst d, fst n), @grid_slim_via_mask QOps (snd d) g))))
        out
  | KResizeCoords m rs g out =>
      res_eqb mc_eqb (bind (mask_resized_from m rs 1) (fun m' => Ok (m', @grid_slim_via_mask QOps m' g))) out
  | KZoomGeo m g b out => res_eqb zg_eqb (@zoomed_geometry QOps m g b) out
  | KMaskZoom m g out =>
      res_eqb mz_eqb
        (bind (@mask_centre QOps m g) (fun mc => bind (@zoom_centre QOps m g) (fun zc =>
         bind (@zoom_offset_pixels QOps m g) (fun op => bind (@zoom_offset_scaled QOps m g) (fun os =>
         bind (@zoom_mask_unmasked QOps m g) (fun zm => Ok ((mc, zc), (op, os), zm))))))) out
  | KApplyChain data noise m1 m2 k trim g out =>
      res_eqb am_eqb
        (bind (dset_apply_mask 0 (dset_new data noise) m1 k) (fun s1 =>
         bind (match trim, k with true, Some k' => dset_trimmed 0 s1 k' | _, _ => Ok s1 end) (fun s2 =>
         bind (dset_apply_mask 0 s2 m2 k) (fun '(d, n, _) => Ok (observe_ds g d n))))) out
  | KPadGrid sh k g out =>
      res_eqb (prod_eqb zz_eqb (list_eqb qq_eqb))
        (Ok ((fst sh + fst k - 1, snd sh + snd k - 1), @padded_grid_from QOps (fst sh) (snd sh) k g)) out
  end.

(* ---- helpers of the specification side ---- *)
Definition qnz (q : Q) : bool := negb (Qeq_bool q 0).
Definition geom_ok (g : qgeom) : bool := let '(sy, sx, _, _) := g in qnz sy && qnz sx.
(* Mask2D.zoom_region's side lengths from the bounding box: the longer side is kept, the shorter one grows by
   int(diff / 2) at both ends *)
Definition zoom_sides (bb : Z * Z * Z * Z) : Z * Z :=
  let '(a0, a1, b0, b1) := bb in
  let bh := a1 - a0 + 1 in let bw := b1 - b0 + 1 in let L := Z.max bh bw in
  (bh + 2 * ((L - bh) / 2), bw + 2 * ((L - bw) / 2)).
(* corner of the h x w window whose centre is the centre of the bounding box (None when the parities do not allow it) *)
Definition centred_corner (bb : Z * Z * Z * Z) (h w : Z) : option (Z * Z) :=
  let '(a0, a1, b0, b1) := bb in
  if Z.even (a0 + a1 + 1 - h) && Z.even (b0 + b1 + 1 - w) then Some ((a0 + a1 + 1 - h) / 2, (b0 + b1 + 1 - w) / 2) else None.
(* a frame (shape (h, w), geometry g') placed with its corner at (cy, cx) gives every unmasked pixel of m the scaled
   coordinate it has in the original frame, and has the original pixel scales *)
Definition frame_keeps_coords (m : barr) (g : qgeom) (h w : Z) (g' : qgeom) (cy cx : Z) : bool :=
  let '(sy, sx, _, _) := g in let '(sy', sx', _, _) := g' in
  Qeq_bool sy sy' && Qeq_bool sx sx' &&
  forallb (fun p => qq_eqb (@pixel_centre_spec QOps h w g' (fst p - cy) (snd p - cx))
                           (@pixel_centre_spec QOps (nrows m) (ncols m) g (fst p) (snd p))) (unmasked_coords m).
(* Imaging.apply_mask(mask) observed through mask / slim data / slim noise / grid: the triples of the unmasked pixels of
   the ORIGINAL frame, on the mask or its centred embedding padded with masked pixels, footprints inside *)
Definition apply_mask_ok (data noise : zarr) (m : barr) (k : option (Z * Z)) (g : qgeom)
                         (out : res (barr * (list Z * list Z) * list (Q * Q))) : bool :=
  match out with
  | Ok (m', (ds, ns), gr) =>
      list_eqb qtriple_eqb (combine gr (combine ds ns)) (@triples_spec QOps Z 0 data noise m g)
      && barr_eqb m' (resize_spec true m (nrows m') (ncols m'))
      && ge2 (shape2 m') (shape2 m) && same_parity (shape2 m') (shape2 m)
      && match k with Some k' => footprint_inside m' k' | None => true end
  | Raise _ => false
  end.
Definition default_origin (o : Z * Z) : bool := (fst o =? -1) && (snd o =? -1).

Definition spec_ok (k : case) : bool :=
  match k with
  | KResizeU m rs origin pad out =>
      negb (proper m && nonneg2 rs)
      || res_eqb zarr_eqb out
           (Ok (if default_origin origin then resize_spec pad m (fst rs) (snd rs)
                else window_spec pad m (fst origin - fst rs / 2) (snd origin - snd rs / 2) (fst rs) (snd rs)))
  | KExtractU m y0 y1 x0 x1 out =>
      negb (proper m && (y0 <=? y1) && (x0 <=? x1))
      || res_eqb zarr_eqb out (Ok (tab2 (Z.to_nat (y1 - y0)) (Z.to_nat (x1 - x0))
                                        (fun i j => ext_get 0 m (y0 + Z.of_nat i) (x0 + Z.of_nat j))))
  | KMaskResize m rs padv out =>
      negb (proper m && nonneg2 rs) || res_eqb barr_eqb out (Ok (resize_spec (negb (padv =? 0)) m (fst rs) (snd rs)))
  | KArrResize a rs mpv out =>
      negb (proper2 a && nonneg2 rs) || res_eqb a2_eqb out (Ok (resized_a2_spec a rs mpv))
  | KArrPad a k mpv out =>
      negb (proper2 a && (1 <=? fst k) && (1 <=? snd k))
      || res_eqb a2_eqb out (Ok (resized_a2_spec a (nrows (snd a) + fst k - 1, ncols (snd a) + snd k - 1) mpv))
  | KArrTrim a k out =>
      negb (proper2 a && odd_kernel k)
      || res_eqb a2_eqb out (Ok (resized_a2_spec a (nrows (snd a) - (fst k - 1), ncols (snd a) - (snd k - 1)) 0))
  | KPadTrim a k mpv out => negb (proper2 a && odd_kernel k) || res_eqb a2_eqb out (Ok (normal_a2 a))
  | KEnlargeShrink a rs mpv out => negb (proper2 a && ge2 rs (shape2 (snd a))) || res_eqb a2_eqb out (Ok (normal_a2 a))
  | KTrimArr ms p is out =>
      negb (proper p && prod_eqb Z.eqb Z.eqb (shape2 p) ms && nonneg2 is && ge2 ms is)
      || zarr_eqb out (resize_spec 0 p (fst is + (fst ms - fst is) mod 2) (snd is + (snd ms - snd is) mod 2))
  | KPadTrimArr a k out => negb (proper2 a && odd_kernel k) || res_eqb zarr_eqb out (Ok (zip_mask 0 (fst a) (snd a)))
  | KZoomRegion m out =>
      negb (proper m) ||
      match unmasked_coords m, out with
      | [], Raise _ => true
      | _ :: _, Ok (y0, y1, x0, x1) => window_contains m y0 x0 (y1 - y0) (x1 - x0)
      | _, _ => false
      end
  | KZoom a b out =>
      negb (proper2 a) ||
      match bbox (snd a), out with
      | None, Raise _ => true
      | Some bb, Raise _ => let '(h0, w0) := zoom_sides bb in (h0 + 2 * b <? 0) || (w0 + 2 * b <? 0)
      | Some bb, Ok e =>
          (* the window of the zero-extended array centred on the bounding box (every buffer) which, for buffers >= 0,
             contains every unmasked pixel (searched independently of the centring) *)
          let '(h0, w0) := zoom_sides bb in let h := h0 + 2 * b in let w := w0 + 2 * b in
          (0 <=? h) && (0 <=? w) &&
          match centred_corner bb h w with
          | Some (cy, cx) => zarr_eqb e (window_spec 0 (zip_mask 0 (fst a) (snd a)) cy cx h w)
          | None => false
          end
          && ((b <? 0) || zoom_ok a e)
      | None, Ok _ => false
      end
  | KZoomGeo m g b out =>
      negb (proper m && geom_ok g) ||
      match bbox m, out with
      | None, Raise _ => true
      | Some bb, Raise _ => let '(h0, w0) := zoom_sides bb in (h0 + 2 * b <? 0) || (w0 + 2 * b <? 0)
      | Some bb, Ok ((h, w), g') =>
          let '(h0, w0) := zoom_sides bb in
          (h =? h0 + 2 * b) && (w =? w0 + 2 * b) && (0 <=? h) && (0 <=? w) &&
          match centred_corner bb h w with
          | Some (cy, cx) => frame_keeps_coords m g h w g' cy cx
          | None => false
          end
      | None, Ok _ => false
      end
  | KMaskZoom m g out =>
      negb (proper m && geom_ok g) ||
      match bbox m, out with
      | None, Raise _ => true
      | Some bb, Ok ((mc, zc), (op, os), ((h, w), g')) =>
          let '(a0, a1, b0, b1) := bb in let '(h0, w0) := zoom_sides bb in
          let '(sy, sx, oy, ox) := g in let '(sy', sx', oy', ox') := g' in
          (h =? h0) && (w =? w0) &&
          match centred_corner bb h w with
          | Some (cy, cx) => frame_keeps_coords m g h w g' cy cx && window_contains m cy cx h w
          | None => false
          end
          (* mask_centre is the origin of that frame; zoom_centre is the centre of the bounding box in pixel units;
             the offsets are measured from the centre of the frame, in pixels and in scaled units *)
          && qq_eqb mc (oy', ox')
          && qq_eqb zc ((inject_Z (a0 + a1) / 2)%Q, (inject_Z (b0 + b1) / 2)%Q)
          && qq_eqb op ((fst zc - inject_Z (nrows m - 1) / 2)%Q, (snd zc - inject_Z (ncols m - 1) / 2)%Q)
          && qq_eqb os ((oy' - oy)%Q, (ox' - ox)%Q)
      | _, _ => false
      end
  | KApplyMask data noise m k g out =>
      negb (proper data && proper noise && proper m && shape_eqb data m && shape_eqb noise m
            && match k with Some k' => odd_kernel k' | None => true end)
      || apply_mask_ok data noise m k g out
  | KApplyChain data noise m1 m2 k trim g out =>
      (* whatever was done before, the second mask is applied to the original unmasked data *)
      negb (proper data && proper noise && proper m1 && proper m2 && shape_eqb data m1 && shape_eqb data m2 && shape_eqb noise m2
            && match k with Some k' => odd_kernel k' | None => true end)
      || apply_mask_ok data noise m2 k g out
  | KApplyMaskTrim data noise m k g out =>
      (* inputs that get padded (an unmasked pixel's footprint leaves the frame): the trim gives everything back *)
      negb (proper data && proper noise && proper m && shape_eqb data m && shape_eqb noise m && odd_kernel k
            && negb (footprint_inside m k))
      || match out with
         | Ok (m', (d', n'), gr) =>
             barr_eqb m' m && zarr_eqb d' (zip_mask 0 data m) && zarr_eqb n' (zip_mask 0 noise m)
             && list_eqb qq_eqb gr (map (fun p => @pixel_centre_spec QOps (nrows m) (ncols m) g (fst p) (snd p))
                                        (unmasked_coords m))
         | Raise _ => false
         end
  | KResizeCoords m rs g out =>
      negb (proper m && nonneg2 rs && same_parity rs (shape2 m))
      || match out with
         | Ok (m', gr) =>
             barr_eqb m' (resize_spec true m (fst rs) (snd rs))
             (* every unmasked pixel (a, b) of the result carries the coordinate its source pixel
                (a + H/2 - r0/2, b + W/2 - r1/2) had in the original frame *)
             && list_eqb qq_eqb gr
                  (map (fun p => @pixel_centre_spec QOps (nrows m) (ncols m) g
                                    (fst p + (nrows m / 2 - fst rs / 2)) (snd p + (ncols m / 2 - snd rs / 2)))
                       (unmasked_coords m'))
         | Raise _ => false
         end
  | KPadGrid sh k g out =>
      (* odd kernel: pixel (i, j) of the (H + k0 - 1) x (W + k1 - 1) padded frame carries the coordinate of pixel
         (i - (k0-1)/2, j - (k1-1)/2) of the original frame, all pixels listed in row-major order *)
      negb ((1 <=? fst sh) && (1 <=? snd sh) && odd_kernel k)
      || match out with
         | Ok (sh', gr) =>
             let R0 := fst sh + fst k - 1 in let R1 := snd sh + snd k - 1 in
             zz_eqb sh' (R0, R1)
             && list_eqb qq_eqb gr
                  (flat_map (fun i => map (fun j => @pixel_centre_spec QOps (fst sh) (snd sh) g
                                                       (Z.of_nat i - (fst k - 1) / 2) (Z.of_nat j - (snd k - 1) / 2))
                                          (seq 0 (Z.to_nat R1))) (seq 0 (Z.to_nat R0)))
         | Raise _ => false
         end
  end.

Definition check (k : case) : nat := verdict (agree k) (spec_ok k).
