(* C04, part 2 -- the three facts about the convolver built by Convolver.__init__ (model C03) that Proofs/C04.v takes as
   hypotheses, proved from the characterisation of mask_index_array / frame_at_coordinates in Proofs/C03.v:
     frames_ok      every scatter target of every image frame is a slim index < n
     wd_is_adjoint  w_tilde_data_imaging_from            = C^T N^-1 d
     W_is_overlap   w_tilde_curvature_(value/imaging)_from = C^T N^-1 C
   with C = Cop c, the operator carried by the frames.  Then the full (hypothesis-free) forms of the theorems. *)
From Coq Require Import ZArith Reals Lra Lia List Bool Arith ZifyBool.
From PAV Require Import Base.Res Base.NumOps Base.Sum Model.C03 Model.C03Lib Model.C04 Model.C04Lib.
From PAV Require Proofs.C03.
From PAV Require Import Proofs.C04.
Import ListNotations.
Local Open Scope R_scope.
Module P3 := PAV.Proofs.C03.

Notation RK := (list (list R)).
Ltac foldU := repeat match goal with |- context [@nth ?A ?k (unmasked ?m) (0%Z, 0%Z)] =>
  change (@nth A k (unmasked m) (0%Z, 0%Z)) with (Uat m k) end.

(* ================================================================== 1. frames_ok *)
Theorem init_frames_ok m (K : RK) c : rectb m = true -> @convolver_init ROps m K = Ok c ->
  frames_ok c (length (unmasked m)).
Proof.
  intros R Hc. destruct (P3.init_ok_inv m K c Hc) as (_ & _ & _ & HI & _). split.
  - rewrite HI. apply map_length.
  - intros s tk Hin. rewrite HI in Hin.
    destruct (lt_dec s (length (unmasked m))) as [L|L].
    + rewrite (P3.nth_map_lt _ _ _ (0%Z, 0%Z)) in Hin by exact L.
      pose proof (P3.frame_targets m K (nth s (unmasked m) (0%Z, 0%Z)) R) as F. rewrite Forall_forall in F. now apply F.
    + rewrite nth_overflow in Hin by (rewrite map_length; lia). contradiction.
Qed.

(* ================================================================== 2. the entries of the frame operator *)
Lemma map_scale_one (l : list (nat * R)) : map (P3.scale 1) l = l.
Proof.
  induction l as [|[i v] l IH]; [reflexivity|]. cbn [map]. rewrite IH. unfold P3.scale. cbn [fst snd]. now rewrite Rmult_1_l.
Qed.

(* Cop c i s = sum over the kernel cells that send pixel s onto pixel i *)
Lemma Cop_cells m (K : RK) c i s : rectb m = true -> @convolver_init ROps m K = Ok c ->
  (i < length (unmasked m))%nat -> (s < length (unmasked m))%nat ->
  Cop c i s = sumR (map (fun ij => if px_eqb (P3.tgt K (Uat m s) ij) (Uat m i) then P3.kval K ij else 0) (P3.kcells K)).
Proof.
  intros R Hc Hi Hs. destruct (P3.init_ok_inv m K c Hc) as (_ & _ & _ & HI & _).
  unfold Cop. rewrite HI. rewrite (P3.nth_map_lt _ _ _ (0%Z, 0%Z)) by exact Hs.
  match goal with |- context [hits i ?l] => rewrite <- (map_scale_one l) end.
  rewrite P3.frame_hits by assumption. apply sumR_map_ext. intros ij _. unfold Uat.
  destruct (px_eqb _ _); lra.
Qed.

Lemma Uat_eqb m i j : (i < length (unmasked m))%nat -> (j < length (unmasked m))%nat ->
  px_eqb (Uat m i) (Uat m j) = Nat.eqb i j.
Proof.
  intros Hi Hj. destruct (Nat.eqb i j) eqn:E.
  - apply Nat.eqb_eq in E. subst. apply P3.px_eqb_refl.
  - apply P3.px_eqb_neq. intros H. apply Nat.eqb_neq in E. apply E.
    apply (proj1 (NoDup_nth (unmasked m) (0%Z, 0%Z)) (P3.NoDup_unmasked m)); auto.
Qed.

(* the value [f i] filed under the native pixel [q] when q is the i-th unmasked pixel, 0 when q is masked / outside *)
Definition pick (m : mask) (f : nat -> R) (q : px) : R :=
  sumR (map (fun i => if px_eqb q (Uat m i) then f i else 0) (seq 0 (length (unmasked m)))).
Lemma pick_at m f i : (i < length (unmasked m))%nat -> pick m f (Uat m i) = f i.
Proof.
  intros Hi. unfold pick.
  transitivity (sumR (map (fun x => if Nat.eqb x i then f x else 0) (seq 0 (length (unmasked m))))).
  - apply sumR_map_ext. intros x Hx. apply in_seq in Hx. rewrite Uat_eqb by lia. now rewrite Nat.eqb_sym.
  - apply sumR_seq_pick. lia.
Qed.
Lemma pick_notin m f q : ~ In q (unmasked m) -> pick m f q = 0.
Proof.
  intros H. apply sumR_map_zero. intros i Hi. apply in_seq in Hi. destruct (px_eqb q (Uat m i)) eqn:E; auto.
  apply P3.px_eqb_eq in E. exfalso. apply H. subst q. apply nth_In. lia.
Qed.

(* sum_i Cop c i k * f i, gathered along the frame of pixel k *)
Lemma Cop_sum m (K : RK) c (f : nat -> R) k : rectb m = true -> @convolver_init ROps m K = Ok c ->
  (k < length (unmasked m))%nat ->
  sumR (map (fun i => Cop c i k * f i) (seq 0 (length (unmasked m)))) =
  sumR (map (fun ij => P3.kval K ij * pick m f (P3.tgt K (Uat m k) ij)) (P3.kcells K)).
Proof.
  intros R Hc Hk.
  transitivity (sumR (map (fun i => sumR (map (fun ij =>
      (if px_eqb (P3.tgt K (Uat m k) ij) (Uat m i) then P3.kval K ij else 0) * f i) (P3.kcells K))) (seq 0 (length (unmasked m))))).
  - apply sumR_map_ext. intros i Hi. apply in_seq in Hi. rewrite (Cop_cells m K c i k) by (auto; lia).
    now rewrite sumR_map_mul_l.
  - rewrite (sumR_swap (fun i ij => (if px_eqb (P3.tgt K (Uat m k) ij) (Uat m i) then P3.kval K ij else 0) * f i)).
    apply sumR_map_ext. intros ij _. unfold pick. rewrite <- sumR_map_scal.
    apply sumR_map_ext. intros i _. destruct (px_eqb _ _); lra.
Qed.

(* the slim -> native view reads back the slim value *)
Lemma lookup_nth (ps : list px) d : NoDup ps -> forall (v : list R) i, (i < length ps)%nat -> length v = length ps ->
  @lookup ROps ps v (nth i ps d) = nth i v 0.
Proof.
  induction 1 as [|p ps Hn Hd IH]; intros v i Hi Hl; [cbn in Hi; lia|].
  destruct v as [|a v]; [discriminate|]. cbn [lookup]. destruct i as [|i]; cbn [nth].
  - now rewrite P3.px_eqb_refl.
  - destruct (px_eqb p (nth i ps d)) eqn:E.
    + apply P3.px_eqb_eq in E. exfalso. apply Hn. rewrite E. apply nth_In. cbn in Hi. lia.
    + apply IH; cbn in *; lia.
Qed.
Lemma native_at m (v : list R) i : (i < length (unmasked m))%nat -> length v = length (unmasked m) ->
  @native ROps m v (Uat m i) = nth i v 0.
Proof. intros. unfold native, Uat. apply lookup_nth; auto. apply P3.NoDup_unmasked. Qed.
Lemma native_out m (v : list R) q : ~ In q (unmasked m) -> @native ROps m v q = 0.
Proof. intros. unfold native. now apply P3.lookup_notin. Qed.
Lemma unmasked_cases m q : (exists i, (i < length (unmasked m))%nat /\ q = Uat m i) \/ ~ In q (unmasked m).
Proof.
  destruct (mz m q) eqn:E.
  - right. rewrite P3.in_unmasked. congruence.
  - left. apply P3.in_unmasked in E. apply (In_nth _ _ (0%Z, 0%Z)) in E. destruct E as [i [Hi E]]. exists i. split; auto.
Qed.

(* a double loop over the kernel cells as one sum over [kcells] *)
Lemma sumR_cells (K : RK) (G : Z -> Z -> list R) :
  sumR (flat_map (fun a => flat_map (fun b => G a b) (seqZ 0 (cols K))) (seqZ 0 (rows K))) =
  sumR (map (fun ij => sumR (G (fst ij) (snd ij))) (P3.kcells K)).
Proof. rewrite (P3.flat_prod G). unfold P3.kcells. now rewrite P3.sumR_flat_map. Qed.

(* ================================================================== 3. w_tilde_data_imaging_from = C^T N^-1 d *)
Lemma wt_data_value_cells (img noise : px -> R) (K : RK) p :
  @wt_data_value ROps img noise K p =
  sumR (map (fun ij => let q := P3.tgt K p ij in
                       if Reqb (noise q) 0 then 0 else P3.kval K ij * (img q / (noise q * noise q))) (P3.kcells K)).
Proof.
  unfold wt_data_value. cbv zeta. rewrite sumT_sumR. rfix.
  rewrite sumR_cells.
  apply sumR_map_ext. intros [ky kx] _. cbn [fst snd].
  replace (fst p + ky + - (rows K / 2), snd p + kx + - (cols K / 2))%Z with (P3.tgt K p (ky, kx))
    by (unfold P3.tgt; cbn [fst snd]; f_equal; lia).
  runfold. destruct (Reqb (noise (P3.tgt K p (ky, kx))) 0); cbn [sumR]; [reflexivity|].
  unfold kat, P3.kval. lra.
Qed.

Theorem wt_data_is_adjoint m (K : RK) c (d s : list R) : rectb m = true -> @convolver_init ROps m K = Ok c ->
  length d = length (unmasked m) -> length s = length (unmasked m) ->
  (forall i, (i < length (unmasked m))%nat -> nth i s 0 <> 0) ->
  wd_is_adjoint c d s (@wt_data ROps (@native ROps m d) (@native ROps m s) K (unmasked m)) (length (unmasked m)).
Proof.
  intros R Hc Hd Hs Hnz k Hk. unfold wt_data. rewrite (P3.nth_map_lt _ _ _ (0%Z, 0%Z)) by exact Hk. foldU.
  rewrite (Cop_sum m K c (fun i => nth i d 0 / (nth i s 0 * nth i s 0)) k) by assumption.
  rewrite wt_data_value_cells. apply sumR_map_ext. intros ij _. cbv zeta.
  destruct (unmasked_cases m (P3.tgt K (Uat m k) ij)) as [[i [Hi ->]]|Hout].
  - rewrite pick_at, !native_at by assumption.
    destruct (Reqb (nth i s 0) 0) eqn:E; [apply Reqb_true in E; exfalso; now apply (Hnz i)|]. reflexivity.
  - rewrite pick_notin, !native_out by exact Hout.
    destruct (Reqb 0 0) eqn:E; [lra | apply Reqb_false in E; lra].
Qed.

(* ================================================================== 4. w_tilde_curvature_value_from = (C^T N^-1 C)[d0][d1] *)
Lemma existsb_kcells (K : RK) x : existsb (fun s => px_eqb s x) (P3.kcells K) = inrange K x.
Proof.
  apply eq_iff_eq_true. rewrite existsb_exists. split.
  - intros [y [Hy E]]. apply P3.px_eqb_eq in E. subst y. apply P3.in_kcells in Hy. unfold inrange. rfix. lia.
  - intros H. exists x. split; [apply P3.in_kcells; unfold inrange in H; rfix; lia | apply P3.px_eqb_refl].
Qed.
Lemma NoDup_kcells (K : RK) : NoDup (P3.kcells K).
Proof. apply P3.NoDup_list_prod; apply P3.NoDup_seqZ. Qed.

(* C[i, s] = K[offset of pixel i from pixel s + half] when that is inside the kernel, else 0 *)
Theorem Cop_kz m (K : RK) c i s : rectb m = true -> @convolver_init ROps m K = Ok c ->
  (i < length (unmasked m))%nat -> (s < length (unmasked m))%nat ->
  Cop c i s = kz K (koff K (Uat m i) (Uat m s)).
Proof.
  intros R Hc Hi Hs. rewrite (Cop_cells m K c i s) by assumption.
  transitivity (sumR (map (fun ij => if px_eqb ij (koff K (Uat m i) (Uat m s)) then P3.kval K ij else 0) (P3.kcells K))).
  - apply sumR_map_ext. intros ij _.
    replace (px_eqb (P3.tgt K (Uat m s) ij) (Uat m i)) with (px_eqb ij (koff K (Uat m i) (Uat m s))); [reflexivity|].
    unfold px_eqb, P3.tgt, koff. cbn [fst snd]. rfix. lia.
  - rewrite (sumR_indicator px_eqb (P3.kval K)) by (apply P3.px_eqb_eq || apply NoDup_kcells).
    rewrite existsb_kcells. reflexivity.
Qed.

Lemma wt_value_cells (noise : px -> R) (K : RK) p0 p1 :
  @wt_value ROps noise K p0 p1 =
  sumR (map (fun ij => let q := P3.tgt K p0 ij in
                       if Rltb 0 (noise q)
                       then P3.kval K ij * kz K (fst ij + (fst p0 - fst p1), snd ij + (snd p0 - snd p1))%Z * / (noise q * noise q)
                       else 0) (P3.kcells K)).
Proof.
  unfold wt_value. cbv zeta. rfix.
  match goal with |- (if ?g then _ else _) = _ => destruct g eqn:G end.
  - (* early return: no kernel cell can overlap *)
    symmetry. apply sumR_map_zero. intros ij Hij. apply P3.in_kcells in Hij.
    destruct (Rltb 0 (noise (P3.tgt K p0 ij))); [|reflexivity].
    unfold kz, inrange. cbn [fst snd]. rfix.
    replace ((fst ij + (fst p0 - fst p1) >=? 0) && (snd ij + (snd p0 - snd p1) >=? 0)
             && (fst ij + (fst p0 - fst p1) <? rows K) && (snd ij + (snd p0 - snd p1) <? cols K))%Z with false.
    + unfold zero. cbn. lra.
    + pose proof (Z.div_mod (rows K) 2 ltac:(lia)). pose proof (Z.mod_pos_bound (rows K) 2 ltac:(lia)).
      pose proof (Z.div_mod (cols K) 2 ltac:(lia)). pose proof (Z.mod_pos_bound (cols K) 2 ltac:(lia)). lia.
  - rewrite sumT_sumR. rfix.
    rewrite sumR_cells.
    apply sumR_map_ext. intros [ky kx] _. cbn [fst snd].
    replace (fst p0 + ky + - (rows K / 2), snd p0 + kx + - (cols K / 2))%Z with (P3.tgt K p0 (ky, kx))
      by (unfold P3.tgt; cbn [fst snd]; f_equal; lia).
    runfold. destruct (Rltb 0 (noise (P3.tgt K p0 (ky, kx)))) eqn:L; [|reflexivity].
    apply Rltb_true in L. unfold kz, inrange. cbn [fst snd]. rfix.
    destruct ((ky + (fst p0 - fst p1) >=? 0) && (kx + (snd p0 - snd p1) >=? 0)
              && (ky + (fst p0 - fst p1) <? rows K) && (kx + (snd p0 - snd p1) <? cols K))%Z; cbn [sumR].
    + unfold kat, P3.kval. runfold. field. lra.
    + lra.
Qed.

Theorem wt_value_is_overlap m (K : RK) c (s : list R) d0 d1 : rectb m = true -> @convolver_init ROps m K = Ok c ->
  length s = length (unmasked m) -> (forall i, (i < length (unmasked m))%nat -> 0 < nth i s 0) ->
  (d0 < length (unmasked m))%nat -> (d1 < length (unmasked m))%nat ->
  @wt_value ROps (@native ROps m s) K (Uat m d0) (Uat m d1) =
  sumR (map (fun i => Cop c i d0 * Cop c i d1 * / (nth i s 0 * nth i s 0)) (seq 0 (length (unmasked m)))).
Proof.
  intros R Hc Hs Hpos H0 H1.
  transitivity (sumR (map (fun i => Cop c i d0 * (Cop c i d1 * / (nth i s 0 * nth i s 0))) (seq 0 (length (unmasked m)))));
    [|apply sumR_map_ext; intros; ring].
  rewrite (Cop_sum m K c (fun i => Cop c i d1 * / (nth i s 0 * nth i s 0)) d0) by assumption.
  rewrite wt_value_cells. apply sumR_map_ext. intros ij _. cbv zeta.
  destruct (unmasked_cases m (P3.tgt K (Uat m d0) ij)) as [[i [Hi E]]|Hout].
  - replace (fst ij + (fst (Uat m d0) - fst (Uat m d1)), snd ij + (snd (Uat m d0) - snd (Uat m d1)))%Z
      with (koff K (P3.tgt K (Uat m d0) ij) (Uat m d1)) by (unfold koff, P3.tgt; cbn [fst snd]; rfix; f_equal; lia).
    rewrite E. rewrite pick_at, native_at by assumption.
    rewrite (Cop_kz m K c i d1) by assumption.
    assert (L : Rltb 0 (nth i s 0) = true) by (apply Rltb_true; now apply Hpos). rewrite L. ring.
  - rewrite pick_notin, native_out by exact Hout.
    assert (L : Rltb 0 0 = false) by (apply Rltb_false; lra). rewrite L. ring.
Qed.

(* w_tilde_curvature_imaging_from (and, through preload_represents_dense, the preload) is C^T N^-1 C *)
Theorem wt_dense_is_overlap m (K : RK) c (s : list R) : rectb m = true -> @convolver_init ROps m K = Ok c ->
  length s = length (unmasked m) -> (forall i, (i < length (unmasked m))%nat -> 0 < nth i s 0) ->
  W_is_overlap c s (@wt_dense ROps (@native ROps m s) K (unmasked m)) (length (unmasked m)).
Proof.
  intros R Hc Hs Hpos d0 d1 H0 H1. rewrite mget_wt_dense by assumption. unfold Wv. foldU.
  destruct (Nat.leb d0 d1).
  - now apply wt_value_is_overlap.
  - rewrite (wt_value_is_overlap m K c s d1 d0) by assumption. apply sumR_map_ext. intros; ring.
Qed.

(* ================================================================== 5. the full theorems *)
Lemma pos_nonzero (s : list R) n : (forall i, (i < n)%nat -> 0 < nth i s 0) -> forall i, (i < n)%nat -> nth i s 0 <> 0.
Proof. intros H i Hi. specialize (H i Hi). lra. Qed.

Section Full.
  Variables (m : mask) (K : RK) (c : @convolver ROps).
  Hypothesis Hrect : rectb m = true.
  Hypothesis Hc : @convolver_init ROps m K = Ok c.
  Notation n := (length (unmasked m)).

  Theorem wt_diag_block_full (s : list R) e P a b :
    length s = n -> (forall i, (i < n)%nat -> 0 < nth i s 0) -> enc_ok e P -> (a < P)%nat -> (b < P)%nat ->
    let '(pre, idx, lens) := @preload ROps (@native ROps m s) K (unmasked m) in
    mget (@curv_preload ROps pre idx lens e P) a b =
    sumR (map (fun i => Bm e c n i a * Bm e c n i b / (nth i s 0 * nth i s 0)) (seq 0 n)).
  Proof. intros Hs Hpos. apply wt_diag_block. now apply (wt_dense_is_overlap m K c s). Qed.

  Theorem wt_off_block_full (s : list R) e0 P0 e1 P1 a b :
    length s = n -> (forall i, (i < n)%nat -> 0 < nth i s 0) -> enc_ok e0 P0 -> enc_ok e1 P1 -> (a < P0)%nat -> (b < P1)%nat ->
    let '(pre, idx, lens) := @preload ROps (@native ROps m s) K (unmasked m) in
    mget (@off_diag ROps pre idx lens e0 P0 e1 P1) a b =
    sumR (map (fun i => Bm e0 c n i a * Bm e1 c n i b / (nth i s 0 * nth i s 0)) (seq 0 n)).
  Proof. intros Hs Hpos. apply wt_off_block. now apply (wt_dense_is_overlap m K c s). Qed.

  Theorem mirrored_wt_is_normal_full objs (s : list R) :
    (0 < n)%nat -> length s = n -> (forall i, (i < n)%nat -> 0 < nth i s 0) -> (forall o, In o objs -> wf_obj c n o) ->
    forall a b, (a < tp objs)%nat -> (b < tp objs)%nat ->
    let noise := @native ROps m s in let nfs := unmasked m in
    shape (tp objs) (tp objs) (@F_wt_pre ROps c (fst (fst (@preload ROps noise K nfs))) (snd (fst (@preload ROps noise K nfs))) (snd (@preload ROps noise K nfs)) objs s) /\
    mget (mirrored (@F_wt_pre ROps c (fst (fst (@preload ROps noise K nfs))) (snd (fst (@preload ROps noise K nfs))) (snd (@preload ROps noise K nfs)) objs s)) a b
    = Snorm (op_matrix c objs n) s n a b.
  Proof.
    intros Hn Hs Hpos Hwf a b Ha Hb. cbv zeta. apply mirrored_wt_is_normal; auto.
    - now apply (init_frames_ok m K c).
    - now apply pos_nonzero.
    - now apply (wt_dense_is_overlap m K c s).
  Qed.

  Theorem F_wt_eq_F_mapping_full objs (s : list R) eps a b :
    (0 < n)%nat -> length s = n -> (forall i, (i < n)%nat -> 0 < nth i s 0) -> (forall o, In o objs -> wf_obj c n o) ->
    (a < tp objs)%nat -> (b < tp objs)%nat ->
    mget (@F_wt ROps c m K objs s eps) a b = mget (@F_mapping ROps c objs n s eps) a b.
  Proof.
    intros Hn Hs Hpos Hwf Ha Hb. rewrite F_wt_is_gen. apply F_wt_eq_F_mapping; auto.
    - now apply (init_frames_ok m K c).
    - now apply pos_nonzero.
    - now apply (wt_dense_is_overlap m K c s).
  Qed.

  Theorem F_wt_symmetric_full objs (s : list R) eps a b :
    (0 < n)%nat -> length s = n -> (forall i, (i < n)%nat -> 0 < nth i s 0) -> (forall o, In o objs -> wf_obj c n o) ->
    (a < tp objs)%nat -> (b < tp objs)%nat ->
    mget (@F_wt ROps c m K objs s eps) a b = mget (@F_wt ROps c m K objs s eps) b a.
  Proof.
    intros Hn Hs Hpos Hwf Ha Hb. rewrite F_wt_is_gen. apply F_wt_symmetric; auto.
    - now apply (init_frames_ok m K c).
    - now apply pos_nonzero.
    - now apply (wt_dense_is_overlap m K c s).
  Qed.

  (* the w-tilde data vector of one mapper = its block B_i^T N^-1 d of the mapping formalism *)
  Theorem wt_data_vector_block_full (d s : list R) e P p :
    length d = n -> length s = n -> (forall i, (i < n)%nat -> nth i s 0 <> 0) -> enc_ok e P -> (p < P)%nat ->
    nth p (@dv_wtd ROps (@wt_data ROps (@native ROps m d) (@native ROps m s) K (unmasked m)) e P) 0 =
    sumR (map (fun i => nth i d 0 * Bm e c n i p / (nth i s 0 * nth i s 0)) (seq 0 n)).
  Proof.
    intros Hd Hs Hnz He Hp. apply wt_data_vector_block; auto.
    - unfold wt_data. apply map_length.
    - now apply (wt_data_is_adjoint m K c d s).
  Qed.

  Theorem D_wt_eq_D_mapping_mappers_full objs (d s : list R) a :
    forallb (@is_mapper ROps) objs = true -> (0 < n)%nat -> length d = n -> length s = n ->
    (forall i, (i < n)%nat -> nth i s 0 <> 0) -> (forall o, In o objs -> wf_obj c n o) -> (a < tp objs)%nat ->
    nth a (@D_wt ROps c m K objs d s) 0 = nth a (@D_mapping ROps c objs d s) 0.
  Proof.
    intros Hall Hn Hd Hs Hnz Hwf Ha. apply (D_wt_eq_D_mapping_mappers c m K objs d s n); auto.
    - now apply (init_frames_ok m K c).
    - now apply (wt_data_is_adjoint m K c d s).
  Qed.
End Full.
