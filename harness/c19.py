"""C19 -- layout regions rotate and extract consistently with the arrays they index."""
import itertools, math, copy
import numpy as np
from harness.common import cz, clist, ctup, copt, cres, call_res, import_aa

ID = "C19"
GEN = ["layout"]
GEN_FILES = ["Gen/Gen_layout.v"]
PROPS = "Props/C19.v"
COQ_CHECK = ("Model.C19x", "check")
COQ_FALLBACK = ("Model.C19", "spec_ok")
COQ_IMPORTS = "From PAV Require Import Model.C19."
SHARD = 1000
RULE = ("exhaustive enumeration (see exhaustive_subspace) of constructor arguments, sub-region pixel ranges, 1-D "
        "extraction quadruples, 2-D (region, window) pairs, (shape, region, corner) rotations, each run through the "
        "public classes (aa.Region1D/2D, aa.Layout2D, Array2D.original_orientation) and the util functions; plus random "
        "larger shapes; plus HISTORIES on one object: (ahist) one natively stored Array2D / ndarray that is read "
        "(original_orientation, Layout2D.original_orientation_from, util), written in place (arr[region.slice] = v, "
        "arr[boolean mask] = v), whose returned arrays are edited by the caller, whose header corner is changed, which is "
        "replaced by derived objects (copy, .native, .slim.native, +0, views, Fortran order) and re-read, every "
        "observation compared in Coq with the model run on the CURRENT contents; (lsess) one Layout2D reused for "
        "several rotations / extractions / array extractions with user edits of its attributes in between; (rsess) one "
        "Region2D / Region1D reused for many sub-region calls, also after reg.region is reassigned, and results used as "
        "receivers.  Array values include tiny / huge / non-finite / tied values (compared by value through an "
        "injective labelling).  Phase 3 (gen_kinds): the same operations with every region / shape / pixels argument in other "
        "REPRESENTATIONS (list, numpy scalars, ndarray, namedtuple, Region object, user subclass, region wrapping a region), "
        "receivers / inputs that are user subclasses of Region, Layout and Array classes, positional passing, defaults left out, "
        "mutable arguments fingerprinted around the call; arrays of dtype bool / int8 / uint8 / int64 beyond 2^53 / float16 / "
        "float32 / complex128; Layout1D histories on one Array1D; rotate_pattern_ci_via_roe_corner_from; binned overscans, "
        "serial_eper_pixels and every read-only attribute of the regions (before / after reg.region is re-assigned, after "
        "copy / deepcopy / pickle).  A case is non-trivial unless it is a bare constructor call; distinct = distinct JSON input.")
EXHAUSTIVE = {
    "quick": "constructors on [-1..3]^2 / [-1..2]^4; sub-regions of every region in a 3x3 frame with pixel ranges in [-1..3]; "
             "1-D extraction on all quadruples in [0..6]; 2-D extraction: all (region, window) pairs in a 3x3 frame; "
             "rotation: all shapes <= 4x4, all regions, 4 corners (+2 invalid corners); read/edit/re-read history "
             "patterns: 7 shapes x 4 corners x 3 object kinds x 13 patterns; call / reg.region = r2 / same call for "
             "every 9th ordered pair of regions in a 3x3 frame (every 3rd pair in 1-D on [0..5]); large coordinates (up to 2^40, "
             "python ints and numpy int64) for every region-valued operation",
    "thorough": "as quick with frames 4x4 for extraction / sub-regions and all shapes <= 6x6 for rotation, 1-D on [0..9]; "
                "history patterns on 11 shapes x 4 region choices; every 2nd ordered pair of regions for the re-assigned-region sessions",
}
TRUSTED = ["py2v translator (coq/Gen/Gen_layout.v regenerated from autoarray/layout/region.py and layout_util.py on every run; "
           "its pinned-glue assumptions: AbstractRegion.__init__/__getitem__ literal text)",
           "correspondence harness harness/c19.py (also runs every generated definition against the Python function)",
           "numpy slicing semantics a[y0:y1, x0:x1] = firstn/skipn (Model.C19.slice2), checked by the KCommute cases"]
TRUSTED += ["np.s_[a:b] modelled as the pair (a, b) in KProps1 / KProps2; np.mean for the binned overscans (python-side check)"]
TRUSTED += ["numpy slice assignment a[y0:y1, x0:x1] = v = Model.C19.fill2 (proved equal to the pixel-wise fill_spec), exercised by the ahist cases",
            "the harness's own bookkeeping of the tracked layout / region state in lsess / rsess (plain tuples)"]
ASSUMPTIONS = ["array contents are arbitrary (theorems are polymorphic in the element type); correspondence uses distinct integers",
               "Layout2D / Array2D glue is covered by correspondence only"]

def tup(r): return None if r is None else [int(x) for x in r]
def creg(r): return ctup([cz(x) for x in r])
def carr(m): return clist([clist([cz(x) for x in row]) for row in m])

def regions_1d(n):
    return [(a, b) for a in range(0, n + 1) for b in range(a + 1, n + 1)]
def regions_2d(h, w):
    return [(y0, y1, x0, x1) for (y0, y1) in regions_1d(h) for (x0, x1) in regions_1d(w)]

def gen_inputs(tier, rng):
    big = tier == "thorough"
    # constructors incl. invalid
    for r in itertools.product(range(-1, 4), repeat=2): yield {"op": "init1", "r": list(r)}
    for r in itertools.product(range(-1, 3), repeat=4): yield {"op": "init2", "r": list(r)}
    # sub regions
    n = 4 if big else 3
    prs = [(a, b) for a in range(-1, 4) for b in range(-1, 4)]
    for s in regions_1d(n + 2):
        for p in prs:
            yield {"op": "front1", "s": list(s), "p": list(p), "e": None}
            yield {"op": "trail1", "s": list(s), "p": list(p)}
        for e in range(-1, 5): yield {"op": "front1", "s": list(s), "p": None, "e": e}
        yield {"op": "front1", "s": list(s), "p": None, "e": None}
        yield {"op": "front1", "s": list(s), "p": [0, 1], "e": 1}
    for s in regions_2d(n, n):
        for p in prs:
            if not big and (p[0] + p[1] + s[0]) % 2: continue   # halve the quick budget deterministically
            for op in ("parfront", "serfront"): yield {"op": op, "s": list(s), "p": list(p), "e": None}
            for op in ("partrail", "sertrail"): yield {"op": op, "s": list(s), "p": list(p)}
            yield {"op": "serroe", "s": list(s), "sh": [n + 1, n + 2], "p": list(p)}
        for e in range(-1, 5):
            for op in ("parfront", "serfront"): yield {"op": op, "s": list(s), "p": None, "e": e}
        yield {"op": "parfront", "s": list(s), "p": None, "e": None}
        yield {"op": "parfull", "s": list(s), "sh": [n, n + 3]}
        yield {"op": "parfull", "s": list(s), "sh": [n, 0]}
    # 1-D extraction
    m = 9 if big else 6
    for o in regions_1d(m):
        for e in regions_1d(m): yield {"op": "x0x1", "a": [o[0], o[1], e[0], e[1]]}
    # 2-D extraction, through util and through Layout2D slots
    f = 4 if big else 3
    slots = ["util", "parallel_overscan", "serial_prescan", "serial_overscan"]
    i = 0
    for o in regions_2d(f, f):
        for e in regions_2d(f, f):
            yield {"op": "extract", "o": list(o), "e": list(e), "via": slots[i % 4], "shape": [f, f]}; i += 1
    yield {"op": "extract", "o": None, "e": [0, 1, 0, 1], "via": "util", "shape": [f, f]}
    yield {"op": "extract", "o": None, "e": [0, 1, 0, 1], "via": "serial_prescan", "shape": [f, f]}
    # rotations
    smax = 6 if big else 4
    corners = [(1, 0), (0, 0), (1, 1), (0, 1)]
    vias = ["util", "rotated_from_roe_corner", "new_rotated_from"]
    for h in range(1, smax + 1):
        for w in range(1, smax + 1):
            arr = [[1 + y * w + x for x in range(w)] for y in range(h)]
            for c in corners + [(2, 0), (0, -1)]:
                yield {"op": "rotarray", "m": arr, "c": list(c), "via": "util" if (h + w) % 2 else "original_orientation"}
            for r in regions_2d(h, w):
                for c in corners:
                    i += 1
                    yield {"op": "rotregion", "r": list(r), "s": [h, w], "c": list(c), "via": vias[i % 3]}
                    yield {"op": "commute", "m": arr, "r": list(r), "c": list(c), "via": "slice" if i % 2 else "extract"}
                    if (i % 3 == 0) or big: yield {"op": "twice", "m": arr, "r": list(r), "c": list(c)}
            yield {"op": "rotregion", "r": None, "s": [h, w], "c": [0, 0], "via": "util"}
            yield {"op": "rotregion", "r": [0, 1, 0, 1], "s": [h, w], "c": [3, 3], "via": "util"}
    # random larger
    for _ in range(3000 if big else 300):
        h, w = rng.randint(5, 12), rng.randint(5, 12)
        arr = [[rng.randint(-99, 99) for _ in range(w)] for _ in range(h)]
        y0 = rng.randint(0, h - 1); y1 = rng.randint(y0 + 1, h); x0 = rng.randint(0, w - 1); x1 = rng.randint(x0 + 1, w)
        c = rng.choice(corners)
        yield {"op": "commute", "m": arr, "r": [y0, y1, x0, x1], "c": list(c), "via": rng.choice(["slice", "extract"])}
        ey0 = rng.randint(0, h - 1); ey1 = rng.randint(ey0 + 1, h); ex0 = rng.randint(0, w - 1); ex1 = rng.randint(ex0 + 1, w)
        yield {"op": "extract", "o": [y0, y1, x0, x1], "e": [ey0, ey1, ex0, ex1], "via": rng.choice(slots), "shape": [h, w]}
    yield from gen_histories(tier, rng)
    yield from gen_kinds(tier, rng)

def reg_out(x):
    """canonical form of a result that is a region object / tuple"""
    if x[0] == "raise": return x
    v = x[1]
    return ("ok", None if v is None else tuple(int(t) for t in (v.region if hasattr(v, "region") else v)))

REGION_OPS = ("front1", "trail1", "parfront", "serfront", "partrail", "sertrail", "parfull", "serroe")
def region_op(obj, self_t, inp, aa=None, bad=None):
    """one sub-region call on the GIVEN Region object (tracked tuple self_t) -> (canonical result, Coq case).
    inp may ask for another representation of the arguments ("pk" pixels, "shk" shape_2d), positional passing ("pos"),
    or leaving out an argument that equals its default ("dflt"); mutable arguments are fingerprinted around the call."""
    op = inp["op"]
    t2 = lambda p: None if p is None else tuple(p)
    P = mkkind(aa, inp.get("p"), inp.get("pk"), 1) if aa is not None else t2(inp.get("p"))
    SH = (mkkind(aa, inp.get("sh"), inp.get("shk"), 1) if aa is not None else t2(inp.get("sh"))) if "sh" in inp else None
    fp = (fingerprint(P), fingerprint(SH))
    pos = bool(inp.get("pos")); dflt = bool(inp.get("dflt")) and inp.get("p") is not None and list(inp["p"]) == [0, 1]
    def call(f, *names_vals):
        """names_vals: (name, value) in the signature's order"""
        if pos: return call_res(f, *[v for _, v in names_vals])
        return call_res(f, **{k: v for k, v in names_vals if not (dflt and k == "pixels")})
    if op == "front1":
        out = reg_out(call(obj.front_region_from, ("pixels", P), ("pixels_from_end", inp["e"])))
        coq = f"KFront1 {creg(self_t)} {copt(inp['p'], creg)} {copt(inp['e'], cz)} {cres(out, creg)}"
    elif op == "trail1":
        out = reg_out(call(obj.trailing_region_from, ("pixels", P)) if not dflt else call_res(obj.trailing_region_from, pixels=P))
        coq = f"KTrail1 {creg(self_t)} {creg(inp['p'])} {cres(out, creg)}"
    elif op in ("parfront", "serfront"):
        f = obj.parallel_front_region_from if op == "parfront" else obj.serial_front_region_from
        out = reg_out(call_res(f, P, inp["e"]) if pos else call_res(f, pixels=P, pixels_from_end=inp["e"]))
        k = "KParFront" if op == "parfront" else "KSerFront"
        coq = f"{k} {creg(self_t)} {copt(inp['p'], creg)} {copt(inp['e'], cz)} {cres(out, creg)}"
    elif op in ("partrail", "sertrail"):
        f = obj.parallel_trailing_region_from if op == "partrail" else obj.serial_trailing_region_from
        out = reg_out(call(f, ("pixels", P)))
        k = "KParTrail" if op == "partrail" else "KSerTrail"
        coq = f"{k} {creg(self_t)} {creg(inp['p'])} {cres(out, creg)}"
    elif op == "parfull":
        out = reg_out(call(obj.parallel_full_region_from, ("shape_2d", SH)))
        coq = f"KParFull {creg(self_t)} {creg(inp['sh'])} {cres(out, creg)}"
    elif op == "serroe":
        out = reg_out(call(obj.serial_towards_roe_full_region_from, ("shape_2d", SH), ("pixels", P)))
        coq = f"KSerRoe {creg(self_t)} {creg(inp['sh'])} {creg(inp['p'])} {cres(out, creg)}"
    else:
        raise ValueError(op)
    if bad is not None and fp != (fingerprint(P), fingerprint(SH)): bad.append(f"an argument of {op} was modified by the call")
    return out, coq

def raw_call(obj, d):
    """the same call once more, returning the region OBJECT (to be used as the receiver of later calls)"""
    return getattr(obj, SUBNAME[d["op"]])(**subargs(d))

def npi(t, on):
    """the same coordinates as numpy int64 scalars (what a caller gets from array.shape arithmetic)"""
    return t if (t is None or not on) else tuple(np.int64(x) for x in t)

def run_case(inp):
    aa = import_aa()
    from autoarray.layout import layout_util
    op = inp["op"]
    nontrivial = op not in ("init1", "init2")
    out = None; coq = None
    t2 = lambda p: None if p is None else tuple(p)
    if op == "init1":
        out = reg_out(call_res(aa.Region1D, tuple(inp["r"])))
        coq = f"KInit1 {creg(inp['r'])} {cres(out, creg)}"
    elif op == "init2":
        out = reg_out(call_res(aa.Region2D, tuple(inp["r"])))
        coq = f"KInit2 {creg(inp['r'])} {cres(out, creg)}"
    elif op in REGION_OPS:
        dim = 1 if op in ("front1", "trail1") else 2
        recv = mkkind(aa, inp["s"], inp.get("selfk") or "reg", dim)          # the receiver: Region / subclass / nested ...
        bad = []
        out, coq = region_op(recv, inp["s"], inp, aa, bad)
        if regt(recv) != tuple(inp["s"]): bad.append("the receiver changed")
        if bad: return result([coq], out, bad, op)
    elif op == "x0x1":
        a = inp["a"]
        r = layout_util.x0x1_after_extraction(*a)
        out = [None if x is None else int(x) for x in r]
        coq = f"KX0X1 {cz(a[0])} {cz(a[1])} {cz(a[2])} {cz(a[3])} ({copt(out[0], cz)}, {copt(out[1], cz)})"
    elif op == "extract":
        o, e, via = npi(t2(inp["o"]), inp.get("npint")), npi(tuple(inp["e"]), inp.get("npint")), inp["via"]
        if inp.get("ok"): o = mkkind(aa, inp["o"], inp["ok"])
        if inp.get("ek"): e = mkkind(aa, inp["e"], inp["ek"])
        fp = (fingerprint(o), fingerprint(e))
        if via == "util":
            f = layout_util.region_after_extraction
            out = reg_out(call_res(f, o, e) if inp.get("pos") else call_res(f, original_region=o, extraction_region=e))
        else:
            L2 = subclasses(aa)["Layout2D"] if inp.get("layk") == "sub" else aa.Layout2D
            def f():
                lay = L2(shape_2d=tuple(inp["shape"]), **{via: o})
                return getattr(lay.layout_extracted_from(e) if inp.get("pos") else lay.layout_extracted_from(extraction_region=e), via)
            out = reg_out(call_res(f))
        coq = f"KExtract {copt(inp['o'], creg)} {creg(inp['e'])} {cres(out, lambda v: copt(v, creg))}"
        if fp != (fingerprint(o), fingerprint(e)):
            return result([coq], out, ["an argument of the extraction was modified by the call"], op)
    elif op == "rotregion":
        r, s, c, via = npi(t2(inp["r"]), inp.get("npint")), npi(tuple(inp["s"]), inp.get("npint")), tuple(inp["c"]), inp["via"]
        if inp.get("rk"): r = mkkind(aa, inp["r"], inp["rk"])
        if inp.get("sk"): s = mkkind(aa, inp["s"], inp["sk"], 1)
        fp = (fingerprint(r), fingerprint(s)); pos = bool(inp.get("pos"))
        L2 = subclasses(aa)["Layout2D"] if inp.get("layk") == "sub" else aa.Layout2D
        if via == "util" or r is None:
            f = layout_util.rotate_region_via_roe_corner_from
            out = reg_out(call_res(f, r, s, c) if pos else call_res(f, region=r, shape_native=s, roe_corner=c))
        elif via == "rotated_from_roe_corner":
            out = reg_out(call_res(lambda: (L2.rotated_from_roe_corner(c, s, None, None, r) if pos else
                                            L2.rotated_from_roe_corner(roe_corner=c, shape_native=s, serial_overscan=r)).serial_overscan))
        else:
            out = reg_out(call_res(lambda: (L2(s, (0, 1), None, r).new_rotated_from(c) if pos else
                                            L2(shape_2d=s, serial_prescan=r).new_rotated_from(roe_corner=c)).serial_prescan))
        coq = f"KRotRegion {copt(inp['r'], creg)} {creg(inp['s'])} {creg(c)} {cres(out, lambda v: copt(v, creg))}"
        if fp != (fingerprint(r), fingerprint(s)):
            return result([coq], out, ["an argument of the rotation was modified by the call"], op)
    elif op == "rotarray":
        m, c = np.array(inp["m"], dtype=float), tuple(inp["c"])
        if inp["via"] == "util":
            r = layout_util.rotate_array_via_roe_corner_from(array=m, roe_corner=c)
        else:
            arr = aa.Array2D(values=m, mask=aa.Mask2D.all_false(shape_native=m.shape, pixel_scales=1.0),
                             header=aa.Header(original_roe_corner=c), store_native=True)
            r = arr.original_orientation
        out = None if r is None else [[int(x) for x in row] for row in np.asarray(r)]
        coq = f"KRotArray {carr(inp['m'])} {creg(c)} {copt(out, carr)}"
    elif op == "commute":
        m, r, c = np.array(inp["m"], dtype=float), tuple(inp["r"]), tuple(inp["c"])
        shape = m.shape
        mr = layout_util.rotate_array_via_roe_corner_from(array=m, roe_corner=c)
        if inp["via"] == "slice":
            rr = layout_util.rotate_region_via_roe_corner_from(region=r, shape_native=shape, roe_corner=c)
            sl = mr[rr.slice]
        else:
            lay = aa.Layout2D.rotated_from_roe_corner(roe_corner=c, shape_native=shape, parallel_overscan=r)
            arr = aa.Array2D.no_mask(values=mr, pixel_scales=1.0)
            sl = lay.extract_parallel_overscan_array_2d_from(array=arr).native
        out = [[int(x) for x in row] for row in np.asarray(sl)]
        coq = f"KCommute {carr(inp['m'])} {creg(r)} {creg(c)} {carr(out)}"
    elif op == "twice":
        m, r, c = np.array(inp["m"], dtype=float), tuple(inp["r"]), tuple(inp["c"])
        shape = m.shape
        m2 = layout_util.rotate_array_via_roe_corner_from(
            array=layout_util.rotate_array_via_roe_corner_from(array=m, roe_corner=c), roe_corner=c)
        lay = aa.Layout2D(shape_2d=shape, serial_overscan=r).new_rotated_from(roe_corner=c).new_rotated_from(roe_corner=c)
        out = [[[int(x) for x in row] for row in np.asarray(m2)], [int(x) for x in lay.serial_overscan.region]]
        coq = f"KTwice {carr(inp['m'])} {creg(r)} {creg(c)} ({carr(out[0])}, {creg(out[1])})"
    elif op == "ahist": return run_ahist(aa, inp)
    elif op == "lsess": return run_lsess(aa, inp)
    elif op == "rsess": return run_rsess(aa, inp)
    elif op == "l1sess": return run_l1sess(aa, inp)
    elif op == "pattern": return run_pattern(aa, inp)
    else:
        raise ValueError(op)
    return {"coq": "(" + coq + ")", "out": out, "py_ok": None, "nontrivial": nontrivial, "kind": op}

# =====================================================================================================
# HISTORIES: one object, several operations, user edits in between.  Every observation is compared (in Coq)
# with the model evaluated on the CURRENT contents / state; nothing is assumed about fresh objects.
# =====================================================================================================
CORNERS = [(1, 0), (0, 0), (1, 1), (0, 1)]
SPECIALS = ["0.0", "-0.0", "1e-09", "-1e-12", "5e-324", "1e-300", "1e+300", "-1e+300", "9007199254740992.0",
            "0.1", "1.5", "-2.5", "nan", "inf", "-inf", "16777217.0", "1e-08"]

def enc(x):
    """float -> JSON-able, exactly reversible by dec (integers stay integers, the rest goes through repr)"""
    x = float(x)
    if x == x and abs(x) < 1e15 and x == int(x) and not (x == 0 and math.copysign(1, x) < 0): return int(x)
    return repr(x)
def dec(x):
    if isinstance(x, str) and x.endswith("j"): return complex(x)
    return float(x)
DTYPES = {"int": np.int64, "bool": np.bool_, "float32": np.float32, "float16": np.float16, "complex": np.complex128,
          "int8": np.int8, "uint8": np.uint8, "bigint": np.int64, None: np.float64}
def build_vals(m, dtype=None):
    """the contents of a case as an ndarray of the requested dtype (exact for integers)"""
    dt = DTYPES[dtype]
    if dtype in ("int", "bigint", "int8", "uint8", "bool"): return np.array([[int(x) for x in row] for row in m]).astype(dt)
    return np.array([[dec(x) for x in row] for row in m], dtype=dt)

class Lab:
    """injective labelling value -> Z (the theorems are polymorphic in the element type): integers are themselves,
    every other value (fractions, tiny, huge, nan, +-inf) gets its own label; equal values share a label"""
    def __init__(self): self.d = {}
    def __call__(self, x):
        if isinstance(x, (bool, np.bool_, int, np.integer)): return int(x)       # exact, also beyond 2^53
        if isinstance(x, (complex, np.complexfloating)):
            x = complex(x)
            if x.imag == 0 and math.copysign(1, x.imag) > 0: x = x.real
            else:
                k = "c" + repr(x)
                if k not in self.d: self.d[k] = 10 ** 30 + len(self.d)
                return self.d[k]
        x = float(x)
        if x == x and abs(x) < 1e15 and x == int(x): return int(x)
        k = "nan" if x != x else repr(x)
        if k not in self.d: self.d[k] = 10 ** 30 + len(self.d)
        return self.d[k]
    def arr(self, a):
        a = np.asarray(a)
        if a.ndim != 2: raise ValueError(f"expected a 2D array, got shape {a.shape}")
        return [[self(x) for x in row] for row in a]

def clay(st): return ctup([creg(st[0]), creg(st[1]), copt(st[2], creg), copt(st[3], creg), copt(st[4], creg)])
def regt(x):
    """tuple of a Region2D (possibly wrapping another Region2D) / tuple / None"""
    return None if x is None else tuple(int(t) for t in x)
def lay_state(l):
    return (tuple(int(t) for t in l.shape_2d), tuple(int(t) for t in l.original_roe_corner),
            regt(l.parallel_overscan), regt(l.serial_prescan), regt(l.serial_overscan))
def lay_out(x):
    return x if x[0] == "raise" else ("ok", lay_state(x[1]))
def plain(a):
    """the 2D ndarray held by a returned object (ndarray, or Array2D stored natively or slim)"""
    if isinstance(a, np.ndarray): return a
    return np.asarray(a.native if a.ndim == 1 else a)
def edit_in_place(a, r, v):
    """the user's in-place edit a[y0:y1, x0:x1] = v of a RETURNED array, whatever its storage"""
    y0, y1, x0, x1 = r
    if isinstance(a, np.ndarray) or a.ndim == 2:
        a[y0:y1, x0:x1] = v
    else:                      # Array2D stored slim (no mask): 1D index
        w = a.shape_native[1]
        for y in range(y0, y1):
            for x in range(x0, x1): a[y * w + x] = v
def inside(shape, r):
    return 0 <= r[0] < r[1] <= shape[0] and 0 <= r[2] < r[3] <= shape[1]
def same_header(h, g):
    """the header handed on with an extracted array: the same object or an equal copy (None stays None)"""
    if h is g: return True
    if h is None or g is None: return False
    return type(h) is type(g) and tuple(h.original_roe_corner) == tuple(g.original_roe_corner)
def same(a, b):
    a, b = np.asarray(a), np.asarray(b)
    return a.shape == b.shape and bool(np.array_equal(a, b, equal_nan=True))

_SUB = {}
def subclasses(aa):
    """trivial user subclasses of the accepted classes (dispatch must use isinstance, not type(x) is ...)"""
    if not _SUB:
        import collections
        class UserRegion2D(aa.Region2D): pass
        class UserRegion1D(aa.Region1D): pass
        class UserLayout2D(aa.Layout2D): pass
        class UserLayout1D(aa.Layout1D): pass
        class UserArray2D(aa.Array2D): pass
        class UserArray1D(aa.Array1D): pass
        class UserNd(np.ndarray): pass
        _SUB.update({"Region2D": UserRegion2D, "Region1D": UserRegion1D, "Layout2D": UserLayout2D, "Layout1D": UserLayout1D,
                     "Array2D": UserArray2D, "Array1D": UserArray1D, "ndarray": UserNd,
                     "nt4": collections.namedtuple("NT4", "y0 y1 x0 x1"), "nt2": collections.namedtuple("NT2", "a b")})
    return _SUB

def mkkind(aa, t, kind, dim=2):
    """the coordinates t handed over in another REPRESENTATION (same meaning): tuple / list / numpy scalars / ndarray /
    tuple subclass / Region object / subclass instance / Region wrapping a Region / Region holding a list"""
    if t is None: return None
    t = tuple(int(x) for x in t)
    if kind in (None, "tuple"): return t
    if kind == "list": return list(t)
    if kind == "np64": return tuple(np.int64(x) for x in t)
    if kind == "np32": return tuple(np.int32(x) for x in t)
    if kind == "arr": return np.array(t, dtype=np.int64)
    if kind == "arr32": return np.array(t, dtype=np.int32)
    if kind == "nt": return subclasses(aa)["nt4" if len(t) == 4 else "nt2"](*t)
    R = aa.Region2D if dim == 2 else aa.Region1D
    S = subclasses(aa)["Region2D" if dim == 2 else "Region1D"]
    try:
        if kind == "reg": return R(t)
        if kind == "sub": return S(t)
        if kind == "nested": return R(R(t))
        if kind == "subnested": return S(R(t))
        if kind == "reglist": return R(list(t))
        if kind == "regarr": return R(np.array(t, dtype=np.int64))
    except aa.exc.RegionException:
        return t                          # not a valid region: no Region object exists for it
    raise ValueError(kind)
TKINDS = ["tuple", "list", "np64", "np32", "arr", "arr32", "nt"]                      # any coordinate tuple
RKINDS = TKINDS + ["reg", "sub", "nested", "subnested", "reglist", "regarr"]          # a region
def fingerprint(x):
    """value + type of a (possibly mutable) argument, to be compared before / after a call"""
    if x is None: return None
    if hasattr(x, "region"): return (type(x).__name__, fingerprint(x.region))
    if isinstance(x, np.ndarray): return (type(x).__name__, str(x.dtype), tuple(int(v) for v in x))
    return (type(x).__name__, tuple(int(v) for v in x))

class Pool:
    """Region2D objects are REUSED: one object per distinct tuple for the whole history"""
    def __init__(self, aa): self.aa, self.d = aa, {}
    def __call__(self, r):
        r = tuple(r)
        if r not in self.d: self.d[r] = self.aa.Region2D(r)
        return self.d[r]
    def intact(self):
        return all(regt(o) == k for k, o in self.d.items())

def result(coqs, out, bad, kind):
    return {"coq": "(" + coqs[0] + ")", "extra_coq": ["(" + c + ")" for c in coqs[1:]], "out": out,
            "py_ok": False if bad else None, "detail": "; ".join(bad) if bad else None, "nontrivial": True, "kind": kind}

# ----------------------------------------------------------------------------------------------- ahist
def cstep(st, lab):
    k = st[0]
    if k == "read": return "ARead"
    if k == "slice": return f"ASlice {creg(st[1])}"
    if k == "write": return f"AWrite {creg(st[1])} {cz(lab(dec(st[2])))}"
    if k == "edit": return f"AEditOut {creg(st[1])} {cz(lab(dec(st[2])))}"
    if k == "last": return "ALast"
    if k == "corner": return f"ACorner {creg(st[1])}"
    if k == "derive": return "ADerive"
    raise ValueError(k)

def derive(aa, obj, how):
    """an object derived from obj that holds the same contents"""
    if isinstance(obj, np.ndarray):
        if how == "copy": return obj.copy()
        if how == "view": return obj[:]
        if how == "fortran": return np.asfortranarray(obj)
        if how == "window":           # a window of a bigger array (non-contiguous strides)
            big = np.full((obj.shape[0] + 2, obj.shape[1] + 3), 1).astype(obj.dtype); big[1:-1, 2:-1] = obj
            return big[1:-1, 2:-1]
        if how == "tt": return obj.T.copy().T
        return obj
    if how == "copy": return obj.copy()
    if how == "copy.copy": return copy.copy(obj)
    if how == "deepcopy": return copy.deepcopy(obj)
    if how == "plus0": return obj + 0.0
    if how == "times1": return 1.0 * obj
    if how == "view": return obj[:]
    if how == "with_new_array": return obj.with_new_array(np.array(obj))
    if obj.mask.is_all_false:       # these re-apply the mask: contents are kept only without masked pixels
        if how == "native": return obj.native
        if how == "slim.native": return obj.slim.native
        if how == "ctor": return aa.Array2D(values=obj, mask=obj.mask, header=obj.header, store_native=True)
        if how == "apply_mask": return obj.apply_mask(mask=obj.mask).native
    return obj.copy()

def run_ahist(aa, inp):
    from autoarray.layout import layout_util
    lab = Lab(); pool = Pool(aa); bad = []
    dtype = inp.get("dtype"); sub = bool(inp.get("sub"))
    vals = build_vals(inp["m"], dtype)
    c = tuple(inp["c"]); kind = inp["kind"]
    A2 = subclasses(aa)["Array2D"] if sub else aa.Array2D
    ps = tuple(inp["ps"]) if inp.get("ps") else 1.0          # pixel scales (y, x) varied independently
    if kind == "nd":
        obj = vals.copy()
        if sub: obj = obj.view(subclasses(aa)["ndarray"])
    else:
        mk = inp.get("mask")
        mask = (aa.Mask2D(mask=np.array(mk, dtype=bool), pixel_scales=ps) if mk is not None
                else aa.Mask2D.all_false(shape_native=vals.shape, pixel_scales=ps))
        if kind == "array2d":
            obj = A2(values=vals.copy(), mask=mask, header=aa.Header(original_roe_corner=c), store_native=True)
        elif kind == "no_mask.native":     # derived: stored slim, then mapped to native
            obj = A2.no_mask(values=vals.copy(), pixel_scales=ps, header=aa.Header(original_roe_corner=c)).native
        else:                              # "sum": result of arithmetic on two arrays
            h = aa.Header(original_roe_corner=c)
            a1 = A2(values=vals - 1.0, mask=mask, header=h, store_native=True)
            obj = a1 + A2(values=np.ones(vals.shape), mask=mask, header=h, store_native=True)
    m0 = np.array(obj)                       # the contents the history starts from (construction is not C19's business)
    L2 = subclasses(aa)["Layout2D"] if sub else aa.Layout2D
    lay = L2(shape_2d=tuple(vals.shape), original_roe_corner=c)     # ONE layout object, reused
    last = None; kept = []; outs = []; steps = []
    def observe(o):
        nonlocal last
        last = o
        if o is None: outs.append(None); return
        a = lab.arr(plain(o)); outs.append(a); kept.append((o, np.array(plain(o))))
    for st in inp["steps"]:
        k = st[0]
        if k == "read":
            via = st[1]
            if via == "prop" and kind != "nd": o = obj.original_orientation
            elif via == "layout": o = lay.original_orientation_from(array=obj)
            else: o = layout_util.rotate_array_via_roe_corner_from(array=np.asarray(obj), roe_corner=c)
            observe(o)
        elif k == "slice":
            r, via = tuple(st[1]), st[2]
            if via in ("po", "so") and kind != "nd":
                if via == "po":
                    lay.parallel_overscan = pool(r); o = lay.extract_parallel_overscan_array_2d_from(array=obj)
                else:
                    lay.serial_overscan = pool(r); o = lay.extract_serial_overscan_array_from(array=obj)
                if not same_header(o.header, obj.header): bad.append("the extracted array does not carry the header of the array")
                if tuple(o.pixel_scales) != tuple(obj.pixel_scales):
                    bad.append(f"the extracted array has pixel scales {o.pixel_scales}, the array {obj.pixel_scales}")
            else:
                o = np.array(np.asarray(obj)[pool(r).slice])     # a copy: a numpy view would legitimately alias
            observe(o)
        elif k == "write":
            r, v, via = tuple(st[1]), dec(st[2]), st[3]
            if np.asarray(obj).dtype.kind in "iub": v = int(v)     # an integer array is written with integers (exact beyond 2^53)
            if via == "region": obj[pool(r).slice] = v
            elif via == "where" and kind != "nd":
                key = np.zeros(obj.shape, dtype=bool); key[r[0]:r[1], r[2]:r[3]] = True
                obj[key] = v
            else: obj[r[0]:r[1], r[2]:r[3]] = v
        elif k == "edit":
            if last is not None:
                edit_in_place(last, tuple(st[1]), dec(st[2]))
                kept[-1] = (last, None)
            observe(last)
        elif k == "last":
            observe(last) if last is not None else outs.append(None)
        elif k == "corner":
            c = tuple(st[1]); lay.original_roe_corner = c
            if kind != "nd": obj.header.original_roe_corner = c
        elif k == "derive":
            obj = derive(aa, obj, st[1])
        else: raise ValueError(k)
        steps.append(cstep(st, lab))
    # arrays returned earlier must still hold what they held when they were returned / last edited
    seen = {}
    for o, snap in kept: seen[id(o)] = (o, snap)
    for o, snap in seen.values():
        if snap is not None and not same(plain(o), snap): bad.append("an array returned earlier changed afterwards")
    if not pool.intact(): bad.append("a Region2D object changed")
    coq = (f"KHistA {carr(lab.arr(m0))} {creg(inp['c'])} {clist(steps)} "
           f"{clist([copt(o, carr) for o in outs])}")
    return result([coq], outs, bad, "ahist")

# ----------------------------------------------------------------------------------------------- lsess
SLOTS = ["parallel_overscan", "serial_prescan", "serial_overscan"]
def run_lsess(aa, inp):
    from autoarray.layout import layout_util
    lab = Lab(); pool = Pool(aa); bad = []; coqs = []; out = []
    shape = tuple(inp["shape"]); st = [shape, tuple(inp["c"])] + [None if r is None else tuple(r) for r in inp["regions"]]
    slotk = inp.get("slotk") or [None, None, None]            # representation of the regions handed to the constructor
    def mk(r, i):
        if r is None: return None
        if slotk[i]: return mkkind(aa, r, slotk[i])
        return pool(r) if (i + len(inp["steps"])) % 2 else tuple(r)
    # a slot given as a list / ndarray stays one (the constructor converts tuples only): it can be rotated, not sliced
    sliceable = [slotk[i] not in ("list", "arr", "arr32") for i in range(3)]
    L2 = subclasses(aa)["Layout2D"] if inp.get("layk") == "sub" else aa.Layout2D
    shape_arg = mkkind(aa, shape, inp.get("shk"), 1)
    if inp.get("pos"):
        lay = L2(shape_arg, st[1], mk(st[2], 0), mk(st[3], 1), mk(st[4], 2))
    elif st[1] == (1, 0) and inp.get("dflt"):                 # the default corner
        lay = L2(shape_2d=shape_arg, parallel_overscan=mk(st[2], 0), serial_prescan=mk(st[3], 1), serial_overscan=mk(st[4], 2))
    else:
        lay = L2(shape_2d=shape_arg, original_roe_corner=st[1], parallel_overscan=mk(st[2], 0),
                 serial_prescan=mk(st[3], 1), serial_overscan=mk(st[4], 2))     # ONE layout object
    for i in range(3):                                          # tuples (and tuple subclasses) become Region2D objects
        o = getattr(lay, SLOTS[i])
        if st[2 + i] is not None and sliceable[i] and not isinstance(o, aa.Region2D):
            bad.append(f"Layout2D.{SLOTS[i]} is a {type(o).__name__}, not a Region2D")
    vals = build_vals(inp["m"], inp.get("dtype"))                                      # harness's private copy
    nd = vals.copy()
    A2 = subclasses(aa)["Array2D"] if inp.get("arrk") == "sub" else aa.Array2D
    ps = tuple(inp["ps"]) if inp.get("ps") else 1.0
    hdr = aa.Header(original_roe_corner=st[1]) if inp.get("hdr") else None
    arr = A2(values=vals.copy(), mask=aa.Mask2D.all_false(shape_native=vals.shape, pixel_scales=ps), header=hdr,
             store_native=bool(inp.get("store_native", True)))
    last = None
    def check_state(what):
        if lay_state(lay) != tuple(st): bad.append(f"the Layout2D changed during {what}: {lay_state(lay)} != {tuple(st)}")
    for sp in inp["steps"]:
        k = sp[0]
        if k in ("rot", "into_rot", "classrot"):
            c = tuple(sp[1])
            if k == "classrot":
                o = call_res(aa.Layout2D.rotated_from_roe_corner, roe_corner=c, shape_native=lay.shape_2d,
                             parallel_overscan=lay.parallel_overscan, serial_prescan=lay.serial_prescan,
                             serial_overscan=lay.serial_overscan)
            else:
                o = call_res(lay.new_rotated_from, roe_corner=c)
            oo = lay_out(o); out.append(oo)
            coqs.append(f"KLayRot {clay(st)} {creg(c)} {cres(oo, clay)}")
            check_state(k)
            if k == "into_rot" and o[0] == "ok": lay = o[1]; st = list(oo[1]); sliceable = [True] * 3
        elif k in ("ext", "into_ext"):
            e = tuple(sp[1])
            o = call_res(lay.layout_extracted_from, extraction_region=e if len(sp) < 3 else pool(e))
            oo = lay_out(o); out.append(oo)
            coqs.append(f"KLayExt {clay(st)} {creg(e)} {cres(oo, clay)}")
            check_state(k)
            if k == "into_ext" and o[0] == "ok": lay = o[1]; st = list(oo[1]); sliceable = [True] * 3
        elif k == "set":
            i = int(sp[1]); r = None if sp[2] is None else tuple(sp[2])
            setattr(lay, SLOTS[i], None if r is None else pool(r)); st[2 + i] = r; sliceable[i] = True
        elif k == "derive":                             # the layout replaced by a copy of itself
            lay = (copy.deepcopy if sp[1] == "deepcopy" else copy.copy)(lay)
            if sp[1] == "deepcopy": pool.d = {}; pool = Pool(aa)     # the copy holds copies of the pooled regions
        elif k == "shape":
            lay.shape_2d = tuple(sp[1]); st[0] = tuple(sp[1])
        elif k == "corner":
            lay.original_roe_corner = tuple(sp[1]); st[1] = tuple(sp[1])
        elif k == "slice":
            i = int(sp[1]); r = st[2 + i]
            if i == 1 or r is None or not inside(vals.shape, r) or not sliceable[i]: continue
            f = lay.extract_parallel_overscan_array_2d_from if i == 0 else lay.extract_serial_overscan_array_from
            last = f(arr) if inp.get("pos") else f(array=arr)
            o = lab.arr(plain(last)); out.append(o)
            coqs.append(f"KSlice {carr(lab.arr(vals))} {creg(r)} {carr(o)}")
            if not same_header(last.header, arr.header): bad.append("the extracted array does not carry the header of the array")
            if tuple(last.pixel_scales) != tuple(arr.pixel_scales):
                bad.append(f"the extracted array has pixel scales {last.pixel_scales}, the array {arr.pixel_scales}")
            check_state(k)
        elif k == "bin":                                   # Layout2D.*_binned_array_1d_from = mean of the extracted region
            i = int(sp[1]); r = st[2 + i]
            if i == 1 or r is None or not inside(vals.shape, r) or not sliceable[i]: continue
            f = lay.parallel_overscan_binned_array_1d_from if i == 0 else lay.serial_overscan_binned_array_1d_from
            b = np.asarray(f(array=arr), dtype=float)
            want = np.mean(vals[r[0]:r[1], r[2]:r[3]].astype(float), axis=1 if i == 0 else 0)
            out.append([float(x) for x in b])
            if b.shape != want.shape or not np.allclose(b, want, rtol=1e-12, atol=0.0, equal_nan=True):
                bad.append(f"binned {SLOTS[i]} {b.tolist()} is not the mean {want.tolist()} of the region's current content")
            check_state(k)
        elif k == "eper":
            r = st[4]
            if r is None: continue
            n = int(lay.serial_eper_pixels); out.append(n)
            coqs.append(f"KProps2 {creg(r)} (0, 0) {clist([cz(x) for x in props2_want(r, (0, 0))[:5]] + [cz(n)] + [cz(x) for x in props2_want(r, (0, 0))[6:]])}")
            check_state(k)
        elif k == "orient":
            src = nd if sp[1] == "nd" else (arr if arr.ndim == 2 else arr.native)
            last = lay.original_orientation_from(array=src)
            o = None if last is None else lab.arr(plain(last)); out.append(o)
            coqs.append(f"KRotArray {carr(lab.arr(vals))} {creg(st[1])} {copt(o, carr)}")
            check_state(k)
        elif k == "edit":
            if last is not None and inside(plain(last).shape, tuple(sp[1])): edit_in_place(last, tuple(sp[1]), dec(sp[2]))
        elif k == "write":
            r, v = tuple(sp[1]), dec(sp[2]); sl = np.s_[r[0]:r[1], r[2]:r[3]]
            vals[sl] = v; nd[pool(r).slice] = v; edit_in_place(arr, r, v)
        elif k == "utilrot":
            i = int(sp[1]); c = tuple(sp[2])
            o = reg_out(call_res(layout_util.rotate_region_via_roe_corner_from, region=getattr(lay, SLOTS[i]),
                                 shape_native=lay.shape_2d, roe_corner=c)); out.append(o)
            coqs.append(f"KRotRegion {copt(st[2 + i], creg)} {creg(st[0])} {creg(c)} {cres(o, lambda v: copt(v, creg))}")
            check_state(k)
        elif k == "regop":
            i = int(sp[1]); obj = getattr(lay, SLOTS[i])
            if obj is None: continue
            if not sliceable[i]: continue                    # a slot given as a list stays a list: no sub-region methods
            o, cq_ = region_op(obj, st[2 + i], sp[2], aa, bad); out.append(o); coqs.append(cq_)
            check_state(k)
        else: raise ValueError(k)
        # the arrays handed to the layout are still what the harness thinks they are
        if not same(nd, vals) or not same(plain(arr), vals):
            bad.append(f"an input array changed during {k}"); nd = vals.copy()
    if not pool.intact(): bad.append("a Region2D object changed")
    full = (0, vals.shape[0], 0, vals.shape[1])
    coqs.append(f"KSlice {carr(lab.arr(vals))} {creg(full)} {carr(lab.arr(plain(arr)))}")
    return result(coqs, out, bad, "lsess")

# ----------------------------------------------------------------------------------------------- rsess
def run_rsess(aa, inp):
    lab = Lab(); bad = []; coqs = []; out = []
    dim = inp["dim"]; cur = tuple(inp["r"])
    if inp.get("selfk"): reg = mkkind(aa, cur, inp["selfk"], dim)
    else: reg = (aa.Region1D if dim == 1 else aa.Region2D)(npi(cur, inp.get("npint")))          # ONE region object
    vals = np.array([[dec(x) for x in row] for row in inp["m"]], dtype=float) if inp.get("m") else None
    for sp in inp["steps"]:
        k = sp[0]
        if k in ("call", "into"):
            o, cq_ = region_op(reg, cur, sp[1], aa, bad); out.append(o); coqs.append(cq_)
            if regt(reg) != cur: bad.append(f"the region changed during {sp[1]['op']}: {regt(reg)} != {cur}")
            if k == "into" and o[0] == "ok":        # the RESULT becomes the receiver of the following calls
                reg = raw_call(reg, sp[1]); cur = tuple(o[1])
        elif k == "derive":                           # the object replaced by a copy of itself
            import pickle
            reg = {"copy": copy.copy, "deepcopy": copy.deepcopy, "pickle": lambda x: pickle.loads(pickle.dumps(x)),
                   "rebuild": lambda x: type(x)(x.region), "wrap": lambda x: type(x)(x)}[
                       "deepcopy" if sp[1] == "pickle" and inp.get("selfk") in ("sub", "subnested") else sp[1]](reg)   # local classes do not pickle
        elif k == "setregion":
            cur = tuple(sp[1]); reg.region = npi(cur, inp.get("npint"))
        elif k == "slice":                            # reg.slice on an array
            sl = vals[reg.slice] if dim == 2 else vals[:, reg.slice]
            r4 = cur if dim == 2 else (0, vals.shape[0], cur[0], cur[1])
            o = lab.arr(sl); out.append(o)
            coqs.append(f"KSlice {carr(lab.arr(vals))} {creg(r4)} {carr(o)}")
        elif k == "state":
            o = ("ok", regt(reg)); out.append(o)
            coqs.append((f"KInit1 {creg(cur)} {cres(o, creg)}" if dim == 1 else f"KInit2 {creg(cur)} {cres(o, creg)}"))
        elif k == "props":                            # every read-only attribute of the region, for its CURRENT coordinates
            o, cq_ = region_props(aa, reg, cur, dim, tuple(sp[1]) if len(sp) > 1 else (0, 1), bad); out.append(o); coqs.append(cq_)
        else: raise ValueError(k)
    o = ("ok", regt(reg)); coqs.append((f"KInit1 {creg(cur)} {cres(o, creg)}" if dim == 1 else f"KInit2 {creg(cur)} {cres(o, creg)}"))
    return result(coqs, out, bad, "rsess")

def sl2(x): return [int(x.start), int(x.stop)] + ([] if x.step is None else [int(x.step)])
def props2_want(r, p):
    y0, y1, x0, x1 = r
    return [y0, y1, x0, x1, y1 - y0, x1 - x0, y1 - y0, x1 - x0, x0 + p[0], x0 + p[1], y0, y1, x0, x1, y0, y1, x0, x1]
def region_props(aa, reg, cur, dim, p, bad):
    """the read-only attributes of a Region object as a list of integers (slices as start, stop) -> (list, Coq case);
    __eq__ / __repr__ are checked here (python objects)"""
    if dim == 2:
        rng_ = reg.serial_x_front_range_from(pixels=p)
        o = [reg.y0, reg.y1, reg.x0, reg.x1, reg.total_rows, reg.total_columns, reg.shape[0], reg.shape[1], rng_[0], rng_[1]]
        o += sl2(reg.y_slice) + sl2(reg.x_slice) + sl2(reg.slice[0]) + sl2(reg.slice[1])
        if len(reg.slice) != 2 or len(reg.shape) != 2 or len(rng_) != 2: bad.append("Region2D.slice / shape / range: wrong length")
        coq = f"KProps2 {creg(cur)} {creg(p)} {clist([cz(int(x)) for x in o])}"
        other = (cur[0], cur[1], cur[2], cur[3] + 1); name = "Region2D"
    else:
        o = [reg.x0, reg.x1, reg.total_pixels] + sl2(reg.slice) + sl2(reg.x_slice)
        coq = f"KProps1 {creg(cur)} {clist([cz(int(x)) for x in o])}"
        other = (cur[0], cur[1] + 1); name = "Region1D"
    o = [int(x) for x in o]
    if not isinstance(reg.region, np.ndarray):          # region == ndarray is elementwise (not a truth value)
        kind = type(reg.region)
        same_t = kind(cur) if kind in (tuple, list) else tuple(cur)
        if kind in (tuple, list):
            if not (reg == same_t): bad.append(f"{name}{cur} == {same_t!r} is False")
            if reg == kind(other): bad.append(f"{name}{cur} == {kind(other)!r} is True")
        if not (reg == reg): bad.append(f"{name}{cur} is not equal to itself")
    want_repr = "<" + name + " " + " ".join(str(int(x)) for x in cur) + ">"
    if not hasattr(reg.region, "region") and not isinstance(reg.region, np.ndarray) and repr(reg) != want_repr:
        bad.append(f"repr is {reg!r}, expected {want_repr}")
    return o, coq

# ----------------------------------------------------------------------------------------------- l1sess
def run_l1sess(aa, inp):
    """ONE Layout1D reused on ONE Array1D: extract_overscan_array_1d_from after in-place writes, after the user re-assigns
    layout.overscan, after the array is replaced by a derived one; sub-region calls on the Region1D objects it holds"""
    lab = Lab(); bad = []; coqs = []; out = []
    sub = bool(inp.get("sub"))
    vals = build_vals([inp["m"]], inp.get("dtype"))[0]
    n = len(vals)
    A1 = subclasses(aa)["Array1D"] if sub else aa.Array1D
    L1 = subclasses(aa)["Layout1D"] if sub else aa.Layout1D
    hdr = aa.Header(original_roe_corner=(1, 0)) if inp.get("hdr") else None
    arr = A1.no_mask(values=vals.copy(), pixel_scales=float(inp.get("ps") or 1.0), header=hdr)
    cur = {"prescan": None if inp["pre"] is None else tuple(inp["pre"]), "overscan": tuple(inp["ov"])}
    pre = mkkind(aa, inp["pre"], inp.get("prek"), 1); ov = mkkind(aa, inp["ov"], inp.get("ovk"), 1)
    lay = L1((n,), pre, ov) if inp.get("pos") else L1(shape_1d=(n,), prescan=pre, overscan=ov)
    for w in ("prescan", "overscan"):
        o = getattr(lay, w)
        if cur[w] is not None and not isinstance(o, aa.Region1D): bad.append(f"Layout1D.{w} is a {type(o).__name__}, not a Region1D")
    last = None
    def state_ok(what):
        got = {w: (None if getattr(lay, w) is None else regt(getattr(lay, w))) for w in cur}
        if got != cur or tuple(lay.shape_1d) != (n,): bad.append(f"the Layout1D changed during {what}: {got} != {cur}")
        if not same(np.asarray(arr.native), vals): bad.append(f"the input array changed during {what}")
    for sp in inp["steps"]:
        k = sp[0]
        if k == "ext":
            a, b = cur["overscan"]
            last = lay.extract_overscan_array_1d_from(arr) if inp.get("pos") else lay.extract_overscan_array_1d_from(array=arr)
            o = [lab(x) for x in np.asarray(last)]; out.append(o)
            coqs.append(f"KSlice {carr([[lab(x) for x in vals]])} {creg((0, 1, a, b))} {carr([o])}")
            if np.asarray(last).ndim != 1: bad.append("the extracted array is not 1D")
            if not same_header(last.header, arr.header): bad.append("the extracted array does not carry the header of the array")
            if tuple(last.pixel_scales) != tuple(arr.pixel_scales): bad.append("the extracted array has other pixel scales")
            state_ok(k)
        elif k == "write":
            a, b, v = int(sp[1]), int(sp[2]), dec(sp[3]); vals[a:b] = v; arr[a:b] = v
        elif k == "edit":
            if last is not None and int(sp[1]) < len(last): last[int(sp[1]):int(sp[2])] = dec(sp[3])
        elif k == "set":
            w = sp[1]; r = tuple(sp[2]); setattr(lay, w, mkkind(aa, r, sp[3] if len(sp) > 3 else "reg", 1)); cur[w] = r
        elif k == "derive":
            how = sp[1]
            arr = {"copy": lambda: arr.copy(), "deepcopy": lambda: copy.deepcopy(arr), "view": lambda: arr[:],
                   "native": lambda: arr.native, "slim": lambda: arr.slim, "plus0": lambda: arr + 0}[how]()
        elif k == "regop":
            w = sp[1]; obj = getattr(lay, w)
            if cur[w] is None: continue
            o, cq_ = region_op(obj, cur[w], sp[2], aa, bad); out.append(o); coqs.append(cq_)
            state_ok(k)
        elif k == "props":
            w = sp[1]
            if cur[w] is None: continue
            o, cq_ = region_props(aa, getattr(lay, w), cur[w], 1, (0, 1), bad); out.append(o); coqs.append(cq_)
        else: raise ValueError(k)
    coqs.append(f"KSlice {carr([[lab(x) for x in vals]])} {creg((0, 1, 0, n))} {carr([[lab(x) for x in np.asarray(arr.native)]])}")
    return result(coqs, out, bad, "l1sess")

# ----------------------------------------------------------------------------------------------- pattern
class Pattern:
    """stand-in for PyAutoCTI's charge injection pattern: an object with a list of regions (and other attributes)"""
    def __init__(self, regions, tag): self.regions = regions; self.tag = tag
def run_pattern(aa, inp):
    from autoarray.layout import layout_util
    bad = []
    regs = [mkkind(aa, r, k) for r, k in zip(inp["regions"], inp["kinds"])]
    pat = Pattern(list(regs), ["tag", len(regs)]); held = pat.regions
    s = mkkind(aa, inp["s"], inp.get("sk"), 1); c = tuple(inp["c"])
    fp = [fingerprint(x) for x in regs] + [fingerprint(s)]
    f = layout_util.rotate_pattern_ci_via_roe_corner_from
    outs = []; coqs = []
    for rep in range(int(inp.get("reps", 1))):            # the same pattern object handed in again
        o = call_res(f, pat, s, c) if inp.get("pos") else call_res(f, pattern_ci=pat, shape_native=s, roe_corner=c)
        if o[0] == "ok":
            new = o[1]
            if new is pat: bad.append("the pattern handed in was returned")
            if new.regions is held: bad.append("the result shares its list of regions with the pattern handed in")
            if getattr(new, "tag", None) != ["tag", len(regs)]: bad.append("the other attributes of the pattern were not carried over")
            o = ("ok", [regt(x) for x in new.regions])
        outs.append(o)
        coqs.append(f"KRotPattern {clist([copt(r, creg) for r in inp['regions']])} {creg(inp['s'])} {creg(c)} "
                    f"{cres(o, lambda v: clist([copt(x, creg) for x in v]))}")
        if pat.regions is not held or len(held) != len(regs) or any(a is not b for a, b in zip(held, regs)):
            bad.append("the list of regions of the pattern handed in was modified")
        if fp != [fingerprint(x) for x in regs] + [fingerprint(s)]: bad.append("an argument of the pattern rotation was modified")
    return result(coqs, outs, bad, "pattern")

SUBNAME = {"front1": "front_region_from", "trail1": "trailing_region_from", "parfront": "parallel_front_region_from",
           "serfront": "serial_front_region_from", "partrail": "parallel_trailing_region_from",
           "sertrail": "serial_trailing_region_from", "parfull": "parallel_full_region_from",
           "serroe": "serial_towards_roe_full_region_from"}
def subargs(d):
    t2 = lambda p: None if p is None else tuple(p)
    op = d["op"]
    if op in ("front1", "parfront", "serfront"): return {"pixels": t2(d["p"]), "pixels_from_end": d["e"]}
    if op in ("trail1", "partrail", "sertrail"): return {"pixels": t2(d["p"])}
    if op == "parfull": return {"shape_2d": tuple(d["sh"])}
    return {"shape_2d": tuple(d["sh"]), "pixels": t2(d["p"])}

# ----------------------------------------------------------------------------------------------- generators
def pick(lst, i): return lst[i % len(lst)]
def rand_region(rng, h, w):
    y0 = rng.randint(0, h - 1); y1 = rng.randint(y0 + 1, h); x0 = rng.randint(0, w - 1); x1 = rng.randint(x0 + 1, w)
    return [y0, y1, x0, x1]
def rand_vals(rng, h, w, special):
    if special == 0: return [[1 + y * w + x for x in range(w)] for y in range(h)]
    if special == 1: return [[rng.randint(-3, 3) for _ in range(w)] for _ in range(h)]          # many ties / zeros
    return [[enc(dec(rng.choice(SPECIALS))) if rng.random() < 0.5 else rng.randint(-99, 99) for _ in range(w)] for _ in range(h)]
def rand_subop(rng, dim, n):
    prs = [(a, b) for a in range(-1, 4) for b in range(-1, 4)]
    p = list(rng.choice(prs)); e = rng.randint(-1, 4)
    if dim == 1:
        return rng.choice([{"op": "front1", "p": p, "e": None}, {"op": "front1", "p": None, "e": e}, {"op": "trail1", "p": p}])
    return rng.choice([{"op": "parfront", "p": p, "e": None}, {"op": "parfront", "p": None, "e": e},
                       {"op": "serfront", "p": p, "e": None}, {"op": "serfront", "p": None, "e": e},
                       {"op": "partrail", "p": p}, {"op": "sertrail", "p": p},
                       {"op": "parfull", "sh": [n, rng.randint(0, n + 2)]}, {"op": "serroe", "sh": [rng.randint(0, n + 2), n], "p": p}])

def ahist_patterns(kind, r, r2, c2, v, v2):
    rd = "util" if kind == "nd" else "prop"
    sv = "direct" if kind == "nd" else "po"
    cp = "copy"; d2 = "fortran" if kind == "nd" else "native"; d3 = "window" if kind == "nd" else "plus0"
    one = [0, 1, 0, 1]
    return [
        [["read", rd], ["write", r, v, "region"], ["read", rd]],
        [["read", rd], ["edit", r2, v], ["last"], ["read", rd]],
        [["read", rd], ["derive", cp], ["write", r, v, "direct"], ["read", rd]],
        [["read", rd], ["corner", c2], ["read", rd]],
        [["read", "layout"], ["write", r, v, "direct"], ["last"], ["read", "layout"]],
        [["slice", r, sv], ["write", r2, v, "region"], ["slice", r, sv], ["edit", one, v2], ["slice", r, "so"], ["read", rd]],
        [["read", rd], ["write", r, v, "where"], ["read", rd]],
        [["read", rd], ["read", rd], ["edit", r, v2], ["read", rd]],
        [["write", r, v, "region"], ["read", rd], ["derive", d2], ["write", r2, v2, "direct"], ["read", rd], ["derive", d3], ["read", rd]],
        [["read", "util"], ["write", r, v, "direct"], ["last"], ["read", "util"]],
        [["read", rd], ["derive", "view"], ["write", r, v, "region"], ["read", rd]],
        [["read", rd], ["edit", r2, v], ["derive", "deepcopy" if kind != "nd" else "tt"], ["read", rd], ["corner", c2],
         ["write", r, v2, "direct"], ["read", rd]],
        [["slice", r, sv], ["slice", r2, sv], ["slice", r, "so"], ["slice", r2, "so"], ["slice", r, sv]],
    ]

def gen_histories(tier, rng):
    big = tier == "thorough"
    # ---- systematic read -> edit -> re-read patterns on ONE array object
    shapes = [(1, 1), (1, 3), (3, 1), (2, 3), (3, 2), (3, 4), (4, 3)] + ([(2, 2), (5, 2), (2, 5), (4, 6)] if big else [])
    kinds = ["array2d", "nd", "no_mask.native"]
    i = 0
    for (h, w) in shapes:
        regs = regions_2d(h, w)
        m = [[1 + y * w + x for x in range(w)] for y in range(h)]
        for ci, c in enumerate(CORNERS):
            for kind in kinds:
                for rep in range(1 if not big else 4):
                    i += 1
                    r = list(pick(regs, 7 * i + rep)); r2 = list(pick(regs, 3 * i + 1 + rep)); c2 = list(CORNERS[(ci + 1 + i % 3) % 4])
                    v = -(10 + i % 7); v2 = "0.1" if i % 2 else 100 + i % 5
                    for pi, steps in enumerate(ahist_patterns(kind, r, r2, c2, v, v2)):
                        yield {"op": "ahist", "kind": kind, "m": m, "c": list(c), "steps": steps}
    # ---- random histories on one array object
    derive_a = ["copy", "copy.copy", "deepcopy", "plus0", "times1", "view", "with_new_array", "native", "slim.native", "ctor", "apply_mask"]
    derive_n = ["copy", "view", "fortran", "window", "tt"]
    for n in range(2500 if big else 350):
        h, w = rng.randint(1, 6), rng.randint(1, 7)
        kind = rng.choice(["array2d", "array2d", "nd", "no_mask.native", "sum"])
        special = n % 3
        inp = {"op": "ahist", "kind": kind, "m": rand_vals(rng, h, w, special), "c": list(rng.choice(CORNERS))}
        masked = False
        if kind in ("array2d", "sum") and rng.random() < 0.25 and special != 2:
            inp["mask"] = [[rng.random() < 0.3 for _ in range(w)] for _ in range(h)]; masked = True
        if kind == "nd" and special != 2 and rng.random() < 0.3: inp["dtype"] = "int"
        isint = inp.get("dtype") == "int"
        def val():
            return rng.randint(-99, 99) if isint or rng.random() < 0.5 else enc(dec(rng.choice(SPECIALS)))
        steps = []; lastshape = None
        for _ in range(rng.randint(5, 12)):
            k = rng.choice(["read", "read", "read", "write", "write", "edit", "last", "corner", "derive", "slice"])
            if k == "read":
                steps.append(["read", rng.choice(["prop", "prop", "layout", "util"])]); lastshape = (h, w)
            elif k == "write":
                r = rand_region(rng, h, w)
                # a masked pixel has no defined content to write to (Array2D.native re-applies the mask): leave those alone
                if masked and any(inp["mask"][y][x] for y in range(r[0], r[1]) for x in range(r[2], r[3])): continue
                steps.append(["write", r, val(), rng.choice(["region", "direct", "where"])])
            elif k == "edit" and lastshape:
                steps.append(["edit", rand_region(rng, *lastshape), val()])
            elif k == "last" and lastshape: steps.append(["last"])
            elif k == "corner": steps.append(["corner", list(rng.choice(CORNERS))])
            elif k == "derive": steps.append(["derive", rng.choice(derive_n if kind == "nd" else derive_a)])
            elif k == "slice":
                r = rand_region(rng, h, w)
                steps.append(["slice", r, "direct" if masked else rng.choice(["po", "so", "direct"])]); lastshape = (r[1] - r[0], r[3] - r[2])
        steps.append(["read", rng.choice(["prop", "layout", "util"])])
        inp["steps"] = steps
        yield inp
    # ---- one Layout2D reused (systematic, then random)
    i = 0
    for (h, w) in [(2, 3), (3, 2), (3, 4)] + ([(4, 4), (5, 3)] if big else []):
        regs = regions_2d(h, w)
        m = [[1 + y * w + x for x in range(w)] for y in range(h)]
        for ci, c in enumerate(CORNERS):
            for rep in range(3 if not big else 8):
                i += 1
                c2 = list(CORNERS[(ci + 1 + i % 3) % 4]); cl = list(c)
                rr = [list(pick(regs, 5 * i + j * 11 + rep)) for j in range(5)]
                base = {"op": "lsess", "shape": [h, w], "c": list(pick(CORNERS, i)), "regions": rr[:3], "m": m, "store_native": bool(i % 2)}
                pats = [
                    [["rot", cl], ["rot", c2], ["rot", cl], ["classrot", c2], ["utilrot", 0, cl]],
                    [["ext", rr[3]], ["ext", rr[4]], ["ext", rr[3]], ["ext", rr[4], "region"]],
                    [["rot", cl], ["set", i % 3, rr[3]], ["rot", cl], ["set", (i + 1) % 3, None], ["rot", cl], ["ext", rr[4]]],
                    [["rot", cl], ["shape", [h + 1 + i % 2, w + 2]], ["rot", cl], ["utilrot", 2, cl]],
                    [["into_rot", cl], ["into_rot", cl], ["into_rot", c2], ["rot", c2], ["into_ext", rr[3]], ["rot", cl]],
                    [["slice", 0], ["write", rr[4], -5], ["slice", 0], ["slice", 2], ["edit", [0, 1, 0, 1], "0.1"], ["slice", 2], ["slice", 0]],
                    [["orient", "nd"], ["edit", rr[3], -9], ["orient", "nd"], ["corner", c2], ["orient", "arr"], ["edit", rr[4], 77],
                     ["orient", "arr"], ["write", rr[3], "1e+300"], ["orient", "nd"]],
                    [["regop", 0, {"op": "parfront", "p": None, "e": 1}], ["into_rot", cl], ["regop", 0, {"op": "serfront", "p": None, "e": 1}],
                     ["regop", 0, {"op": "partrail", "p": [0, 2]}], ["regop", 2, {"op": "sertrail", "p": [1, 2]}], ["slice", 0]],
                ]
                pats.append([["slice", 0], ["set", 0, rr[3]], ["slice", 0], ["set", 2, rr[4]], ["slice", 2], ["slice", 0],
                             ["set", 0, rr[4]], ["slice", 0]])
                for steps in pats: yield dict(base, steps=steps)
    for n in range(2000 if big else 220):
        h, w = rng.randint(1, 6), rng.randint(1, 6)
        regions = [rand_region(rng, h, w) if rng.random() < 0.75 else None for _ in range(3)]
        inp = {"op": "lsess", "shape": [h, w], "c": list(rng.choice(CORNERS)), "regions": regions,
               "m": rand_vals(rng, h, w, n % 3), "store_native": rng.random() < 0.5}
        steps = []
        for _ in range(rng.randint(6, 14)):
            k = rng.choice(["rot", "rot", "into_rot", "classrot", "ext", "ext", "into_ext", "set", "shape", "corner", "slice", "slice",
                            "orient", "edit", "write", "utilrot", "regop"])
            if k in ("rot", "into_rot", "classrot"):
                steps.append([k, list(rng.choice(CORNERS + ([(2, 0)] if rng.random() < 0.1 else [])))])
            elif k in ("ext", "into_ext"): steps.append([k, rand_region(rng, h, w)] + (["region"] if rng.random() < 0.3 else []))
            elif k == "set": steps.append(["set", rng.randint(0, 2), rand_region(rng, h, w) if rng.random() < 0.8 else None])
            elif k == "shape": steps.append(["shape", [h + rng.randint(0, 2), w + rng.randint(0, 2)]])
            elif k == "corner": steps.append(["corner", list(rng.choice(CORNERS))])
            elif k == "slice": steps.append(["slice", rng.choice([0, 2])])
            elif k == "orient": steps.append(["orient", rng.choice(["nd", "arr"])])
            elif k == "edit": steps.append(["edit", rand_region(rng, h, w), rng.randint(-99, 99)])
            elif k == "write": steps.append(["write", rand_region(rng, h, w), rng.choice([rng.randint(-99, 99), enc(dec(rng.choice(SPECIALS)))])])
            elif k == "utilrot": steps.append(["utilrot", rng.randint(0, 2), list(rng.choice(CORNERS))])
            elif k == "regop": steps.append(["regop", rng.randint(0, 2), rand_subop(rng, 2, max(h, w))])
        inp["steps"] = steps
        yield inp
    # ---- one Region object reused: the same call before and after the user re-assigns reg.region (systematic)
    n = 3
    i = 0
    for r in regions_2d(n, n):
        for r2 in regions_2d(n, n):
            if r2 == r or (i := i + 1) % (2 if big else 9): continue
            for e in ((1, 2) if big else (1 + i % 2,)):
                calls = [["call", {"op": "parfront", "p": None, "e": e}], ["call", {"op": "serfront", "p": None, "e": e}],
                         ["call", {"op": "partrail", "p": [0, e]}], ["call", {"op": "sertrail", "p": [0, e]}]]
                yield {"op": "rsess", "dim": 2, "r": list(r), "m": None, "steps": calls + [["setregion", list(r2)]] + calls + [["state"]]}
    for r in regions_1d(n + 2):
        for r2 in regions_1d(n + 2):
            if r2 == r or (not big and (i := i + 1) % 3): continue
            calls = [["call", {"op": "front1", "p": None, "e": 1}], ["call", {"op": "trail1", "p": [0, 2]}], ["call", {"op": "front1", "p": [0, 1], "e": None}]]
            yield {"op": "rsess", "dim": 1, "r": list(r), "m": None, "steps": calls + [["setregion", list(r2)]] + calls + [["state"]]}
    # ---- large coordinates (value range): every region-valued operation, python ints and numpy int64
    for n in range(1500 if big else 320):
        B = rng.choice([2 ** 15, 2 ** 16 + 1, 2 ** 31, 2 ** 32 + 5, 2 ** 33, 10 ** 12, 2 ** 40])
        def big_region(H, W):
            y0 = rng.randint(0, H - 1); y1 = rng.randint(y0 + 1, H); x0 = rng.randint(0, W - 1); x1 = rng.randint(x0 + 1, W)
            if rng.random() < 0.4: y0 = rng.randint(0, 9); y1 = y0 + rng.randint(1, 9)        # small region in a huge frame
            if rng.random() < 0.4: x0 = rng.randint(0, 9); x1 = x0 + rng.randint(1, 9)
            if rng.random() < 0.3: y1 = H
            if rng.random() < 0.3: x0 = 0
            return [y0, y1, x0, x1]
        H, W = B + rng.randint(0, 9), B // 2 + rng.randint(1, 9)
        r = big_region(H, W); e = big_region(H, W); npint = bool(n % 2)
        k = n % 4
        if k == 0: yield {"op": "rotregion", "r": r, "s": [H, W], "c": list(rng.choice(CORNERS)), "via": rng.choice(["util", "rotated_from_roe_corner", "new_rotated_from"]), "npint": npint}
        elif k == 1: yield {"op": "extract", "o": r, "e": e, "via": rng.choice(["util", "parallel_overscan", "serial_prescan", "serial_overscan"]), "shape": [H, W], "npint": npint}
        elif k == 2:
            if rng.random() < 0.5:      # touching / nested intervals at large offsets
                e = [r[0] + rng.randint(-1, 1) if r[0] > 0 else 0, r[1] + rng.randint(0, 2), r[2], r[3] + rng.randint(0, 1)]
                e[1] = max(e[1], e[0] + 1)
            yield {"op": "extract", "o": r, "e": e, "via": "util", "shape": [H, W], "npint": npint}
        else:
            d = rand_subop(rng, 2, 3)
            if d.get("e") is not None and rng.random() < 0.5: d["e"] = rng.randint(1, B)
            if d.get("p") is not None and rng.random() < 0.5: d["p"] = [rng.randint(0, B), rng.randint(0, 2 * B)]
            if "sh" in d: d["sh"] = [H, W]
            yield {"op": "rsess", "dim": 2, "r": r, "m": None, "npint": npint,
                   "steps": [["call", d], ["into", d], ["call", d], ["setregion", e], ["call", d], ["state"]]}
    # ---- one Region object reused (random)
    for n in range(2500 if big else 250):
        dim = 1 if n % 4 == 0 else 2
        h, w = rng.randint(1, 6), rng.randint(1, 7)
        cur = rand_region(rng, h, w)
        inp = {"op": "rsess", "dim": dim, "r": cur[2:] if dim == 1 else cur, "m": rand_vals(rng, h, w, n % 3)}
        steps = []
        if n % 5 == 0:                                  # the same call before and after the user re-assigns reg.region
            a = rand_subop(rng, dim, max(h, w)); r2 = rand_region(rng, h, w)
            steps = [["call", a], ["slice"], ["setregion", r2[2:] if dim == 1 else r2], ["call", a], ["slice"], ["state"]]
        for _ in range(rng.randint(4, 10)):
            k = rng.choice(["call", "call", "call", "into", "setregion", "slice", "state"])
            if k in ("call", "into"): steps.append([k, rand_subop(rng, dim, max(h, w))])
            elif k == "setregion":
                r2 = rand_region(rng, h, w); steps.append(["setregion", r2[2:] if dim == 1 else r2])
            else: steps.append([k])
        inp["steps"] = steps
        yield inp

# ----------------------------------------------------------------------------------------------- phase 3: input kinds
# The same operations with the arguments handed over in other REPRESENTATIONS (lists, numpy scalars / arrays, tuple
# subclasses, Region objects, user subclasses of Region / Layout / Array classes, regions wrapping regions), positional
# instead of keyword passing, defaults left out; arrays of other dtypes (bool, int8, uint8, int64 beyond 2^53, float16/32,
# complex); sibling entry points (Layout1D, rotate_pattern_ci_via_roe_corner_from, the binned overscans, the read-only
# attributes of the regions).  Mutable arguments are fingerprinted around every call.
PATS_K = [0, 1, 3, 6, 8, 11, 12]
PRESERVING = ["copy", "copy.copy", "deepcopy", "view", "with_new_array", "native", "ctor"]
BIGS = [2 ** 53 + 1, -(2 ** 53 + 1), 2 ** 62 + 1, 2 ** 63 - 1, -2 ** 63, 2 ** 53, 10 ** 18 + 7]
def val_for(rng, dtype):
    if dtype == "bool": return rng.randint(0, 1)
    if dtype == "uint8": return rng.randint(0, 99)
    if dtype in ("int", "int8", "bigint"): return rng.randint(-99, 99)
    if dtype in ("float32", "float16"): return rng.choice([rng.randint(-99, 99), "0.5", "1.5", "-2.5", "inf", "-inf", "nan", "-0.0"])
    if dtype == "complex": return rng.choice([rng.randint(-9, 9), "1+2j", "-3j", "0.5-1j", "1.5", "-0.25+1e+300j"])
    return rng.choice([rng.randint(-99, 99), enc(dec(rng.choice(SPECIALS)))])
def vals_for(rng, h, w, dtype):
    if dtype == "bool": return [[rng.randint(0, 1) for _ in range(w)] for _ in range(h)]
    if dtype == "uint8": return [[rng.choice([0, 1, 2, 200, 255, rng.randint(0, 255)]) for _ in range(w)] for _ in range(h)]
    if dtype == "int8": return [[rng.choice([0, -1, 127, -128, rng.randint(-128, 127)]) for _ in range(w)] for _ in range(h)]
    if dtype == "bigint": return [[rng.choice(BIGS + [rng.randint(-9, 9)]) for _ in range(w)] for _ in range(h)]
    if dtype == "int": return [[rng.randint(-3, 3) for _ in range(w)] for _ in range(h)]
    if dtype in ("float32", "float16"):
        return [[rng.choice([rng.randint(-9, 9), "0.5", "0.1", "1e-08", "2049.0", "16777217.0", "nan", "inf", "-0.0", "65504.0"]) for _ in range(w)] for _ in range(h)]
    if dtype == "complex": return [[rng.choice([rng.randint(-9, 9), "1+2j", "1-2j", "-3j", "3j", "0.5-1j", "1e-300+1j", "nan"]) for _ in range(w)] for _ in range(h)]
    return rand_vals(rng, h, w, 2)

def gen_kinds(tier, rng):
    big = tier == "thorough"; rep = 4 if big else 1
    i = 0
    # ---- single calls: every representation of the region / shape / pixels arguments, keyword and positional
    for _ in range(rep):
        for rk in RKINDS:
            for c in CORNERS:
                for via in ("util", "rotated_from_roe_corner", "new_rotated_from"):
                    i += 1
                    h, w = rng.randint(1, 6), rng.randint(1, 6)
                    yield {"op": "rotregion", "r": rand_region(rng, h, w), "s": [h, w], "c": list(c), "via": via, "rk": rk,
                           "sk": pick(TKINDS, i), "pos": (i // 3) % 2 == 0, "layk": "sub" if (i // 6) % 2 else None}
        for ok in RKINDS:
            for ek in RKINDS:
                i += 1
                h, w = rng.randint(1, 6), rng.randint(1, 6)
                yield {"op": "extract", "o": rand_region(rng, h, w), "e": rand_region(rng, h, w), "ok": ok, "ek": ek, "shape": [h, w],
                       "via": pick(["util", "parallel_overscan", "serial_prescan", "serial_overscan"], i), "pos": i % 3 == 0,
                       "layk": "sub" if i % 2 else None}
        for selfk in ("reg", "sub", "nested", "subnested", "reglist", "regarr", "np64"):
            for pk in TKINDS:
                for dim in (1, 2, 2):
                    i += 1
                    h, w = rng.randint(1, 6), rng.randint(1, 6)
                    d = rand_subop(rng, dim, max(h, w)); r = rand_region(rng, h, w)
                    sk = selfk if selfk != "np64" else "reg"
                    d.update({"s": r[2:] if dim == 1 else r, "selfk": sk, "pk": pk, "shk": pick(TKINDS, i + 3), "pos": i % 2 == 0})
                    yield d
        # defaults left out: pixels=(0, 1) of the trailing / towards-roe regions
        for r in regions_2d(2, 3):
            for op in ("partrail", "sertrail", "serroe"):
                d = {"op": op, "s": list(r), "p": [0, 1], "dflt": True, "selfk": pick(["reg", "sub", "nested"], i)}; i += 1
                if op == "serroe": d["sh"] = [4, 5]
                yield d
    # ---- directed: regions sticking out of the frame (a flipped coordinate becomes negative: RegionException), both
    #      pixels and pixels_from_end given (pixels_from_end wins), in every representation
    for n in range(240 if big else 60):
        h, w = rng.randint(1, 5), rng.randint(1, 5)
        r = rand_region(rng, h, w); r[1 if n % 2 else 3] += rng.randint(1, 3)
        yield {"op": "rotregion", "r": r, "s": [h, w], "c": list(CORNERS[n % 4]), "via": pick(["util", "rotated_from_roe_corner", "new_rotated_from"], n // 4),
               "rk": pick(RKINDS, n), "sk": pick(TKINDS, n // 3), "pos": n % 5 == 0}
    for n in range(240 if big else 80):
        h, w = rng.randint(1, 6), rng.randint(1, 6); r = rand_region(rng, h, w)
        op = pick(["parfront", "serfront", "front1"], n)
        yield {"op": op, "s": r[2:] if op == "front1" else r, "p": [rng.randint(-1, 3), rng.randint(0, 4)], "e": rng.randint(-1, 4),
               "selfk": pick(["reg", "sub", "nested"], n // 3), "pk": pick(TKINDS, n // 2), "pos": n % 2 == 0}
    # ---- histories on ONE array of another dtype / of a user subclass
    dts = ["bool", "float32", "float16", "complex", "int8", "uint8", "bigint", "int", None]
    for (h, w) in [(2, 3), (3, 2), (1, 3), (3, 1), (1, 1)] + ([(4, 3), (2, 5)] if big else []):
        regs = regions_2d(h, w)
        for dt in dts:
            for kind in ("array2d", "nd", "no_mask.native"):
                for sub in (False, True):
                    if kind == "no_mask.native" and dt in ("complex", "bigint", "bool"): continue   # stored slim as float64
                    i += 1
                    if not big and kind == "no_mask.native" and i % 3: continue
                    r = list(pick(regs, 7 * i)); r2 = list(pick(regs, 3 * i + 1)); ci = i % 4
                    c2 = list(CORNERS[(ci + 1 + i % 3) % 4])
                    pats = ahist_patterns(kind, r, r2, c2, val_for(rng, dt), val_for(rng, dt))
                    exact = dt in ("complex", "bigint")            # extraction / arithmetic convert to float64
                    for pi in ([pick(PATS_K, i), pick(PATS_K, i + 3)] if not big else PATS_K):
                        steps = copy.deepcopy(pats[pi])
                        if exact and kind != "nd":
                            for st in steps:
                                if st[0] == "slice": st[2] = "direct"
                                if st[0] == "derive" and st[1] not in PRESERVING: st[1] = "copy"
                        if kind == "no_mask.native":
                            for st in steps:
                                if st[0] == "derive" and st[1] == "native": st[1] = "copy"
                        yield {"op": "ahist", "kind": kind, "m": vals_for(rng, h, w, dt), "c": list(CORNERS[ci]), "steps": steps,
                               "dtype": dt, "sub": sub, "ps": [2.0, 0.5] if i % 2 else None}
    derive_a = ["copy", "copy.copy", "deepcopy", "plus0", "times1", "view", "with_new_array", "native", "slim.native", "ctor", "apply_mask"]
    derive_n = ["copy", "view", "fortran", "window", "tt"]
    for n in range(1200 if big else 110):
        h, w = rng.randint(1, 5), rng.randint(1, 5)
        kind = rng.choice(["array2d", "array2d", "nd"]); dt = rng.choice(dts[:-1]); exact = dt in ("complex", "bigint")
        inp = {"op": "ahist", "kind": kind, "m": vals_for(rng, h, w, dt), "c": list(rng.choice(CORNERS)), "dtype": dt,
               "sub": rng.random() < 0.5, "ps": [0.5, 3.0] if rng.random() < 0.5 else None}
        steps = []; lastshape = None
        for _ in range(rng.randint(4, 9)):
            k = rng.choice(["read", "read", "write", "write", "edit", "last", "corner", "derive", "slice"])
            if k == "read": steps.append(["read", rng.choice(["prop", "layout", "util"])]); lastshape = (h, w)
            elif k == "write": steps.append(["write", rand_region(rng, h, w), val_for(rng, dt), rng.choice(["region", "direct", "where"])])
            elif k == "edit" and lastshape: steps.append(["edit", rand_region(rng, *lastshape), val_for(rng, dt)])
            elif k == "last" and lastshape: steps.append(["last"])
            elif k == "corner": steps.append(["corner", list(rng.choice(CORNERS))])
            elif k == "derive": steps.append(["derive", rng.choice(derive_n if kind == "nd" else (PRESERVING if exact else derive_a))])
            elif k == "slice":
                r = rand_region(rng, h, w)
                steps.append(["slice", r, "direct" if exact else rng.choice(["po", "so", "direct"])]); lastshape = (r[1] - r[0], r[3] - r[2])
        steps.append(["read", rng.choice(["prop", "layout", "util"])])
        inp["steps"] = steps
        yield inp
    # ---- one Layout2D (or user subclass) built from other representations, positional, default corner; binned overscans
    SLK = ["tuple", "nt", "np64", "reg", "sub", "nested", "subnested", "list", "arr", "reglist", "regarr", "np32"]
    for n in range(900 if big else 140):
        h, w = rng.randint(1, 5), rng.randint(1, 6)
        regions = [rand_region(rng, h, w) if rng.random() < 0.85 else None for _ in range(3)]
        c = list(rng.choice(CORNERS)) if n % 4 else [1, 0]
        inp = {"op": "lsess", "shape": [h, w], "c": c, "regions": regions, "m": rand_vals(rng, h, w, n % 2),
               "store_native": rng.random() < 0.5, "slotk": [pick(SLK, n + 5 * j) for j in range(3)], "layk": "sub" if n % 2 else None,
               "shk": pick(TKINDS, n // 2), "arrk": "sub" if (n // 2) % 2 else None, "ps": [2.0, 0.5] if n % 3 else None,
               "hdr": n % 3 != 1, "pos": n % 5 == 0, "dflt": n % 4 == 0}
        steps = []
        for _ in range(rng.randint(5, 10)):
            k = rng.choice(["rot", "into_rot", "classrot", "ext", "into_ext", "set", "slice", "slice", "bin", "bin", "eper", "orient",
                            "write", "utilrot", "regop", "corner"])
            if k in ("rot", "into_rot", "classrot"): steps.append([k, list(rng.choice(CORNERS))])
            elif k in ("ext", "into_ext"): steps.append([k, rand_region(rng, h, w)] + (["region"] if rng.random() < 0.3 else []))
            elif k == "set": steps.append(["set", rng.randint(0, 2), rand_region(rng, h, w)])
            elif k in ("slice", "bin"): steps.append([k, rng.choice([0, 2])])
            elif k == "eper": steps.append(["eper"])
            elif k == "orient": steps.append(["orient", rng.choice(["nd", "arr"])])
            elif k == "write": steps.append(["write", rand_region(rng, h, w), rng.randint(-99, 99)])
            elif k == "utilrot": steps.append(["utilrot", rng.randint(0, 2), list(rng.choice(CORNERS))])
            elif k == "corner": steps.append(["corner", list(rng.choice(CORNERS))]); steps.append(["derive", rng.choice(["copy", "deepcopy"])])
            elif k == "regop":
                d = rand_subop(rng, 2, max(h, w)); d.update({"pk": rng.choice(TKINDS), "shk": rng.choice(TKINDS), "pos": rng.random() < 0.5})
                steps.append(["regop", rng.randint(0, 2), d])
        inp["steps"] = steps
        yield inp
    # ---- one Region object of every representation: attributes before / after reg.region is re-assigned
    for n in range(900 if big else 90):
        dim = 1 if n % 3 == 0 else 2
        h, w = rng.randint(1, 6), rng.randint(1, 7)
        cur = rand_region(rng, h, w); r2 = rand_region(rng, h, w)
        cut = (lambda r: r[2:]) if dim == 1 else (lambda r: r)
        a = rand_subop(rng, dim, max(h, w)); a.update({"pk": pick(TKINDS, n), "shk": pick(TKINDS, n + 2), "pos": n % 2 == 0})
        p = [rng.randint(-1, 3), rng.randint(0, 4)]
        yield {"op": "rsess", "dim": dim, "r": cut(cur), "m": rand_vals(rng, h, w, n % 3),
               "selfk": pick(["reg", "sub", "nested", "subnested", "reglist", "regarr"], n),
               "steps": [["props", p], ["call", a], ["slice"], ["props", p], ["setregion", cut(r2)], ["props", p], ["call", a], ["slice"],
                         ["derive", pick(["copy", "deepcopy", "pickle", "rebuild", "wrap"], n // 2)], ["props", p], ["call", a], ["slice"],
                         ["setregion", cut(cur)], ["props", p], ["call", a], ["into", a], ["props", p], ["state"]]}
    # ---- one Layout1D reused on one Array1D
    K1 = ["tuple", "nt", "np64", "reg", "sub", "nested", "np32"]
    for n in range(800 if big else 120):
        L = rng.randint(1, 7)
        def r1():
            a = rng.randint(0, L - 1); return [a, rng.randint(a + 1, L)]
        dt = pick([None, None, "int", "float32", "bool", "uint8"], n)
        inp = {"op": "l1sess", "m": vals_for(rng, 1, L, dt)[0] if dt else rand_vals(rng, 1, L, n % 3)[0], "dtype": dt,
               "pre": r1() if n % 3 else None, "ov": r1(), "prek": pick(K1, n), "ovk": pick(K1, n // 2), "sub": n % 2 == 1,
               "hdr": n % 3 != 2, "ps": pick([1.0, 0.25, 3.0], n), "pos": n % 4 == 0}
        steps = [["ext"]]
        for _ in range(rng.randint(3, 8)):
            k = rng.choice(["ext", "ext", "write", "edit", "set", "derive", "regop", "props"])
            if k == "ext": steps.append(["ext"])
            elif k == "write": steps.append(["write"] + r1() + [val_for(rng, dt)])
            elif k == "edit": steps.append(["edit", 0, 1, val_for(rng, dt)])
            elif k == "set": steps.append(["set", rng.choice(["overscan", "overscan", "prescan"]), r1(), rng.choice(["reg", "sub", "nested"])])
            elif k == "derive": steps.append(["derive", rng.choice(["copy", "deepcopy", "view", "native", "slim", "plus0"])])
            elif k == "regop": steps.append(["regop", rng.choice(["overscan", "prescan"]), rand_subop(rng, 1, L)])
            elif k == "props": steps.append(["props", rng.choice(["overscan", "prescan"])])
        steps.append(["ext"])
        inp["steps"] = steps
        yield inp
    # ---- a pattern (list of regions) rotated
    for n in range(800 if big else 120):
        h, w = rng.randint(1, 6), rng.randint(1, 6)
        k = rng.choice([0, 1, 1, 2, 3, 5])
        regs = [rand_region(rng, h, w) for _ in range(k)]
        if n % 10 == 0 and regs: regs[-1] = [0, h + 1, 0, 1]          # sticks out of the frame: RegionException for flipped corners
        yield {"op": "pattern", "regions": regs, "kinds": [rng.choice(RKINDS) for _ in regs], "s": [h, w], "sk": pick(TKINDS, n),
               "c": list(rng.choice(CORNERS + ([(2, 0)] if n % 17 == 0 else []))), "pos": n % 3 == 0, "reps": 1 + n % 2}
