#!/bin/bash
# usage: tools/mut.sh <property> <patchfile | 'sed:<file>:<sed-expr>'> [tier]
# applies a change in a scratch worktree of /repo (never /repo itself), runs the check there, removes the worktree
set -u
PID=$1; CH=$2; TIER=${3:-quick}
[[ "$CH" != sed:* ]] && CH="$(realpath "$CH")"
HERE="$(cd "$(dirname "$0")/.." && pwd)"
WT=/tmp/pav_wt_$$
git -C /repo worktree add --detach -q $WT HEAD || exit 3
# carry over uncommitted changes? no: /repo is kept clean
# pending repairs proposed by this property's builder (not yet committed to /repo) are applied first, if they still apply
for f in $HERE/fixes/${PID}_*.diff; do [ -f "$f" ] && (git -C $WT apply "$f" 2>/dev/null || true); done
if [[ "$CH" == sed:* ]]; then
  IFS=: read -r _ F E <<< "$CH"
  sed -i "$E" $WT/$F
else
  git -C $WT apply "$CH" || { echo "patch failed"; git -C /repo worktree remove --force $WT; exit 3; }
fi
git -C $WT diff --stat | tail -1
VERIF_REPO=$WT $HERE/vcheck $PID --tier $TIER 2>/dev/null | tail -3
RC=${PIPESTATUS[0]}
git -C /repo worktree remove --force $WT
# restore generated files from the real repo
python3 $HERE/py2v/py2v.py --repo /repo $(python3 $HERE/py2v/py2v.py --list) >/dev/null 2>&1
exit $RC
