#!/bin/bash
# usage: tools/inrepo_seed.sh <seed id>...   the brief's procedure: apply the seeded change to /repo ITSELF, run the
# property's quick check there (evidence untouched: VERIF_NO_EVIDENCE=1), undo it straight afterwards.
# Only run when nothing else is using /repo.  Appends one line per seed to seeded/INREPO_PASS.txt.
HERE="$(cd "$(dirname "$0")/.." && pwd)"
for S in "$@"; do
  PID=${S%_*}
  if [ -n "$(git -C /repo status --porcelain --untracked-files=no)" ]; then echo "/repo not clean"; exit 2; fi
  git -C /repo apply "$HERE/seeded/$S/patch.diff" || { echo "$S: patch does not apply"; continue; }
  OUT=$(cd $HERE && VERIF_NO_EVIDENCE=1 ./vcheck $PID 2>&1 | grep -E 'VIOLATION|exit' | tail -2 | tr '\n' ' ')
  git -C /repo checkout -- .
  (cd $HERE && python3 py2v/py2v.py --repo /repo $(python3 py2v/py2v.py --list) >/dev/null 2>&1)
  echo "$S: ${OUT:0:300}" | tee -a $HERE/seeded/INREPO_PASS.txt
done
