(* C17 -- grid decorators.  Executable model of
     autoarray/structures/decorators/abstract.py   AbstractMaker.evaluate_func / .result (dispatch on the grid kind)
     to_array.py / to_grid.py / to_vector_yx.py     ArrayMaker / GridMaker / VectorYXMaker .via_grid_2d / _2d_irr / _1d
                                                    (+ the length checks of the Array2D / Grid2D / VectorYX2D / Array1D constructors)
     project_grid.py                                project_grid (centre / angle+90 defaults, three grid kinds, Array1D.no_mask)
     relocate_radial.py                             relocate_to_radial_minimum (config lookup, np.where scale, NaN replacement)
     transform.py                                   transform (is_transformed flag)
     grids/uniform_2d.py                            Grid2D.from_mask coordinates, Grid2D.grid_2d_radial_projected_from
     grids/grid_2d_util.py                          grid_2d_slim_via_mask_from, grid_scaled_2d_slim_radial_projected_from
     grids/uniform_1d.py                            Grid1D.grid_2d_radial_projected_from
     geometry/geometry_2d.py, geometry_util.py      extent, transform_grid_2d_to / from_reference_frame
     mask/derive/mask_1d.py                         to_mask_2d
   parametric in the user function [f : grid -> res result].  Numbers are over [NumOps].
   The rotation [r sin(atan2(dy,dx) - a), r cos(atan2(dy,dx) - a)] of transform_grid_2d_to_reference_frame is written
   with the angle-difference identity already applied ([dy c - dx s], [dx c + dy s], (c,s) = (cos a, sin a));
   Proofs/C17.v proves that identity for every polar representation (arctan2 is an oracle).
   No proofs here. *)
From Coq Require Import ZArith List Bool QArith Qabs Qround.
From PAV Require Import Base.Res Base.Check Base.NumOps.
Import ListNotations.

Inductive maker := ToArray | ToGrid | ToVector.

Section Model.
  Context {O : NumOps}.
  Notation T := (T O).
  Definition pt := (T * T)%type.

  (* ------------------------------------------------------------------ masks and grids *)
  Record mask2 := { bits2 : list (list bool); ps2 : pt; org2 : pt }.     (* true = masked; (y,x) pixel scales / origin *)
  Record mask1 := { bits1 : list bool; ps1 : T; org1 : T }.

  Definition count1 (r : list bool) : nat := length (filter negb r).
  Definition count2 (b : list (list bool)) : nat := length (filter negb (concat b)).
  Definition rows2 (m : mask2) : nat := length (bits2 m).
  Definition cols2 (m : mask2) : nat := length (hd [] (bits2 m)).

  Inductive grid :=
  | G2D (m : mask2) (cs : list pt)        (* Grid2D: slim (y,x) coordinates paired with a mask *)
  | GIrr (cs : list pt)                   (* Grid2DIrregular *)
  | G1D (m : mask1) (xs : list T)         (* Grid1D: slim x values *)
  | GRaw (cs : list pt).                  (* plain ndarray of shape [n,2] *)

  Definition coords_of (g : grid) : list pt :=
    match g with
    | G2D _ cs | GIrr cs | GRaw cs => cs
    | G1D _ xs => map (fun x => (zero, x)) xs
    end.

  (* what a user function may return *)
  Inductive res1 := Vals (v : list T) | Pairs (p : list pt).
  Inductive result := One (r : res1) | Many (l : list res1).

  Inductive container :=
  | Array2D (m : mask2) (v : list T)
  | Grid2D (m : mask2) (p : list pt)
  | Vector2D (m : mask2) (g p : list pt)      (* VectorYX2D: attached grid, vectors *)
  | ArrayIrr (v : list T)
  | GridIrr (p : list pt)
  | VectorIrr (g p : list pt)
  | Array1D (m : mask1) (v : list T)
  | RawOne (r : res1).                          (* ndarray input: the function's own result is returned *)
  Inductive output := OOne (c : container) | OMany (l : list container).

  Definition bind {A B} (x : res A) (k : A -> res B) : res B :=
    match x with Ok a => k a | Raise e => Raise e end.
  Fixpoint mapM {A B} (k : A -> res B) (l : list A) : res (list B) :=   (* list comprehension: first failure raises *)
    match l with
    | [] => Ok []
    | a :: t => bind (k a) (fun b => bind (mapM k t) (fun bs => Ok (b :: bs)))
    end.

  (* ------------------------------------------------------------------ Grid2D.from_mask
     central_pixel_coordinates_2d_from, central_scaled_coordinate_2d_from, grid_2d_slim_via_mask_from:
     double loop y, x with a running output index *)
  Definition centres_scaled (m : mask2) : pt :=
    let cy := div O (ofZ O (Z.of_nat (rows2 m) - 1)) two in
    let cx := div O (ofZ O (Z.of_nat (cols2 m) - 1)) two in
    (add O cy (div O (fst (org2 m)) (fst (ps2 m))), sub O cx (div O (snd (org2 m)) (snd (ps2 m)))).
  Fixpoint row_pts (c ps : pt) (y : Z) (r : list bool) (x : Z) : list pt :=
    match r with
    | [] => []
    | b :: t =>
        if b then row_pts c ps y t (x + 1)
        else (mul O (opp O (sub O (ofZ O y) (fst c))) (fst ps), mul O (sub O (ofZ O x) (snd c)) (snd ps))
             :: row_pts c ps y t (x + 1)
    end.
  Fixpoint rows_pts (c ps : pt) (b : list (list bool)) (y : Z) : list pt :=
    match b with
    | [] => []
    | r :: t => row_pts c ps y r 0 ++ rows_pts c ps t (y + 1)
    end.
  Definition grid_via_mask (m : mask2) : list pt := rows_pts (centres_scaled m) (ps2 m) (bits2 m) 0.
  Definition grid2d_from_mask (m : mask2) : grid := G2D m (grid_via_mask m).

  (* ------------------------------------------------------------------ reference frames (geometry_util) *)
  Definition to_ref (centre ang : pt) (p : pt) : pt :=
    let dy := sub O (fst p) (fst centre) in let dx := sub O (snd p) (snd centre) in
    (sub O (mul O dy (fst ang)) (mul O dx (snd ang)), add O (mul O dx (fst ang)) (mul O dy (snd ang))).
  Definition from_ref (centre ang : pt) (p : pt) : pt :=
    (add O (add O (mul O (snd p) (snd ang)) (mul O (fst p) (fst ang))) (fst centre),
     add O (add O (mul O (snd p) (fst ang)) (opp O (mul O (fst p) (snd ang)))) (snd centre)).
  Definition ang0 : pt := (one, zero).                       (* angle = 0.0 *)

  (* ------------------------------------------------------------------ radial projection *)
  (* Geometry2D.extent = (x_min, x_max, y_min, y_max) *)
  Definition extent (m : mask2) : T * T * T * T :=
    let sy := mul O (fst (ps2 m)) (ofNat (rows2 m)) in
    let sx := mul O (snd (ps2 m)) (ofNat (cols2 m)) in
    (add O (opp O (div O sx two)) (snd (org2 m)), add O (div O sx two) (snd (org2 m)),
     add O (opp O (div O sy two)) (fst (org2 m)), add O (div O sy two) (fst (org2 m))).
  (* the loop  for slim_index in range(shape_slim): grid[slim_index] = (centre[0], radii); radii += pixel_scale *)
  Fixpoint line (n : nat) (cy radii ps : T) : list pt :=
    match n with
    | 0%nat => []
    | S k => (cy, radii) :: line k cy (add O radii ps) ps
    end.
  Definition pymax (l : list T) (d : T) : T := fold_left maxT (tl l) (hd d l).
  Definition radial_scale (m : mask2) (centre : pt) : T * T :=     (* (scaled_distance, pixel_scale) *)
    let '(xmin, xmax, ymin, ymax) := extent m in
    let dpx := sub O xmax (snd centre) in let dpy := sub O ymax (fst centre) in
    let dnx := sub O (snd centre) xmin in let dny := sub O (fst centre) ymin in
    let sd := pymax [dpx; dpy; dnx; dny] zero in
    (sd, if eqb O sd dpy || eqb O sd dny then fst (ps2 m) else snd (ps2 m)).
  Definition radial_shape (m : mask2) (centre : pt) : Z :=
    let '(sd, ps) := radial_scale m centre in trunc (div O sd ps) + 1.
  Definition radial_line (m : mask2) (centre : pt) : list pt :=
    let '(sd, ps) := radial_scale m centre in
    line (Z.to_nat (radial_shape m centre)) (fst centre) (snd centre) ps.
  (* Grid2D.grid_2d_radial_projected_from *)
  Definition projected_2d (m : mask2) (centre ang : pt) (remove_centre : bool) : list pt :=
    let l := map (from_ref centre ang0) (map (to_ref centre ang) (radial_line m centre)) in
    if remove_centre then tl l else l.
  (* Grid1D.grid_2d_radial_projected_from *)
  Definition projected_1d (xs : list T) (ang : pt) : list pt :=
    map (fun x => to_ref (zero, zero) ang (zero, x)) xs.

  (* ------------------------------------------------------------------ constructors used for wrapping *)
  Definition to_mask_2d (m : mask1) : mask2 :=
    {| bits2 := [bits1 m]; ps2 := (ps1 m, ps1 m); org2 := (zero, zero) |}.
  Definition nomask1 (n : nat) (ps : T) : mask1 := {| bits1 := repeat false n; ps1 := ps; org1 := zero |}.
  Fixpoint slim1 (r : list bool) (v : list T) : list T :=
    match r, v with
    | b :: r', a :: v' => if b then slim1 r' v' else a :: slim1 r' v'
    | _, _ => []
    end.
  Definition mk_array2d (m : mask2) (v : list T) : res container :=
    if Nat.eqb (length v) (count2 (bits2 m)) then Ok (Array2D m v) else Raise ArrayException.
  Definition mk_grid2d (m : mask2) (p : list pt) : res container :=
    if Nat.eqb (length p) (count2 (bits2 m)) then Ok (Grid2D m p) else Raise OtherException.        (* GridException *)
  Definition mk_vector2d (m : mask2) (g p : list pt) : res container :=
    if Nat.eqb (length p) (count2 (bits2 m)) then
      if Nat.eqb (length g) (count2 (bits2 m)) then Ok (Vector2D m g p) else Raise OtherException
    else Raise OtherException.
  (* convert_array_1d: an input as long as the mask is taken to be native *)
  Definition mk_array1d (m : mask1) (v : list T) : res container :=
    Ok (Array1D m (if Nat.eqb (length v) (length (bits1 m)) then slim1 (bits1 m) v else v)).

  (* result of the wrong kind for the decorator (values through to_grid, pairs through to_array ...): outside the
     property's quantifier and not modelled; the placeholder is never compared with the implementation *)
  Definition unmodelled {A} : res A := Raise TypeError.

  (* via_grid_2d / via_grid_2d_irr / via_grid_1d for one (non-list) result *)
  Definition wrap1 (d : maker) (g : grid) (r : res1) : res container :=
    match g, d, r with
    | G2D m _, ToArray, Vals v => mk_array2d m v
    | G2D m _, ToGrid, Pairs p => mk_grid2d m p
    | G2D m cs, ToVector, Pairs p => mk_vector2d m cs p
    | GIrr _, ToArray, Vals v => Ok (ArrayIrr v)
    | GIrr _, ToGrid, Pairs p => Ok (GridIrr p)
    | GIrr cs, ToVector, Pairs p => Ok (VectorIrr cs p)
    | G1D m _, ToArray, Vals v => mk_array1d m v
    | G1D m _, ToGrid, Pairs p => mk_grid2d (to_mask_2d m) p
    | G1D _ _, ToVector, _ => Raise OtherException                                   (* NotImplementedError *)
    | GRaw _, _, _ => Ok (RawOne r)
    | _, _, _ => unmodelled
    end.
  Definition wrap (d : maker) (g : grid) (r : result) : res output :=
    match r with
    | One r1 => bind (wrap1 d g r1) (fun c => Ok (OOne c))
    | Many l =>
        match g, d with
        | G1D _ _, ToVector => Raise OtherException
        | _, _ => bind (mapM (wrap1 d g) l) (fun cs => Ok (OMany cs))
        end
    end.

  (* AbstractMaker.evaluate_func: what the decorated function receives *)
  Definition eval_arg (g : grid) : grid :=
    match g with
    | G1D _ xs => GIrr (projected_1d xs ang0)
    | _ => g
    end.
  (* AbstractMaker.result for the three makers *)
  Definition maker_result (d : maker) (f : grid -> res result) (g : grid) : res output :=
    bind (f (eval_arg g)) (wrap d g).

  (* ------------------------------------------------------------------ project_grid *)
  Record profile := { centre : option pt; angle : option pt }.     (* angle as (cos a, sin a); None = attribute absent / None *)
  Definition prof_centre (o : profile) : pt := match centre o with Some c => c | None => (zero, zero) end.
  (* angle = obj.angle + 90.0, else 0.0 *)
  Definition prof_angle90 (o : profile) : pt :=
    match angle o with Some a => (opp O (snd a), fst a) | None => ang0 end.
  Definition project_arg (o : profile) (remove_centre : bool) (g : grid) : res grid :=
    match g with
    | G2D m _ => Ok (GIrr (projected_2d m (prof_centre o) (prof_angle90 o) remove_centre))
    | GIrr _ => Ok g
    | G1D _ xs => Ok (GIrr (projected_1d xs (prof_angle90 o)))
    | GRaw _ => Raise OtherException                                                  (* GridException *)
    end.
  Definition project_wrap (g : grid) (r : result) : res output :=
    match g, r with
    | G2D m _, One (Vals v) => Ok (OOne (Array1D (nomask1 (length v) (fst (ps2 m))) v))
    | G1D m _, One (Vals v) => Ok (OOne (Array1D (nomask1 (length v) (ps1 m)) v))
    | GIrr _, One (Vals v) => Ok (OOne (ArrayIrr v))
    | GIrr _, One (Pairs p) => Ok (OOne (GridIrr p))
    | GIrr _, Many _ => Raise OtherException                                          (* AttributeError: list has no shape *)
    | _, _ => unmodelled
    end.
  Definition project_grid (o : profile) (remove_centre : bool) (f : grid -> res result) (g : grid) : res output :=
    bind (project_arg o remove_centre g) (fun a => bind (f a) (project_wrap g)).

  (* ------------------------------------------------------------------ relocate_to_radial_minimum *)
  Definition with_new_array (g : grid) (cs : list pt) : grid :=
    match g with
    | G2D m _ => G2D m cs
    | GIrr _ => GIrr cs
    | GRaw _ => GRaw cs
    | G1D m xs => G1D m xs
    end.
  (* one coordinate: scale = where(r < rmin, rmin / r, 1.0); NaN (0 * inf) is replaced by rmin.
     For r = 0 with a non-zero component the code produces +-inf, which [T] cannot represent: that branch is the
     totalised [c * (rmin / 0)] and carries no theorem (excluded by "r = 0 only at the origin"). *)
  Definition nan_fix (rmin c : T) : T := if eqb O c zero then rmin else mul O c (div O rmin zero).
  Definition moved_pt (rmin : T) (p : pt) (r : T) : pt :=
    if ltb O r rmin then
      if eqb O r zero then (nan_fix rmin (fst p), nan_fix rmin (snd p))
      else (mul O (fst p) (div O rmin r), mul O (snd p) (div O rmin r))
    else (mul O (fst p) one, mul O (snd p) one).
  Fixpoint moved (rmin : T) (cs : list pt) (radii : list T) : list pt :=
    match cs, radii with
    | p :: cs', r :: rs' => moved_pt rmin p r :: moved rmin cs' rs'
    | _, _ => []
    end.
  Definition relocate_arg (rmin : option T) (rad : grid -> list T) (g : grid) : res grid :=
    match rmin with
    | None => Raise OtherException                                                    (* ConfigException *)
    | Some rm =>
        match g with
        | G1D _ _ => unmodelled
        | _ => Ok (with_new_array g (moved rm (coords_of g) (rad g)))
        end
    end.
  Definition relocate {A} (rmin : option T) (rad : grid -> list T) (f : grid -> res A) (g : grid) : res A :=
    bind (relocate_arg rmin rad g) f.
  (* the radial_grid_from of the mock / of a spherical profile *)
  Definition euclid (g : grid) : list T :=
    map (fun p => sqrtT O (add O (sq (fst p)) (sq (snd p)))) (coords_of g).
  (* an elliptical radius sqrt(y^2 + (x/q)^2) *)
  Definition elliptic (q : T) (g : grid) : list T :=
    map (fun p => sqrtT O (add O (sq (fst p)) (sq (div O (snd p) q)))) (coords_of g).

  (* ------------------------------------------------------------------ transform *)
  Definition transform {A} (tf : grid -> grid) (f : bool -> grid -> A) (is_transformed : bool) (g : grid) : A :=
    if negb is_transformed then f true (tf g) else f is_transformed g.
  (* transformed_to_reference_frame_grid_from of a profile with a centre and an angle *)
  Definition frame_tf (c a : pt) (g : grid) : grid :=
    match g with
    | G1D _ _ => g
    | _ => with_new_array g (map (to_ref c a) (coords_of g))
    end.

  (* ------------------------------------------------------------------ the usual stack
       @to_X @transform @relocate_to_radial_minimum def method(self, grid, **kwargs)
     [nested]: the method body calls a second method decorated the same way, passing its kwargs on *)
  Definition inner (rmin : option T) (c a : pt) (f : grid -> res result) : bool -> grid -> res result :=
    transform (frame_tf c a) (fun _ g => relocate rmin euclid f g).
  Definition stack_arg (rmin : option T) (c a : pt) (nested : bool) (g : grid) : res grid :=
    let k := fun (b : bool) (g' : grid) => relocate_arg rmin euclid g' in
    if nested then
      transform (frame_tf c a) (fun b g1 => bind (relocate_arg rmin euclid g1) (transform (frame_tf c a) k b)) false (eval_arg g)
    else transform (frame_tf c a) k false (eval_arg g).
  Definition stack (d : maker) (rmin : option T) (c a : pt) (nested : bool) (f : grid -> res result) (g : grid) : res output :=
    let meth2 := inner rmin c a f in
    let meth1 := if nested
                 then transform (frame_tf c a) (fun b g1 => relocate rmin euclid (fun g2 => meth2 b g2) g1)
                 else meth2 in
    maker_result d (meth1 false) g.

  (* ------------------------------------------------------------------ native storage (store_native=True, .native)
     grid_1d_native_from / grid_2d_native_from: the array keeps one entry per pixel of the mask, row-major; the entries of
     masked pixels are whatever the array holds there (0 after construction, anything after arithmetic on the structure);
     grid_1d_slim_from / grid_2d_slim_from / Grid1D.slim / Array2D(values = native array): keep the unmasked entries *)
  Fixpoint slim_by {A} (bits : list bool) (v : list A) : list A :=
    match bits, v with
    | b :: bs, a :: v' => if b then slim_by bs v' else a :: slim_by bs v'
    | _, _ => []
    end.
  Fixpoint native_by {A} (junk : A) (bits : list bool) (v : list A) : list A :=
    match bits with
    | [] => []
    | true :: bs => junk :: native_by junk bs v
    | false :: bs => match v with a :: v' => a :: native_by junk bs v' | [] => junk :: native_by junk bs [] end
    end.
  (* a natively stored Grid1D / Grid2D, given by the content of its array (flattened row-major for 2-D) *)
  Definition grid1d_of_native (m : mask1) (nv : list T) : grid := G1D m (slim_by (bits1 m) nv).
  Definition grid2d_of_native (m : mask2) (nc : list pt) : grid := G2D m (slim_by (concat (bits2 m)) nc).
  (* to_array / to_grid / to_vector_yx on a natively stored Grid2D: AbstractMaker.evaluate_func hands the grid over as it is
     stored (one coordinate per pixel of the mask: the function's argument is modelled by that flattened list), and the
     Array2D / Grid2D / VectorYX2D constructors bring a result of native shape back to slim order; a result that does not
     have one entry per pixel is taken to be slim (and must then pass the constructors' length checks) *)
  Definition deslim1 (m : mask2) (r : res1) : res1 :=
    match r with
    | Vals v => if Nat.eqb (length v) (length (concat (bits2 m))) then Vals (slim_by (concat (bits2 m)) v) else r
    | Pairs p => if Nat.eqb (length p) (length (concat (bits2 m))) then Pairs (slim_by (concat (bits2 m)) p) else r
    end.
  Definition deslim (m : mask2) (r : result) : result :=
    match r with One r1 => One (deslim1 m r1) | Many l => Many (map (deslim1 m) l) end.
  Definition maker_result_native (d : maker) (f : grid -> res result) (m : mask2) (nc : list pt) : res output :=
    bind (f (GRaw nc)) (fun r => wrap d (grid2d_of_native m nc) (deslim m r)).

  (* ------------------------------------------------------------------ a family of user functions (the "programs" of the
     correspondence run; the theorems quantify over ALL functions) *)
  Inductive sfun :=
  | SAff (a b c : T)        (* a y + b x + c, pointwise *)
  | SQuad (a b c : T)       (* a y^2 + b x^2 + c x y, pointwise *)
  | SIdx (a b : T)          (* (k+1) a y_k + b x_k : depends on the position *)
  | SCum (a b : T)          (* running sum of a y + b x : not pointwise *)
  | SMir (a b : T)          (* entry k is a y + b x of coordinate n-1-k *)
  | SDrop (a b : T).        (* drops the first entry: a result of the wrong length *)
  Definition lin (a b : T) (p : pt) : T := add O (mul O a (fst p)) (mul O b (snd p)).
  Fixpoint cum (acc : T) (l : list T) : list T :=
    match l with [] => [] | x :: t => let a := add O acc x in a :: cum a t end.
  Fixpoint idxw (k : Z) (a b : T) (l : list pt) : list T :=
    match l with
    | [] => []
    | p :: t => add O (mul O (ofZ O k) (mul O a (fst p))) (mul O b (snd p)) :: idxw (k + 1) a b t
    end.
  Definition sapply (s : sfun) (cs : list pt) : list T :=
    match s with
    | SAff a b c => map (fun p => add O (lin a b p) c) cs
    | SQuad a b c => map (fun p => add O (add O (mul O a (sq (fst p))) (mul O b (sq (snd p)))) (mul O c (mul O (fst p) (snd p)))) cs
    | SIdx a b => idxw 1 a b cs
    | SCum a b => cum zero (map (lin a b) cs)
    | SMir a b => rev (map (lin a b) cs)
    | SDrop a b => tl (map (lin a b) cs)
    end.
  Inductive ufun1 := FV (s : sfun) | FP (s1 s2 : sfun).
  Inductive ufun := F1 (u : ufun1) | FL (l : list ufun1).
  Definition uapply1 (u : ufun1) (cs : list pt) : res1 :=
    match u with
    | FV s => Vals (sapply s cs)
    | FP s1 s2 => Pairs (combine (sapply s1 cs) (sapply s2 cs))
    end.
  Definition uapply (u : ufun) (g : grid) : res result :=
    match u with
    | F1 u1 => Ok (One (uapply1 u1 (coords_of g)))
    | FL l => Ok (Many (map (fun u1 => uapply1 u1 (coords_of g)) l))
    end.

  (* ------------------------------------------------------------------ independent specification *)
  (* the mirror table: the container that mirrors grid [g] for decorator [d] and holds the function's result [r] *)
  Definition mirror_of (d : maker) (g : grid) (r : res1) : container :=
    match g, d, r with
    | G2D m _, ToArray, Vals v => Array2D m v
    | G2D m _, ToGrid, Pairs p => Grid2D m p
    | G2D m cs, ToVector, Pairs p => Vector2D m cs p
    | GIrr _, ToArray, Vals v => ArrayIrr v
    | GIrr _, ToGrid, Pairs p => GridIrr p
    | GIrr cs, ToVector, Pairs p => VectorIrr cs p
    | G1D m _, ToArray, Vals v => Array1D m v
    | G1D m _, ToGrid, Pairs p => Grid2D (to_mask_2d m) p
    | _, _, _ => RawOne r
    end.
  Definition res1_size (r : res1) : nat := match r with Vals v => length v | Pairs p => length p end.
  Definition n_points (g : grid) : nat :=
    match g with
    | G2D m _ => count2 (bits2 m)
    | G1D m _ => count1 (bits1 m)
    | GIrr cs | GRaw cs => length cs
    end.
  (* the result has the kind the decorator is meant for, one entry per point of the grid (and the grid one coordinate per
     unmasked pixel) *)
  Definition fits (d : maker) (g : grid) (r : res1) : bool :=
    match d, r with
    | ToArray, Vals _ | ToGrid, Pairs _ | ToVector, Pairs _ => true
    | _, _ => false
    end
    && Nat.eqb (res1_size r) (n_points g)
    && match g, d with
       | G2D m cs, _ => Nat.eqb (length cs) (count2 (bits2 m))
       | G1D m _, ToVector => false
       | GRaw _, _ => false
       | _, _ => true
       end.
  (* accessors used in the statements *)
  Definition entries (c : container) : res1 :=
    match c with
    | Array2D _ v | ArrayIrr v | Array1D _ v => Vals v
    | Grid2D _ p | Vector2D _ _ p | GridIrr p | VectorIrr _ p => Pairs p
    | RawOne r => r
    end.
  Definition on_mask2 (c : container) : option mask2 :=
    match c with Array2D m _ | Grid2D m _ | Vector2D m _ _ => Some m | _ => None end.
  Definition on_mask1 (c : container) : option mask1 := match c with Array1D m _ => Some m | _ => None end.
  Definition attached_grid (c : container) : option (list pt) :=
    match c with Vector2D _ g _ | VectorIrr g _ => Some g | _ => None end.

  (* k-th unmasked pixel in row-major order, and its centre in scaled units (closed form) *)
  Definition unmasked_px (b : list (list bool)) : list (nat * nat) :=
    concat (map (fun yr => map (fun xb => (fst yr, fst xb))
                             (filter (fun xb => negb (snd xb)) (combine (seq 0 (length (snd yr))) (snd yr))))
                (combine (seq 0 (length b)) b)).
  Definition pixel_centre (m : mask2) (p : nat * nat) : pt :=
    (add O (mul O (sub O (div O (ofZ O (Z.of_nat (rows2 m) - 1)) two) (ofNat (fst p))) (fst (ps2 m))) (fst (org2 m)),
     add O (mul O (sub O (ofNat (snd p)) (div O (ofZ O (Z.of_nat (cols2 m) - 1)) two)) (snd (ps2 m))) (snd (org2 m))).
  Definition spec_centres (m : mask2) : list pt := map (pixel_centre m) (unmasked_px (bits2 m)).
  (* the radially projected line: point k is centre + k * step * (-sin, cos) of the rotation angle *)
  Definition spec_line_pt (c ang : pt) (step : T) (k : nat) : pt :=
    (sub O (fst c) (mul O (mul O (ofNat k) step) (snd ang)), add O (snd c) (mul O (mul O (ofNat k) step) (fst ang))).
  Definition spec_line (c ang : pt) (step : T) (n : nat) (remove_centre : bool) : list pt :=
    map (spec_line_pt c ang step) (seq (if remove_centre then 1 else 0) (if remove_centre then n - 1 else n)).
  (* longest of the four axis-parallel distances from the centre to the frame edge; its axis gives the step *)
  Definition spec_halfspan (m : mask2) : pt :=
    (div O (mul O (fst (ps2 m)) (ofNat (rows2 m))) two, div O (mul O (snd (ps2 m)) (ofNat (cols2 m))) two).
  Definition spec_reach (m : mask2) (c : pt) : T * T :=           (* (reach along y, reach along x) *)
    (add O (fst (spec_halfspan m)) (absT (sub O (fst c) (fst (org2 m)))),
     add O (snd (spec_halfspan m)) (absT (sub O (snd c) (snd (org2 m))))).
  Definition spec_along_y (m : mask2) (c : pt) : bool := leb O (snd (spec_reach m c)) (fst (spec_reach m c)).
  Definition spec_step (m : mask2) (c : pt) : T := if spec_along_y m c then fst (ps2 m) else snd (ps2 m).
  Definition spec_far (m : mask2) (c : pt) : T := if spec_along_y m c then fst (spec_reach m c) else snd (spec_reach m c).
  Definition spec_count (m : mask2) (c : pt) : nat := Z.to_nat (floorZ O (div O (spec_far m c) (spec_step m c)) + 1).
  Definition spec_projected (m : mask2) (c ang : pt) (remove_centre : bool) : list pt :=
    spec_line c ang (spec_step m c) (spec_count m c) remove_centre.
  (* squared Euclidean radius *)
  Definition norm2 (p : pt) : T := add O (sq (fst p)) (sq (snd p)).
  Definition radius (p : pt) : T := sqrtT O (norm2 p).
End Model.


(* ====================================================================== correspondence cases (exact rationals) *)
Definition tol : Q := 1 # 1000000000.
Definition ptQ := @pt QOps.
Definition peq (p q : ptQ) : bool := Qeq_bool (fst p) (fst q) && Qeq_bool (snd p) (snd q).
Definition mask2_eqb (a b : @mask2 QOps) : bool :=
  list_eqb (list_eqb Bool.eqb) (bits2 a) (bits2 b) && peq (ps2 a) (ps2 b) && peq (org2 a) (org2 b).
Definition mask1_eqb (a b : @mask1 QOps) : bool :=
  list_eqb Bool.eqb (bits1 a) (bits1 b) && Qeq_bool (ps1 a) (ps1 b) && Qeq_bool (org1 a) (org1 b).

(* how the harness built the input grid *)
Inductive gspec :=
| SMask (m : @mask2 QOps)                        (* Grid2D.from_mask(mask) *)
| S2D (m : @mask2 QOps) (cs : list ptQ)          (* Grid2D(values = slim coordinates, mask) *)
| SIrr (cs : list ptQ)                           (* Grid2DIrregular(values) *)
| S1D (m : @mask1 QOps) (xs : list Q)            (* Grid1D(values = slim x, mask) *)
| SRaw (cs : list ptQ)                           (* numpy array *)
| S1DNat (m : @mask1 QOps) (nv : list Q)         (* natively stored Grid1D: the content of its array, one entry per pixel *)
| S2DNat (m : @mask2 QOps) (nc : list ptQ).      (* natively stored Grid2D: its array flattened row-major, one (y,x) per pixel *)
Definition build (s : gspec) : @grid QOps :=
  match s with
  | SMask m => grid2d_from_mask m
  | S2D m cs => G2D m cs
  | SIrr cs => GIrr cs
  | S1D m xs => G1D m xs
  | SRaw cs => GRaw cs
  | S1DNat m nv => grid1d_of_native m nv
  | S2DNat m nc => grid2d_of_native m nc
  end.

Inductive radfun := REuclid | REllip (q : Q).
Definition rad_of (r : radfun) : @grid QOps -> list Q :=
  match r with REuclid => @euclid QOps | REllip q => @elliptic QOps q end.

(* one decorated call: which decorator(s), the profile's attributes, the user function, what the user function RECEIVED
   ([seen]) and what came back ([out]) *)
Inductive callc :=
| CMake (d : maker) (u : @ufun QOps) (seen : list ptQ) (out : res (@output QOps))
| CProject (c a : option ptQ) (remove_centre : bool) (u : @ufun QOps) (seen : list ptQ) (out : res (@output QOps))
| CRelocate (rmin : option Q) (r : radfun) (u : @ufun QOps) (seen : list ptQ) (out : res (@output QOps))
| CStack (d : maker) (rmin : option Q) (c a : ptQ) (nested : bool) (u : @ufun QOps) (seen : list ptQ) (out : res (@output QOps)).

(* a history on a few grid OBJECTS that live through it: decorated calls (any profile object, any decorator) and the
   user's own in-place edits  grid[k] = p  between them.  [post] is the content of the grid's array read back after the call. *)
Inductive hstep :=
| HCall (gi : nat) (c : callc) (post : list ptQ)
| HEdit (gi : nat) (k : nat) (p : ptQ).

Inductive case :=
| KMake (d : maker) (s : gspec) (u : @ufun QOps) (seen : list ptQ) (out : res (@output QOps))
| KProject (c a : option ptQ) (remove_centre : bool) (s : gspec) (u : @ufun QOps) (seen : list ptQ) (out : res (@output QOps))
| KRelocate (rmin : option Q) (r : radfun) (s : gspec) (u : @ufun QOps) (seen : list ptQ) (out : res (@output QOps))
| KStack (d : maker) (rmin : option Q) (c a : ptQ) (nested : bool) (s : gspec) (u : @ufun QOps)
         (seen : list ptQ) (out : res (@output QOps))
| KShape (m : @mask2 QOps) (c : ptQ) (n : Z)       (* Grid2D.grid_2d_radial_projected_shape_slim_from(centre) *)
| KHist (e : Z) (gs : list gspec) (steps : list hstep).
         (* all lengths of the case are of the order 2^e: comparisons use the tolerance 1e-9 * 2^e (2^2e for areas) *)

(* ---------------------------------------------------------------------- histories: the state is the list of grid contents;
   only the user's edits change it.  [cen] = how the coordinates of Grid2D.from_mask are obtained (the model's double loop
   for [agree], the closed form for [spec_ok]). *)
Fixpoint set_nth {A} (k : nat) (a : A) (l : list A) : list A :=
  match l, k with
  | [], _ => []
  | _ :: t, 0%nat => a :: t
  | x :: t, S k' => x :: set_nth k' a t
  end.
Definition edit (cen : @mask2 QOps -> list ptQ) (s : gspec) (k : nat) (p : ptQ) : gspec :=
  match s with
  | SMask m => S2D m (set_nth k p (cen m))
  | S2D m cs => S2D m (set_nth k p cs)
  | SIrr cs => SIrr (set_nth k p cs)
  | SRaw cs => SRaw (set_nth k p cs)
  | S1D m xs => S1D m (set_nth k (snd p) xs)
  | S1DNat m nv => S1DNat m (set_nth k (snd p) nv)
  | S2DNat m nc => S2DNat m (set_nth k p nc)
  end.
(* the content of the object's array (a 1-D grid's x values are shown as (0, x)) *)
Definition stored (cen : @mask2 QOps -> list ptQ) (s : gspec) : list ptQ :=
  match s with
  | SMask m => cen m
  | S2D _ cs | SIrr cs | SRaw cs | S2DNat _ cs => cs
  | S1D _ xs | S1DNat _ xs => map (fun x => (0, x)) xs
  end.
Fixpoint hist_ok (cen : @mask2 QOps -> list ptQ) (chk : callc -> gspec -> bool) (gs : list gspec) (l : list hstep) : bool :=
  match l with
  | [] => true
  | HCall gi c post :: t =>
      match nth_error gs gi with
      | Some s => chk c s && list_eqb peq (stored cen s) post
      | None => false
      end && hist_ok cen chk gs t
  | HEdit gi k p :: t =>
      match nth_error gs gi with
      | Some s => hist_ok cen chk (set_nth gi (edit cen s k p) gs) t
      | None => false
      end
  end.

Section Compare.
  Variable sc : Q.                                   (* the unit of length of the case *)
  Definition qnear (a b : Q) : bool := Qabs_le_tol (tol * sc) a b.
  Definition anear (a b : Q) : bool := Qabs_le_tol (tol * sc * sc) a b.          (* areas *)
  Definition pnear (p q : ptQ) : bool := qnear (fst p) (fst q) && qnear (snd p) (snd q).
  Definition vnear := list_eqb qnear.
  Definition psnear := list_eqb pnear.
  Definition res1_near (a b : @res1 QOps) : bool :=
    match a, b with
    | Vals v, Vals w => vnear v w
    | Pairs p, Pairs q => psnear p q
    | _, _ => false
    end.
  Definition cont_near (a b : @container QOps) : bool :=
    match a, b with
    | Array2D m v, Array2D m' v' => mask2_eqb m m' && vnear v v'
    | Grid2D m p, Grid2D m' p' => mask2_eqb m m' && psnear p p'
    | Vector2D m g p, Vector2D m' g' p' => mask2_eqb m m' && psnear g g' && psnear p p'
    | ArrayIrr v, ArrayIrr v' => vnear v v'
    | GridIrr p, GridIrr p' => psnear p p'
    | VectorIrr g p, VectorIrr g' p' => psnear g g' && psnear p p'
    | Array1D m v, Array1D m' v' => mask1_eqb m m' && vnear v v'
    | RawOne r, RawOne r' => res1_near r r'
    | _, _ => false
    end.
  Definition out_near (a b : @output QOps) : bool :=
    match a, b with
    | OOne c, OOne c' => cont_near c c'
    | OMany l, OMany l' => list_eqb cont_near l l'
    | _, _ => false
    end.
  Definition rout_near := res_eqb out_near.

  (* the function's argument as the model computes it; [] when the function is not reached *)
  Definition seen_of (x : res (@grid QOps)) : list ptQ := match x with Ok g => coords_of g | Raise _ => [] end.
  Definition raw_out (r : @result QOps) : res (@output QOps) :=
    match r with One r1 => Ok (OOne (RawOne r1)) | Many l => Ok (OMany (map RawOne l)) end.

  Definition agree_call (c : callc) (s : gspec) : bool :=
    match c with
    | CMake d u seen out =>
        match s with
        | S2DNat m nc => psnear nc seen && rout_near (@maker_result_native QOps d (uapply u) m nc) out
        | _ => psnear (coords_of (eval_arg (build s))) seen && rout_near (@maker_result QOps d (uapply u) (build s)) out
        end
    | CProject c a rc u seen out =>
        let o := @Build_profile QOps c a in
        psnear (seen_of (project_arg o rc (build s))) seen && rout_near (project_grid o rc (uapply u) (build s)) out
    | CRelocate rmin r u seen out =>
        psnear (seen_of (@relocate_arg QOps rmin (rad_of r) (build s))) seen
        && rout_near (@relocate QOps _ rmin (rad_of r) (fun g => bind (uapply u g) raw_out) (build s)) out
    | CStack d rmin c a nested u seen out =>
        psnear (seen_of (@stack_arg QOps rmin c a nested (build s))) seen
        && rout_near (@stack QOps d rmin c a nested (uapply u) (build s)) out
    end.

  (* -------------------------------------------------------------------- specification verdict on the implementation's
     outputs: closed-form coordinates, the mirror table, and the radial-minimum relation (squared radii, no square root).
     Never calls maker_result / project_grid / relocate / stack / grid_via_mask / projected_2d / slim_by. *)
  Definition unmasked_of {A} (bits : list bool) (v : list A) : list A :=
    map snd (filter (fun bv => negb (fst bv)) (combine bits v)).
  (* coordinate k of the input grid *)
  Definition spec_coords (s : gspec) : list ptQ :=
    match s with
    | SMask m => @spec_centres QOps m
    | S2D _ cs | SIrr cs | SRaw cs => cs
    | S1D _ xs => map (fun x => (0, x)) xs
    | S1DNat m nv => map (fun x => (0, x)) (unmasked_of (bits1 m) nv)
    | S2DNat m nc => unmasked_of (concat (bits2 m)) nc
    end.
  Definition spec_mask2 (s : gspec) : option (@mask2 QOps) :=
    match s with SMask m | S2D m _ | S2DNat m _ => Some m | _ => None end.
  Definition spec_mask1 (s : gspec) : option (@mask1 QOps) :=
    match s with S1D m _ | S1DNat m _ => Some m | _ => None end.
  Definition ucoords (seen : list ptQ) : @grid QOps := GIrr seen.
  Definition n_expected (s : gspec) : nat :=
    match s with
    | SMask m | S2D m _ | S2DNat m _ => count2 (bits2 m)
    | SIrr cs | SRaw cs => length cs
    | S1D m _ | S1DNat m _ => count1 (bits1 m)
    end.

  (* one returned container against one result of the user function: kind, mask, entry k = result k *)
  Definition mirror1 (d : maker) (s : gspec) (r : @res1 QOps) (c : @container QOps) : bool :=
    match spec_mask2 s, spec_mask1 s, s with
    | Some m, _, _ =>
        match d, r, c with
        | ToArray, Vals v, Array2D m' v' => mask2_eqb m m' && vnear v v' && Nat.eqb (length v') (count2 (bits2 m))
        | ToGrid, Pairs p, Grid2D m' p' => mask2_eqb m m' && psnear p p' && Nat.eqb (length p') (count2 (bits2 m))
        | ToVector, Pairs p, Vector2D m' g' p' =>
            mask2_eqb m m' && psnear p p' && psnear (spec_coords s) g' && Nat.eqb (length p') (count2 (bits2 m))
        | _, _, _ => false
        end
    | _, Some m, _ =>
        match d, r, c with
        | ToArray, Vals v, Array1D m' v' => mask1_eqb m m' && vnear v v'
        | ToGrid, Pairs p, Grid2D m' p' =>
            list_eqb (list_eqb Bool.eqb) (bits2 m') [bits1 m] && peq (ps2 m') (ps1 m, ps1 m) && psnear p p'
        | _, _, _ => false
        end
    | _, _, SIrr cs =>
        match d, r, c with
        | ToArray, Vals v, ArrayIrr v' => vnear v v'
        | ToGrid, Pairs p, GridIrr p' => psnear p p'
        | ToVector, Pairs p, VectorIrr g' p' => psnear p p' && psnear cs g'
        | _, _, _ => false
        end
    | _, _, SRaw _ => match c with RawOne r' => res1_near r r' | _ => false end
    | _, _, _ => false
    end.
  Definition res1_len (r : @res1 QOps) : nat := match r with Vals v => length v | Pairs p => length p end.
  (* the constructors that check the length: everything on a 2-D mask *)
  Definition checks_len (d : maker) (s : gspec) : bool :=
    match spec_mask2 s, spec_mask1 s, d with
    | Some _, _, _ => true
    | _, Some _, ToGrid => true
    | _, _, _ => false
    end.
  Definition mirror (d : maker) (s : gspec) (r : res (@result QOps)) (out : res (@output QOps)) : bool :=
    match spec_mask1 s, d with
    | Some _, ToVector => match out with Raise OtherException => true | _ => false end
    | _, _ =>
      match r with
      | Raise e => res_eqb (fun _ _ => false) (Raise e) out
      | Ok (One r1) =>
          if checks_len d s && negb (Nat.eqb (res1_len r1) (n_expected s))
          then match out with Raise _ => true | Ok _ => false end
          else match out with Ok (OOne c) => mirror1 d s r1 c | _ => false end
      | Ok (Many l) =>
          if checks_len d s && negb (forallb (fun r1 => Nat.eqb (res1_len r1) (n_expected s)) l)
          then match out with Raise _ => true | Ok _ => false end
          else match out with
               | Ok (OMany cs) => Nat.eqb (length cs) (length l) && forallb (fun rc => mirror1 d s (fst rc) (snd rc)) (combine l cs)
               | _ => false
               end
      end
    end.
  (* the function's result on a natively stored Grid2D, brought to one entry per unmasked pixel: entry k of a result of
     native shape is the entry at the k-th unmasked pixel *)
  Definition spec_deslim1 (m : @mask2 QOps) (r : @res1 QOps) : @res1 QOps :=
    match r with
    | Vals v => if Nat.eqb (length v) (length (concat (bits2 m))) then Vals (unmasked_of (concat (bits2 m)) v) else r
    | Pairs p => if Nat.eqb (length p) (length (concat (bits2 m))) then Pairs (unmasked_of (concat (bits2 m)) p) else r
    end.
  Definition spec_deslim (m : @mask2 QOps) (r : res (@result QOps)) : res (@result QOps) :=
    match r with
    | Ok (One r1) => Ok (One (spec_deslim1 m r1))
    | Ok (Many l) => Ok (Many (map (spec_deslim1 m) l))
    | Raise e => Raise e
    end.

  Definition q2 (x : Q) : Q := x * x.
  Definition nrm2 (p : ptQ) : Q := q2 (fst p) + q2 (snd p).
  (* radial-minimum relation for one coordinate [p] (in the profile frame) and what the function received [s]:
     r >= rmin : unchanged;  r < rmin : same ray (cross = 0, dot >= 0, not the origin) at radius rmin.  [r2] is the squared radius function. *)
  Definition rad2_of (r : radfun) (p : ptQ) : Q :=
    match r with REuclid => nrm2 p | REllip q => q2 (fst p) + q2 (snd p / q) end.
  Definition relocated_ok (rmin : Q) (r2 : ptQ -> Q) (p s : ptQ) : bool :=
    if Qle_bool rmin 0 || Qle_bool (q2 rmin) (r2 p) then pnear p s
    else anear (fst p * snd s - snd p * fst s) 0
         && Qle_bool 0 (fst p * fst s + snd p * snd s) && negb (Qeq_bool (nrm2 s) 0)
         && anear (r2 s) (q2 rmin).
  Definition spec_frame (c a : ptQ) (p : ptQ) : ptQ :=
    let dy := fst p - fst c in let dx := snd p - snd c in (dy * fst a - dx * snd a, dx * fst a + dy * snd a).

  Definition is_err {A} (x : res A) : bool := negb (is_ok x).

  Definition spec_ok_call (c : callc) (s : gspec) : bool :=
    match c with
    | CMake d u seen out =>
        match s with
        | S2DNat m nc => psnear nc seen && mirror d s (spec_deslim m (uapply u (ucoords seen))) out
        | _ => psnear (spec_coords s) seen && mirror d s (uapply u (ucoords seen)) out
        end
    | CProject c a rc u seen out =>
        let c0 := match c with Some c => c | None => (0, 0) end in
        let ang := match a with Some a => (- snd a, fst a) | None => (1, 0) end in      (* cos, sin of angle + 90 degrees *)
        match spec_mask2 s, spec_mask1 s, s with
        | Some m, _, _ =>
            psnear (@spec_projected QOps m c0 ang rc) seen
            && match uapply u (ucoords seen), out with
               | Ok (One (Vals v)), Ok (OOne (Array1D m1 v')) =>
                   vnear v v' && mask1_eqb m1 (@nomask1 QOps (length seen) (fst (ps2 m)))
               | _, _ => false
               end
        | _, Some m, _ =>
            let xs := map snd (spec_coords s) in
            psnear (map (fun x => (- (x * snd ang), x * fst ang)) xs) seen
            && match uapply u (ucoords seen), out with
               | Ok (One (Vals v)), Ok (OOne (Array1D m1 v')) =>
                   vnear v v' && mask1_eqb m1 (@nomask1 QOps (count1 (bits1 m)) (ps1 m))
               | _, _ => false
               end
        | _, _, SIrr cs =>
            match uapply u (ucoords seen), out with
            | Ok (One (Vals v)), Ok (OOne (ArrayIrr v')) => psnear cs seen && vnear v v'
            | Ok (One (Pairs p)), Ok (OOne (GridIrr p')) => psnear cs seen && psnear p p'
            | Ok (Many _), Raise _ => true
            | _, _ => false
            end
        | _, _, _ => is_err out
        end
    | CRelocate rmin r u seen out =>
        match rmin with
        | None => is_err out
        | Some rm =>
            let cs := spec_coords s in
            Nat.eqb (length seen) (length cs)
            && forallb (fun ps => relocated_ok rm (rad2_of r) (fst ps) (snd ps)) (combine cs seen)
            && match uapply u (ucoords seen) with
               | Ok r0 => rout_near (raw_out r0) out
               | Raise _ => false
               end
        end
    | CStack d rmin c a nested u seen out =>
        match rmin with
        | None => is_err out
        | Some rm =>
            let cs := map (spec_frame c a) (spec_coords s) in
            Nat.eqb (length seen) (length cs)
            && forallb (fun ps => relocated_ok rm nrm2 (fst ps) (snd ps)) (combine cs seen)
            && mirror d s (uapply u (ucoords seen)) out
        end
    end.
End Compare.

Definition unit_of (e : Z) : Q := if (0 <=? e)%Z then inject_Z (2 ^ e) else / inject_Z (2 ^ (- e)).

Definition agree (k : case) : bool :=
  match k with
  | KMake d s u seen out => agree_call 1 (CMake d u seen out) s
  | KProject c a rc s u seen out => agree_call 1 (CProject c a rc u seen out) s
  | KRelocate rmin r s u seen out => agree_call 1 (CRelocate rmin r u seen out) s
  | KStack d rmin c a nested s u seen out => agree_call 1 (CStack d rmin c a nested u seen out) s
  | KShape m c n => Z.eqb (@radial_shape QOps m c) n
  | KHist e gs steps => hist_ok (@grid_via_mask QOps) (agree_call (unit_of e)) gs steps
  end.

Definition spec_ok (k : case) : bool :=
  match k with
  | KMake d s u seen out => spec_ok_call 1 (CMake d u seen out) s
  | KProject c a rc s u seen out => spec_ok_call 1 (CProject c a rc u seen out) s
  | KRelocate rmin r s u seen out => spec_ok_call 1 (CRelocate rmin r u seen out) s
  | KStack d rmin c a nested s u seen out => spec_ok_call 1 (CStack d rmin c a nested u seen out) s
  | KShape m c n => Z.eqb (Z.of_nat (@spec_count QOps m c)) n
  | KHist e gs steps => hist_ok (@spec_centres QOps) (spec_ok_call (unit_of e)) gs steps
  end.

Definition check (k : case) : nat := verdict (agree k) (spec_ok k).
