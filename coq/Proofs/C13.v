(* C13 -- proofs about the model of coq/Model/C13.v at the real numbers (ROps). *)
From Coq Require Import ZArith Reals Lra Lia ZifyBool List Bool Arith Permutation.
From PAV Require Import Base.Res Base.Check Base.NumOps Base.Sum Model.C13.
Import ListNotations.
Local Open Scope R_scope.

(* ------------------------------------------------------------------ lists *)
Lemma combine_map_r {A B C} (f : B -> C) (a : list A) (b : list B) :
  combine a (map f b) = map (fun p => (fst p, f (snd p))) (combine a b).
Proof. revert b; induction a as [|x a IH]; intros [|y b]; cbn; auto. rewrite IH. reflexivity. Qed.
Lemma combine_map_l {A B C} (f : A -> C) (a : list A) (b : list B) :
  combine (map f a) b = map (fun p => (f (fst p), snd p)) (combine a b).
Proof. revert b; induction a as [|x a IH]; intros [|y b]; cbn; auto. rewrite IH. reflexivity. Qed.
Lemma combine_map_same {A B C} (f : A -> B) (g : A -> C) (l : list A) :
  combine (map f l) (map g l) = map (fun x => (f x, g x)) l.
Proof. induction l; cbn; congruence. Qed.
Lemma flat_map_map {A B C} (f : B -> list C) (g : A -> B) l : flat_map f (map g l) = flat_map (fun x => f (g x)) l.
Proof. induction l; cbn; congruence. Qed.
Lemma map_flat_map_singleton {A B} (g : A -> B) l : flat_map (fun a => [g a]) l = map g l.
Proof. induction l; cbn; congruence. Qed.
Lemma enum_map {A B} (h : A -> B) (l : list A) : enum (map h l) = map (fun ku => (fst ku, h (snd ku))) (enum l).
Proof. unfold enum. rewrite map_length. apply combine_map_r. Qed.
Lemma combine_seq_nth {A} (d : A) (l : list A) s :
  combine (seq s (length l)) l = map (fun i => (i, nth (i - s) l d)) (seq s (length l)).
Proof.
  revert s; induction l as [|x l IH]; intros s; cbn [length seq combine map]; auto.
  rewrite Nat.sub_diag. cbn [nth]. f_equal. rewrite IH. apply map_ext_in. intros i Hi.
  apply in_seq in Hi. replace (i - s)%nat with (S (i - S s)) by lia. reflexivity.
Qed.
Lemma enum_seq {A} (d : A) (l : list A) : enum l = map (fun i => (i, nth i l d)) (seq 0 (length l)).
Proof. unfold enum. rewrite (combine_seq_nth d). apply map_ext. intros i. rewrite Nat.sub_0_r. reflexivity. Qed.
Lemma map_nth_seq {A} (d : A) (l : list A) : map (fun i => nth i l d) (seq 0 (length l)) = l.
Proof.
  apply nth_ext with (d := d) (d' := d); [rewrite map_length, seq_length; reflexivity|].
  intros n Hn. rewrite map_length, seq_length in Hn.
  rewrite nth_indep with (d' := nth 0 l d) by (rewrite map_length, seq_length; exact Hn).
  rewrite (map_nth (fun i => nth i l d) (seq 0 (length l)) 0%nat n). rewrite seq_nth by exact Hn. reflexivity.
Qed.
Lemma nth_map_seq {A} (G : nat -> A) d n j : (j < n)%nat -> nth j (map G (seq 0 n)) d = G j.
Proof.
  intros H. rewrite nth_indep with (d' := G 0%nat) by (rewrite map_length, seq_length; exact H).
  rewrite (map_nth G (seq 0 n) 0%nat j), seq_nth by exact H. reflexivity.
Qed.
Lemma nth_map_in {A B} (F : A -> B) l n d d' : (n < length l)%nat -> nth n (map F l) d' = F (nth n l d).
Proof.
  intros H. rewrite nth_indep with (d' := F d) by (rewrite map_length; exact H). apply map_nth.
Qed.
Lemma rectn_length {A} n (M : list (list A)) r : rectn n M = true -> In r M -> length r = n.
Proof. unfold rectn. rewrite forallb_forall. intros H Hi. apply Nat.eqb_eq. auto. Qed.

(* ------------------------------------------------------------------ ROps reductions *)
Lemma cosm_R s : @cosm ROps s = cos (2 * PI * s).
Proof. unfold cosm. cbn. replace (2 * PI * - s) with (- (2 * PI * s)) by ring. apply cos_neg. Qed.
Lemma sinm_R s : @sinm ROps s = - sin (2 * PI * s).
Proof. unfold sinm. cbn. replace (2 * PI * - s) with (- (2 * PI * s)) by ring. apply sin_neg. Qed.
Lemma zero_R : @zero ROps = 0. Proof. reflexivity. Qed.
Lemma length_zeros n : length (@zeros ROps n) = n.
Proof. unfold zeros. apply repeat_length. Qed.

(* ------------------------------------------------------------------ hits of the loop nests *)
Lemma hits_app t a b : hits t (a ++ b) = hits t a ++ hits t b.
Proof. unfold hits. rewrite filter_app, map_app. reflexivity. Qed.
Lemma hits_flat_map {A} t (f : A -> list (nat * R)) l : hits t (flat_map f l) = flat_map (fun a => hits t (f a)) l.
Proof. induction l as [|a l IH]; cbn [flat_map]; auto. rewrite hits_app, IH. reflexivity. Qed.
Lemma hits_combine_seq {B} (h : B -> R) (l : list B) (d : B) t s :
  hits t (map (fun kb => (fst kb, h (snd kb))) (combine (seq s (length l)) l))
  = if (s <=? t)%nat && (t <? s + length l)%nat then [h (nth (t - s) l d)] else [].
Proof.
  revert s; induction l as [|x l IH]; intros s.
  - cbn [length seq combine map]. unfold hits. cbn [filter map].
    destruct ((s <=? t)%nat && (t <? s + 0)%nat) eqn:E; [lia|reflexivity].
  - cbn [length seq combine map]. unfold hits in *. cbn [filter fst snd map].
    destruct (Nat.eqb s t) eqn:E.
    + apply Nat.eqb_eq in E. subst t. cbn [map snd]. rewrite IH.
      replace ((S s <=? s)%nat) with false by (symmetry; apply Nat.leb_gt; lia). cbn [andb].
      replace ((s <=? s)%nat && (s <? s + S (length l))%nat) with true
        by (symmetry; apply andb_true_iff; split; [apply Nat.leb_le|apply Nat.ltb_lt]; lia).
      rewrite Nat.sub_diag. reflexivity.
    + apply Nat.eqb_neq in E. rewrite IH.
      destruct ((S s <=? t)%nat && (t <? S s + length l)%nat) eqn:E1;
      destruct ((s <=? t)%nat && (t <? s + S (length l))%nat) eqn:E2; try lia.
      * replace (t - s)%nat with (S (t - S s)) by lia. reflexivity.
      * reflexivity.
Qed.
Lemma hits_enum {B} (h : B -> R) (l : list B) (d : B) t :
  hits t (map (fun kb => (fst kb, h (snd kb))) (enum l)) = if (t <? length l)%nat then [h (nth t l d)] else [].
Proof.
  unfold enum. rewrite (hits_combine_seq h l d t 0). rewrite Nat.sub_0_r. cbn. reflexivity.
Qed.
Lemma Forall_flat_map {A B} (P : B -> Prop) (f : A -> list B) l :
  (forall a, In a l -> Forall P (f a)) -> Forall P (flat_map f l).
Proof.
  intros H. apply Forall_forall. intros x Hx. apply in_flat_map in Hx. destruct Hx as [a [Ha Hx]].
  specialize (H a Ha). rewrite Forall_forall in H. auto.
Qed.
Lemma enum_bound {B} (l : list B) e : In e (enum l) -> (fst e < length l)%nat.
Proof.
  unfold enum. destruct e as [i b]. intros H. apply in_combine_l in H. apply in_seq in H. cbn. lia.
Qed.
Lemma Forall_enum_map {B} (h : B -> R) (l : list B) :
  Forall (fun e : nat * R => (fst e < length l)%nat) (map (fun kb => (fst kb, h (snd kb))) (enum l)).
Proof. apply Forall_forall. intros e He. apply in_map_iff in He. destruct He as [kb [<- Hk]]. cbn. apply (enum_bound l kb Hk). Qed.

(* the generic loop nest: for a in rows: for (k, b) in enum l: out[k] += h a b *)
Lemma scatter_rows {A B} (h : A -> B -> R) (rows : list A) (l : list B) :
  @scatter ROps (flat_map (fun a => map (fun kb => (fst kb, h a (snd kb))) (enum l)) rows) (zeros (length l))
  = map (fun b => sumR (map (fun a => h a b) rows)) l.
Proof.
  destruct l as [|b0 l'] eqn:El.
  { cbn. unfold scatter. assert (E : flat_map (fun a : A => @nil (nat * R)) rows = []) by (induction rows; auto).
    cbn in *. rewrite E. reflexivity. }
  rewrite <- El. clear El l'.
  apply nth_ext with (d := 0) (d' := 0).
  - rewrite scatter_length, length_zeros, map_length. reflexivity.
  - intros n Hn. rewrite scatter_length, length_zeros in Hn.
    rewrite scatter_gather_zeros.
    + rewrite hits_flat_map.
      rewrite (nth_map_in _ l n b0 0 Hn).
      rewrite flat_map_ext with (g := fun a => [h a (nth n l b0)]).
      * rewrite map_flat_map_singleton. reflexivity.
      * intros a. rewrite (hits_enum (h a) l b0 n).
        apply Nat.ltb_lt in Hn. rewrite Hn. reflexivity.
    + apply Forall_flat_map. intros a _. apply Forall_enum_map.
Qed.

Lemma sumR_map_opp {A} (f : A -> R) l : sumR (map (fun x => - f x) l) = - sumR (map f l).
Proof. induction l; cbn; lra. Qed.

(* ------------------------------------------------------------------ visibilities_jit = the DFT formula *)
Lemma entries_dir_rows (f : R -> R) img grid uv :
  @entries_dir ROps f img grid uv
  = flat_map (fun ig : R * (R * R) => map (fun ku : nat * (R * R) => (fst ku, fst ig * f (@phase ROps (snd ig) (snd ku)))) (enum uv))
      (combine img grid).
Proof. reflexivity. Qed.
Lemma scatter_dir (f : R -> R) img grid uv :
  @scatter ROps (@entries_dir ROps f img grid uv) (zeros (length uv))
  = map (fun uvk => sumR (map (fun ig : R * (R * R) => fst ig * f (@phase ROps (snd ig) uvk)) (combine img grid))) uv.
Proof.
  rewrite entries_dir_rows.
  apply (scatter_rows (fun (ig : R * (R * R)) (uvk : R * R) => fst ig * f (@phase ROps (snd ig) uvk))).
Qed.

Lemma visibilities_formula img grid uv :
  @visibilities_jit ROps img grid uv = @dft_spec ROps img grid uv.
Proof.
  unfold visibilities_jit, dft_spec. rewrite !scatter_dir, combine_map_same.
  apply map_ext. intros uvk. rewrite !sumT_sumR. cbn [opp ROps mul cos2pi sin2pi]. f_equal.
  - apply sumR_map_ext. intros ig _. rewrite cosm_R. reflexivity.
  - rewrite <- sumR_map_opp. apply sumR_map_ext. intros ig _. rewrite sinm_R. change (T ROps) with R in *. ring.
Qed.

(* the formula, written out: V_k = sum_p I_p cos(2 pi (x_p u_k + y_p v_k)) - i sum_p I_p sin(2 pi (x_p u_k + y_p v_k)) *)
Lemma dft_spec_unfold img grid uv :
  @dft_spec ROps img grid uv
  = map (fun uvk : R * R =>
           (sumR (map (fun ig : R * (R * R) => fst ig * cos (2 * PI * (snd (snd ig) * fst uvk + fst (snd ig) * snd uvk))) (combine img grid)),
            - sumR (map (fun ig : R * (R * R) => fst ig * sin (2 * PI * (snd (snd ig) * fst uvk + fst (snd ig) * snd uvk))) (combine img grid)))) uv.
Proof. unfold dft_spec. apply map_ext. intros uvk. rewrite !sumT_sumR. reflexivity. Qed.

(* ------------------------------------------------------------------ preloaded tables *)
Lemma entries_tab_preload (f : R -> R) img grid uv :
  @entries_tab ROps img (@preload_table ROps f grid uv) = @entries_dir ROps f img grid uv.
Proof.
  unfold entries_tab, entries_dir, preload_table.
  rewrite combine_map_r, flat_map_map. apply flat_map_ext. intros ig. cbn [fst snd].
  rewrite enum_map, map_map. apply map_ext. intros ku. cbn [fst snd add mul ROps zero ofZ]. f_equal. ring.
Qed.
Lemma preload_equivalent img grid uv :
  @visibilities_via_preload ROps (length uv) img (@preload_real ROps grid uv) (@preload_imag ROps grid uv)
  = @visibilities_jit ROps img grid uv.
Proof. unfold visibilities_via_preload, preload_real, preload_imag, visibilities_jit. rewrite !entries_tab_preload. reflexivity. Qed.
Lemma preload_tables_spec grid uv :
  @preload_real ROps grid uv = @table_spec ROps (fun s => cos2pi ROps s) grid uv /\
  @preload_imag ROps grid uv = @table_spec ROps (fun s => opp ROps (sin2pi ROps s)) grid uv.
Proof.
  unfold preload_real, preload_imag, preload_table, table_spec. split; apply map_ext; intros g; apply map_ext; intros uvk.
  - rewrite cosm_R. cbn. ring.
  - rewrite sinm_R. cbn. ring.
Qed.

(* ------------------------------------------------------------------ the via-preload loops on arbitrary tables *)
Lemma flat_map_ext_in {A B} (f g : A -> list B) l : (forall a, In a l -> f a = g a) -> flat_map f l = flat_map g l.
Proof. intros H. induction l as [|a l IH]; cbn; auto. rewrite H, IH; auto with datatypes. Qed.
Lemma combine_in_r_rect {A B} n (a : list A) (M : list (list B)) p : rectn n M = true -> In p (combine a M) -> length (snd p) = n.
Proof. intros H Hp. destruct p as [x r]. apply in_combine_r in Hp. apply (rectn_length n M r H Hp). Qed.

Lemma combine_in_l_rect {A B} n (M : list (list A)) (b : list B) p : rectn n M = true -> In p (combine M b) -> length (fst p) = n.
Proof. intros H Hp. destruct p as [r x]. apply in_combine_l in Hp. apply (rectn_length n M r H Hp). Qed.

Lemma scatter_tab K (img : list R) (tab : list (list R)) : rectn K tab = true ->
  @scatter ROps (@entries_tab ROps img tab) (zeros K)
  = map (fun k => sumR (map (fun ir : R * list R => fst ir * nth k (snd ir) 0) (combine img tab))) (seq 0 K).
Proof.
  intros Hr. apply nth_ext with (d := 0) (d' := 0).
  - rewrite scatter_length, length_zeros, map_length, seq_length. reflexivity.
  - intros n Hn. rewrite scatter_length, length_zeros in Hn.
    rewrite scatter_gather_zeros.
    + rewrite nth_map_seq by exact Hn. unfold entries_tab. rewrite hits_flat_map.
      rewrite flat_map_ext_in with (g := fun ir : R * list R => [fst ir * nth n (snd ir) 0]).
      * rewrite map_flat_map_singleton. reflexivity.
      * intros ir Hir.
        pose proof (hits_enum (fun b : R => fst ir * b) (snd ir) 0 n) as E.
        rewrite (combine_in_r_rect K img tab ir Hr Hir) in E. apply Nat.ltb_lt in Hn. rewrite Hn in E. exact E.
    + unfold entries_tab. apply Forall_flat_map. intros ir Hir.
      rewrite <- (combine_in_r_rect K img tab ir Hr Hir).
      apply (Forall_enum_map (fun b : R => fst ir * b) (snd ir)).
Qed.
Lemma via_preload_tab_spec K (img : list R) (preR preI : list (list R)) : rectn K preR = true -> rectn K preI = true ->
  @visibilities_via_preload ROps K img preR preI = @tab_spec ROps K img preR preI.
Proof.
  intros HR HI. unfold visibilities_via_preload, tab_spec. rewrite !scatter_tab by assumption.
  rewrite combine_map_same. apply map_ext. intros k. rewrite !sumT_sumR. reflexivity.
Qed.

(* ------------------------------------------------------------------ image_via_jit_from = Re (A^H V) *)
Lemma fold_left_addsub {A} (p q : A -> R) l init :
  fold_left (fun acc x => acc + p x - q x) l init = init + sumR (map (fun x => p x - q x) l).
Proof. revert init; induction l as [|x l IH]; intros init; cbn; [lra|]. rewrite IH. lra. Qed.
Definition adj_term (g : R * R) (kv : (R * R) * (R * R)) : R :=
  fst (snd kv) * cos (2 * PI * @phase ROps g (fst kv)) - snd (snd kv) * sin (2 * PI * @phase ROps g (fst kv)).
Lemma image_pixel_R (uv vis : list (R * R)) (g : R * R) :
  @image_pixel ROps uv vis g = sumR (map (adj_term g) (combine uv vis)).
Proof.
  unfold image_pixel. cbn [sub add mul cos2pi sin2pi ROps].
  rewrite (fold_left_addsub (fun kv : (R * R) * (R * R) => fst (snd kv) * cos (2 * PI * @phase ROps g (fst kv)))
                            (fun kv : (R * R) * (R * R) => snd (snd kv) * sin (2 * PI * @phase ROps g (fst kv)))).
  rewrite zero_R, Rplus_0_l. reflexivity.
Qed.
Lemma adjoint_re_unfold (grid uv vis : list (R * R)) :
  @adjoint_re_spec ROps grid uv vis = map (fun g => sumR (map (adj_term g) (combine uv vis))) grid.
Proof.
  unfold adjoint_re_spec, cmatvec, ctranspose_conj, dft_matrix. rewrite !map_map.
  rewrite <- (map_nth_seq (0, 0) grid) at 2. rewrite map_map.
  apply map_ext_in. intros p Hp. apply in_seq in Hp. cbn [fst csum].
  rewrite sumT_sumR, !map_map, combine_map_l, !map_map. apply sumR_map_ext. intros kv _. cbn [fst snd].
  rewrite (nth_map_in (fun g : R * R => @dft_entry ROps g (fst kv)) grid p (0, 0)) by lia.
  unfold adj_term, cmul, cconj, dft_entry. cbn [fst snd sub mul opp cos2pi sin2pi ROps]. unfold cx in *. change (T ROps) with R in *. ring.
Qed.
Lemma image_is_adjoint (grid uv vis : list (R * R)) :
  @image_via ROps (length grid) grid uv vis = Ok (@adjoint_re_spec ROps grid uv vis).
Proof.
  unfold image_via. rewrite Nat.ltb_irrefl, firstn_all, adjoint_re_unfold. f_equal.
  apply map_ext. intros g. apply image_pixel_R.
Qed.
(* fewer pixels requested: the first n; more than there are grid rows: IndexError unless there is no baseline *)
Lemma image_via_prefix n (grid uv vis : list (R * R)) : (n <= length grid)%nat ->
  @image_via ROps n grid uv vis = Ok (@adjoint_re_spec ROps (firstn n grid) uv vis).
Proof.
  intros H. unfold image_via.
  match goal with |- context [if ?c then _ else _] => destruct c eqn:E end; [apply Nat.ltb_lt in E; change (T ROps) with R in *; lia|].
  rewrite adjoint_re_unfold. f_equal. apply map_ext. intros g. apply image_pixel_R.
Qed.
Lemma image_via_raises n (grid uv vis : list (R * R)) : (length grid < n)%nat -> uv <> [] ->
  @image_via ROps n grid uv vis = Raise IndexError.
Proof.
  intros H Hu. unfold image_via.
  match goal with |- context [if ?c then _ else _] => destruct c eqn:E end; [|apply Nat.ltb_ge in E; change (T ROps) with R in *; lia].
  destruct uv; [contradiction|reflexivity].
Qed.

(* ------------------------------------------------------------------ adjoint identity  Re <V, A I> = <Re (A^H V), I> *)
Lemma combine_swap {A B} (a : list A) (b : list B) : combine a b = map (fun p => (snd p, fst p)) (combine b a).
Proof. revert b; induction a as [|x a IH]; intros [|y b]; cbn; auto. rewrite IH. reflexivity. Qed.
Lemma sumR_scal_r {A} (f : A -> R) c l : sumR (map (fun x => f x * c) l) = sumR (map f l) * c.
Proof. induction l; cbn; [ring|]. rewrite IHl. ring. Qed.
Lemma sumR_lin2 {A} (a b : A -> R) c d l :
  sumR (map (fun x => a x * c + b x * d) l) = sumR (map a l) * c + sumR (map b l) * d.
Proof. induction l; cbn; [ring|]. rewrite IHl. ring. Qed.

Lemma adjoint_identity (img : list R) (grid uv vis : list (R * R)) :
  sumR (map (fun wv : (R * R) * (R * R) => fst (fst wv) * fst (snd wv) + snd (fst wv) * snd (snd wv))
            (combine (@dft_spec ROps img grid uv) vis))
  = sumR (map (fun xi : R * R => fst xi * snd xi) (combine (@adjoint_re_spec ROps grid uv vis) img)).
Proof.
  rewrite dft_spec_unfold, adjoint_re_unfold, !combine_map_l, !map_map. cbn [fst snd].
  (* right: sum over (g, I) of (sum_kv adj_term g kv) * I -> over (I, g), scalar inside, exchange *)
  rewrite (combine_swap grid img), map_map. cbn [fst snd].
  rewrite (sumR_map_ext (fun x : R * (R * R) => sumR (map (adj_term (snd x)) (combine uv vis)) * fst x)
                        (fun x : R * (R * R) => sumR (map (fun kv => adj_term (snd x) kv * fst x) (combine uv vis))))
    by (intros x _; symmetry; apply sumR_scal_r).
  rewrite (sumR_swap (fun (x : R * (R * R)) (kv : (R * R) * (R * R)) => adj_term (snd x) kv * fst x)).
  apply sumR_map_ext. intros kv _.
  rewrite <- sumR_map_opp.
  rewrite <- (sumR_lin2 (fun ig : R * (R * R) => fst ig * cos (2 * PI * (snd (snd ig) * fst (fst kv) + fst (snd ig) * snd (fst kv))))
                        (fun ig : R * (R * R) => - (fst ig * sin (2 * PI * (snd (snd ig) * fst (fst kv) + fst (snd ig) * snd (fst kv)))))).
  apply sumR_map_ext. intros ig _. unfold adj_term, phase. cbn [add mul ROps]. unfold cx in *. change (T ROps) with R in *. ring.
Qed.

(* ------------------------------------------------------------------ the sparsity test [value != 0] changes nothing *)
Lemma sumR_skip_zero {A} (c : A -> bool) (g : A -> R) l : (forall a, c a = true -> g a = 0) ->
  sumR (flat_map (fun a => if c a then [] else [g a]) l) = sumR (map g l).
Proof.
  intros H. induction l as [|a l IH]; cbn [flat_map map sumR]; auto.
  rewrite sumR_app, IH. destruct (c a) eqn:E; cbn [sumR]; [rewrite (H a E)|]; lra.
Qed.
Lemma scatter_tab_nz K (col : list R) (tab : list (list R)) : rectn K tab = true ->
  @scatter ROps (@entries_tab_nz ROps col tab) (zeros K)
  = map (fun k => sumR (map (fun ir : R * list R => fst ir * nth k (snd ir) 0) (combine col tab))) (seq 0 K).
Proof.
  intros Hr. apply nth_ext with (d := 0) (d' := 0).
  - rewrite scatter_length, length_zeros, map_length, seq_length. reflexivity.
  - intros n Hn. rewrite scatter_length, length_zeros in Hn.
    rewrite scatter_gather_zeros.
    + rewrite nth_map_seq by exact Hn. unfold entries_tab_nz. rewrite hits_flat_map.
      rewrite flat_map_ext_in with (g := fun ir : R * list R => if Reqb (fst ir) 0 then [] else [fst ir * nth n (snd ir) 0]).
      * apply (sumR_skip_zero (fun ir : R * list R => Reqb (fst ir) 0) (fun ir : R * list R => fst ir * nth n (snd ir) 0)).
        intros a Ha. apply Reqb_true in Ha. rewrite Ha. ring.
      * intros ir Hir. cbn [eqb ROps]. rewrite zero_R. change (T ROps) with R in *. destruct (Reqb (fst ir) 0); [reflexivity|].
        pose proof (hits_enum (fun b : R => fst ir * b) (snd ir) 0 n) as E.
        rewrite (combine_in_r_rect K col tab ir Hr Hir) in E. apply Nat.ltb_lt in Hn. rewrite Hn in E. exact E.
    + unfold entries_tab_nz. apply Forall_flat_map. intros ir Hir. cbn [eqb ROps]. change (T ROps) with R in *.
      destruct (Reqb (fst ir) (@zero ROps)); [constructor|].
      rewrite <- (combine_in_r_rect K col tab ir Hr Hir).
      apply (Forall_enum_map (fun b : R => fst ir * b) (snd ir)).
Qed.
Lemma scatter_tab_nz_same K (col : list R) (tab : list (list R)) : rectn K tab = true ->
  @scatter ROps (@entries_tab_nz ROps col tab) (zeros K) = @scatter ROps (@entries_tab ROps col tab) (zeros K).
Proof. intros H. rewrite scatter_tab_nz, scatter_tab by exact H. reflexivity. Qed.

Lemma table_spec_rect (f : R -> R) (grid uv : list (R * R)) : rectn (length uv) (@table_spec ROps f grid uv) = true.
Proof.
  unfold rectn, table_spec. apply forallb_forall. intros r Hr. apply in_map_iff in Hr. destruct Hr as [g [<- _]].
  rewrite map_length. apply Nat.eqb_refl.
Qed.
Lemma entries_dir_as_tab (f : R -> R) (img : list R) (grid uv : list (R * R)) :
  @entries_dir ROps f img grid uv = @entries_tab ROps img (@table_spec ROps f grid uv).
Proof.
  unfold entries_tab, entries_dir, table_spec.
  rewrite combine_map_r, flat_map_map. apply flat_map_ext. intros ig. cbn [fst snd].
  rewrite enum_map, map_map. reflexivity.
Qed.
Lemma entries_dir_nz_as_tab (f : R -> R) (col : list R) (grid uv : list (R * R)) :
  @entries_dir_nz ROps f col grid uv = @entries_tab_nz ROps col (@table_spec ROps f grid uv).
Proof.
  unfold entries_tab_nz, entries_dir_nz, table_spec.
  rewrite combine_map_r, flat_map_map. apply flat_map_ext. intros ig. cbn [fst snd].
  rewrite enum_map, map_map. reflexivity.
Qed.
Lemma scatter_dir_nz_same (f : R -> R) (col : list R) (grid uv : list (R * R)) :
  @scatter ROps (@entries_dir_nz ROps f col grid uv) (zeros (length uv))
  = @scatter ROps (@entries_dir ROps f col grid uv) (zeros (length uv)).
Proof. rewrite entries_dir_nz_as_tab, entries_dir_as_tab. apply scatter_tab_nz_same, table_spec_rect. Qed.

(* ------------------------------------------------------------------ column j of the transformed matrix = operator on column j *)
Lemma from_columns_column {A} (d : A) K (cols : list (list A)) j : (j < length cols)%nat -> length (nth j cols []) = K ->
  map (fun row => nth j row d) (from_columns d K cols) = nth j cols [].
Proof.
  intros Hj HK. unfold from_columns. rewrite map_map.
  transitivity (map (fun k => nth k (nth j cols []) d) (seq 0 K)).
  - apply map_ext. intros k. rewrite (nth_map_in (fun col : list A => nth k col d) cols j []) by exact Hj. reflexivity.
  - rewrite <- HK. apply map_nth_seq.
Qed.
Lemma length_visibilities_jit (img : list R) (grid uv : list (R * R)) : length (@visibilities_jit ROps img grid uv) = length uv.
Proof. rewrite visibilities_formula. unfold dft_spec. apply map_length. Qed.

Lemma from_columns_map_column {A} (d : A) K P (G : nat -> list A) j : (j < P)%nat -> length (G j) = K ->
  map (fun row => nth j row d) (from_columns d K (map G (seq 0 P))) = G j.
Proof.
  intros Hj HK. rewrite from_columns_column.
  - apply (nth_map_seq G [] P j Hj).
  - rewrite map_length, seq_length. exact Hj.
  - rewrite (nth_map_seq G [] P j Hj). exact HK.
Qed.
Lemma tmm_jit_column P (M : list (list R)) (grid uv : list (R * R)) j : (j < P)%nat ->
  map (fun row => nth j row (@czero ROps)) (@tmm_jit ROps P M grid uv) = @visibilities_jit ROps (@column ROps M j) grid uv.
Proof.
  intros Hj. unfold tmm_jit. etransitivity.
  - apply from_columns_map_column; [exact Hj|]. cbv beta.
    unfold cx. rewrite combine_length, !scatter_length, !length_zeros. apply Nat.min_id.
  - cbv beta. unfold visibilities_jit. rewrite !scatter_dir_nz_same. reflexivity.
Qed.
Lemma length_via_preload K (img : list R) (preR preI : list (list R)) : length (@visibilities_via_preload ROps K img preR preI) = K.
Proof. unfold visibilities_via_preload, cx. rewrite combine_length, !scatter_length, !length_zeros. apply Nat.min_id. Qed.
Lemma tmm_via_preload_column K P (M preR preI : list (list R)) j : (j < P)%nat -> rectn K preR = true -> rectn K preI = true ->
  map (fun row => nth j row (@czero ROps)) (@tmm_via_preload ROps K P M preR preI)
  = @visibilities_via_preload ROps K (@column ROps M j) preR preI.
Proof.
  intros Hj HR HI. unfold tmm_via_preload. etransitivity.
  - apply from_columns_map_column; [exact Hj|]. cbv beta.
    unfold cx. rewrite combine_length, !scatter_length, !length_zeros. apply Nat.min_id.
  - cbv beta. unfold visibilities_via_preload. rewrite !scatter_tab_nz_same by assumption. reflexivity.
Qed.

(* ------------------------------------------------------------------ data vector *)
Lemma scatter_gen {A B} (rowof : A -> list B) (h : A -> B -> R) (d : B) K (rows : list A) :
  (forall a, In a rows -> length (rowof a) = K) ->
  @scatter ROps (flat_map (fun a => map (fun kb => (fst kb, h a (snd kb))) (enum (rowof a))) rows) (zeros K)
  = map (fun k => sumR (map (fun a => h a (nth k (rowof a) d)) rows)) (seq 0 K).
Proof.
  intros Hr. apply nth_ext with (d := 0) (d' := 0).
  - rewrite scatter_length, length_zeros, map_length, seq_length. reflexivity.
  - intros n Hn. rewrite scatter_length, length_zeros in Hn.
    rewrite scatter_gather_zeros.
    + rewrite nth_map_seq by exact Hn. rewrite hits_flat_map.
      rewrite flat_map_ext_in with (g := fun a => [h a (nth n (rowof a) d)]).
      * rewrite map_flat_map_singleton. reflexivity.
      * intros a Ha. rewrite (hits_enum (h a) (rowof a) d n). rewrite (Hr a Ha).
        apply Nat.ltb_lt in Hn. rewrite Hn. reflexivity.
    + apply Forall_flat_map. intros a Ha. rewrite <- (Hr a Ha). apply Forall_enum_map.
Qed.
Definition dterm (v n t : R * R) : R := fst v * fst t / (fst n * fst n) + snd v * snd t / (snd n * snd n).
Lemma data_vector_spec P (TM : list (list (R * R))) (vis noise : list (R * R)) : rectn P TM = true ->
  @data_vector ROps P TM vis noise = @D_spec ROps P TM vis noise.
Proof.
  intros Hr. unfold data_vector, D_spec.
  rewrite flat_map_ext with
    (g := fun a : list (R * R) * ((R * R) * (R * R)) =>
            map (fun kb : nat * (R * R) => (fst kb, dterm (fst (snd a)) (snd (snd a)) (snd kb))) (enum (fst a)))
    by (intros [row [v n]]; reflexivity).
  rewrite (scatter_gen (fun a : list (R * R) * ((R * R) * (R * R)) => fst a)
                       (fun a t => dterm (fst (snd a)) (snd (snd a)) t) (0, 0) P).
  - apply map_ext. intros j. rewrite sumT_sumR. apply sumR_map_ext. intros [row [v n]] _. reflexivity.
  - intros a Ha. apply (combine_in_l_rect P TM _ a Hr Ha).
Qed.

(* ------------------------------------------------------------------ curvature matrix *)
Lemma nth_map_div (l : list R) c i : nth i (map (fun x => x / c) l) 0 = nth i l 0 / c.
Proof. revert i; induction l as [|x l IH]; intros [|i]; cbn; auto; unfold Rdiv; ring. Qed.
Lemma nth_map_fst (l : list (R * R)) i : nth i (map fst l) 0 = fst (nth i l (0, 0)).
Proof. revert i; induction l as [|x l IH]; intros [|i]; cbn; auto. Qed.
Lemma nth_map_snd (l : list (R * R)) i : nth i (map snd l) 0 = snd (nth i l (0, 0)).
Proof. revert i; induction l as [|x l IH]; intros [|i]; cbn; auto. Qed.
Lemma combine_map_both {A B C D} (f : A -> C) (g : B -> D) (a : list A) (b : list B) :
  combine (map f a) (map g b) = map (fun p => (f (fst p), g (snd p))) (combine a b).
Proof. revert b; induction a as [|x a IH]; intros [|y b]; cbn; auto. rewrite IH. reflexivity. Qed.

(* entry (i,j) of np.dot(array.T, array), array = M / noise[:,None] *)
Lemma curvature_via_mapping_entry P (M : list (list R)) (nz : list R) :
  @curvature_via_mapping ROps P M nz
  = map (fun i => map (fun j => sumR (map (fun rn : list R * R => (nth i (fst rn) 0 / snd rn) * (nth j (fst rn) 0 / snd rn)) (combine M nz)))
                  (seq 0 P)) (seq 0 P).
Proof.
  unfold curvature_via_mapping, gram. apply map_ext. intros i. apply map_ext. intros j.
  unfold dotv, column. rewrite sumT_sumR, !map_map, combine_map_same, map_map.
  apply sumR_map_ext. intros rn _. cbn [fst snd mul div ROps]. rewrite zero_R, !nth_map_div. reflexivity.
Qed.
Lemma madd_maps P (f g : nat -> nat -> R) :
  @madd ROps (map (fun i => map (fun j => f i j) (seq 0 P)) (seq 0 P)) (map (fun i => map (fun j => g i j) (seq 0 P)) (seq 0 P))
  = map (fun i => map (fun j => f i j + g i j) (seq 0 P)) (seq 0 P).
Proof.
  unfold madd. rewrite combine_map_same, map_map. apply map_ext. intros i. cbn [fst snd].
  rewrite combine_map_same, map_map. reflexivity.
Qed.
Definition fterm (i j : nat) (rn : list (R * R) * (R * R)) : R :=
  fst (nth i (fst rn) (0, 0)) * fst (nth j (fst rn) (0, 0)) / (fst (snd rn) * fst (snd rn))
  + snd (nth i (fst rn) (0, 0)) * snd (nth j (fst rn) (0, 0)) / (snd (snd rn) * snd (snd rn)).
Lemma noise_pos_in (noise : list (R * R)) n : @noise_pos ROps noise = true -> In n noise -> 0 < fst n /\ 0 < snd n.
Proof.
  unfold noise_pos. rewrite forallb_forall. intros H Hn. specialize (H n Hn). apply andb_true_iff in H.
  destruct H as [H1 H2]. cbn in H1, H2. apply Rltb_true in H1, H2. split; assumption.
Qed.
Lemma curvature_gram_sum P (TM : list (list (R * R))) (noise : list (R * R)) : @noise_pos ROps noise = true ->
  @madd ROps (@curvature_via_mapping ROps P (map (map fst) TM) (map fst noise))
             (@curvature_via_mapping ROps P (map (map snd) TM) (map snd noise))
  = map (fun i => map (fun j => sumR (map (fterm i j) (combine TM noise))) (seq 0 P)) (seq 0 P).
Proof.
  intros Hp. rewrite !curvature_via_mapping_entry.
  rewrite (madd_maps P
    (fun i j => sumR (map (fun rn : list R * R => (nth i (fst rn) 0 / snd rn) * (nth j (fst rn) 0 / snd rn)) (combine (map (map fst) TM) (map fst noise))))
    (fun i j => sumR (map (fun rn : list R * R => (nth i (fst rn) 0 / snd rn) * (nth j (fst rn) 0 / snd rn)) (combine (map (map snd) TM) (map snd noise))))).
  apply map_ext. intros i. apply map_ext. intros j.
  rewrite !combine_map_both, !map_map, <- sumR_map_add. apply sumR_map_ext.
  intros [row n] Hrn. cbn [fst snd]. rewrite !nth_map_fst, !nth_map_snd. unfold fterm. cbn [fst snd].
  apply in_combine_r in Hrn. destruct (noise_pos_in noise n Hp Hrn) as [H1 H2]. field. split; lra.
Qed.

(* for i in no_regularization_index_list: F[i,i] += value *)
Definition getM (F : list (list R)) (i j : nat) : R := nth j (nth i F []) 0.
Definition squareP (P : nat) (F : list (list R)) : Prop := length F = P /\ forall r, In r F -> length r = P.
Lemma In_upd_set {A} (l : list A) i v r : In r (upd_set l i v) -> r = v \/ In r l.
Proof.
  revert i; induction l as [|x l IH]; intros [|i] H; cbn in *; auto.
  - destruct H as [H|H]; auto.
  - destruct H as [H|H]; auto. destruct (IH i H); auto.
Qed.
Lemma square_row P F i : squareP P F -> (i < P)%nat -> length (nth i F []) = P.
Proof. intros [HL HR] Hi. apply HR. apply nth_In. lia. Qed.
Lemma diag_step P (F : list (list R)) i0 v : squareP P F -> (i0 < P)%nat ->
  squareP P (upd_set F i0 (@upd_add ROps (nth i0 F []) i0 v)) /\
  forall i j, getM (upd_set F i0 (@upd_add ROps (nth i0 F []) i0 v)) i j
              = getM F i j + (if (i0 =? i)%nat && (i0 =? j)%nat then v else 0).
Proof.
  intros HS Hi0. pose proof (square_row P F i0 HS Hi0) as Hrow. destruct HS as [HL HR]. split.
  - split; [rewrite upd_set_length; exact HL|].
    intros r Hr. apply In_upd_set in Hr. destruct Hr as [->|Hr]; [|apply HR; exact Hr].
    etransitivity; [apply (@upd_add_length ROps)|exact Hrow].
  - intros i j. unfold getM. rewrite nth_upd_set by lia.
    destruct (i0 =? i)%nat eqn:E; cbn [andb].
    + apply Nat.eqb_eq in E. subst i. rewrite nth_upd_add by lia. reflexivity.
    + lra.
Qed.
Lemma add_to_diag_get P idx : forall (F : list (list R)) v, squareP P F -> Forall (fun i => (i < P)%nat) idx ->
  squareP P (@add_to_diag ROps F idx v) /\
  forall i j, getM (@add_to_diag ROps F idx v) i j
              = getM F i j + (if (i =? j)%nat then IZR (Z.of_nat (count_occ Nat.eq_dec idx i)) * v else 0).
Proof.
  induction idx as [|i0 idx IH]; intros F v HS HF.
  - split; [exact HS|]. intros i j. unfold add_to_diag. cbn [fold_left count_occ Z.of_nat]. destruct (i =? j)%nat; ring.
  - inversion HF as [|? ? Hi0 HF']; subst.
    destruct (diag_step P F i0 v HS Hi0) as [HS1 HG1].
    destruct (IH _ v HS1 HF') as [HS2 HG2].
    unfold add_to_diag in *. cbn [fold_left]. split; [exact HS2|].
    intros i j. rewrite HG2, HG1. cbn [count_occ].
    destruct (Nat.eq_dec i0 i) as [->|Hne].
    + rewrite Nat.eqb_refl. cbn [andb]. destruct (i =? j)%nat eqn:E.
      * rewrite Nat2Z.inj_succ, succ_IZR. ring.
      * ring.
    + replace (i0 =? i)%nat with false by (symmetry; apply Nat.eqb_neq; exact Hne). cbn [andb]. ring.
Qed.
Lemma square_eq P (F : list (list R)) : squareP P F ->
  map (fun i => map (fun j => getM F i j) (seq 0 P)) (seq 0 P) = F.
Proof.
  intros HS. pose proof HS as [HL HR].
  etransitivity; [|apply (map_nth_seq [] F)]. rewrite HL. apply map_ext_in. intros i Hi. apply in_seq in Hi.
  etransitivity; [|apply (map_nth_seq 0 (nth i F []))]. rewrite (square_row P F i HS) by lia. reflexivity.
Qed.
Lemma square_maps P (f : nat -> nat -> R) : squareP P (map (fun i => map (fun j => f i j) (seq 0 P)) (seq 0 P)).
Proof.
  split; [rewrite map_length, seq_length; reflexivity|].
  intros r Hr. apply in_map_iff in Hr. destruct Hr as [i [<- _]]. rewrite map_length, seq_length. reflexivity.
Qed.
Lemma getM_maps P (f : nat -> nat -> R) i j : (i < P)%nat -> (j < P)%nat ->
  getM (map (fun i => map (fun j => f i j) (seq 0 P)) (seq 0 P)) i j = f i j.
Proof.
  intros Hi Hj. unfold getM. rewrite (nth_map_seq (fun i => map (fun j => f i j) (seq 0 P)) [] P i Hi).
  apply (nth_map_seq (fun j => f i j) 0 P j Hj).
Qed.

Lemma curvature_matrix_spec P (TM : list (list (R * R))) (noise : list (R * R)) (noreg : list nat) (value : R) :
  @noise_pos ROps noise = true -> Forall (fun i => (i < P)%nat) noreg ->
  @curvature_matrix ROps P TM noise noreg value = @F_spec ROps P TM noise noreg value.
Proof.
  intros Hp Hn. unfold curvature_matrix.
  assert (E : forall F : list (list R), match noreg with [] => F | _ => @add_to_diag ROps F noreg value end = @add_to_diag ROps F noreg value)
    by (intros F; destruct noreg; reflexivity).
  rewrite E, curvature_gram_sum by exact Hp. clear E.
  set (f := fun i j => sumR (map (fterm i j) (combine TM noise))).
  destruct (add_to_diag_get P noreg _ value (square_maps P f) Hn) as [HS HG].
  etransitivity; [symmetry; apply (square_eq P _ HS)|]. unfold F_spec.
  apply map_ext_in. intros i Hi. apply map_ext_in. intros j Hj. apply in_seq in Hi, Hj.
  rewrite HG, getM_maps by lia. unfold f. rewrite sumT_sumR. cbn [add ROps]. f_equal.
  apply sumR_map_ext. intros [row n] _. reflexivity.
Qed.

(* ------------------------------------------------------------------ reconstructed visibilities = T s *)
Lemma fold_left_pair {A} (p q : A -> R) l a b :
  fold_left (fun (acc : R * R) x => (fst acc + p x, snd acc + q x)) l (a, b) = (a + sumR (map p l), b + sumR (map q l)).
Proof. revert a b; induction l as [|x l IH]; intros a b; cbn [fold_left map sumR fst snd]; [f_equal; ring|]. rewrite IH. f_equal; ring. Qed.
Lemma recon_is_matvec (TM : list (list (R * R))) (s : list R) :
  @recon_visibilities ROps TM s = @recon_spec ROps TM s.
Proof.
  unfold recon_visibilities, recon_spec, cmatvec. apply map_ext. intros row.
  unfold czero. rewrite zero_R. cbn [add mul ROps].
  rewrite (fold_left_pair (fun st : R * (R * R) => fst st * fst (snd st)) (fun st : R * (R * R) => fst st * snd (snd st))).
  unfold csum. rewrite !sumT_sumR, combine_map_r, !map_map. unfold cx in *. change (T ROps) with R in *.
  rewrite (combine_swap row s), !map_map. cbn [fst snd].
  f_equal; rewrite Rplus_0_l; apply sumR_map_ext; intros st _; unfold cmul, ofre; cbn [fst snd sub add mul ROps]; rewrite zero_R;
    unfold cx in *; change (T ROps) with R in *; ring.
Qed.

(* ------------------------------------------------------------------ the grid of unmasked pixel centres *)
Lemma filter_flat_map {A B} (p : B -> bool) (f : A -> list B) l : filter p (flat_map f l) = flat_map (fun a => filter p (f a)) l.
Proof. induction l as [|a l IH]; cbn [flat_map filter]; auto. rewrite filter_app, IH. reflexivity. Qed.
Lemma map_flat_map {A B C} (g : B -> C) (f : A -> list B) l : map g (flat_map f l) = flat_map (fun a => map g (f a)) l.
Proof. induction l as [|a l IH]; cbn [flat_map map]; auto. rewrite map_app, IH. reflexivity. Qed.
Lemma row_scan {C} (Pf : nat * nat -> C) (m : mask) r l :
  map Pf (filter (fun rc : nat * nat => negb (nth (snd rc) (nth (fst rc) m []) true)) (map (fun c => (r, c)) l))
  = flat_map (fun c => if nth c (nth r m []) true then [] else [Pf (r, c)]) l.
Proof.
  induction l as [|c l IH]; cbn [map filter flat_map fst snd]; auto.
  destruct (nth c (nth r m []) true); cbn [negb map app]; rewrite IH; reflexivity.
Qed.
Lemma scan_is_filter {C} (Pf : nat * nat -> C) (m : mask) : rectn (Wn m) m = true ->
  flat_map (fun yr : nat * list bool => flat_map (fun xb : nat * bool => if (snd xb : bool) then [] else [Pf (fst yr, fst xb)]) (enum (snd yr))) (enum m)
  = map Pf (filter (fun rc : nat * nat => negb (nth (snd rc) (nth (fst rc) m []) true))
                   (flat_map (fun r => map (fun c => (r, c)) (seq 0 (Wn m))) (seq 0 (Hn m)))).
Proof.
  intros Hr. rewrite filter_flat_map, map_flat_map.
  rewrite (enum_seq [] m), flat_map_map. apply flat_map_ext_in. intros r Hin. apply in_seq in Hin. cbn [fst snd].
  rewrite row_scan. rewrite (enum_seq true (nth r m [])), flat_map_map. cbn [fst snd].
  rewrite (rectn_length (Wn m) m (nth r m []) Hr) by (apply nth_In; unfold Hn in Hin; lia). reflexivity.
Qed.
Lemma scales_ok_R sy sx : @scales_ok ROps sy sx = true -> sy <> 0 /\ sx <> 0.
Proof.
  unfold scales_ok. cbn. intros H. apply andb_true_iff in H. destruct H as [H1 H2].
  apply negb_true_iff in H1, H2. apply Reqb_false in H1, H2. split; assumption.
Qed.
Lemma grid_is_centres (pi_ : R) (G : @geom ROps) : rectn (Wn (g_mask G)) (g_mask G) = true -> @scales_ok ROps (g_sy G) (g_sx G) = true ->
  @grid_radians ROps pi_ G = @centres_spec ROps pi_ G.
Proof.
  intros Hr Hs. destruct (scales_ok_R _ _ Hs) as [Hy Hx]. unfold grid_radians, grid_slim, centres_spec.
  etransitivity.
  { apply f_equal. apply (scan_is_filter (fun rc : nat * nat =>
     (mul ROps (opp ROps (sub ROps (ofNat (fst rc)) (add ROps (div ROps (ofZ ROps (Z.of_nat (Hn (g_mask G)) - 1)) two) (div ROps (g_oy G) (g_sy G))))) (g_sy G),
      mul ROps (sub ROps (ofNat (snd rc)) (sub ROps (div ROps (ofZ ROps (Z.of_nat (Wn (g_mask G)) - 1)) two) (div ROps (g_ox G) (g_sx G)))) (g_sx G)))
     (g_mask G) Hr). }
  rewrite map_map. apply map_ext. intros [r c]. cbn [fst snd]. unfold to_rad, two, ofNat. cbn [add sub mul div opp ofZ ROps].
  f_equal; f_equal; f_equal; field; assumption.
Qed.

(* ------------------------------------------------------------------ whole transformed matrix; TransformerDFT *)
Lemma tmm_jit_spec P (M : list (list R)) (grid uv : list (R * R)) :
  @tmm_jit ROps P M grid uv = @tmm_spec ROps P M grid uv.
Proof.
  unfold tmm_jit, tmm_spec. f_equal. apply map_ext. intros j.
  rewrite !scatter_dir_nz_same. apply visibilities_formula.
Qed.
Lemma preload_table_rect (f : R -> R) (grid uv : list (R * R)) : rectn (length uv) (@preload_table ROps f grid uv) = true.
Proof.
  unfold rectn, preload_table. apply forallb_forall. intros r Hr. apply in_map_iff in Hr. destruct Hr as [g [<- _]].
  rewrite map_length. apply Nat.eqb_refl.
Qed.
Lemma tmm_preload_spec P (M : list (list R)) (grid uv : list (R * R)) :
  @tmm_via_preload ROps (length uv) P M (@preload_real ROps grid uv) (@preload_imag ROps grid uv) = @tmm_spec ROps P M grid uv.
Proof.
  unfold tmm_via_preload, tmm_spec. f_equal. apply map_ext. intros j.
  rewrite !scatter_tab_nz_same by apply preload_table_rect.
  rewrite <- visibilities_formula, <- preload_equivalent. reflexivity.
Qed.

Section Class.
  Variable pi_ : R.
  Variable G : @geom ROps.
  Hypothesis Hrect : rectn (Wn (g_mask G)) (g_mask G) = true.
  Hypothesis Hscal : @scales_ok ROps (g_sy G) (g_sx G) = true.

  Lemma tr_visibilities_spec uv preload (img : list R) :
    @tr_visibilities ROps pi_ G uv preload img = @dft_spec ROps img (@centres_spec ROps pi_ G) uv.
  Proof.
    unfold tr_visibilities. rewrite (grid_is_centres pi_ G Hrect Hscal).
    destruct preload; [rewrite preload_equivalent|]; apply visibilities_formula.
  Qed.
  Lemma tr_image_spec uv (vis : list (R * R)) :
    @tr_image ROps pi_ G uv vis = Ok (@adjoint_re_spec ROps (@centres_spec ROps pi_ G) uv vis).
  Proof. unfold tr_image. rewrite (grid_is_centres pi_ G Hrect Hscal). apply image_is_adjoint. Qed.
  Lemma tr_mapping_matrix_spec uv preload P (M : list (list R)) :
    @tr_mapping_matrix ROps pi_ G uv preload P M = @tmm_spec ROps P M (@centres_spec ROps pi_ G) uv.
  Proof.
    unfold tr_mapping_matrix. rewrite (grid_is_centres pi_ G Hrect Hscal).
    destruct preload; [apply tmm_preload_spec|apply tmm_jit_spec].
  Qed.
End Class.

(* column j of the specification matrix is the operator applied to column j *)
Lemma tmm_spec_column P (M : list (list R)) (grid uv : list (R * R)) j : (j < P)%nat ->
  map (fun row => nth j row (@czero ROps)) (@tmm_spec ROps P M grid uv) = @dft_spec ROps (@column ROps M j) grid uv.
Proof.
  intros Hj. unfold tmm_spec.
  apply (from_columns_map_column (@czero ROps) (length uv) P (fun j0 => @dft_spec ROps (@column ROps M j0) grid uv) j Hj).
  unfold dft_spec. apply map_length.
Qed.

(* ------------------------------------------------------------------ the operator as a complex matrix *)
Lemma dft_spec_operator (img : list R) (grid uv : list (R * R)) :
  @dft_spec ROps img grid uv = @cmatvec ROps (@dft_matrix ROps grid uv) (map (@ofre ROps) img).
Proof.
  unfold dft_spec, cmatvec, dft_matrix. rewrite map_map. apply map_ext. intros uvk.
  unfold csum. rewrite !sumT_sumR, combine_map_both, !map_map. unfold cx in *. change (T ROps) with R in *.
  rewrite (combine_swap grid img), !map_map. cbn [fst snd]. f_equal.
  - apply sumR_map_ext. intros ig _. unfold cmul, dft_entry, ofre. cbn [fst snd sub add mul opp cos2pi sin2pi ROps]. rewrite zero_R. ring.
  - cbn [opp ROps]. rewrite <- sumR_map_opp. apply sumR_map_ext. intros ig _.
    unfold cmul, dft_entry, ofre. cbn [fst snd sub add mul opp cos2pi sin2pi ROps]. rewrite zero_R. ring.
Qed.

(* ------------------------------------------------------------------ inversion level: hstack, index list *)
Lemma from_columns_shape {A} (d : A) K (cols : list (list A)) :
  length (from_columns d K cols) = K /\ rectn (length cols) (from_columns d K cols) = true.
Proof.
  unfold from_columns. split; [rewrite map_length, seq_length; reflexivity|].
  unfold rectn. apply forallb_forall. intros r Hr. apply in_map_iff in Hr. destruct Hr as [k [<- _]].
  rewrite map_length. apply Nat.eqb_refl.
Qed.
Lemma hstack_shape {A} K (Ms : list (nat * list (list A))) :
  (forall wM, In wM Ms -> length (snd wM) = K /\ rectn (fst wM) (snd wM) = true) ->
  length (hstack K (map snd Ms)) = K /\ rectn (fold_right (fun wM a => (fst wM + a)%nat) 0%nat Ms) (hstack K (map snd Ms)) = true.
Proof.
  induction Ms as [|[w M] Ms IH]; intros H; cbn [map hstack fold_right fst snd].
  - split; [apply repeat_length|]. unfold rectn. apply forallb_forall. intros r Hr. apply repeat_spec in Hr. subst r. reflexivity.
  - destruct (H (w, M) (or_introl eq_refl)) as [HL HR]. cbn [fst snd] in HL, HR.
    destruct (IH (fun wM Hin => H wM (or_intror Hin))) as [IL IR]. split.
    + rewrite map_length, combine_length, HL, IL. apply Nat.min_id.
    + unfold rectn. apply forallb_forall. intros r Hr. apply in_map_iff in Hr. destruct Hr as [[a b] [<- Hab]].
      cbn [fst snd]. rewrite app_length.
      rewrite (rectn_length w M a HR (in_combine_l _ _ _ _ Hab)).
      rewrite (rectn_length _ _ b IR (in_combine_r _ _ _ _ Hab)). apply Nat.eqb_refl.
Qed.
Lemma noreg_from_bound count (objs : list (nat * bool)) :
  Forall (fun i => (i < count + fold_right (fun o a => (fst o + a)%nat) 0%nat objs)%nat) (noreg_from count objs).
Proof.
  revert count; induction objs as [|[p r] objs IH]; intros count; cbn [noreg_from fold_right fst]; [constructor|].
  apply Forall_app. split.
  - destruct r; [constructor|]. apply Forall_forall. intros i Hi. apply in_seq in Hi. lia.
  - specialize (IH (count + p)%nat). eapply Forall_impl; [|exact IH]. cbn beta. intros i Hi. lia.
Qed.

Section Inversion.
  Variable pi_ : R.
  Variable G : @geom ROps.
  Hypothesis Hrect : rectn (Wn (g_mask G)) (g_mask G) = true.
  Hypothesis Hscal : @scales_ok ROps (g_sy G) (g_sx G) = true.
  Variable uv : list (R * R).
  Variable objs : list (nat * list (list R) * bool).

  (* the operator applied to every column of every linear object's mapping matrix, side by side *)
  Definition inv_matrix_spec : list (list (R * R)) :=
    hstack (length uv) (map (fun o : nat * list (list R) * bool =>
                               @tmm_spec ROps (fst (fst o)) (snd (fst o)) (@centres_spec ROps pi_ G) uv) objs).
  Lemma inv_operated_spec preload : @inv_operated ROps pi_ G uv preload objs = inv_matrix_spec.
  Proof.
    unfold inv_operated, inv_matrix_spec. f_equal. apply map_ext. intros o.
    apply (tr_mapping_matrix_spec pi_ G Hrect Hscal).
  Qed.
  Lemma inv_matrix_rect : rectn (@inv_P ROps objs) inv_matrix_spec = true.
  Proof.
    unfold inv_matrix_spec, inv_P.
    pose proof (hstack_shape (length uv)
      (map (fun o : nat * list (list R) * bool => (fst (fst o), @tmm_spec ROps (fst (fst o)) (snd (fst o)) (@centres_spec ROps pi_ G) uv)) objs)) as H.
    rewrite map_map in H. cbn [snd] in H.
    assert (E : forall l : list (nat * list (list R) * bool),
              fold_right (fun (wM : nat * list (list (R * R))) a => (fst wM + a)%nat) 0%nat
                (map (fun o : nat * list (list R) * bool => (fst (fst o), @tmm_spec ROps (fst (fst o)) (snd (fst o)) (@centres_spec ROps pi_ G) uv)) l)
              = fold_right (fun (o : nat * list (list R) * bool) a => (fst (fst o) + a)%nat) 0%nat l)
      by (induction l as [|o l IHl]; cbn [map fold_right fst]; congruence).
    rewrite E in H. apply H. intros wM Hin. apply in_map_iff in Hin. destruct Hin as [o [<- _]]. cbn [fst snd].
    unfold tmm_spec.
    destruct (from_columns_shape (@czero ROps) (length uv)
                (map (fun j => @dft_spec ROps (@column ROps (snd (fst o)) j) (@centres_spec ROps pi_ G) uv) (seq 0 (fst (fst o))))) as [HL HR].
    rewrite map_length, seq_length in HR. split; assumption.
  Qed.
  Lemma inv_noreg_bound : Forall (fun i => (i < @inv_P ROps objs)%nat) (@inv_noreg ROps objs).
  Proof.
    unfold inv_noreg, inv_P, noreg_index_list.
    pose proof (noreg_from_bound 0 (map (fun o : nat * list (list R) * bool => (fst (fst o), snd o)) objs)) as H.
    assert (E : forall l : list (nat * list (list R) * bool),
              fold_right (fun (o : nat * bool) a => (fst o + a)%nat) 0%nat (map (fun o : nat * list (list R) * bool => (fst (fst o), snd o)) l)
              = fold_right (fun (o : nat * list (list R) * bool) a => (fst (fst o) + a)%nat) 0%nat l)
      by (induction l as [|o l IHl]; cbn [map fold_right fst]; congruence).
    rewrite E in H. exact H.
  Qed.
  Lemma inv_data_vector_spec preload (data noise : list (R * R)) :
    @inv_data_vector ROps pi_ G uv preload objs data noise = @D_spec ROps (@inv_P ROps objs) inv_matrix_spec data noise.
  Proof. unfold inv_data_vector. rewrite inv_operated_spec. apply data_vector_spec, inv_matrix_rect. Qed.
  Lemma inv_curvature_spec preload (noise : list (R * R)) (value : R) : @noise_pos ROps noise = true ->
    @inv_curvature ROps pi_ G uv preload objs noise value
    = @F_spec ROps (@inv_P ROps objs) inv_matrix_spec noise (@inv_noreg ROps objs) value.
  Proof. intros Hp. unfold inv_curvature. rewrite inv_operated_spec. apply curvature_matrix_spec; [exact Hp|apply inv_noreg_bound]. Qed.
End Inversion.

(* ------------------------------------------------------------------ statements as exported by Props/C13.v (with their shape guards) *)
Lemma T_visibilities_formula (img : list R) (grid uv : list (R * R)) : length img = length grid ->
  @visibilities_jit ROps img grid uv = @dft_spec ROps img grid uv.
Proof. intros _. apply visibilities_formula. Qed.
Lemma T_preload_equivalent (img : list R) (grid uv : list (R * R)) : length img = length grid ->
  @visibilities_via_preload ROps (length uv) img (@preload_real ROps grid uv) (@preload_imag ROps grid uv)
  = @visibilities_jit ROps img grid uv.
Proof. intros _. apply preload_equivalent. Qed.
Lemma T_via_preload_any_tables K (img : list R) (preR preI : list (list R)) :
  length img = length preR -> rectn K preR = true -> rectn K preI = true -> length preI = length preR ->
  @visibilities_via_preload ROps K img preR preI = @tab_spec ROps K img preR preI.
Proof. intros _ HR HI _. apply via_preload_tab_spec; assumption. Qed.
Lemma T_image_is_real_part_of_adjoint (grid uv vis : list (R * R)) : length vis = length uv ->
  @image_via ROps (length grid) grid uv vis = Ok (@adjoint_re_spec ROps grid uv vis).
Proof. intros _. apply image_is_adjoint. Qed.
Lemma T_image_prefix n (grid uv vis : list (R * R)) : length vis = length uv -> (n <= length grid)%nat ->
  @image_via ROps n grid uv vis = Ok (@adjoint_re_spec ROps (firstn n grid) uv vis).
Proof. intros _. apply image_via_prefix. Qed.
Lemma T_adjoint_identity (img : list R) (grid uv vis : list (R * R)) : length img = length grid -> length vis = length uv ->
  sumR (map (fun wv : (R * R) * (R * R) => fst (fst wv) * fst (snd wv) + snd (fst wv) * snd (snd wv))
            (combine (@dft_spec ROps img grid uv) vis))
  = sumR (map (fun xi : R * R => fst xi * snd xi) (combine (@adjoint_re_spec ROps grid uv vis) img)).
Proof. intros _ _. apply adjoint_identity. Qed.
Lemma T_mapping_matrix_is_operator_on_columns P (M : list (list R)) (grid uv : list (R * R)) :
  length M = length grid -> rectn P M = true ->
  @tmm_jit ROps P M grid uv = @tmm_spec ROps P M grid uv /\
  @tmm_via_preload ROps (length uv) P M (@preload_real ROps grid uv) (@preload_imag ROps grid uv) = @tmm_spec ROps P M grid uv /\
  forall j, (j < P)%nat ->
    map (fun row => nth j row (@czero ROps)) (@tmm_spec ROps P M grid uv) = @dft_spec ROps (@column ROps M j) grid uv.
Proof. intros _ _. split; [apply tmm_jit_spec|]. split; [apply tmm_preload_spec|]. intros j Hj. apply tmm_spec_column, Hj. Qed.
Lemma T_mapping_matrix_via_any_tables K P (M preR preI : list (list R)) j :
  length M = length preR -> rectn P M = true -> rectn K preR = true -> rectn K preI = true -> (j < P)%nat ->
  map (fun row => nth j row (@czero ROps)) (@tmm_via_preload ROps K P M preR preI)
  = @tab_spec ROps K (@column ROps M j) preR preI.
Proof. intros _ _ HR HI Hj. rewrite tmm_via_preload_column by assumption. apply via_preload_tab_spec; assumption. Qed.
Lemma T_data_vector (P : nat) (TM : list (list (R * R))) (vis noise : list (R * R)) :
  rectn P TM = true -> length vis = length TM -> length noise = length TM -> @noise_pos ROps noise = true ->
  @data_vector ROps P TM vis noise = @D_spec ROps P TM vis noise.
Proof. intros H _ _ _. apply data_vector_spec, H. Qed.
Lemma T_curvature_matrix P (TM : list (list (R * R))) (noise : list (R * R)) (noreg : list nat) (value : R) :
  rectn P TM = true -> length noise = length TM -> @noise_pos ROps noise = true -> Forall (fun i => (i < P)%nat) noreg ->
  @curvature_matrix ROps P TM noise noreg value = @F_spec ROps P TM noise noreg value.
Proof. intros _ _. apply curvature_matrix_spec. Qed.
Lemma T_reconstructed_visibilities (TM : list (list (R * R))) (s : list R) : rectn (length s) TM = true ->
  @recon_visibilities ROps TM s = @recon_spec ROps TM s.
Proof. intros _. apply recon_is_matvec. Qed.
Lemma T_inversion pi_ (G : @geom ROps) uv preload (objs : list (nat * list (list R) * bool)) (data noise : list (R * R)) value :
  rectn (Wn (g_mask G)) (g_mask G) = true -> @scales_ok ROps (g_sy G) (g_sx G) = true ->
  @noise_pos ROps noise = true -> length data = length uv -> length noise = length uv ->
  @inv_operated ROps pi_ G uv preload objs = inv_matrix_spec pi_ G uv objs /\
  @inv_data_vector ROps pi_ G uv preload objs data noise = @D_spec ROps (@inv_P ROps objs) (inv_matrix_spec pi_ G uv objs) data noise /\
  @inv_curvature ROps pi_ G uv preload objs noise value
    = @F_spec ROps (@inv_P ROps objs) (inv_matrix_spec pi_ G uv objs) noise (@inv_noreg ROps objs) value.
Proof.
  intros Hr Hs Hp _ _. split; [apply inv_operated_spec; assumption|]. split.
  - apply inv_data_vector_spec; assumption.
  - apply inv_curvature_spec; assumption.
Qed.

(* ------------------------------------------------------------------ reconstructed visibilities per linear object; simulator *)
Lemma T_recon_dict pi_ (G : @geom ROps) uv preload (objs : list (nat * list (list R) * bool)) (s : list R) :
  rectn (Wn (g_mask G)) (g_mask G) = true -> @scales_ok ROps (g_sy G) (g_sx G) = true ->
  @inv_recon_dict ROps pi_ G uv preload objs s = @recon_dict_spec ROps (@centres_spec ROps pi_ G) uv objs s.
Proof.
  intros HG HS. unfold inv_recon_dict, recon_dict_spec. apply map_ext. intros os.
  rewrite (tr_mapping_matrix_spec pi_ G HG HS). apply recon_is_matvec.
Qed.
Lemma T_sim pi_ (G : @geom ROps) uv (img : list R) :
  rectn (Wn (g_mask G)) (g_mask G) = true -> @scales_ok ROps (g_sy G) (g_sx G) = true ->
  @sim_data ROps pi_ G uv img = @dft_spec ROps img (@centres_spec ROps pi_ G) uv.
Proof. intros HG HS. unfold sim_data. apply (tr_visibilities_spec pi_ G HG HS). Qed.


(* ---------------- histories: the outcome of every step is the pure function of the current contents ---------------- *)
Lemma t_vis_new pi_ (G : @geom ROps) uv p img : @t_vis ROps (t_new pi_ G uv p) img = @tr_visibilities ROps pi_ G uv p img.
Proof. unfold t_vis, t_new, tr_visibilities. destruct p; reflexivity. Qed.
Lemma t_image_new pi_ (G : @geom ROps) uv p vis : @t_image ROps (t_new pi_ G uv p) vis = @tr_image ROps pi_ G uv vis.
Proof. unfold t_image, t_new, tr_image. destruct p; reflexivity. Qed.
Lemma t_tmm_new pi_ (G : @geom ROps) uv p P M : @t_tmm ROps (t_new pi_ G uv p) P M = @tr_mapping_matrix ROps pi_ G uv p P M.
Proof. unfold t_tmm, t_new, tr_mapping_matrix. destruct p; reflexivity. Qed.

(* the store invariant: object i was constructed from description i (with some preload flag), on a well-formed geometry *)
Definition obj_of (pi_ : R) (t : @tobj ROps) (d : @geom ROps * list (R * R)) : Prop :=
  @geom_ok ROps (fst d) = true /\ exists p, t = @t_new ROps pi_ (fst d) (snd d) p.

Lemma geom_ok_R (G : @geom ROps) : @geom_ok ROps G = true ->
  rectn (Wn (g_mask G)) (g_mask G) = true /\ @scales_ok ROps (g_sy G) (g_sx G) = true.
Proof. unfold geom_ok. intro H. apply andb_true_iff in H. exact H. Qed.

Lemma on_obj_rel {A B} (Rel : A -> B -> Prop) (store : list A) (ds : list B) i f g :
  Forall2 Rel store ds -> (forall t d, Rel t d -> f t = g d) -> @on_obj ROps A store i f = @on_obj ROps B ds i g.
Proof.
  intros HF Hfg. unfold on_obj. revert i. induction HF as [|t d store ds Htd HF IH]; intros [|i]; cbn; auto.
Qed.

Lemma run_hist_pure pi_ steps : forall store ds, Forall2 (obj_of pi_) store ds -> @hist_geoms_ok ROps steps = true ->
  @run_hist ROps pi_ store steps = @pure_hist ROps pi_ ds steps.
Proof.
  induction steps as [|st steps IH]; intros store ds HF Hok; [reflexivity|].
  cbn [hist_geoms_ok forallb] in Hok. apply andb_true_iff in Hok. destruct Hok as [Hst Hok].
  destruct st as [G uv p|i img|i vis|i P M]; cbn [run_hist pure_hist].
  - destruct (geom_ok_R G Hst) as [Hr Hs]. f_equal.
    + f_equal. cbn [t_grid t_new]. apply grid_is_centres; assumption.
    + apply IH; [|exact Hok]. apply Forall2_app; [exact HF|]. constructor; [|constructor]. split; [exact Hst|]. exists p. reflexivity.
  - f_equal; [|apply IH; assumption].
    apply (on_obj_rel (obj_of pi_)); [exact HF|]. intros t d [Hg [p ->]]. destruct (geom_ok_R _ Hg) as [Hr Hs].
    rewrite t_vis_new. f_equal. apply tr_visibilities_spec; assumption.
  - f_equal; [|apply IH; assumption].
    apply (on_obj_rel (obj_of pi_)); [exact HF|]. intros t d [Hg [p ->]]. destruct (geom_ok_R _ Hg) as [Hr Hs].
    rewrite t_image_new. f_equal. apply tr_image_spec; assumption.
  - f_equal; [|apply IH; assumption].
    apply (on_obj_rel (obj_of pi_)); [exact HF|]. intros t d [Hg [p ->]]. destruct (geom_ok_R _ Hg) as [Hr Hs].
    rewrite t_tmm_new. f_equal. apply tr_mapping_matrix_spec; assumption.
Qed.

Theorem T_history pi_ (steps : list (@hstep ROps)) : @hist_geoms_ok ROps steps = true ->
  @run_hist ROps pi_ [] steps = @pure_hist ROps pi_ [] steps.
Proof. intro H. apply run_hist_pure; [constructor|exact H]. Qed.
