(* C09 -- Over-sampling partitions pixels uniformly and bins by exact per-pixel means; the over-sampling
   decorator returns exactly the binned result; the iterative scheme follows the per-pixel stopping rule.
   Statements only; every proof is [exact <lemma of Proofs/C09.v>].  All statements are about the executable
   model of Model/C09.v instantiated at Coq's real numbers ([ROps]); the same Gallina terms are run at exact
   rationals ([QOps]) against the Python implementation by the correspondence check.

   Hypotheses used below (all satisfied by every generated correspondence input):
     shape_okP m ss   :  length ss = number of unmasked pixels of m  /\  every sub-size >= 1
     ps_okR ps        :  both pixel scales non-zero
     thr_okR thr      :  the fractional accuracy, when set, is > 0
     level0_nonzero   :  the sub-size-1 evaluation is not identically zero (the complementary input class is
                         the known finding `level0-all-zero`, see C09_iterate_level0_all_zero_* below).        *)
From Coq Require Import Reals List Bool Arith Lra.
From PAV Require Import Base.NumOps Base.Res Base.Sum Model.C09 Proofs.C09 Model.C09h Proofs.C09h Proofs.C09t Proofs.C09u.
Import ListNotations.
Local Open Scope R_scope.

(* ---- the hypotheses, spelled out *)
Theorem C09_hyp_shape : forall m ss,
  shape_okP m ss <-> length ss = length (unmasked m) /\ Forall (fun s => (1 <= s)%nat) ss.
Proof. exact hyp_shape. Qed.
Theorem C09_hyp_scales : forall ps : R * R, ps_okR ps <-> fst ps <> 0 /\ snd ps <> 0.
Proof. exact hyp_scales. Qed.
Theorem C09_hyp_thr : forall thr, thr_okR thr <-> match thr with Some t => 0 < t | None => True end.
Proof. exact hyp_thr. Qed.
Theorem C09_hyp_level0 : forall (f : R * R -> R) m ps og,
  level0_nonzero f m ps og <-> exists p, In p (unmasked m) /\ f (@pixel_centre ROps (shape0 m) (shape1 m) ps og p) <> 0.
Proof. exact hyp_level0. Qed.
(* the boolean shape predicate evaluated by the correspondence run implies the hypothesis of the theorems *)
Theorem C09_shape_ok_bool : forall m ss, shape_ok m ss = true -> shape_okP m ss.
Proof. exact shape_ok_P. Qed.

(* ---- 1. the over-sampled grid: s_i^2 points per unmasked pixel, in slim order, rows top to bottom, columns left
        to right, each at the centre of a cell of the uniform s_i x s_i partition of the pixel *)
Theorem C09_sub_grid_formula : forall m (ps og : R * R) ss,
  shape_okP m ss -> ps_okR ps ->
  @over_sampled_grid ROps m ps og ss = @spec_grid ROps m ps og ss.
Proof. exact sub_grid_formula. Qed.
Theorem C09_pixel_centres_formula : forall m (ps og : R * R), ps_okR ps ->
  @grid_slim_via_mask ROps m ps og = @spec_centres ROps m ps og.
Proof. exact centres_formula. Qed.
Theorem C09_sub_grid_count : forall m (ps og : R * R) ss,
  shape_okP m ss -> ps_okR ps ->
  length (@over_sampled_grid ROps m ps og ss) = list_sum (map (fun s => (s * s)%nat) ss).
Proof. exact grid_count. Qed.
Theorem C09_block_has_s2_points : forall (ps c : R * R) s, length (@block ROps ps c s) = (s * s)%nat.
Proof. exact block_length. Qed.
Theorem C09_sub_centre_is_cell_midpoint : forall (ps c : R * R) s a b, (1 <= s)%nat ->
  @sub_centre ROps ps c s a b =
  ((cell_y_hi ps c s a + cell_y_hi ps c s (S a)) / 2, (cell_x_lo ps c s b + cell_x_lo ps c s (S b)) / 2).
Proof. exact sub_centre_is_cell_midpoint. Qed.
Theorem C09_cells_tile_pixel : forall (ps c : R * R) s, (1 <= s)%nat ->
  cell_y_hi ps c s 0 = fst c + fst ps / 2 /\ cell_y_hi ps c s s = fst c - fst ps / 2 /\
  cell_x_lo ps c s 0 = snd c - snd ps / 2 /\ cell_x_lo ps c s s = snd c + snd ps / 2.
Proof. exact cells_tile_pixel. Qed.
Theorem C09_slim_for_sub_slim : forall m ss, length ss = length (unmasked m) ->
  slim_for_sub_slim m ss = spec_slim_for_sub ss.
Proof. exact slim_for_sub_slim_formula. Qed.
Theorem C09_native_for_sub_slim : forall m ss, length ss = length (unmasked m) ->
  native_for_sub_slim m ss = spec_native_for_sub m ss.
Proof. exact native_for_sub_slim_formula. Qed.

(* ---- 2. binning: each pixel receives the arithmetic mean of its own s_i^2 consecutive sub-values *)
Theorem C09_bin_is_mean_of_own_subvalues : forall (arr : list R) m ss,
  shape_okP m ss -> length arr = list_sum (map (fun s => (s * s)%nat) ss) ->
  @binned ROps arr m ss = @spec_binned ROps arr ss.
Proof. exact bin_is_mean_of_own_subvalues. Qed.
Theorem C09_via_func_is_block_means : forall (f : R * R -> R) m (ps og : R * R) ss,
  shape_okP m ss -> ps_okR ps ->
  @array_via_func ROps f m ps og ss = @spec_via_func ROps f m ps og ss.
Proof. exact via_func_is_block_means. Qed.
(* affine functions of position (hence constants) are reproduced exactly at the pixel centres *)
Theorem C09_bin_reproduces_affine : forall (f : R * R -> R) m (ps og : R * R) ss,
  (exists k ay ax, forall p, f p = k + ay * fst p + ax * snd p) -> shape_okP m ss -> ps_okR ps ->
  @array_via_func ROps f m ps og ss = map f (@spec_centres ROps m ps og).
Proof. exact bin_reproduces_affine. Qed.
Theorem C09_bin_reproduces_constants : forall (k : R) m (ps og : R * R) ss,
  shape_okP m ss -> ps_okR ps ->
  @array_via_func ROps (fun _ => k) m ps og ss = repeat k (length (unmasked m)).
Proof. exact bin_reproduces_constants. Qed.
(* sub-pixel areas: s_i^2 copies of pixel_area / s_i^2 per pixel; they sum to the unmasked area *)
Theorem C09_areas_formula : forall (ps : R * R) ss,
  @sub_pixel_areas ROps ps ss = flat_map (fun s => repeat (fst ps * snd ps / INR (s * s)) (s * s)) ss.
Proof. exact areas_formula. Qed.
Theorem C09_areas_sum_to_unmasked_area : forall (ps : R * R) ss, Forall (fun s => (1 <= s)%nat) ss ->
  sumR (@sub_pixel_areas ROps ps ss) = INR (length ss) * (fst ps * snd ps).
Proof. exact areas_sum_to_unmasked_area. Qed.

(* ---- 3. the decorator: any pointwise user function f evaluated through @over_sample on the grid of the mask
        returns exactly the binned result; the plain evaluation when the sub-size is one *)
Theorem C09_decorator_uniform_int : forall (f : R * R -> R) m (ps og : R * R) s,
  (1 <= s)%nat -> ps_okR ps ->
  @decorated ROps f m ps og (@grid_slim_via_mask ROps m ps og) (@OSUniformInt ROps s)
  = Ok (@spec_via_func ROps f m ps og (repeat s (length (unmasked m)))).
Proof. exact decorator_uniform_int. Qed.
Theorem C09_decorator_uniform_map : forall (f : R * R -> R) m (ps og : R * R) ss,
  shape_okP m ss -> ps_okR ps ->
  @decorated ROps f m ps og (@grid_slim_via_mask ROps m ps og) (@OSUniformMap ROps ss)
  = Ok (@spec_via_func ROps f m ps og ss).
Proof. exact decorator_uniform_map. Qed.
Theorem C09_decorator_sub_size_one : forall (f : R * R -> R) m (ps og : R * R) (grid_values : list (R * R)),
  @decorated ROps f m ps og grid_values (@OSUniformInt ROps 1) = Ok (map f grid_values).
Proof. exact decorator_sub_size_one. Qed.
Theorem C09_decorator_sub_size_map_ones : forall (f : R * R -> R) m (ps og : R * R) (grid_values : list (R * R)) ss,
  Forall (fun s => s = 1%nat) ss -> length ss = length (unmasked m) ->
  @decorated ROps f m ps og grid_values (@OSUniformMap ROps ss) = Ok (map f grid_values).
Proof. exact decorator_sub_size_map_ones. Qed.

(* ---- 4. the iterative scheme: per pixel, the value at the first schedule entry that agrees with the previous
        level, else the value at the last entry ([spec_iterate] = [rule] applied pixel by pixel) *)
Theorem C09_iterate_per_pixel_rule : forall (f : R * R -> R) m (ps og : R * R) (thr rel : option R) steps,
  ps_okR ps -> thr_okR thr -> steps <> [] -> Forall (fun s => (1 <= s)%nat) steps -> level0_nonzero f m ps og ->
  @iterate_via_func ROps f m ps og thr rel steps = Ok (@spec_iterate ROps f m ps og thr rel steps).
Proof. exact iterate_per_pixel_rule. Qed.
Theorem C09_decorator_iterate : forall (f : R * R -> R) m (ps og : R * R) (grid_values : list (R * R)) thr rel steps,
  ps_okR ps -> thr_okR thr -> steps <> [] -> Forall (fun s => (1 <= s)%nat) steps -> level0_nonzero f m ps og ->
  @decorated ROps f m ps og grid_values (@OSIterate ROps thr rel steps) = Ok (@spec_iterate ROps f m ps og thr rel steps).
Proof. exact decorator_iterate. Qed.
(* declarative reading of the rule: agreement = ratio of the smaller to the larger value >= threshold, defined only
   for a positive previous value, and |difference| <= the absolute tolerance when that is set *)
Theorem C09_agreement_predicate : forall (thr rel : option R) (prev cur : R),
  @agrees ROps thr rel prev cur = true <->
  (forall t, thr = Some t -> 0 < prev /\ t <= Rmin prev cur / Rmax prev cur) /\
  (forall r, rel = Some r -> Rabs (prev - cur) <= r).
Proof. exact agrees_spec. Qed.
Theorem C09_rule_first_agreeing_level : forall thr rel l1 prev v l2,
  l2 <> [] -> no_agree thr rel prev l1 -> @agrees ROps thr rel (last l1 prev) v = true ->
  @rule ROps thr rel prev (l1 ++ v :: l2) = v.
Proof. exact rule_first_agreeing. Qed.
Theorem C09_rule_no_agreement_gives_last : forall thr rel l prev w,
  no_agree thr rel prev l -> @rule ROps thr rel prev (l ++ [w]) = w.
Proof. exact rule_no_agreement. Qed.

(* ---- known finding `level0-all-zero` (DESIGN D17): when f vanishes at every pixel centre the code returns the
        all-zero sub-size-1 array without iterating; the property text demands the value at the last sub-size *)
Theorem C09_iterate_level0_all_zero_shortcut : forall (f : R * R -> R) m (ps og : R * R) (thr rel : option R) steps,
  ps_okR ps -> (forall p, In p (unmasked m) -> f (@pixel_centre ROps (shape0 m) (shape1 m) ps og p) = 0) ->
  @iterate_via_func ROps f m ps og thr rel steps = Ok (map (fun _ => 0) (unmasked m)).
Proof. exact iterate_level0_all_zero_shortcut. Qed.
Theorem C09_iterate_level0_all_zero_refuted :
  exists (f : R * R -> R) m (ps og : R * R) thr rel steps,
    ps_okR ps /\ thr_okR thr /\ steps <> [] /\ Forall (fun s => (1 <= s)%nat) steps /\
    shape_okP m (repeat 1%nat (length (unmasked m))) /\
    @iterate_via_func ROps f m ps og thr rel steps <> Ok (@spec_iterate ROps f m ps og thr rel steps).
Proof. exact iterate_level0_all_zero_refuted. Qed.

(* ---- non-vacuity: concrete non-trivial inputs meeting each hypothesis set *)
Example C09_ex_shape : shape_okP ex_mask [2; 1; 3; 8]%nat.
Proof. split; [reflexivity|]. repeat constructor. Qed.
Example C09_ex_shape_bool : shape_ok ex_mask [2; 1; 3; 8]%nat = true.
Proof. reflexivity. Qed.
Example C09_ex_scales : ps_okR (1 / 2, 2).
Proof. split; cbn; lra. Qed.
Example C09_ex_arr : length (map INR (seq 0 78)) = list_sum (map (fun s => (s * s)%nat) [2; 1; 3; 8]%nat).
Proof. reflexivity. Qed.
Example C09_ex_affine : exists k ay ax, forall p : R * R, (fun p => 3 - 2 * fst p + snd p / 4) p = k + ay * fst p + ax * snd p.
Proof. exists 3, (-2), (/ 4). intros p. cbn. lra. Qed.
Example C09_ex_iterate_hyps :
  thr_okR (Some (9999 / 10000)) /\ [2; 4; 8]%nat <> [] /\ Forall (fun s => (1 <= s)%nat) [2; 4; 8]%nat /\
  level0_nonzero (fun p => 1 + fst p * fst p) ex_mask (1 / 2, 2) (1 / 4, 0).
Proof.
  split; [cbn; lra|]. split; [discriminate|]. split; [repeat constructor|].
  exists (0%nat, 0%nat). split; [left; reflexivity|]. cbn beta.
  assert (H : forall y : R, 1 + y * y <> 0) by (intros y; nra). apply H.
Qed.
Example C09_ex_ones : Forall (fun s => s = 1%nat) [1; 1; 1; 1]%nat /\ length [1; 1; 1; 1]%nat = length (unmasked ex_mask).
Proof. split; [repeat constructor|reflexivity]. Qed.
Example C09_ex_no_agree : no_agree (Some (1 / 2)) None 0 [5; 1] /\ @agrees ROps (Some (1 / 2)) None 4 5 = true.
Proof.
  assert (A : forall prev cur, 0 < prev -> 1 / 2 <= Rmin prev cur / Rmax prev cur -> @agrees ROps (Some (1 / 2)) None prev cur = true).
  { intros prev cur H1 H2. apply agrees_spec. split; [intros t E; injection E as E; subst; split; assumption|discriminate]. }
  assert (B : forall prev cur, ~ (0 < prev /\ 1 / 2 <= Rmin prev cur / Rmax prev cur) -> @agrees ROps (Some (1 / 2)) None prev cur = false).
  { intros prev cur H. destruct (@agrees ROps (Some (1 / 2)) None prev cur) eqn:E; [|reflexivity].
    apply agrees_spec in E. destruct E as [E _]. elim H. apply E. reflexivity. }
  split; [split; [|split; [|exact I]]|].
  - apply B. lra.
  - apply B. intros [_ H]. unfold Rmin, Rmax in H. destruct (Rle_dec 5 1); lra.
  - apply A; [lra|]. unfold Rmin, Rmax. destruct (Rle_dec 4 5); lra.
Qed.

(* ---- 5. HISTORIES (Model/C09h.v): the state kept between calls is transparent.
        ONE OverSamplerUniform object (cached_property over_sampled_grid / slim_for_sub_slim /
        sub_mask_native_for_sub_mask_slim; sub_pixel_areas, binning and array_via_func_from read the current sub-size
        map): every result of every history of reads, binnings, user functions and in-place edits `sub_size[i] = s`
        equals the pure function of the CURRENT contents on that step's input alone.  Hypothesis: the map is edited
        only while no cached property has been read ([edits_before_caches]). *)
Theorem C09_sampler_history_pure : forall m (ps og : R * R) ss (ops : list (@sop ROps)),
  edits_before_caches false ops = true ->
  @srun ROps (@sampler_new ROps m ps og ss) ops = @spure_run ROps m ps og ss ops.
Proof. exact (@sampler_history_pure ROps). Qed.
Theorem C09_sampler_history_no_edit : forall m (ps og : R * R) ss (ops : list (@sop ROps)),
  forallb (fun op => match op with SEdit _ _ => false | _ => true end) ops = true ->
  @srun ROps (@sampler_new ROps m ps og ss) ops = map (@spure ROps m ps og ss) ops.
Proof. exact (@sampler_history_no_edit ROps). Qed.
(* non-vacuity: a history with edits, cached reads, functions; and the hypothesis excludes an edit after a cached read *)
Example C09_history_hyp_nonvacuous :
  @edits_before_caches ROps false [@SAreas ROps; @SEdit ROps 0 2; @SBin ROps [1; 2; 3; 4]; @SEdit ROps 0 4; @SGrid ROps; @SVia ROps (fun p => fst p * snd p); @SSlim ROps; @SGrid ROps] = true /\
  @edits_before_caches ROps false [@SGrid ROps; @SEdit ROps 0 2; @SGrid ROps] = false.
Proof. split; reflexivity. Qed.
(* ONE Grid2D object (cached_property over_sampler, which itself caches its over-sampled grid): k decorated calls with
   k user functions return what k fresh grids return; no hypothesis *)
Theorem C09_grid_history_pure : forall m (ps og : R * R) vals os (fs : list (R * R -> R)),
  @grun ROps (@grid_new ROps m ps og vals os) fs = map (fun f => @decorated ROps f m ps og vals os) fs.
Proof. exact (@grid_history_pure ROps). Qed.
(* ... hence each of the k results is the closed-form specification on ITS function alone *)
Theorem C09_grid_history_uniform_map : forall m (ps og : R * R) ss (fs : list (R * R -> R)),
  shape_okP m ss -> ps_okR ps ->
  @grun ROps (@grid_new ROps m ps og (@grid_slim_via_mask ROps m ps og) (@OSUniformMap ROps ss)) fs
  = map (fun f => Ok (@spec_via_func ROps f m ps og ss)) fs.
Proof. exact grid_history_uniform_map_spec. Qed.
Theorem C09_grid_history_uniform_int : forall m (ps og : R * R) s (fs : list (R * R -> R)),
  (1 <= s)%nat -> ps_okR ps ->
  @grun ROps (@grid_new ROps m ps og (@grid_slim_via_mask ROps m ps og) (@OSUniformInt ROps s)) fs
  = map (fun f => Ok (@spec_via_func ROps f m ps og (repeat s (length (unmasked m))))) fs.
Proof. exact grid_history_uniform_int_spec. Qed.
Theorem C09_grid_history_iterate : forall m (ps og : R * R) vals thr rel steps (fs : list (R * R -> R)),
  ps_okR ps -> thr_okR thr -> steps <> [] -> Forall (fun s => (1 <= s)%nat) steps ->
  Forall (fun f => level0_nonzero f m ps og) fs ->
  @grun ROps (@grid_new ROps m ps og vals (@OSIterate ROps thr rel steps)) fs
  = map (fun f => Ok (@spec_iterate ROps f m ps og thr rel steps)) fs.
Proof. exact grid_history_iterate_spec. Qed.

(* ---- 6. integer- and bool-valued user functions / sub-values (indicator, step, count functions): binning is the EXACT
        rational mean -- (sum of the s^2 integer sub-values) / s^2, for an indicator the covered fraction -- never truncated *)
Theorem C09_integer_valued_bins_to_exact_rational_mean : forall (g : R * R -> Z) m (ps og : R * R) ss,
  shape_okP m ss -> ps_okR ps ->
  @array_via_func ROps (fun p => IZR (g p)) m ps og ss =
  map (fun cs => IZR (sumZ (map g (@block ROps ps (fst cs) (snd cs)))) / INR (snd cs * snd cs))
      (combine (@spec_centres ROps m ps og) ss).
Proof. exact integer_valued_bins_to_exact_rational_mean. Qed.
Theorem C09_indicator_bins_to_covered_fraction : forall (P : R * R -> bool) m (ps og : R * R) ss,
  shape_okP m ss -> ps_okR ps ->
  @array_via_func ROps (fun p => if P p then 1 else 0) m ps og ss =
  map (fun cs => INR (length (filter P (@block ROps ps (fst cs) (snd cs)))) / INR (snd cs * snd cs))
      (combine (@spec_centres ROps m ps og) ss).
Proof. exact indicator_bins_to_covered_fraction. Qed.
Theorem C09_bin_of_integers_is_exact_rational_mean : forall (arr : list Z) m ss,
  shape_okP m ss -> length arr = list_sum (map (fun s => (s * s)%nat) ss) ->
  @binned ROps (map IZR arr) m ss =
  map (fun blk => IZR (sumZ blk) / INR (length blk)) (chop (map (fun s => (s * s)%nat) ss) arr).
Proof. exact bin_of_integers_is_exact_rational_mean. Qed.
(* a half-covered pixel bins to 1/2, not to 0: one pixel, sub-size 2, indicator of y > 0 *)
Example C09_ex_half_covered_pixel :
  @array_via_func ROps (fun p => if Rltb 0 (fst p) then 1 else 0) [[false]] (1, 1) (0, 0) [2%nat] = [1 / 2].
Proof. exact half_covered_pixel_bins_to_half. Qed.

(* ---- 7. HELD points: the decorator on a Grid2DOverSampled evaluates f on the points the object HOLDS (shifted / deflected
        sub-points), binned by the object's over sampler: per-pixel mean of f over the pixel's own s_i^2 held points *)
Theorem C09_decorator_oversampled_grid_uses_held_points : forall (f : R * R -> R) m ss (held : list (R * R)),
  shape_okP m ss -> length held = list_sum (map (fun s => (s * s)%nat) ss) ->
  @decorated_oversampled ROps f m ss held = @spec_held ROps f ss held.
Proof. exact decorator_oversampled_grid_uses_held_points. Qed.
Theorem C09_decorator_oversampled_on_own_grid : forall (f : R * R -> R) m (ps og : R * R) ss,
  @decorated_oversampled ROps f m ss (@over_sampled_grid ROps m ps og ss) = @array_via_func ROps f m ps og ss.
Proof. exact decorator_oversampled_on_own_grid. Qed.
(* a Grid2D whose values are not the pixel centres of its mask: the binned result of the mask's sub-grid whenever over sampling
   is performed (the plain evaluation on the held values when it is not: C09_decorator_sub_size_one / _map_ones) *)
Theorem C09_decorator_uniform_map_any_values : forall (f : R * R -> R) m (ps og : R * R) (vals : list (R * R)) ss,
  shape_okP m ss -> ps_okR ps -> perform_over_sampling m (@OSUniformMap ROps ss) = true ->
  @decorated ROps f m ps og vals (@OSUniformMap ROps ss) = Ok (@spec_via_func ROps f m ps og ss).
Proof. exact decorator_uniform_map_any_values. Qed.
Theorem C09_decorator_uniform_int_any_values : forall (f : R * R -> R) m (ps og : R * R) (vals : list (R * R)) s,
  (2 <= s)%nat -> ps_okR ps ->
  @decorated ROps f m ps og vals (@OSUniformInt ROps s) = Ok (@spec_via_func ROps f m ps og (repeat s (length (unmasked m)))).
Proof. exact decorator_uniform_int_any_values. Qed.
(* one pixel, sub-size 2, f = y, held = the uniform centres shifted by +5 in y: 5 (held points), not 0 (the sampler's centres) *)
Example C09_ex_held_points_are_used :
  @decorated_oversampled ROps fst [[false]] [2%nat] [(5 + 1/4, -1/4); (5 + 1/4, 1/4); (5 - 1/4, -1/4); (5 - 1/4, 1/4)] = [5]
  /\ @array_via_func ROps fst [[false]] (1, 1) (0, 0) [2%nat] = [0].
Proof. exact held_points_are_used. Qed.
(* ONE over sampler, any history without edits of the map: the k-th step, if it is a decorated call with a Grid2DOverSampled
   holding [held], returns the per-pixel means of f over [held], whatever was read, cached or held before *)
Theorem C09_sampler_history_held_step : forall m (ps og : R * R) ss (ops : list (@sop ROps)) k held f,
  shape_okP m ss ->
  forallb (fun op => match op with SEdit _ _ => false | _ => true end) ops = true ->
  nth_error ops k = Some (@SHeld ROps held f) -> length held = list_sum (map (fun s => (s * s)%nat) ss) ->
  nth_error (@srun ROps (@sampler_new ROps m ps og ss) ops) k = Some (@RNums ROps (@spec_held ROps f ss held)).
Proof. exact sampler_history_held_step. Qed.
Example C09_ex_perform_map : perform_over_sampling ex_mask (@OSUniformMap ROps [2; 1; 3; 8]%nat) = true.
Proof. reflexivity. Qed.

Print Assumptions C09_hyp_shape.
Print Assumptions C09_hyp_scales.
Print Assumptions C09_hyp_thr.
Print Assumptions C09_hyp_level0.
Print Assumptions C09_shape_ok_bool.
Print Assumptions C09_sub_grid_formula.
Print Assumptions C09_pixel_centres_formula.
Print Assumptions C09_sub_grid_count.
Print Assumptions C09_block_has_s2_points.
Print Assumptions C09_sub_centre_is_cell_midpoint.
Print Assumptions C09_cells_tile_pixel.
Print Assumptions C09_slim_for_sub_slim.
Print Assumptions C09_native_for_sub_slim.
Print Assumptions C09_bin_is_mean_of_own_subvalues.
Print Assumptions C09_via_func_is_block_means.
Print Assumptions C09_bin_reproduces_affine.
Print Assumptions C09_bin_reproduces_constants.
Print Assumptions C09_areas_formula.
Print Assumptions C09_areas_sum_to_unmasked_area.
Print Assumptions C09_decorator_uniform_int.
Print Assumptions C09_decorator_uniform_map.
Print Assumptions C09_decorator_sub_size_one.
Print Assumptions C09_decorator_sub_size_map_ones.
Print Assumptions C09_iterate_per_pixel_rule.
Print Assumptions C09_decorator_iterate.
Print Assumptions C09_agreement_predicate.
Print Assumptions C09_rule_first_agreeing_level.
Print Assumptions C09_rule_no_agreement_gives_last.
Print Assumptions C09_iterate_level0_all_zero_shortcut.
Print Assumptions C09_iterate_level0_all_zero_refuted.
Print Assumptions C09_sampler_history_pure.
Print Assumptions C09_sampler_history_no_edit.
Print Assumptions C09_history_hyp_nonvacuous.
Print Assumptions C09_grid_history_pure.
Print Assumptions C09_grid_history_uniform_map.
Print Assumptions C09_grid_history_uniform_int.
Print Assumptions C09_grid_history_iterate.
Print Assumptions C09_integer_valued_bins_to_exact_rational_mean.
Print Assumptions C09_indicator_bins_to_covered_fraction.
Print Assumptions C09_bin_of_integers_is_exact_rational_mean.
Print Assumptions C09_ex_half_covered_pixel.
Print Assumptions C09_decorator_oversampled_grid_uses_held_points.
Print Assumptions C09_decorator_oversampled_on_own_grid.
Print Assumptions C09_decorator_uniform_map_any_values.
Print Assumptions C09_decorator_uniform_int_any_values.
Print Assumptions C09_ex_held_points_are_used.
Print Assumptions C09_sampler_history_held_step.
