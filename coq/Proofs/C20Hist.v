(* C20 -- histories on one ArrayTriangles object: in-place edits of the vertex array followed by reads. *)
From Coq Require Import ZArith List Bool Lia.
From PAV Require Import Base.Res Base.NumOps Model.C20.
Import ListNotations.

Section Edits.
  Context {O : NumOps}.
  Notation pt := (@pt O).
  Notation atri := (@atri O).

  Lemma set_nth_length (j : nat) (p : pt) (vs : list pt) : length (set_nth j p vs) = length vs.
  Proof.
    revert j. induction vs as [|q t IH]; intros j; [destruct j; reflexivity|].
    destruct j as [|j]; cbn [set_nth length]; [reflexivity|]. now rewrite IH.
  Qed.

  Lemma getv_set_nth (j : nat) (p : pt) (vs : list pt) (i : nat) :
    (j < length vs)%nat -> getv (set_nth j p vs) i = if Nat.eqb j i then p else getv vs i.
  Proof.
    unfold getv. revert j i. induction vs as [|q t IH]; intros j i Hj; [cbn [length] in Hj; lia|].
    destruct j as [|j]; cbn [set_nth].
    - destruct i as [|i]; reflexivity.
    - destruct i as [|i]; cbn [nth Nat.eqb]; [reflexivity|]. apply IH. cbn [length] in Hj. lia.
  Qed.

  Lemma a_edits_fst (A : atri) (es : list (nat * pt)) : fst (a_edits A es) = fst A.
  Proof.
    unfold a_edits. revert A. induction es as [|e r IH]; intros A; [reflexivity|].
    cbn [fold_left]. rewrite IH. reflexivity.
  Qed.

  Lemma a_edits_length (A : atri) (es : list (nat * pt)) : length (snd (a_edits A es)) = length (snd A).
  Proof.
    unfold a_edits. revert A. induction es as [|e r IH]; intros A; [reflexivity|].
    cbn [fold_left]. rewrite IH. unfold a_set_vertex. cbn [snd]. apply set_nth_length.
  Qed.

  Lemma getv_a_edits (A : atri) (es : list (nat * pt)) (i : nat) :
    edits_in_range A es = true -> getv (snd (a_edits A es)) i = slot_after (snd A) es i.
  Proof.
    unfold a_edits, edits_in_range, slot_after. revert A.
    induction es as [|e r IH]; intros A HR; [reflexivity|].
    cbn [forallb] in HR. apply andb_true_iff in HR. destruct HR as [He Hr].
    apply Nat.ltb_lt in He.
    cbn [fold_left last_write].
    rewrite (IH (a_set_vertex A e)).
    - destruct (last_write r i) as [p|]; [reflexivity|].
      unfold a_set_vertex. cbn [snd]. rewrite getv_set_nth by exact He.
      destruct (Nat.eqb (fst e) i); reflexivity.
    - unfold a_set_vertex. cbn [snd]. rewrite set_nth_length. exact Hr.
  Qed.

  (* reading after a history of in-place edits: the index rows and the number of vertices are unchanged (so the
     rows stay in range), and every corner is the LAST value written to its vertex slot, or the original row if
     the slot was never written -- a function of the current arrays only, nothing remembered from earlier reads *)
  Lemma a_edits_read (A : atri) (es : list (nat * pt)) :
    edits_in_range A es = true ->
    fst (a_edits A es) = fst A /\ length (snd (a_edits A es)) = length (snd A)
    /\ idx_in_range (a_edits A es) = idx_in_range A
    /\ a_triangles (a_edits A es)
       = map (fun r => (slot_after (snd A) es (i0 r), slot_after (snd A) es (i1 r), slot_after (snd A) es (i2 r))) (fst A).
  Proof.
    intros HR. split; [apply a_edits_fst|]. split; [apply a_edits_length|]. split.
    - unfold idx_in_range. rewrite a_edits_fst, a_edits_length. reflexivity.
    - unfold a_triangles. rewrite a_edits_fst. apply map_ext. intros r. unfold row_tri.
      rewrite !getv_a_edits by exact HR. reflexivity.
  Qed.

  (* a slot that no edit addresses keeps its row; the last edit of a slot wins *)
  Lemma slot_after_untouched (vs : list pt) (es : list (nat * pt)) (i : nat) :
    forallb (fun e : nat * pt => negb (Nat.eqb (fst e) i)) es = true -> slot_after vs es i = getv vs i.
  Proof.
    unfold slot_after. induction es as [|e r IH]; intros H; [reflexivity|].
    cbn [forallb] in H. apply andb_true_iff in H. destruct H as [He Hr]. cbn [last_write].
    specialize (IH Hr). destruct (last_write r i) as [p|] eqn:E.
    - exact IH.
    - apply negb_true_iff in He. rewrite He. reflexivity.
  Qed.
  Lemma slot_after_last (vs : list pt) (es : list (nat * pt)) (j : nat) (p : pt) :
    slot_after vs (es ++ [(j, p)]) j = p.
  Proof.
    unfold slot_after. induction es as [|e r IH].
    - cbn [app last_write fst snd]. rewrite Nat.eqb_refl. reflexivity.
    - cbn [app last_write]. destruct (last_write (r ++ [(j, p)]) j) as [q|] eqn:E; [exact IH|].
      exfalso. clear IH. induction r as [|e' r' IH']; cbn [app last_write fst snd] in E.
      + rewrite Nat.eqb_refl in E. discriminate.
      + destruct (last_write (r' ++ [(j, p)]) j); [discriminate|]. now apply IH'.
  Qed.
End Edits.
