(* C08 -- Fit statistics and evidence follow their definitions on unmasked pixels only.
   Statements only; every proof is [exact <lemma of Proofs/C08.v>].
   The [g_...] definitions (Gen/Gen_fit.v: the three likelihood / evidence composition formulas) are GENERATED from
   autoarray/fit/fit_util.py by py2v/gen_fit.py on every run; C08_generated_composition_is_model re-checks that they
   are the model's composition layer, so that C08_evidence_composition is about what fit_util.py says now.

   The statements are about the executable model of Model/C08.v (fit_util.py, fit_dataset.py,
   fit_imaging.py, evidence terms of inversion/abstract.py), which the correspondence run ties to /repo.
   [RL lnf] is the real-number instance of [NumOps] with an ARBITRARY function [lnf] in the ln slot: no
   theorem depends on a property of the logarithm.  The first, second and the matrix-reduction theorems
   hold for EVERY [NumOps] record (hence also for the rational execution device).
   Specification side (Model/C08.v, section Spec): [fit_pixels] = unmasked pixels (masked-native mode) or
   all stored values (slim mode); [s_data = data - sky], [s_residual = s_data - model],
   [s_normres = s_residual / noise], [s_chi = s_normres^2], [s_chi_squared = sum over fit_pixels of s_chi],
   [s_noise_normalization = sum over fit_pixels of ln(2 pi noise^2)],
   [s_log_likelihood = -(chi2 + norm)/2], [reg_indices] = parameters owned by a regularized object,
   [s_H] / [s_FH] = entries of H / F+H, [s_regularization_term = sum_{i,j in reg} s_i H_ij s_j],
   [s_log_evidence = -(chi2 + s^T H s + ln det (F+H)|reg - ln det H|reg + norm)/2]. *)
From Coq Require Import ZArith QArith Reals List Bool.
From PAV Require Import Base.NumOps Base.Res Gen.Gen_fit Model.C08 Proofs.C08.
Import ListNotations.

(* ---- tie to the code: the three composition formulas are GENERATED from fit_util.py; over the reals they are
        the model's composition layer and the formulas of the property text *)
Theorem C08_generated_composition_is_model : forall (lnf : R -> R) (chi reg ldc ldr nn : R),
  @g_log_likelihood_from (RL lnf) chi nn = @log_likelihood_from (RL lnf) chi nn /\
  @g_log_likelihood_with_regularization_from (RL lnf) chi reg nn = @log_likelihood_with_regularization_from (RL lnf) chi reg nn /\
  @g_log_evidence_from (RL lnf) chi reg ldc ldr nn = @log_evidence_from (RL lnf) chi reg ldc ldr nn.
Proof. exact generated_composition_is_model. Qed.
(* the generated composition formulas of fit_util.py, over the reals *)
Theorem C08_generated_composition_formulas : forall (lnf : R -> R) (chi reg ldc ldr nn : R),
  @g_log_likelihood_from (RL lnf) chi nn = (- ((chi + nn) / 2))%R /\
  @g_log_likelihood_with_regularization_from (RL lnf) chi reg nn = (- ((chi + reg + nn) / 2))%R /\
  @g_log_evidence_from (RL lnf) chi reg ldc ldr nn = (- ((chi + reg + ldc - ldr + nn) / 2))%R.
Proof. exact generated_composition_formulas. Qed.

(* ---- values carried in masked pixels never change anything (masked-native mode), for every NumOps *)
Theorem C08_masked_values_irrelevant : forall (O : NumOps) (tp : T O) (f g : fit (T O)),
  agree_on_unmasked f g ->
  same_statistics tp (mask f) f g /\
  select (mask f) (fit_residual_map f) = select (mask f) (fit_residual_map g) /\
  select (mask f) (fit_normalized_residual_map f) = select (mask f) (fit_normalized_residual_map g) /\
  select (mask f) (fit_chi_squared_map f) = select (mask f) (fit_chi_squared_map g) /\
  select (mask f) (fit_residual_flux_fraction_map f) = select (mask f) (fit_residual_flux_fraction_map g) /\
  select (mask f) (fit_signal_to_noise_map f) = select (mask f) (fit_signal_to_noise_map g).
Proof. exact @masked_values_irrelevant. Qed.

(* ---- the masked-native evaluation equals the slim evaluation of the selected values, for every NumOps *)
Theorem C08_slim_and_native_modes_agree : forall (O : NumOps) (tp : T O) (f : fit (T O)),
  use_mask f = true ->
  same_statistics tp (mask f) f (slim_of f) /\
  select (mask f) (fit_data f) = fit_data (slim_of f) /\
  select (mask f) (fit_residual_map f) = fit_residual_map (slim_of f) /\
  select (mask f) (fit_normalized_residual_map f) = fit_normalized_residual_map (slim_of f) /\
  select (mask f) (fit_chi_squared_map f) = fit_chi_squared_map (slim_of f) /\
  select (mask f) (fit_residual_flux_fraction_map f) = fit_residual_flux_fraction_map (slim_of f) /\
  select (mask f) (fit_signal_to_noise_map f) = fit_signal_to_noise_map (slim_of f).
Proof. exact @slim_and_native_modes_agree. Qed.

(* ---- the three chi-squared code paths of fit_util.py (fast, via the masked maps, plain on the selected
        values) coincide, for every NumOps and without any shape hypothesis *)
Theorem C08_chi_squared_paths_agree : forall (O : NumOps) (d : list (T O)) (mk : list bool) (m n : list (T O)),
  let via_maps := chi_squared_with_mask_from
                    (chi_squared_map_with_mask_from (residual_map_with_mask_from d mk m) n mk) mk in
  chi_squared_with_mask_fast_from d mk m n = via_maps /\
  chi_squared_from (chi_squared_map_from (residual_map_from (select mk d) (select mk m)) (select mk n)) = via_maps.
Proof. exact @chi_squared_paths_agree. Qed.

(* ---- element-wise maps: definition in fitted pixels, 0 in excluded (masked, native mode) pixels *)
Theorem C08_maps_follow_definitions : forall (lnf : R -> R) (f : fit (T (RL lnf))),
  fit_okb f = true -> noise_positiveb f = true ->
  fit_data f = map (s_data f) (seq 0 (length (data f))) /\
  fit_residual_map f = per_pixel f (s_residual f) /\
  fit_normalized_residual_map f = per_pixel f (s_normres f) /\
  fit_chi_squared_map f = per_pixel f (s_chi f).
Proof. exact maps_follow_definitions. Qed.

(* ---- chi-squared, noise normalization, log likelihood: sums over the fitted pixels only;
        reduced chi-squared divides by their number (Python raises when there is none) *)
Theorem C08_statistics_follow_definitions : forall (lnf : R -> R) (tp : T (RL lnf)) (f : fit (T (RL lnf))),
  fit_okb f = true -> noise_positiveb f = true ->
  fit_chi_squared f = s_chi_squared f /\
  fit_noise_normalization tp f = s_noise_normalization tp f /\
  fit_log_likelihood tp f = s_log_likelihood tp f /\
  fit_reduced_chi_squared f = (if Nat.eqb (length (fit_pixels f)) 0 then Raise OtherException
                               else Ok (s_chi_squared f / INR (length (fit_pixels f)))%R).
Proof. exact statistics_follow_definitions. Qed.

(* ---- derived maps *)
Theorem C08_residual_flux_fraction_definition : forall (lnf : R -> R) (f : fit (T (RL lnf))),
  fit_okb f = true ->
  length (fit_residual_flux_fraction_map f) = length (data f) /\
  forall i, (i < length (data f))%nat ->
    nth i (fit_residual_flux_fraction_map f) None =
    if excluded f i then Some 0%R else if Reqb (s_data f i) 0 then None else Some (s_residual f i / s_data f i)%R.
Proof. exact residual_flux_fraction_definition. Qed.
Theorem C08_signal_to_noise_definition : forall (lnf : R -> R) (f : fit (T (RL lnf))),
  fit_okb f = true ->
  length (fit_signal_to_noise_map f) = length (data f) /\
  forall i, (i < length (data f))%nat -> (0 < at_ (noise f) i)%R ->
    nth i (fit_signal_to_noise_map f) None =
    Some (if Rltb (s_data f i) 0 then 0%R else (s_data f i / at_ (noise f) i)%R).
Proof. exact signal_to_noise_definition. Qed.

(* ---- inversion side: the reduced matrices / vector are the restrictions to the regularized parameters
        (np.delete on both axes = principal submatrix), for every NumOps *)
Theorem C08_reduced_matrices_are_principal_submatrices : forall (O : NumOps) (iv : inv (T O)),
  inv_okb iv = true ->
  regularization_matrix_reduced iv = tabulate (s_H iv) (reg_indices (objs iv)) /\
  curvature_reg_matrix_reduced iv = tabulate (s_FH iv) (reg_indices (objs iv)) /\
  reconstruction_reduced iv = map (at_ (recon iv)) (reg_indices (objs iv)).
Proof. exact @reduced_matrices_are_principal_submatrices. Qed.
Theorem C08_no_regularization_index_list : forall os i,
  In i (no_regularization_index_list os) <-> (i < n_params os)%nat /\ regd_at os i = false.
Proof. exact noreg_spec. Qed.
(* both log-determinants are those of the restricted matrices (0 when nothing is regularized) *)
Theorem C08_log_det_terms_are_restricted : forall (O : NumOps) (iv : inv (T O)),
  inv_okb iv = true ->
  log_det_curvature_reg_matrix_term iv = (if has_reg (objs iv) then s_logdet_FH iv else zero) /\
  log_det_regularization_matrix_term iv = (if has_reg (objs iv) then s_logdet_H iv else zero).
Proof. exact @log_det_terms_are_restricted. Qed.
Theorem C08_regularization_term_definition : forall (lnf : R -> R) (iv : inv (T (RL lnf))),
  inv_okb iv = true -> regularization_term iv = s_regularization_term iv.
Proof. exact regularization_term_is_spec. Qed.
Theorem C08_regularization_term_ignores_unregularized : forall (lnf : R -> R) (iv iv' : inv (T (RL lnf))),
  inv_okb iv = true -> inv_okb iv' = true -> objs iv = objs iv' -> blocks iv = blocks iv' ->
  (forall i, In i (reg_indices (objs iv)) -> at_ (recon iv) i = at_ (recon iv') i) ->
  regularization_term iv = regularization_term iv'.
Proof. exact regularization_term_ignores_unregularized. Qed.

(* ---- evidence = -(chi2 + s^T H s + ln det(F+H)|reg - ln det H|reg + normalization)/2 *)
Theorem C08_evidence_composition : forall (lnf : R -> R) (tp : T (RL lnf)) (f : fit (T (RL lnf))) (iv : inv (T (RL lnf))),
  fit_okb f = true -> noise_positiveb f = true -> inversion f = Some iv -> inv_okb iv = true ->
  fit_log_evidence tp f = Some (s_log_evidence tp f iv) /\
  fit_log_likelihood_with_regularization tp f = Some (s_log_likelihood_with_regularization tp f iv).
Proof. exact evidence_composition. Qed.

(* ---- figure of merit: the evidence with an inversion, the likelihood without *)
Theorem C08_figure_of_merit_selection : forall (O : NumOps) (tp : T O) (f : fit (T O)),
  fit_figure_of_merit tp f = if inversion f then fit_log_evidence tp f else Some (fit_log_likelihood tp f).
Proof. exact @figure_of_merit_selection. Qed.
Theorem C08_evidence_present_iff_inversion : forall (O : NumOps) (tp : T O) (f : fit (T O)),
  (fit_log_evidence tp f = None <-> inversion f = None) /\
  (fit_log_likelihood_with_regularization tp f = None <-> inversion f = None).
Proof. exact @evidence_present_iff_inversion. Qed.
Theorem C08_figure_of_merit_definition : forall (lnf : R -> R) (tp : T (RL lnf)) (f : fit (T (RL lnf))),
  fit_okb f = true -> noise_positiveb f = true -> fit_inv_okb f = true ->
  fit_figure_of_merit tp f =
  Some (match inversion f with Some iv => s_log_evidence tp f iv | None => s_log_likelihood tp f end).
Proof. exact figure_of_merit_definition. Qed.

(* ---- non-vacuity: concrete inputs meeting the hypotheses (Proofs/C08.v, section Examples) *)
(* a masked-native 2 x 2 fit with a sky offset, one masked pixel and a partially regularized inversion *)
Example C08_hyps_satisfiable_R :
  let f := ex_fit (RL ln) 99%R 0%R 1000%R in
  fit_okb f = true /\ noise_positiveb f = true /\ fit_inv_okb f = true /\
  inversion f = Some (ex_inv (RL ln)) /\ inv_okb (ex_inv (RL ln)) = true /\
  fit_pixels f = [0; 2; 3]%nat /\ excluded f 1 = true /\
  has_reg (objs (ex_inv (RL ln))) = true /\ all_have_reg (objs (ex_inv (RL ln))) = false /\
  reg_indices (objs (ex_inv (RL ln))) = [0; 2; 3]%nat.
Proof. exact ex_hyps_R. Qed.
(* two fits differing only in the masked pixel (and there in data, noise and model) *)
Example C08_hyps_satisfiable_masked :
  agree_on_unmasked (ex_fit QOps (99#1)%Q (0#1)%Q (1000#1)%Q) (ex_fit QOps (-7#1)%Q (1#2)%Q (3#1)%Q) /\
  ex_fit QOps (99#1)%Q (0#1)%Q (1000#1)%Q <> ex_fit QOps (-7#1)%Q (1#2)%Q (3#1)%Q.
Proof. exact ex_hyps_masked. Qed.
(* two inversions with the same objects and regularization, differing in the curvature matrix and in the
   reconstruction value at the unregularized parameter *)
Example C08_hyps_satisfiable_unregularized :
  inv_okb (ex_inv (RL ln)) = true /\ inv_okb (ex_inv2 (RL ln)) = true /\
  objs (ex_inv (RL ln)) = objs (ex_inv2 (RL ln)) /\ blocks (ex_inv (RL ln)) = blocks (ex_inv2 (RL ln)) /\
  (forall i, In i (reg_indices (objs (ex_inv (RL ln)))) -> at_ (recon (ex_inv (RL ln))) i = at_ (recon (ex_inv2 (RL ln))) i) /\
  recon (ex_inv (RL ln)) <> recon (ex_inv2 (RL ln)).
Proof. exact ex_hyps_inv2. Qed.
(* the values the model computes on that input (rational execution): chi2 = 1/4 + 9 + 1 = 41/4,
   s^T H s over parameters {0, 2, 3} = 2 + (8 + 12 + 18) = 40, reduced matrices 3 x 3 *)
Example C08_example_values :
  @fit_chi_squared QOps (ex_fit QOps (99#1)%Q (0#1)%Q (1000#1)%Q) = (41 # 4)%Q /\
  @regularization_term QOps (ex_inv QOps) = (40 # 1)%Q /\ @regularization_term QOps (ex_inv2 QOps) = (40 # 1)%Q /\
  @regularization_matrix_reduced QOps (ex_inv QOps) = [[2#1; 0#1; 0#1]; [0#1; 2#1; (-1)#1]; [0#1; (-1)#1; 2#1]]%Q /\
  @curvature_reg_matrix_reduced QOps (ex_inv QOps) = [[6#1; 0#1; 1#1]; [0#1; 7#1; 1#1]; [1#1; 1#1; 8#1]]%Q /\
  @fit_residual_map QOps (ex_fit QOps (99#1)%Q (0#1)%Q (1000#1)%Q) = [1#1; 0#1; (-3)#1; 4#1]%Q.
Proof. vm_compute. repeat split. Qed.

Print Assumptions C08_generated_composition_is_model. Print Assumptions C08_generated_composition_formulas.
Print Assumptions C08_masked_values_irrelevant. Print Assumptions C08_slim_and_native_modes_agree.
Print Assumptions C08_chi_squared_paths_agree. Print Assumptions C08_maps_follow_definitions. Print Assumptions C08_statistics_follow_definitions.
Print Assumptions C08_residual_flux_fraction_definition. Print Assumptions C08_signal_to_noise_definition.
Print Assumptions C08_reduced_matrices_are_principal_submatrices. Print Assumptions C08_no_regularization_index_list.
Print Assumptions C08_log_det_terms_are_restricted. Print Assumptions C08_regularization_term_definition.
Print Assumptions C08_regularization_term_ignores_unregularized. Print Assumptions C08_evidence_composition.
Print Assumptions C08_figure_of_merit_selection. Print Assumptions C08_evidence_present_iff_inversion.
Print Assumptions C08_figure_of_merit_definition.
