(* C02 -- the code's trigonometric elliptical radius and elliptical mask loops (generated over R only: Gen_geometry.v,
   elliptical_radius_from / mask_2d_elliptical_from / mask_2d_elliptical_annular_from) equal the executable
   (cos, sin)-pair model of Model/C02x.v, hence the specification *)
From Coq Require Import ZArith Reals Lra Lia List Bool Psatz.
From PAV Require Import Base.NumOps Gen.Gen_geometry Model.C02 Model.C02x Proofs.C02.
Import ListNotations.
Local Open Scope R_scope.

Lemma sqrt_1_t2_pos t : 0 < sqrt (1 + t²).
Proof. apply sqrt_lt_R0. unfold Rsqr. nra. Qed.

Lemma hyp_factor x y : x <> 0 -> sqrt (x * x + y * y) = Rabs x * sqrt (1 + (y / x)²).
Proof.
  intros Hx. replace (x * x + y * y) with (x² * (1 + (y / x)²)) by (unfold Rsqr; field; assumption).
  rewrite sqrt_mult_alt by apply Rle_0_sqr. rewrite sqrt_Rsqr_abs. reflexivity.
Qed.

(* polar form: r cos(arctan2(y, x)) = x and r sin(arctan2(y, x)) = y, with r = sqrt(x^2 + y^2) *)
Lemma polar y x : let r := sqrt (x * x + y * y) in
  r * cos (atan2R y x) = x /\ r * sin (atan2R y x) = y.
Proof.
  intros r. unfold atan2R.
  destruct (Rlt_dec 0 x) as [Hp|Hnp].
  - unfold r. rewrite hyp_factor by lra. rewrite Rabs_pos_eq by lra. rewrite cos_atan, sin_atan.
    pose proof (sqrt_1_t2_pos (y / x)) as Hs. split; field; lra.
  - destruct (Rlt_dec x 0) as [Hn|Hnn].
    + assert (Er : r = - x * sqrt (1 + (y / x)²)).
      { unfold r. rewrite hyp_factor by lra. rewrite Rabs_left by lra. reflexivity. }
      pose proof (sqrt_1_t2_pos (y / x)) as Hs.
      destruct (Rle_dec 0 y) as [Hy|Hy].
      * rewrite neg_cos, neg_sin, cos_atan, sin_atan, Er. split; field; lra.
      * unfold Rminus. rewrite cos_plus, sin_plus, cos_neg, sin_neg, cos_PI, sin_PI, cos_atan, sin_atan, Er. split; field; lra.
    + assert (Ex : x = 0) by lra. subst x.
      assert (Er : r = Rabs y).
      { unfold r. replace (0 * 0 + y * y) with (y²) by (unfold Rsqr; ring). apply sqrt_Rsqr_abs. }
      destruct (Rlt_dec 0 y) as [Hy|Hy].
      * rewrite cos_PI2, sin_PI2, Er, Rabs_pos_eq by lra. split; ring.
      * destruct (Rlt_dec y 0) as [Hy'|Hy'].
        -- rewrite cos_neg, sin_neg, cos_PI2, sin_PI2, Er, Rabs_left by lra. split; ring.
        -- assert (Ey : y = 0) by lra. subst y. rewrite Er, Rabs_R0. split; ring.
Qed.

(* the generated trigonometric radius = the executable (cos, sin)-pair form, whatever the algebraic form of the code's sums *)
Lemma elliptical_radius_R_is_cs y x angle q :
  elliptical_radius_from y x angle q =
  @elliptical_radius_from_cs ROps y x (cos (radiansR angle), sin (radiansR angle)) q.
Proof.
  unfold elliptical_radius_from, elliptical_radius_from_cs. cbv zeta. rops.
  destruct (polar y x) as [Pc Ps]. cbv zeta in Pc, Ps.
  repeat match goal with |- context [sqrt ?S * _ (atan2R y x + _)] =>
    lazymatch S with
    | x * x + y * y => fail
    | _ => replace S with (x * x + y * y) by ring
    end
  end.
  set (r := sqrt (x * x + y * y)) in *. set (th := atan2R y x) in *. set (a := radiansR angle).
  rewrite cos_plus, sin_plus. f_equal. rewrite <- Pc, <- Ps. unfold Rdiv. ring.
Qed.

(* the code's elliptical constructors = the specification, with (cos, sin) of the angle in degrees *)
Lemma elliptical_R_is_spec H W sy sx R q angle cy cx : sy <> 0 -> sx <> 0 -> q <> 0 ->
  mask_2d_elliptical_from (H, W) (sy, sx) R q angle (cy, cx) =
  mask_of (H, W) (@ell_inside ROps (H, W) (sy, sx) R q (cos (radiansR angle), sin (radiansR angle)) (cy, cx)).
Proof.
  intros Hy Hx Hq. unfold mask_2d_elliptical_from. cbv zeta. mask_pointwise y x.
  rewrite elliptical_radius_R_is_cs, (proj1 (ell_cs_sqrt _ _ _ _ q Hq)). code_ell2_is H W sy sx cy cx y x.
  unfold ell_inside. destruct (@sqrt_le ROps _ R); reflexivity.
Qed.
Lemma elliptical_annular_R_is_spec H W sy sx Ri qi ai Ro qo ao cy cx : sy <> 0 -> sx <> 0 -> qi <> 0 -> qo <> 0 ->
  mask_2d_elliptical_annular_from (H, W) (sy, sx) Ri qi ai Ro qo ao (cy, cx) =
  mask_of (H, W) (@ellann_inside ROps (H, W) (sy, sx) Ri qi (cos (radiansR ai), sin (radiansR ai)) Ro qo
                                 (cos (radiansR ao), sin (radiansR ao)) (cy, cx)).
Proof.
  intros Hy Hx Hqi Hqo. unfold mask_2d_elliptical_annular_from. cbv zeta. mask_pointwise y x.
  rewrite !elliptical_radius_R_is_cs, (proj1 (ell_cs_sqrt _ _ _ _ qi Hqi)), (proj1 (ell_cs_sqrt _ _ _ _ qo Hqo)).
  code_ell2_is H W sy sx cy cx y x.
  unfold ellann_inside. cbv zeta. destruct (@sqrt_ge ROps _ Ri), (@sqrt_le ROps _ Ro); reflexivity.
Qed.

(* hence the executable form that the correspondence run compares with the implementation IS the generated code *)
Lemma elliptical_R_is_cs H W sy sx R q angle cy cx : sy <> 0 -> sx <> 0 -> q <> 0 ->
  mask_2d_elliptical_from (H, W) (sy, sx) R q angle (cy, cx) =
  @mask_2d_elliptical_from_cs ROps (H, W) (sy, sx) R q (cos (radiansR angle), sin (radiansR angle)) (cy, cx).
Proof. intros. rewrite elliptical_R_is_spec, elliptical_is_spec by assumption. reflexivity. Qed.
Lemma elliptical_annular_R_is_cs H W sy sx Ri qi ai Ro qo ao cy cx : sy <> 0 -> sx <> 0 -> qi <> 0 -> qo <> 0 ->
  mask_2d_elliptical_annular_from (H, W) (sy, sx) Ri qi ai Ro qo ao (cy, cx) =
  @mask_2d_elliptical_annular_from_cs ROps (H, W) (sy, sx) Ri qi (cos (radiansR ai), sin (radiansR ai)) Ro qo
                                       (cos (radiansR ao), sin (radiansR ao)) (cy, cx).
Proof. intros. rewrite elliptical_annular_R_is_spec, elliptical_annular_is_spec by assumption. reflexivity. Qed.
