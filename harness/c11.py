"""C11 -- queries are pure: no input mutation, no order dependence, deterministic.

Case kinds (input["op"]):
  hist     a random history of constructions (incl. Kernel2D(normalize=True), psf.normalized, x.native, x.slim) / cached reads / plain
           queries / derivations (arithmetic, slicing, copy, trimming, Imaging(data=...), MapperValued, the two inversion factories) on REAL
           objects.  After every step every caller-owned input, every object's array and every modelled cached value is fingerprinted; the
           names whose contents changed are reported with their new contents; every read is paired with the same quantity computed on a
           freshly built, never-read twin (the table `qf`).  Coq replays the history on the heap machine (model) and on the value semantics
           (spec) and compares observations, changed names (also against the write set of each step's effect summary) and the final
           contents of everything.  -> KA (KHist ..)
  gcase    random reads on the real object graph of one of the quantity graphs of coq/Model/C11g.v (Delaunay / Voronoi mesh + mapper +
           valued mapper; FitImaging -> Imaging -> inversion; derivation chains; Interferometer -> inversion): value (vs twin), set of
           cached_property entries present in the instance __dict__s, entries whose bytes changed -> KGraph, evaluated in Coq against the
           memoising machine (model) and the pure node values (spec).
  inv      random reads of curvature_matrix / curvature_reg_matrix / the preloads on a real inversion -> KA (KInv ..).
  graph / fit / mesh / reuse   random access orders (each second case: every quantity after every other one) over the public quantities of
           an object graph, every observation compared bit for bit with a never-read twin built from unshared parts, all caller-owned
           inputs, preloads, settings and default-argument singletons fingerprinted (Python-only relations: py_ok).
  edit     read -> the user assigns into the object -> re-read, vs a fresh object holding the edited contents (py_ok).
  dsderive dataset derivations with vs without prior reads on the source (py_ok).
  seed     seeded simulations under perturbed global RNG states -> KA (KSeed ..); the images / kernels handed over are fingerprinted.
  share    OverSamplingDataset objects handed to dataset constructors and to apply_over_sampling (explicitly, ONE object to several calls,
           partially specified, omitted = the signature's default instance) and derivations that keep the over-sampling, on several
           Imaging / Interferometer datasets -> KShare (machine of Model/C11s.v vs value semantics); each dataset vs a history-free twin.
  util     the solver / linear-algebra util functions called directly with caller-owned arrays (order, dtype, sign pattern of the solution
           varied): arguments unchanged, second call and call on private copies give the same bits (py_ok).
  remask   Imaging built with EVERY optional constructor argument (noise covariance matrix, noise map omitted, psf None / not normalised,
           use_normalized_psf, pad_for_convolver, check_noise_map, over-sampling) taken through chains of apply_mask (a then b: larger /
           smaller / disjoint / equal) / trimming / over-sampling / noise scaling with reads in between: every derived dataset vs its
           history-free twin on every attribute (at creation and at the end), covariance matrix vs an independent reference (py_ok).
  determ   ~50 structure queries (zoomed_around_mask, extracted / resized / padded / trimmed arrays, mask derivations, grids, kernels)
           evaluated three times on equal inputs with the heap dirtied by different patterns in between (bit-identical results
           required); windows that leave the frame compared with an independent reference (outside = pad value) (py_ok).
In EVERY stream: structural fingerprints of all caller-owned objects and of every default-argument object of the autoarray package
(default_singletons); in the graph / reuse / fit streams additionally every value stored in the graph before a read keeps its bytes.
"""
import sys, os, types, zlib, itertools, hashlib
if "pylops" not in sys.modules:          # stand-in (pylops is not installed): lets Interferometer / TransformerDFT be built
    _p = types.ModuleType("pylops")
    _p.LinearOperator = type("LinearOperator", (object,), {"__init__": lambda self, *a, **k: None})
    _p.Diagonal = None
    sys.modules["pylops"] = _p
import numpy as np
def _install_nn_stand_in():
    """stand-in for the optional C library behind autoarray.util.nn.nn_py (natural-neighbour interpolation; not built here):
    a deterministic inverse-distance scheme over the 3 nearest mesh points with the same signatures / shapes / -1 padding.
    It lets MapperVoronoi.mapping_matrix (hence MapperValued.magnification_via_mesh_from on a Voronoi mesh) be evaluated."""
    name = "autoarray.util.nn.nn_py"
    if name in sys.modules: return
    mod = types.ModuleType(name)
    def _nearest(x_in, y_in, x_target, y_target, k):
        pin = np.stack((np.asarray(x_in, float), np.asarray(y_in, float)), axis=1)
        pt = np.stack((np.asarray(x_target, float), np.asarray(y_target, float)), axis=1)
        d2 = ((pt[:, None, :] - pin[None, :, :]) ** 2).sum(axis=2)
        idx = np.argsort(d2, axis=1, kind="stable")[:, :k]
        w = 1.0 / (1.0e-3 + np.take_along_axis(d2, idx, axis=1))
        return idx, w / w.sum(axis=1)[:, None]
    def natural_interpolation_weights(x_in, y_in, x_target, y_target, max_nneighbours):
        k = min(3, len(x_in), max_nneighbours)
        idx, w = _nearest(x_in, y_in, x_target, y_target, k)
        weights = np.zeros((len(x_target), max_nneighbours)); indexes = np.zeros((len(x_target), max_nneighbours), dtype=np.intc) - 1
        weights[:, :k] = w; indexes[:, :k] = idx
        return weights, indexes
    def natural_interpolation(x_in, y_in, z_in, x_target, y_target):
        k = min(3, len(x_in))
        idx, w = _nearest(x_in, y_in, x_target, y_target, k)
        return (np.asarray(z_in, float)[idx] * w).sum(axis=1)
    mod.natural_interpolation_weights = natural_interpolation_weights
    mod.natural_interpolation = natural_interpolation
    sys.modules[name] = mod
_install_nn_stand_in()
from harness.common import cz, cnat, cbool, clist, ctup, copt, import_aa

ID = "C11"
GEN = []
PROPS = "Props/C11.v"
COQ_CHECK = ("Model.C11c", "check")
COQ_FALLBACK = ("Model.C11c", "spec_ok")
COQ_IMPORTS = ""
SHARD = 60
RULE = ("random histories (length <= 26) over Array2D / Grid2D / VectorYX2D / Kernel2D / Visibilities / Mask2D / Imaging / "
        "MapperRectangular / MapperValued / SettingsInversion objects plus a fixed corpus of the witness histories of D7-D12, D19 and of the "
        "in-place kernel normalisation; random reads on the five quantity graphs of Model/C11g.v; random read orders (with sweeps) on "
        "inversions, fits, meshes and on inversions sharing parts; user edits; dataset derivations; seeded simulations under perturbed "
        "RNG states; histories of shared / partially specified / omitted OverSamplingDataset arguments over two or more datasets; util solver "
        "functions on caller-owned arrays; directed inversions whose positive-only warm start has every parameter passive; re-masking chains "
        "(a then b: larger / smaller / disjoint / equal) with trimming / over-sampling / noise scaling on Imaging datasets built with every "
        "optional constructor argument (noise covariance matrix ...), each dataset vs its history-free twin and vs independent references; "
        "50 structure queries evaluated three times with the heap dirtied in between, on directed masks whose zoom / extraction window "
        "leaves the frame. A case is non-trivial if it contains at least one read after a derivation or a repeated read; distinct = distinct JSON input.")
EXHAUSTIVE = {}
TRUSTED = ["hand-written heap/effect model coq/Model/C11.v (tied to /repo by this run: observations, changed names vs effect "
           "summaries and final contents are compared inside Coq)",
           "hand-written quantity graphs coq/Model/C11g.v (tied to /repo by this run: values, cache fills and changed entries after every "
           "read are compared inside Coq)",
           "harness/c11.py: twin construction (same constructor, same contents, never read), value encoding (integral floats "
           "as integers, others as IEEE-754 bit patterns), fingerprints (crc32 of bytes + shape + dtype)",
           "hand-written shared-argument machine coq/Model/C11s.v (tied to /repo by the KShare cases: records observed and names whose "
           "record changed after every step are compared inside Coq)",
           "Python reference semantics of attributes / __dict__ / numpy views (modelled, not verified)"]
ASSUMPTIONS = ["pylops is absent: a stand-in module (LinearOperator = object) is installed before importing autoarray so that "
               "Interferometer datasets can be built; numba absent",
               "the optional C natural-neighbour library behind autoarray.util.nn.nn_py is not built: a deterministic stand-in (3 nearest "
               "mesh points, inverse-distance weights, same signatures / shapes) is installed so that MapperVoronoi.mapping_matrix and "
               "MapperValued.magnification_via_mesh_from on a Voronoi mesh can be evaluated",
               "object attributes other than the array (pixel_scales = 1.0, origin (0,0), over_sampling sub_size 2 / 1, psf, noise "
               "level) are fixed per kind; quantity values are opaque to the model (table qf measured on never-read twins)",
               "Visibilities(visibilities=ndarray) stores the caller's ndarray itself (no copy); the model allocates a copy -- "
               "indistinguishable for the operations explored (none writes through either reference)"]

FINDING_D8 = "D8:MapperValued.values_masked:mesh_pixel_mask-with-True"

# ----------------------------------------------------------------------------- encoding
NAN = -(2 ** 62)
def enc_num(x):
    x = float(x)
    if x != x: return NAN
    if x in (float("inf"), float("-inf")): return NAN + (1 if x > 0 else 2)
    if x.is_integer() and abs(x) < 2 ** 52: return int(x)
    return int(np.float64(x).view(np.int64))
def enc_arr(a):
    a = np.asarray(a)
    if a.dtype == object: raise TypeError("object array")
    if np.iscomplexobj(a):
        a = np.stack((np.real(a), np.imag(a)), axis=-1)
    return [enc_num(x) for x in np.asarray(a, dtype=float).ravel()]
def exc_code(e):
    return [NAN + 7, zlib.crc32(type(e).__name__.encode())]

def enc_val(x, depth=0):
    """opaque, injective-enough encoding of a quantity's value (never calls properties of x)"""
    aa = import_aa()
    from autoarray.abstract_ndarray import AbstractNDArray
    if x is None: return [NAN + 3]
    if isinstance(x, (bool, np.bool_)): return [int(x)]
    if isinstance(x, (int, float, np.integer, np.floating)): return [enc_num(x)]
    if isinstance(x, (complex, np.complexfloating)): return [enc_num(x.real), enc_num(x.imag)]
    if isinstance(x, AbstractNDArray):
        out = [NAN + 4, len(np.shape(x._array))] + list(np.shape(x._array)) + enc_arr(x._array)
        m = x.__dict__.get("mask")           # a structure's value includes the mask it is attached to (plain attribute, no call)
        if isinstance(m, AbstractNDArray): out += [NAN + 9] + list(np.shape(m._array)) + enc_arr(m._array)
        return out
    if isinstance(x, np.ndarray): return [NAN + 4, x.ndim] + list(x.shape) + enc_arr(x)
    if isinstance(x, (tuple, list)):
        out = [NAN + 5, len(x)]
        for y in x: out += enc_val(y, depth + 1)
        return out
    if isinstance(x, dict):
        out = [NAN + 6, len(x)]
        for k in x: out += enc_val(x[k], depth + 1)
        return out
    if isinstance(x, str): return [NAN + 8, zlib.crc32(x.encode())]
    raise TypeError("cannot encode " + type(x).__name__)

# ----------------------------------------------------------------------------- fingerprints
def leaves(x, path="", out=None, seen=None, depth=0):
    """path -> (crc32 of bytes, shape, dtype) for every ndarray / scalar reachable through __dict__, lists, tuples, dicts
    (never calls a property)"""
    from autoarray.abstract_ndarray import AbstractNDArray
    if out is None: out, seen = {}, set()
    if depth > 5: return out
    if isinstance(x, np.ndarray):
        if x.dtype == object:
            for i, y in enumerate(x.ravel()[:50]): leaves(y, f"{path}[{i}]", out, seen, depth + 1)
        else:
            out[path] = (zlib.crc32(np.ascontiguousarray(x).tobytes()), x.shape, str(x.dtype))
        return out
    if x is None or isinstance(x, (bool, int, float, complex, str, np.generic)):
        out[path] = repr(x); return out
    if id(x) in seen: return out
    seen.add(id(x))
    if isinstance(x, (list, tuple)):
        for i, y in enumerate(x[:200]): leaves(y, f"{path}[{i}]", out, seen, depth + 1)
        return out
    if isinstance(x, dict):
        for i, k in enumerate(list(x)[:200]): leaves(x[k], f"{path}{{{i}}}", out, seen, depth + 1)
        return out
    if type(x).__module__.startswith("scipy."):
        # a scipy.spatial Delaunay / Voronoi object: its defining arrays (it fills private lazy fields -- _transform,
        # _vertex_to_simplex -- when it is queried: its own business, not the library's)
        for k in ("points", "simplices", "neighbors", "vertices", "ridge_points", "ridge_vertices", "regions", "point_region"):
            if k in getattr(x, "__dict__", {}): leaves(x.__dict__[k], f"{path}.{k}", out, seen, depth + 1)
        return out
    d = getattr(x, "__dict__", None)
    if isinstance(d, dict) and not isinstance(x, type) and not callable(x):
        for k in sorted(d):
            if k in ("run_time_dict",): continue
            leaves(d[k], f"{path}.{k}", out, seen, depth + 1)
    return out
def leaves_changed(before, after):
    """paths present before and after whose bytes / value differ, plus STRUCTURAL replacements: a leaf (None, scalar, array)
    that has become an object / list / dict (a `None` field of a caller's argument object that was filled in) or the converse.
    Paths that only appear (a cached_property stored later) or only disappear (a deleted cache entry) are not changes."""
    out = [k for k in before if k in after and before[k] != after[k]]
    gone = [k for k in before if k not in after]
    if gone:
        new = [k for k in after if k not in before]
        under = lambda a, b: b.startswith(a) and b[len(a):len(a) + 1] in (".", "[", "{")
        out += [k + " (leaf -> object)" for k in gone if any(under(k, n) for n in new)]
        out += [n + " (object -> leaf)" for n in new if any(under(n, k) for k in gone)]
    return sorted(out)

_DEFAULTS = []
def default_singletons():
    """[(qualified name, object)]: every non-primitive default-argument object of every function / method / property defined in
    the autoarray package (the shared mutable defaults: SettingsInversion(), Preloads(), OverSamplingDataset(), np.zeros(0) ...)"""
    if _DEFAULTS: return _DEFAULTS
    import_aa()
    prim = (type(None), bool, int, float, complex, str, bytes, type, types.FunctionType)
    def is_prim(x): return isinstance(x, prim) or (isinstance(x, (tuple, frozenset)) and all(is_prim(y) for y in x))
    seen = set()
    def visit(f, name, depth=0):
        if depth > 4 or f is None: return
        for attr in ("__func__", "fget", "func", "__wrapped__"):
            g = getattr(f, attr, None)
            if g is not None and g is not f and callable(g): visit(g, name, depth + 1)
        if not isinstance(f, types.FunctionType): return
        ds = list(f.__defaults__ or ()) + list((f.__kwdefaults__ or {}).values())
        for d in ds:
            if is_prim(d) or id(d) in seen: continue
            seen.add(id(d)); _DEFAULTS.append((name, d))
    for mn in sorted(m for m in sys.modules if m == "autoarray" or m.startswith("autoarray.")):
        mod = sys.modules[mn]
        for n, o in sorted(vars(mod).items(), key=lambda kv: kv[0]):
            if isinstance(o, type) and getattr(o, "__module__", "") == mn:
                for n2, m2 in sorted(vars(o).items(), key=lambda kv: kv[0]): visit(m2, f"{mn}.{n}.{n2}")
            elif getattr(o, "__module__", None) == mn: visit(o, f"{mn}.{n}")
    return _DEFAULTS
def singletons_fp():
    return leaves([d for _, d in default_singletons()], "defaults")
def singletons_changed(fp):
    ch = leaves_changed(fp, singletons_fp())
    names = default_singletons()
    out = []
    for c in ch:
        try: k = int(c[len("defaults["):c.index("]")]); out.append(names[k][0] + " default" + c[c.index("]") + 1:])
        except Exception: out.append(c)     # noqa
    return out

class Watch:
    """fingerprints of caller-owned objects and of EVERY default-argument singleton of the package; bad() lists what changed"""
    def __init__(self, owned):
        self.owned = owned; self.fp = leaves(owned); self.sfp = singletons_fp()
    def bad(self):
        out = []
        ch = leaves_changed(self.fp, leaves(self.owned))
        if ch: out.append("caller-owned input changed: " + ",".join(ch[:4]))
        sc = singletons_changed(self.sfp)
        if sc: out.append("default-argument singleton changed: " + ",".join(sc[:4]))
        return out
def stored_changed(before, objs):
    """objs: the objects of a graph; before: leaves of their instance __dict__s taken before a read.  A value that was stored before
    the read (a cached_property entry, an attribute, an array reachable from them) must hold the same bytes after it (an entry that
    is deleted -- curvature_matrix after the in-place `+=` -- disappears, it is not reported)."""
    return leaves_changed(before, stored(objs))
def stored(objs): return leaves(list(objs), "obj")

# ----------------------------------------------------------------------------- heap poisoning (determinism of every query)
def poison(v, extra=()):
    """unrelated allocations that dirty the heap: blocks of every size up to 8 KiB (numpy's small-block cache and the allocator's
    free lists hand the most recently freed block of a size to the next request of that size) are filled with a non-zero pattern and
    freed.  A buffer obtained with np.empty / np.ndarray(shape) whose cells are not all assigned then shows the pattern; two calls
    with equal inputs are poisoned with DIFFERENT patterns."""
    junk = []
    # numpy keeps 7 freed blocks per size (in bytes) below 1 KiB; above, the allocator serves a request from the smallest free chunk
    for n, rep in itertools.chain(((n, 7) for n in range(8, 1024, 8)), ((n, 2) for n in range(1024, 8193, 256)), ((n, 4) for n in extra)):
        n = int(n)
        if n <= 0 or n > 2 ** 22: continue
        for _ in range(rep):
            if n % 8 == 0: a = np.empty(n // 8); a.fill(v)
            else: a = np.empty(n, dtype=np.uint8); a.fill(0xA5)
            junk.append(a)
    del junk
_ROLL = [0]
def poison_next():
    """before a read in the streams that compare an object with a twin: the heap pattern differs from read to read, so that a buffer
    with unassigned cells (np.empty) shows different contents on the object and on its twin"""
    _ROLL[0] += 1
    poison(7.7 + _ROLL[0] * 1.25)
def arr_sizes(fp):
    out = set()
    for k, v in fp.items():
        if isinstance(v, tuple):
            try: out.add(int(np.prod(v[1])) * np.dtype(v[2]).itemsize)
            except Exception: pass      # noqa
    return out
def thrice(f, sizes=()):
    """f evaluated three times on equal inputs, the heap dirtied with different patterns in between: [structural fingerprints]"""
    out = []
    for v in (7.7, -3.3e5, 1.0e-300):
        poison(v, sizes)
        try: r = f()
        except Exception as e: r = ("raise", type(e).__name__)      # noqa
        fp = leaves([r], "r")
        sizes = set(sizes) | arr_sizes(fp)
        out.append((fp, r))
    return out

# ----------------------------------------------------------------------------- structure queries: determinism, out-of-frame entries
def zoom_region_ref(m):
    """bounding box of the unmasked pixels, the shorter side extended symmetrically to (about) the longer one (Mask2D.zoom_region)"""
    ys, xs = np.where(~m)
    y0, y1, x0, x1 = int(ys.min()), int(ys.max()), int(xs.min()), int(xs.max())
    yl, xl = y1 - y0, x1 - x0
    if yl > xl: x1 += (yl - xl) // 2; x0 -= (yl - xl) // 2
    elif xl > yl: y1 += (xl - yl) // 2; y0 -= (xl - yl) // 2
    return y0, y1 + 1, x0, x1 + 1
def window_ref(a, y0, y1, x0, x1, pad=0.0):
    """the window [y0, y1) x [x0, x1) of a, entries outside the frame = pad (the docstring of extracted_array_2d_from: zeros)"""
    out = np.full((max(y1 - y0, 0), max(x1 - x0, 0)), pad, dtype=float)
    for i, y in enumerate(range(y0, y1)):
        for j, x in enumerate(range(x0, x1)):
            if 0 <= y < a.shape[0] and 0 <= x < a.shape[1]: out[i, j] = a[y, x]
    return out
def resized_ref(a, shape, pad=0.0):
    cy, cx = a.shape[0] // 2, a.shape[1] // 2
    y0, x0 = cy - shape[0] // 2, cx - shape[1] // 2
    return window_ref(a, y0, y0 + shape[0], x0, x0 + shape[1], pad)
def same_bits(a, b):
    a, b = np.asarray(a, dtype=float), np.asarray(b, dtype=float)
    return a.shape == b.shape and a.tobytes() == b.tobytes()

def determ_queries(aa, inp, arr, mask, nat, mnd, kern):
    """[(name, thunk, reference or None)]: the queries of one case (every thunk builds nothing but its result)"""
    from autoarray.structures.arrays import array_2d_util as u
    from autoarray.mask import mask_2d_util as mu
    H, W = inp["shape"]; b = inp["buffer"]; ks = tuple(inp["kernel_shape"]); ns = tuple(inp["new_shape"])
    y0, y1, x0, x1 = inp["window"]
    masked_nat = np.where(mnd, 0.0, nat)
    zr = zoom_region_ref(mnd)
    grid = aa.Grid2D.from_mask(mask=mask)
    q = [
        ("zoomed_around_mask", lambda: arr.zoomed_around_mask(buffer=b),
         lambda r: same_bits(r.native, window_ref(masked_nat, zr[0] - b, zr[1] + b, zr[2] - b, zr[3] + b))),
        ("extent_of_zoomed_array", lambda: arr.extent_of_zoomed_array(buffer=b), None),
        ("util.extracted_array_2d_from", lambda: u.extracted_array_2d_from(array_2d=nat, y0=y0, y1=y1, x0=x0, x1=x1),
         lambda r: same_bits(r, window_ref(nat, y0, y1, x0, x1))),
        ("util.resized_array_2d_from", lambda: u.resized_array_2d_from(array_2d=nat, resized_shape=ns),
         lambda r: same_bits(r, resized_ref(nat, ns))),
        ("util.resized_array_2d_from(pad)", lambda: u.resized_array_2d_from(array_2d=nat, resized_shape=ns, pad_value=inp["pad"]),
         lambda r: same_bits(r, resized_ref(nat, ns, inp["pad"]))),
        ("resized_from", lambda: arr.resized_from(new_shape=ns, mask_pad_value=inp["mask_pad"]),
         lambda r: same_bits(r.native, np.where(resized_ref(mnd.astype(float), ns, float(inp["mask_pad"])) != 0.0, 0.0, resized_ref(masked_nat, ns)))),
        ("padded_before_convolution_from", lambda: arr.padded_before_convolution_from(kernel_shape=ks, mask_pad_value=inp["mask_pad"]),
         lambda r: same_bits(r.native, np.where(resized_ref(mnd.astype(float), (H + ks[0] - 1, W + ks[1] - 1), float(inp["mask_pad"])) != 0.0, 0.0,
                                                 resized_ref(masked_nat, (H + ks[0] - 1, W + ks[1] - 1))))),
        ("trimmed_after_convolution_from", lambda: arr.trimmed_after_convolution_from(kernel_shape=ks), None),
        ("binned_across_rows", lambda: arr.binned_across_rows, None),
        ("binned_across_columns", lambda: arr.binned_across_columns, None),
        ("native", lambda: arr.native, lambda r: same_bits(r, masked_nat)),
        ("slim", lambda: arr.slim, lambda r: same_bits(r, nat[~mnd])),
        ("native_skip_mask", lambda: arr.native_skip_mask, None),
        ("util.array_2d_native_from", lambda: u.array_2d_native_from(array_2d_slim=np.array(nat[~mnd]), mask_2d=mnd), lambda r: same_bits(r, masked_nat)),
        ("util.array_2d_slim_from", lambda: u.array_2d_slim_from(array_2d_native=nat, mask_2d=mnd), lambda r: same_bits(r, nat[~mnd])),
        ("mask.resized_from", lambda: mask.resized_from(new_shape=ns, pad_value=inp["mask_pad"]),
         lambda r: same_bits(np.array(r), resized_ref(mnd.astype(float), ns, float(inp["mask_pad"])))),
        ("mask.rescaled_from", lambda: mask.rescaled_from(rescale_factor=inp["rescale"]), None),
        ("mask.zoom_region", lambda: list(mask.zoom_region), lambda r: [int(x) for x in r] == list(zr)),
        ("mask.zoom_mask_unmasked", lambda: mask.zoom_mask_unmasked, None),
        ("mask.trimmed_array_from", lambda: mask.trimmed_array_from(padded_array=aa.Array2D.no_mask(values=np.pad(nat, ((ks[0] // 2,) * 2, (ks[1] // 2,) * 2)), pixel_scales=1.0), image_shape=(H, W)), None),
        ("mask.derive_mask.edge", lambda: mask.derive_mask.edge, None),
        ("mask.derive_mask.border", lambda: mask.derive_mask.border, None),
        ("mask.derive_mask.edge_buffed", lambda: mask.derive_mask.edge_buffed, None),
        ("mask.derive_mask.blurring_from", lambda: mask.derive_mask.blurring_from(kernel_shape_native=ks), None),
        ("mask.derive_mask.all_false", lambda: mask.derive_mask.all_false, None),
        ("mask.derive_indexes.native_for_slim", lambda: mask.derive_indexes.native_for_slim, None),
        ("mask.derive_indexes.edge_slim", lambda: mask.derive_indexes.edge_slim, None),
        ("mask.derive_indexes.border_slim", lambda: mask.derive_indexes.border_slim, None),
        ("mask.derive_indexes.masked_slim", lambda: mask.derive_indexes.masked_slim, None),
        ("mask.derive_grid.edge", lambda: mask.derive_grid.edge, None),
        ("mask.derive_grid.border", lambda: mask.derive_grid.border, None),
        ("mask.derive_grid.all_false", lambda: mask.derive_grid.all_false, None),
        ("mask.derive_grid.unmasked", lambda: mask.derive_grid.unmasked, None),
        ("mask.mask_centre", lambda: mask.mask_centre, None),
        ("mask.shape_native_masked_pixels", lambda: mask.shape_native_masked_pixels, None),
        ("util.buffed_mask_2d_from", lambda: mu.buffed_mask_2d_from(mask_2d=mnd, buffer=b), None),
        ("util.rescaled_mask_2d_from", lambda: mu.rescaled_mask_2d_from(mask_2d=mnd, rescale_factor=inp["rescale"]), None),
        ("util.blurring_mask_2d_from", lambda: mu.blurring_mask_2d_from(mask_2d=mnd, kernel_shape_native=ks), None),
        ("grid.padded_grid_from", lambda: grid.padded_grid_from(kernel_shape_native=ks), None),
        ("grid.blurring_grid_from", lambda: aa.Grid2D.blurring_grid_from(mask=mask, kernel_shape_native=ks), None),
        ("grid.native", lambda: grid.native, None),
        ("grid.flipped", lambda: grid.flipped, None),
        ("grid.distances_to_coordinate_from", lambda: grid.distances_to_coordinate_from(coordinate=(0.5, -0.25)), None),
        ("grid.grid_2d_radial_projected_from", lambda: grid.grid_2d_radial_projected_from(centre=(0.0, 0.0), angle=30.0), None),
        ("grid.over_sampler.binned_array_2d_from", lambda: aa.OverSamplerUniform(mask=mask, sub_size=2).binned_array_2d_from(
            array=np.arange(4.0 * int((~mnd).sum()))), None),
        ("kernel.convolved_array_from", lambda: kern.convolved_array_from(array=arr), None),
        ("kernel.convolved_array_with_mask_from", lambda: kern.convolved_array_with_mask_from(array=arr.native, mask=mask), None),
        ("kernel.normalized", lambda: kern.normalized, None),
        ("arith", lambda: arr * 2.0 - arr, None),
        ("unmasked_blurred_array_from", lambda: mask.unmasked_blurred_array_from(
            padded_array=arr.padded_before_convolution_from(kernel_shape=ks), psf=kern, image_shape=(H, W)), None),
    ]
    return q

def run_determ(inp):
    aa = import_aa()
    H, W = inp["shape"]
    mnd = np.array(inp["mask"], dtype=bool)
    dt = {"float": float, "int": np.int64, "float32": np.float32}[inp.get("dtype", "float")]
    nat = np.array(inp["values"], dtype=dt).reshape(H, W)
    if inp.get("fortran"): nat = np.asfortranarray(nat)
    mask = aa.Mask2D(mask=mnd, pixel_scales=inp.get("ps", 1.0))
    arr = aa.Array2D(values=nat, mask=mask, store_native=inp.get("store_native", False))
    kv = np.array(inp["kernel"], dtype=float).reshape(inp["kernel_shape"])
    kern = aa.Kernel2D.no_mask(values=kv, pixel_scales=inp.get("ps", 1.0))
    owned = [mnd, nat, mask, arr, kv, kern]
    w = Watch(owned)
    qs = determ_queries(aa, inp, arr, mask, nat, mnd, kern)
    names = [n for n, _, _ in qs]
    bad = []; n_ref = 0; n_raise = 0
    for name in inp["queries"]:
        _, f, ref = qs[names.index(name)]
        before = stored(owned)
        runs = thrice(f, {nat.nbytes, mnd.nbytes})
        for k in (1, 2):
            if runs[k][0] != runs[0][0]:
                d = [p for p in runs[0][0] if runs[k][0].get(p) != runs[0][0][p]] + [p for p in runs[k][0] if p not in runs[0][0]]
                bad.append(f"{name}: call {k + 1} with equal inputs differs from call 1 at {d[:2]}")
        r = runs[0][1]
        if isinstance(r, tuple) and len(r) == 2 and r[0] == "raise": n_raise += 1; tally(f"determ: {name} raises {r[1]}")
        elif ref is not None:
            n_ref += 1
            for k in (0, 2):
                try: ok = ref(runs[k][1])
                except Exception as e: ok = False; bad.append(f"{name}: reference raised {type(e).__name__}")    # noqa
                if not ok: bad.append(f"{name}: call {k + 1} differs from the reference (entries outside the frame are the pad value, inside the array's)")
        ch = stored_changed(before, owned)
        if ch: bad.append(f"{name} changed a stored value: " + ",".join(ch[:3]))
    bad += w.bad()
    tally("determ: queries", len(inp["queries"])); tally("determ: with reference", n_ref); tally("determ: raising (3x the same exception)", n_raise)
    zr = zoom_region_ref(mnd); b = inp["buffer"]
    out_of_frame = zr[0] - b < 0 or zr[2] - b < 0 or zr[1] + b > H or zr[3] + b > W
    if out_of_frame: tally("determ: zoom window leaves the frame")
    res = {"coq": None, "out": {"queries": len(inp["queries"]), "bad": bad[:5]}, "py_ok": not bad, "nontrivial": out_of_frame or len(inp["queries"]) >= 3,
           "kind": "determ" + (":out-of-frame" if out_of_frame else "")}
    if bad: res["detail"] = "; ".join(bad[:5])
    return res

DETERM_Q = None
def gen_determ(rng, k):
    global DETERM_Q
    H, W = rng.randint(3, 9), rng.randint(3, 9)
    if k % 5 == 0: H, W = rng.choice([(1, rng.randint(3, 8)), (rng.randint(3, 8), 1), (3, 11), (11, 3), (2, 2)])
    style = rng.choice(["rect", "rect", "rect-edge", "elongated-edge", "random", "single", "all-false"])
    m = [[True] * W for _ in range(H)]
    if style == "random": m = rand_mask(rng, H, W, p=rng.choice([0.2, 0.5, 0.8]))
    elif style == "all-false": m = [[False] * W for _ in range(H)]
    elif style == "single": m[rng.randrange(H)][rng.randrange(W)] = False
    else:
        if style == "elongated-edge":      # a thin unmasked strip next to a frame edge: the squared zoom region leaves the frame
            if rng.random() < 0.5 or W < 3: ya = rng.choice([0, H - 1]); yb = ya; xa, xb = 0, W - 1
            else: xa = rng.choice([0, W - 1]); xb = xa; ya, yb = 0, H - 1
        else:
            ya = rng.randrange(H); yb = rng.randint(ya, H - 1); xa = rng.randrange(W); xb = rng.randint(xa, W - 1)
            if style == "rect-edge":
                e = rng.choice("NSWE")
                if e == "N": ya = 0
                if e == "S": yb = H - 1
                if e == "W": xa = 0
                if e == "E": xb = W - 1
        for y in range(ya, yb + 1):
            for x in range(xa, xb + 1): m[y][x] = rng.random() < 0.1
        m[ya][xa] = False; m[yb][xb] = False
    kh, kw = rng.choice([(3, 3), (3, 3), (1, 1), (3, 5), (5, 3), (1, 3)])
    y0 = rng.randint(-3, H); x0 = rng.randint(-3, W)
    inp = {"op": "determ", "shape": [H, W], "mask": m, "values": [rng.choice([rng.randint(-9, 20), rng.randint(1, 99) / 8.0, 0, 1e-9, 3e11]) for _ in range(H * W)],
           "dtype": rng.choice(["float"] * 4 + ["int", "float32"]), "fortran": rng.random() < 0.2, "store_native": rng.random() < 0.4,
           "ps": rng.choice([1.0, 1.0, 0.5, [1.0, 2.0]]), "buffer": rng.choice([0, 1, 1, 1, 2, 3]), "kernel_shape": [kh, kw],
           "kernel": [rng.randint(0, 4) for _ in range(kh * kw - 1)] + [1], "new_shape": [rng.randint(1, H + 4), rng.randint(1, W + 4)],
           "pad": rng.choice([0.0, 1.0, -2.5]), "mask_pad": rng.choice([0, 0, 1]), "rescale": rng.choice([0.5, 2.0, 1.5]),
           "window": [y0, rng.randint(y0, H + 3), x0, rng.randint(x0, W + 3)]}
    if inp["dtype"] == "int": inp["values"] = [int(v) if abs(v) < 1e9 else 7 for v in inp["values"]]
    if DETERM_Q is None:
        aa = import_aa()
        z = np.zeros((3, 3), bool)
        probe = dict(inp, shape=[3, 3], mask=z.tolist(), values=[1.0] * 9, kernel_shape=[1, 1], kernel=[1])
        mk = aa.Mask2D(mask=z, pixel_scales=1.0)
        DETERM_Q = [n for n, _, _ in determ_queries(aa, probe, aa.Array2D(values=np.ones((3, 3)), mask=mk), mk, np.ones((3, 3)), z,
                                                    aa.Kernel2D.no_mask(values=np.ones((1, 1)), pixel_scales=1.0))]
    head = ["zoomed_around_mask", "util.extracted_array_2d_from", "resized_from", "padded_before_convolution_from"]
    inp["queries"] = rng.sample(head, 2) + rng.sample(DETERM_Q, rng.randint(4, 9))
    return inp

# ----------------------------------------------------------------------------- kinds
SUB = 2
GEOM = {"ps": 1.0, "origin": (0.0, 0.0)}     # pixel scales / origin of every mask of the history being run (twins included)
def _mask(aa, m): return aa.Mask2D(mask=np.array(m, dtype=bool), pixel_scales=GEOM["ps"], origin=GEOM["origin"])

def view_grids(g):
    """the four grids of a GridsDataset / GridsInterface: coordinates, and the over-sampling each grid carries (its sub-size)"""
    out = []
    for n in ("uniform", "non_uniform", "pixelization", "blurring"):
        try:
            x = getattr(g, n)
            out += enc_val(x)
            sub = getattr(getattr(x, "over_sampling", None), "sub_size", None)
            out += [NAN + 10] + (enc_val(sub) if sub is not None else [NAN + 3])
        except Exception as e: out += exc_code(e)
    return out
def view_convolver(c):
    out = []
    for k in sorted(c.__dict__):
        v = c.__dict__[k]
        if isinstance(v, np.ndarray) and v.dtype != object: out += enc_val(v)
    return out
def view_w_tilde(w):
    return enc_val(w.curvature_preload) + enc_val(w.indexes) + enc_val(w.lengths) + enc_val(w.noise_map_value)
def view_over_sampler(o):
    return enc_val(o.sub_size) + enc_val(o.over_sampled_grid)
def view_plain(x): return enc_val(x)

class Kind:
    def __init__(self, name, per, cached, plain, arith=True, derive=True):
        self.name, self.per, self.cached, self.plain, self.arith, self.derive = name, per, cached, plain, arith, derive

KINDS = {
    "array": Kind("array", 1, {}, ["native", "slim", "binned_across_rows", "binned_across_columns", "total_pixels", "shape_native"]),
    "kernel": Kind("kernel", 1, {}, ["native", "slim", "shape_native"]),
    "grid": Kind("grid", 2, {"is_uniform": view_plain, "over_sampler": view_over_sampler},
                 ["native", "slim", "flipped", "scaled_maxima", "scaled_minima", "shape_native_scaled_interior"]),
    "vector": Kind("vector", 2, {}, ["native", "slim", "magnitudes", "y", "x"]),
    "vis": Kind("vis", 2, {"amplitudes": view_plain, "phases": view_plain}, ["in_array", "ordered_1d", "scaled_maxima", "scaled_minima", "shape_slim"]),
    "mask": Kind("mask", 1, {"circular_radius": view_plain},
                 ["pixels_in_mask", "is_all_false", "is_all_true", "shape_native_masked_pixels", "mask_centre", "zoom_centre", "zoom_shape_native"]),
    "mapper": Kind("mapper", 2, {"mapping_matrix": lambda m: enc_arr(m)},
                   ["params", "pixels", "edge_pixel_list"], arith=False, derive=False),
    "dataset": Kind("dataset", 1, {"grids": view_grids, "convolver": view_convolver, "w_tilde": view_w_tilde},
                    ["signal_to_noise_map", "signal_to_noise_max", "shape_native", "pixel_scales", "shape_slim"], arith=False, derive=False),
    "valued": Kind("valued", 1, {}, [], arith=False, derive=False),
}
SIZE_EXC = ("ArrayException", "GridException", "VectorYXException")

def dec_num(n):
    """inverse of enc_num"""
    n = int(n)
    if n == NAN: return float("nan")
    if n == NAN + 1: return float("inf")
    if n == NAN + 2: return float("-inf")
    if abs(n) < 2 ** 52: return float(n)
    return float(np.int64(n).view(np.float64))
def decode(contents, kind, shape):
    """model contents (integers; non-integral floats as IEEE bit patterns) -> ndarray of the object's array shape"""
    a = np.array([dec_num(x) for x in contents], dtype=float)
    if kind == "vis":
        a = a.reshape(-1, 2); return (a[:, 0] + 1j * a[:, 1]).reshape(shape)
    if kind == "mask": return a.reshape(shape).astype(bool)
    return a.reshape(shape)

_SHARED_MASKS = {}
def shared_mask(aa, mask2d):
    """ONE Mask2D object per mask pattern for the history being run: structures built with "share" hold the same object"""
    key = str(mask2d)
    if key not in _SHARED_MASKS: _SHARED_MASKS[key] = aa.Mask2D(mask=np.array(mask2d, dtype=bool), pixel_scales=GEOM["ps"], origin=GEOM["origin"])
    return _SHARED_MASKS[key]
def make(kind, values, mask2d, store_native, normalize=False, share=False):
    """the public constructor of each kind, with the fixed side attributes"""
    aa = import_aa()
    if share and kind in ("array", "kernel", "grid"):
        m = shared_mask(aa, mask2d)
        if kind == "array": return aa.Array2D(values=values, mask=m, store_native=store_native)
        if kind == "kernel": return aa.Kernel2D(values=values, mask=m, store_native=store_native, normalize=normalize)
        return aa.Grid2D(values=values, mask=m, store_native=store_native, over_sampling=aa.OverSamplingUniform(sub_size=SUB))
    if kind == "array": return aa.Array2D(values=values, mask=_mask(aa, mask2d), store_native=store_native)
    if kind == "kernel": return aa.Kernel2D(values=values, mask=_mask(aa, mask2d), store_native=store_native, normalize=normalize)
    if kind == "grid":
        return aa.Grid2D(values=values, mask=_mask(aa, mask2d), store_native=store_native, over_sampling=aa.OverSamplingUniform(sub_size=SUB))
    if kind == "vector":
        m = _mask(aa, mask2d)
        return aa.VectorYX2D(values=values, grid=aa.Grid2D.from_mask(mask=m), mask=m, store_native=store_native)
    if kind == "vis": return aa.Visibilities(visibilities=values)
    if kind == "mask": return aa.Mask2D(mask=values, pixel_scales=GEOM["ps"], origin=GEOM["origin"])
    if kind == "mapper":
        m = _mask(aa, mask2d)
        grid = aa.Grid2D(values=values, mask=m, over_sampling=aa.OverSamplingUniform(sub_size=1))
        mesh = aa.Mesh2DRectangular.overlay_grid(grid=grid, shape_native=(3, 3))
        mg = aa.MapperGrids(mask=m, source_plane_data_grid=grid, source_plane_mesh_grid=mesh)
        return aa.Mapper(mapper_grids=mg, over_sampler=aa.OverSamplerUniform(mask=m, sub_size=1), regularization=aa.reg.Constant(coefficient=1.0))
    raise ValueError(kind)

def arr_of(kind, real):
    if kind == "mapper": return real.source_plane_data_grid._array
    if kind == "dataset": return real.data._array
    if kind == "valued": return real.values
    return real._array

PSF = [[0.0, 1.0, 0.0], [1.0, 2.0, 1.0], [0.0, 1.0, 0.0]]
def make_dataset(data, aux=None):
    aa = import_aa()
    nv = np.full(data._array.shape, 2.0)
    noise = aa.Array2D(values=nv, mask=data.mask, store_native=data.store_native)
    pv = np.array(PSF)
    psf = aa.Kernel2D.no_mask(values=pv, pixel_scales=1.0)
    osd = aa.OverSamplingDataset(uniform=aa.OverSamplingUniform(sub_size=1), pixelization=aa.OverSamplingUniform(sub_size=1))
    ds = aa.Imaging(data=data, noise_map=noise, psf=psf, over_sampling=osd)
    if aux is not None: aux += [nv, pv, noise, psf, osd]
    return ds

def valid_shape(kind, mask2d, shape, native):
    m = np.array(mask2d, dtype=bool)
    if kind == "vis": return len(shape) == 1
    if kind == "mask": return len(shape) == 2
    per = KINDS[kind].per
    tail = (2,) if per == 2 else ()
    if native: return tuple(shape) == m.shape + tail
    return tuple(shape) == (int((~m).sum()),) + tail

def twin(kind, mask2d, native, contents, shape):
    """a freshly built object of the same kind with the same mask and contents, never read"""
    if kind == "dataset":
        return make_dataset(twin("array", mask2d, native, contents, shape))
    values = decode(contents, kind, shape)
    if valid_shape(kind, mask2d, shape, native):
        t = make(kind, values, mask2d, native)
        if enc_arr(arr_of(kind, t)) == list(contents): return t
        # the constructor normalises (zeroes masked entries of a native array): the object under test holds other
        # contents (e.g. after x + b), so the twin is derived from a fresh base instead
    m = np.array(mask2d, dtype=bool)
    per = KINDS[kind].per
    tail = (2,) if per == 2 else ()
    base_shape = (m.shape + tail) if native else ((int((~m).sum()),) + tail)
    base = make(kind, np.zeros(base_shape), mask2d, native)
    return base.with_new_array(values)

NORMQ = "__normalized__"
RAW = {("mapper", "mapping_matrix"), ("kernel", NORMQ)}      # quantities the model computes with (everything else is opaque to it)
def digest(enc):
    """opaque values travel as a 2 x 60-bit digest of their full encoding (keeps the Coq terms small)"""
    h = hashlib.sha256(repr(enc).encode()).digest()
    return [int.from_bytes(h[:8], "big") >> 4, int.from_bytes(h[8:16], "big") >> 4]
def quantity(kind, real, name, full=False):
    """value of quantity [name] of a real object, encoded; exceptions are values"""
    k = KINDS[kind]
    try:
        v = getattr(real, name)
        e = k.cached[name](v) if name in k.cached else view_plain(v)
    except Exception as e_:   # noqa
        e = exc_code(e_)
    return e if full or (kind, name) in RAW else digest(e)

# ----------------------------------------------------------------------------- running a history
class Obj:
    def __init__(self, kind, real, mask2d, mmask, native):
        self.kind, self.real, self.mask2d, self.mmask, self.native = kind, real, mask2d, mmask, native

def mmask_of(kind, mask2d, n=None):
    if kind == "vis": return [False] * n
    if kind == "mask": return [False] * n
    flat = [bool(b) for row in mask2d for b in row]
    per = KINDS[kind].per
    return [b for b in flat for _ in range(per)]

class Runner:
    def __init__(self):
        self.aa = import_aa()
        self.inputs = []      # (kind, real)
        self.objs = []
        self.aux = []         # caller-owned things outside the model: masks, noise maps, psf, default singletons ...
        self.table = {}       # (qname-key, mmask tuple, contents tuple) -> value
        self.table_full = {}
        self.qids = {}
        self.fixture = None
        self.finding = None

    # --- naming of quantities
    def qid(self, kind, native, name):
        key = (kind, bool(native), name)
        if key not in self.qids: self.qids[key] = len(self.qids)
        return self.qids[key]

    def in_contents(self, i):
        kind, real = self.inputs[i]
        if kind == "nd": return enc_arr(real)
        return [int(bool(real.use_w_tilde))]
    def obj_contents(self, o): return enc_arr(arr_of(o.kind, o.real))

    def cached_present(self, o):
        k = KINDS[o.kind]
        d = o.real.__dict__
        return [n for n in k.cached if n in d]

    def state(self):
        """name -> (fingerprint, thunk giving the contents)"""
        st = {}
        for i in range(len(self.inputs)):
            c = self.in_contents(i); st[("in", i)] = (tuple(c), c)
        for j, o in enumerate(self.objs):
            c = self.obj_contents(o); st[("arr", j)] = (tuple(c), c)
            for n in self.cached_present(o):
                st[("cache", j, n)] = (leaves(o.real.__dict__[n]), None)
        return st

    def add_table(self, o, name, shape=None):
        contents = self.obj_contents(o)
        key = (self.qid(o.kind, o.native, name), tuple(o.mmask), tuple(contents))
        if key not in self.table:
            t = twin(o.kind, o.mask2d, o.native, contents, np.shape(arr_of(o.kind, o.real)))
            self.table_full[key] = quantity(o.kind, t, name, full=True)
            self.table[key] = self.table_full[key] if (o.kind, name) in RAW else digest(self.table_full[key])
        return key

    def get_fixture(self):
        """imaging + interferometer datasets with a rectangular mapper each, for the two inversion factories"""
        if self.fixture is None:
            aa = self.aa
            m = np.ones((6, 6), bool); m[1:5, 1:5] = False
            mask = aa.Mask2D(mask=m, pixel_scales=1.0)
            dv = np.arange(36.0).reshape(6, 6)
            data = aa.Array2D(values=dv, mask=mask)
            ds = make_dataset(data, self.aux)
            def mapper_for(grid):
                osg = grid.over_sampler.over_sampled_grid
                mesh = aa.Mesh2DRectangular.overlay_grid(grid=osg, shape_native=(3, 3))
                mg = aa.MapperGrids(mask=mask, source_plane_data_grid=osg, source_plane_mesh_grid=mesh)
                return aa.Mapper(mapper_grids=mg, over_sampler=grid.over_sampler, regularization=aa.reg.Constant(coefficient=1.0))
            vis = aa.Visibilities(visibilities=np.array([1 + 1j, 2 + 0j, 3 - 1j]))
            nm = aa.VisibilitiesNoiseMap(visibilities=np.array([1 + 1j, 1 + 1j, 1 + 1j]))
            uv = np.array([[1.0, 2.0], [3.0, -1.0], [0.0, 0.0]])
            osd = aa.OverSamplingDataset(pixelization=aa.OverSamplingUniform(sub_size=1))
            it = aa.Interferometer(data=vis, noise_map=nm, uv_wavelengths=uv, real_space_mask=mask,
                                   transformer_class=aa.TransformerDFT, over_sampling=osd)
            self.fixture = (ds, mapper_for(ds.grids.pixelization), it, mapper_for(it.grids.pixelization))
            self.aux += [m, dv, uv, vis, nm]
        return self.fixture

    def step(self, s):
        """executes one step on the real objects; returns (coq op, obs) where obs = ('ok', list) | ('raise', name)"""
        aa = self.aa
        o = s["o"]
        if o == "new":
            if s["kind"] == "nd":
                if s.get("dtype") == "complex":
                    a = np.array(s["v"], dtype=float).reshape(-1, 2); real = (a[:, 0] + 1j * a[:, 1]).reshape(s["shape"])
                elif s.get("dtype") == "bool": real = np.array(s["v"], dtype=bool).reshape(s["shape"])
                elif s.get("dtype") == "int": real = np.array(s["v"], dtype=np.int64).reshape(s["shape"])          # integer-typed caller array
                elif s.get("dtype") == "float32": real = np.array(s["v"], dtype=np.float32).reshape(s["shape"])
                elif s.get("dtype") == "fortran": real = np.asfortranarray(np.array(s["v"], dtype=float).reshape(s["shape"]))
                else: real = np.array(s["v"], dtype=float).reshape(s["shape"])
                self.inputs.append(("nd", real))
            elif s["kind"] == "settings":
                self.inputs.append(("settings", aa.SettingsInversion(use_w_tilde=bool(s["v"][0]))))
            else:   # the module-level default instance of aa.Inversion's `settings` argument (reset first: harness-owned)
                from autoarray.inversion.inversion import factory
                d = factory.inversion_from.__defaults__[0]
                d.use_w_tilde = True
                self.inputs.append(("default_settings", d))
            i = len(self.inputs) - 1
            return f"ONew {carr(self.in_contents(i))}", ("ok", self.in_contents(i))
        if o == "construct":
            kind, mask2d, sn = s["cls"], s["mask"], bool(s["store_native"])
            src = s["src"]
            if src[0] == "in":
                val = self.inputs[src[1]][1]
                per = KINDS[kind].per
                is_native = (kind == "mask") or (val.ndim == (3 if per == 2 and kind != "vis" else 2) and kind != "vis")
                csrc = f"(SIn {cnat(src[1])})"
            else:
                so = self.objs[src[1]]
                val = so.real; is_native = so.native
                csrc = f"(SObj {cnat(src[1])})"
            n = int(np.size(val)) * (2 if kind == "vis" else 1)
            mm = mmask_of(kind, mask2d, n)
            norm = bool(s.get("normalize"))
            via = s.get("via", "ctor")
            cnorm = "None"
            if norm:
                # the pure value of the normalisation: measured on private copies (twins) of the source, never on the source
                q = self.qid("kernel", sn, NORMQ)
                cnorm = f"(Some {cnat(q)})"
                def private():
                    if src[0] == "in": return np.array(val)
                    return twin(so.kind, so.mask2d, so.native, self.obj_contents(so), np.shape(arr_of(so.kind, so.real)))
                try:
                    pre = enc_arr(make(kind, private(), mask2d, sn)._array)
                    post = enc_arr(make(kind, private(), mask2d, sn, normalize=True)._array)
                    self.table[(q, tuple(mm), tuple(pre))] = post
                except Exception as e:   # noqa
                    if type(e).__name__ not in SIZE_EXC: raise
            cop = f"OConstruct {csrc} {cmask(mm)} {cbool(is_native)} {cbool(sn)} {cnorm}"
            try:
                if via == "ctor": real = make(kind, val, mask2d, sn, normalize=norm, share=bool(s.get("share")))
                elif via == "native": real = val.native              # Array2D / Grid2D / VectorYX2D (values=self, mask=self.mask, store_native=True)
                elif via == "slim": real = val.slim
                elif via == "normalized": real = val.normalized      # Kernel2D(values=self, mask=self.mask, normalize=True)
                else: raise ValueError(via)
            except Exception as e:   # noqa
                if type(e).__name__ in SIZE_EXC: return cop, ("raise", "ArrayException")
                raise
            ob = Obj(kind, real, mask2d, mm, sn)
            self.objs.append(ob)
            if kind not in ("vis", "mask", "mapper"): self.aux.append(real.mask)
            return cop, ("ok", self.obj_contents(ob))
        if o == "alias":
            so = self.objs[s["j"]]
            ds = make_dataset(so.real, self.aux)
            ob = Obj("dataset", ds, so.mask2d, so.mmask, so.native)
            self.objs.append(ob)
            return f"OAlias {cnat(s['j'])}", ("ok", self.obj_contents(ob))
        if o in ("arith", "slice", "copy"):
            so = self.objs[s["j"]]
            if o == "arith":
                f = s["f"]
                if f == "mul": real = so.real * (s["ks"][0] if len(s["ks"]) == 1 else np.array(s["ks"], dtype=float))
                elif f == "add": real = so.real + s["b"]
                elif f == "neg": real = -so.real
                elif f == "rsub": real = s["b"] - so.real
                elif f == "rmul": real = s["ks"][0] * so.real
                elif f == "invert": real = so.real.invert()
                else: raise ValueError(f)
                ks = {"mul": s.get("ks"), "rmul": s.get("ks"), "add": [1], "neg": [-1], "rsub": [-1], "invert": [-1]}[f]
                b = {"mul": 0, "rmul": 0, "add": s.get("b"), "neg": 0, "rsub": s.get("b"), "invert": 1}[f]
                cop = f"OArith {cnat(s['j'])} {carr(ks)} {cz(b)}"
            elif o == "slice":
                real = so.real[s["lo"]:s["hi"]]
                shape = np.shape(arr_of(so.kind, so.real))
                keep = np.zeros(shape, dtype=bool); keep[s["lo"]:s["hi"]] = True
                keep = [bool(x) for x in keep.ravel()]
                if so.kind == "vis": keep = [x for x in keep for _ in range(2)]
                cop = f"OSlice {cnat(s['j'])} {cmask(keep)}"
            else:
                real = so.real.copy(); cop = f"OCopy {cnat(s['j'])}"
            ob = Obj(so.kind, real, so.mask2d, so.mmask, so.native)
            self.objs.append(ob)
            return cop, ("ok", self.obj_contents(ob))
        if o == "trim":
            so = self.objs[s["j"]]
            real = so.real.trimmed_after_convolution_from(kernel_shape=(3, 3))
            m = np.array(so.mask2d, dtype=bool)
            keep2 = np.zeros(m.shape, dtype=bool); keep2[1:m.shape[0] - 1, 1:m.shape[1] - 1] = True
            per = KINDS[so.kind].per
            keep = [bool(x) for x in keep2.ravel() for _ in range(per)]
            mask2d = [[bool(x) for x in row] for row in m[1:m.shape[0] - 1, 1:m.shape[1] - 1]]
            ob = Obj(so.kind, real, mask2d, [b for b, k in zip(so.mmask, keep) if k], so.native)
            self.objs.append(ob)
            return f"OTrim {cnat(s['j'])} {cmask(keep)}", ("ok", self.obj_contents(ob))
        if o in ("read", "plain"):
            ob = self.objs[s["j"]]
            key = self.add_table(ob, s["q"])           # twin first: built from the contents the object holds now
            present = set(self.cached_present(ob))
            v = quantity(ob.kind, ob.real, s["q"])
            if o == "plain" and set(self.cached_present(ob)) != present:
                raise RuntimeError(f"harness: plain quantity {ob.kind}.{s['q']} fills a modelled cached_property")
            # a cached_property that raises stores nothing: it behaves like a plain query (decided on the twin's value)
            raises = self.table_full[key][:1] == [NAN + 7]
            c = "ORead" if o == "read" and not raises else "OPlain"
            return f"{c} {cnat(s['j'])} {cnat(key[0])}", ("ok", v)
        if o == "peek_in": return f"OPeekIn {cnat(s['i'])}", ("ok", self.in_contents(s["i"]))
        if o == "peek_obj": return f"OPeekObj {cnat(s['j'])}", ("ok", self.obj_contents(self.objs[s["j"]]))
        if o == "valued":
            values = self.inputs[s["i"]][1]
            mapper = self.objs[s["m"]]
            pm = None if s["mask"] is None else np.array(s["mask"], dtype=bool)
            if pm is not None: self.aux.append(pm)
            real = aa.MapperValued(mapper=mapper.real, values=values, mesh_pixel_mask=pm)
            mm = [False] * int(np.size(values)) if pm is None else [bool(x) for x in pm]
            ob = Obj("valued", real, None, mm, False); ob.mapper = s["m"]; ob.values_input = s["i"]
            self.objs.append(ob)
            return f"OValued {cnat(s['i'])} {cmask(mm)}", ("ok", self.obj_contents(ob))
        if o == "values_masked":
            ob = self.objs[s["j"]]
            if any(ob.mmask): self.finding = FINDING_D8        # input class: a mesh_pixel_mask with a True entry
            return f"OValuesMasked {cnat(s['j'])}", ("ok", enc_arr(ob.real.values_masked))
        if o == "maprecon":
            ob = self.objs[s["j"]]
            if any(ob.mmask): self.finding = FINDING_D8
            mo = self.objs[ob.mapper]
            key = self.add_table(mo, "mapping_matrix")
            r = ob.real.mapped_reconstructed_image_from()
            return f"OMapRecon {cnat(s['j'])} {cnat(ob.mapper)} {cnat(key[0])}", ("ok", enc_arr(r._array))
        if o in ("interf", "imaging"):
            ds, mp, it, mi = self.get_fixture()
            kind, settings = self.inputs[s["i"]]
            kw = {} if kind == "default_settings" else {"settings": settings}
            if o == "interf": inv = aa.Inversion(dataset=it, linear_obj_list=[mi], **kw)
            else: inv = aa.Inversion(dataset=ds, linear_obj_list=[mp], **kw)
            code = 1 if "WTilde" in type(inv).__name__ else 0
            c = "OInterf" if o == "interf" else "OImaging"
            return f"{c} {cnat(s['i'])}", ("ok", [code])
        raise ValueError(o)

def carr(a): return clist([cz(x) for x in a])
def cmask(m): return clist([cbool(b) for b in m])
def cobs(x): return f"(Ok {carr(x[1])})" if x[0] == "ok" else f"(Raise {x[1]})"

def cname(r, n):
    if n[0] == "in": return f"NIn {cnat(n[1])}"
    if n[0] == "arr": return f"NArr {cnat(n[1])}"
    o = r.objs[n[1]]
    return f"NCache {cnat(n[1])} {cnat(r.qid(o.kind, o.native, n[2]))}"

TALLY = {}
def tally(k, n=1): TALLY[k] = TALLY.get(k, 0) + n

def run_hist(inp):
    g = inp.get("geom") or {}
    ps = g.get("ps", 1.0)
    GEOM["ps"] = tuple(ps) if isinstance(ps, list) else ps
    GEOM["origin"] = tuple(g.get("origin", (0.0, 0.0)))
    _SHARED_MASKS.clear()
    try: return run_hist0(inp)
    finally: GEOM["ps"], GEOM["origin"] = 1.0, (0.0, 0.0); _SHARED_MASKS.clear()
def run_hist0(inp):
    r = Runner()
    aux_before = None
    out = []
    ops = []
    kinds = {}
    steps = inp["steps"]
    from autoarray.inversion.inversion import factory
    from autoarray.dataset.imaging.dataset import Imaging
    singletons = [factory.inversion_from.__defaults__, factory.inversion_imaging_from.__defaults__,
                  factory.inversion_interferometer_from.__defaults__, Imaging.__init__.__defaults__]
    for d in singletons:
        for x in d:
            if hasattr(x, "use_w_tilde"): x.use_w_tilde = True
    single_before = leaves(singletons); all_single = singletons_fp()
    aux_fp = {}
    notes = []
    for s in steps:
        before = r.state()
        cop, obs = r.step(s)
        ops.append("(" + cop + ")")
        after = r.state()
        ch = []
        for n in before:          # names bound before the step, in canonical order: inputs, then per object array + cache by q
            if n not in after: continue
            if n[0] == "cache":
                if leaves_changed(before[n][0], after[n][0]):
                    o = r.objs[n[1]]
                    ch.append((n, quantity(o.kind, o.real, n[2]), leaves_changed(before[n][0], after[n][0])[:3]))
            elif before[n][0] != after[n][0]:
                ch.append((n, after[n][1], None))
        # cache names sorted by q within an object (the model's order)
        def order(c):
            n = c[0]
            if n[0] == "in": return (0, n[1], 0, 0)
            if n[0] == "arr": return (1, n[1], 0, 0)
            o = r.objs[n[1]]
            return (1, n[1], 1, r.qid(o.kind, o.native, n[2]))
        ch.sort(key=order)
        out.append((obs, ch))
        # aux: new aux objects get a fingerprint when first seen; existing ones must never change
        for a in r.aux:
            if id(a) not in aux_fp: aux_fp[id(a)] = (a, leaves(a))
    aux_bad = []
    for a, fp in aux_fp.values():
        now = leaves(a)
        # cached_property values filled later are new paths (ignored); existing paths must keep their bytes
        bad = leaves_changed(fp, now)
        if bad: aux_bad.append(type(a).__name__ + ":" + ",".join(bad[:3]))
    single_bad = sorted(set(leaves_changed(single_before, leaves(singletons)) + singletons_changed(all_single)))
    # final snapshot
    fin_in = [r.in_contents(i) for i in range(len(r.inputs))]
    fin_objs = []
    for j, o in enumerate(r.objs):
        caches = []
        for n in r.cached_present(o):
            q = r.qid(o.kind, o.native, n)
            caches.append((q, quantity(o.kind, o.real, n)))
            # the specification needs the pure value of every cached quantity for the contents the object holds now
            r.add_table(o, n)
        caches.sort()
        fin_objs.append((r.obj_contents(o), caches))
    table = [f"({cnat(k[0])}, {cmask(k[1])}, {carr(k[2])}, {carr(v)})" for k, v in r.table.items()]
    couts = []
    for obs, ch in out:
        cch = clist([f"({cname(r, n)}, {carr(c)})" for n, c, _ in ch])
        couts.append(f"({cobs(obs)}, {cch})")
    cfin_objs = clist([f"({carr(a)}, {clist([f'({cnat(q)}, {carr(v)})' for q, v in cs])})" for a, cs in fin_objs])
    cfin = f"({clist([carr(a) for a in fin_in])}, {cfin_objs})"
    coq = f"(KHist {clist(table)} {clist(ops)} {clist(couts)} {cfin})"
    py_ok = None
    detail = None
    if aux_bad or single_bad:
        py_ok = False
        detail = "caller-owned object outside the model changed: " + "; ".join(aux_bad + ["default-argument singleton " + x for x in single_bad])
    changed_names = [(list(n), why) for obs, ch in out for n, c, why in ch]
    for s_ in steps:
        tally("op:" + s_["o"] + (":" + s_["cls"] if s_["o"] == "construct" else "") + (":" + s_["f"] if s_["o"] == "arith" else ""))
    seen_deriv = set(); reread = set()
    for s_ in steps:
        if s_["o"] in ("arith", "slice", "copy", "trim", "alias"): seen_deriv.add(s_["j"])
        if s_["o"] == "read":
            if (s_["j"], s_["q"]) in reread: tally("repeated cached read")
            reread.add((s_["j"], s_["q"]))
            if s_["j"] in seen_deriv: tally("cached read on a source after a derivation from it")
    for o_ in r.objs:
        tally("object:" + o_.kind + (":native" if o_.native else ":slim"))
    tally("history with a changed name (model-predicted or not)", 1 if changed_names else 0)
    tally("histories in the D8 finding class", 1 if r.finding else 0)
    tally("raised ArrayException on construction", sum(1 for o_, _ in out if o_[0] == "raise"))
    reads = sum(1 for s in steps if s["o"] in ("read", "plain", "values_masked", "maprecon", "peek_in"))
    derivs = sum(1 for s in steps if s["o"] in ("arith", "slice", "copy", "trim", "alias", "valued"))
    res = {"coq": coq, "out": {"obs": [o for o, _ in out][-3:], "changed": changed_names, "qids": {f"{k[0]}/{int(k[1])}/{k[2]}": v for k, v in r.qids.items()}},
           "py_ok": py_ok, "nontrivial": reads >= 2 and derivs >= 1, "kind": "hist:" + inp.get("tag", "random")}
    if detail: res["detail"] = detail
    if r.finding:
        # the known finding D8 is the write into the `values` array of a MapperValued whose pixel mask has a True: a change
        # of anything else (another input, a cached matrix, another object's array) in the same history is NOT that finding
        foot = set()
        for j, o in enumerate(r.objs):
            if o.kind == "valued" and any(o.mmask):
                foot.add(("in", o.values_input))
                foot |= {("arr", j2) for j2, o2 in enumerate(r.objs) if o2.kind == "valued" and o2.values_input == o.values_input}
        if all(tuple(n) in foot for n, _ in changed_names): res["finding"] = r.finding
    return res

# ----------------------------------------------------------------------------- inversions (KInv) and object graphs
def build_graph(cfg):
    """an imaging dataset with a mask, 1-2 rectangular mappers, settings, optional preloads; returns (inversion, parts)"""
    aa = import_aa()
    H, W = cfg["shape"]
    m = np.ones((H, W), bool); m[1:H - 1, 1:W - 1] = False
    if cfg.get("border0"): m[:] = False
    b = cfg.get("border", 1)
    if b > 1: m[:] = True; m[b:H - b, b:W - b] = False
    for (y, x) in cfg.get("holes", []): m[y, x] = True
    mask = aa.Mask2D(mask=m, pixel_scales=1.0)
    dv = np.array(cfg["data"], dtype=float).reshape(H, W)
    sn = bool(cfg.get("native", False))
    data = aa.Array2D(values=dv, mask=mask, store_native=sn)
    nv = np.array(cfg["noise"], dtype=float).reshape(H, W)
    noise = aa.Array2D(values=nv, mask=mask, store_native=sn)
    pv = np.array(cfg.get("psf", PSF), dtype=float)
    psf = aa.Kernel2D.no_mask(values=pv, pixel_scales=1.0)
    osd = aa.OverSamplingDataset(uniform=aa.OverSamplingUniform(sub_size=1), pixelization=aa.OverSamplingUniform(sub_size=cfg.get("sub", 1)))
    ds = aa.Imaging(data=data, noise_map=noise, psf=psf, over_sampling=osd)
    mappers = []
    if cfg["mappers"]:
        # the mappers' grids come from a throw-away dataset, so that `ds` itself has never been read
        ds0 = aa.Imaging(data=aa.Array2D(values=dv.copy(), mask=mask), noise_map=aa.Array2D(values=nv.copy(), mask=mask), psf=psf,
                         over_sampling=aa.OverSamplingDataset(uniform=aa.OverSamplingUniform(sub_size=1),
                                                              pixelization=aa.OverSamplingUniform(sub_size=cfg.get("sub", 1))))
        grid = ds0.grids.pixelization
        osg = grid.over_sampler.over_sampled_grid
    for (ph, pw, coeff) in cfg["mappers"]:
        mesh = aa.Mesh2DRectangular.overlay_grid(grid=osg, shape_native=(ph, pw))
        mg = aa.MapperGrids(mask=mask, source_plane_data_grid=osg, source_plane_mesh_grid=mesh)
        reg = aa.reg.Constant(coefficient=coeff) if coeff is not None else None
        mappers.append(aa.Mapper(mapper_grids=mg, over_sampler=grid.over_sampler, regularization=reg))
    settings = aa.SettingsInversion(use_w_tilde=cfg["w_tilde"], use_positive_only_solver=cfg.get("positive", False),
                                    positive_only_uses_p_initial=cfg.get("p_initial", True),      # production default, pushed explicitly
                                    no_regularization_add_to_curvature_diag_value=1.0,
                                    force_edge_pixels_to_zeros=cfg.get("force_edge", True),
                                    force_edge_image_pixels_to_zeros=cfg.get("edge_image", False),
                                    use_w_tilde_numpy=cfg.get("w_tilde_numpy", False), use_source_loop=cfg.get("source_loop", False))
    owned = [m, dv, nv, pv, mask, data, noise, psf, osd, settings]
    # linear objects that are not mappers (unregularized unless stated), placed before and / or after the mappers
    before, after = [], []
    for f in cfg.get("funcs", []):
        cols = np.array(f["cols"], dtype=float).reshape(int((~m).sum()), -1)
        fo = func_list_cls()(grid=aa.Grid2D.from_mask(mask=mask), columns=cols,
                             regularization=aa.reg.Constant(coefficient=f["coeff"]) if f.get("coeff") else None)
        (before if f["pos"] == "before" else after).append(fo)
        owned.append(cols)
    cfg_objs = before + mappers + after
    mappers = MapperList(mappers); mappers.objs = cfg_objs
    return ds, mappers, settings, owned

class MapperList(list):
    """the mappers of a graph; .objs is the full linear_obj_list (non-mapper objects before / after them)"""
    objs = None
_FUNC_CLS = []
def func_list_cls():
    if not _FUNC_CLS:
        from autoarray.inversion.linear_obj.func_list import AbstractLinearObjFuncList
        class HFuncList(AbstractLinearObjFuncList):
            """a linear object whose mapping matrix is given column by column (stands for a list of light-profile images)"""
            def __init__(self, grid, columns, regularization=None):
                super().__init__(grid=grid, regularization=regularization); self._columns = columns
            @property
            def params(self): return self._columns.shape[1]
            @property
            def mapping_matrix(self): return self._columns
        _FUNC_CLS.append(HFuncList)
    return _FUNC_CLS[0]

PRELOADABLE = {"curvature_matrix": "curvature_matrix", "curvature_matrix_mapper_diag": "_curvature_matrix_mapper_diag",
               "regularization_matrix": "regularization_matrix", "operated_mapping_matrix": "operated_mapping_matrix",
               "data_vector_mapper": "_data_vector_mapper"}
def make_inversion(cfg, preload_F=None):
    """cfg["preloads"]: names of aa.Preloads arguments, each filled with a private copy of the quantity computed on a separate
    fresh inversion (the caller's precomputed arrays: they are `owned`, hence fingerprinted)"""
    aa = import_aa()
    ds, mappers, settings, owned = build_graph(cfg)
    kw = {}
    pk = {}
    if preload_F is not None: pk["curvature_matrix"] = preload_F
    for name in cfg.get("preloads", []):
        src, *_ = make_inversion({k: v for k, v in cfg.items() if k != "preloads"})
        try: v = getattr(src, PRELOADABLE[name], None)
        except Exception: v = None       # noqa  (a private helper that does not support this configuration: nothing to preload)
        if v is not None: pk[name] = np.array(v)
    if pk:
        pre = aa.Preloads(**pk)
        kw["preloads"] = pre
        owned = owned + [pre] + list(pk.values())
    inv = aa.Inversion(dataset=ds, linear_obj_list=mappers.objs, settings=settings, **kw)
    return inv, ds, mappers, owned

def bits(a):
    """digest of the IEEE-754 bit patterns (shape included): equal iff bit-for-bit equal (up to sha256 collisions)"""
    a = np.ascontiguousarray(np.asarray(a, dtype=float))
    return digest([list(a.shape), a.tobytes().hex()])

def run_inv(inp):
    cfg = inp["cfg"]
    t1, *_ = make_inversion(cfg); F = np.array(t1.curvature_matrix)
    t2, *_ = make_inversion(cfg); Hm = np.array(t2.regularization_matrix)
    t3, *_ = make_inversion(cfg); FR = np.array(t3.curvature_reg_matrix)
    pre = inp["pre"]                      # "PNone" | "PCurv" | "PDiag"
    D = U = np.zeros((1, 1))
    if cfg["w_tilde"]:
        t4, *_ = make_inversion(cfg); D = np.array(t4._curvature_matrix_mapper_diag)
        t5, *_ = make_inversion(cfg); U = np.array(t5._curvature_matrix_multi_mapper)
    P = F.copy() if pre == "PCurv" else None
    PD = D.copy() if pre == "PDiag" else None
    aa = import_aa()
    ds, mappers, settings, owned = build_graph(cfg)
    kw = {}
    if P is not None: kw["preloads"] = aa.Preloads(curvature_matrix=P)
    if PD is not None: kw["preloads"] = aa.Preloads(curvature_matrix_mapper_diag=PD)
    inv = aa.Inversion(dataset=ds, linear_obj_list=mappers.objs, settings=settings, **kw)
    w = Watch(owned)
    out = []
    for q in inp["qs"]:
        if q == "QF": out.append(bits(inv.curvature_matrix))
        elif q == "QFR": out.append(bits(inv.curvature_reg_matrix))
        elif q == "QPre": out.append(bits(P))
        else: out.append(bits(PD))
    bad = w.bad()
    coq = (f"(KInv {pre} {carr(bits(F))} {carr(bits(Hm))} {carr(bits(FR))} {carr(bits(D))} {carr(bits(U))} {clist(inp['qs'])} "
           f"{clist([carr(o) for o in out])})")
    res = {"coq": coq, "out": [zlib.crc32(str(o).encode()) for o in out], "py_ok": None if not bad else False,
           "nontrivial": len(inp["qs"]) >= 2, "kind": "inv:" + type(inv).__name__ + ":" + pre + f":{len(mappers)}mappers"}
    if bad: res["detail"] = "; ".join(bad[:4])
    return res

GRAPH_Q = {
    "inv": ["mapping_matrix", "operated_mapping_matrix", "data_vector", "curvature_matrix", "regularization_matrix",
            "regularization_matrix_reduced", "curvature_reg_matrix", "curvature_reg_matrix_reduced", "reconstruction",
            "reconstruction_reduced", "mapped_reconstructed_data", "mapped_reconstructed_image", "regularization_term",
            "log_det_curvature_reg_matrix_term", "log_det_regularization_matrix_term", "reconstruction_dict",
            "mapped_reconstructed_data_dict", "mapped_reconstructed_image_dict", "reconstruction_noise_map",
            "regularization_weights_mapper_dict", "mapper_edge_pixel_list", "no_regularization_index_list", "total_params",
            "data_subtracted_dict", "errors", "errors_with_covariance"],
    "mapper": ["mapping_matrix", "pix_indexes_for_sub_slim_index", "pix_sizes_for_sub_slim_index", "pix_weights_for_sub_slim_index",
               "regularization_matrix", "params", "neighbors", "edge_pixel_list", "sub_slim_indexes_for_pix_index"],
    "ds": ["data", "noise_map", "signal_to_noise_map", "signal_to_noise_max", "grid", "shape_native", "pixel_scales"],
    "grids": ["uniform", "non_uniform", "pixelization", "blurring"],
    "mask": ["pixels_in_mask", "is_all_false", "shape_native_masked_pixels", "mask_centre", "zoom_centre"],
}
def graph_target(parts, who):
    inv, ds, mappers = parts
    if who == "inv": return inv
    if who == "ds": return ds
    if who == "grids": return ds.grids
    if who == "mask": return ds.mask
    if who.startswith("mapper"): return mappers[int(who[6:]) % len(mappers)]
    raise ValueError(who)
def graph_read(parts, who, name):
    poison_next()
    try:
        v = getattr(graph_target(parts, who), name)
        if name == "neighbors": v = [v, getattr(v, "sizes", None)]
        if name == "unique_mappings": v = [v.data_to_pix_unique, v.data_weights, v.pix_lengths]
        try: return str(enc_val(v))
        except TypeError: return str(sorted(leaves(v, "v").items()))
    except Exception as e:   # noqa
        return "EXC " + type(e).__name__
_TWIN_CACHE = {}
def warm_start_all_passive(inv):
    """True iff the positive-only solver with an initial guess starts with EVERY parameter in the passive set (the unconstrained
    solution is strictly positive): computed on a private twin, only used to count how often the state is reached"""
    try:
        st = inv.settings
        if not (st.use_positive_only_solver and st.positive_only_uses_p_initial) or st.force_edge_pixels_to_zeros: return False
        return bool(np.all(np.linalg.solve(np.array(inv.curvature_reg_matrix), np.array(inv.data_vector)) > 0))
    except Exception: return False      # noqa
def run_graph(inp):
    cfg = inp["cfg"]
    key = str(sorted(cfg.items()))
    tw = _TWIN_CACHE.setdefault(key, {})
    inv, ds, mappers, owned = make_inversion(cfg)
    parts = (inv, ds, mappers)
    w = Watch(owned)
    objs = [inv, ds] + list(mappers.objs)
    bad = []
    if "warm" not in tw: tw["warm"] = warm_start_all_passive(make_inversion(cfg)[0])
    tally("graph/reuse/fit cases whose positive-only warm start has every parameter passive", int(tw["warm"]))
    for who, name in inp["reads"]:
        if (who, name) not in tw:
            ti, tds, tm, _ = make_inversion(cfg)
            tw[(who, name)] = graph_read((ti, tds, tm), who, name)
        before = stored(objs)
        got = graph_read(parts, who, name)
        if got != tw[(who, name)]:
            bad.append(f"{who}.{name} differs from the never-read twin")
        ch = stored_changed(before, objs)
        if ch: bad.append(f"reading {who}.{name} changed a value stored before: " + ",".join(ch[:3]))
    bad += w.bad()
    res = {"coq": None, "out": {"reads": len(inp["reads"]), "bad": bad[:5]}, "py_ok": not bad, "nontrivial": len(inp["reads"]) >= 3,
           "kind": "graph:" + type(inv).__name__ + (":warm-all-passive" if tw["warm"] else "")}
    if bad: res["detail"] = "; ".join(bad[:5])
    return res

# ----------------------------------------------------------------------------- dataset derivations (Python-side relation)
DS_VIEWS = {"grids": view_grids, "convolver": view_convolver, "w_tilde": view_w_tilde}
def ds_read(ds, name):
    poison_next()
    try:
        v = getattr(ds, name)
        return DS_VIEWS[name](v) if name in DS_VIEWS else enc_val(v)
    except Exception as e:   # noqa
        return exc_code(e)
def ds_derive(ds, d, owned):
    aa = import_aa()
    how = d["how"]
    if how == "trim": return ds.trimmed_after_convolution_from(kernel_shape=(3, 3))
    if how == "over_sampling":
        osd = aa.OverSamplingDataset(uniform=aa.OverSamplingUniform(sub_size=d["sub"])) if d.get("sub") else None
        owned.append(osd)
        return ds.apply_over_sampling(over_sampling=osd) if osd is not None else ds.apply_over_sampling()
    m2 = np.array(d["mask"], dtype=bool)
    mask2 = aa.Mask2D(mask=m2, pixel_scales=1.0)
    owned += [m2, mask2]
    if how == "mask": return ds.apply_mask(mask=mask2)
    if how == "noise_scaling":
        return ds.apply_noise_scaling(mask=mask2, noise_value=d.get("noise_value", 1.0e8), signal_to_noise_value=d.get("snr"))
    raise ValueError(how)
def ds_play(cfg, pre_reads, derivs, post_reads):
    """builds the dataset, reads [pre_reads] on it, derives, reads [post_reads] on every derived dataset and again on the source"""
    ds, mappers, settings, owned = build_graph(dict(cfg, mappers=[], w_tilde=False))
    w = Watch(owned)
    for q in pre_reads: ds_read(ds, q)
    out = []
    cur = ds
    for d in derivs:
        for q in d.get("reads_before", []): ds_read(cur, q)
        try: cur = ds_derive(cur, d, owned)
        except Exception as e:   # noqa
            out.append(exc_code(e)); break
        for q in post_reads: out.append(ds_read(cur, q))
    for q in post_reads: out.append(ds_read(ds, q))
    return out, w.bad()
def run_dsderive(inp):
    got, changed = ds_play(inp["cfg"], inp["pre_reads"], inp["derivs"], inp["post_reads"])
    ref, _ = ds_play(inp["cfg"], [], [{k: v for k, v in d.items() if k != "reads_before"} for d in inp["derivs"]], inp["post_reads"])
    bad = [f"observation {i} depends on earlier reads" for i, (a, b) in enumerate(zip(got, ref)) if a != b]
    if len(got) != len(ref): bad.append("different number of observations")
    bad += changed
    res = {"coq": None, "out": {"n": len(got), "bad": bad[:4]}, "py_ok": not bad, "nontrivial": bool(inp["pre_reads"]) and bool(inp["derivs"]),
           "kind": "dsderive:" + "+".join(d["how"] for d in inp["derivs"])}
    if bad: res["detail"] = "; ".join(bad[:4])
    return res

# ----------------------------------------------------------------------------- re-masking chains on FULLY specified datasets
# Imaging with every optional constructor argument (noise covariance matrix, noise map omitted, psf None / un-normalised,
# use_normalized_psf, pad_for_convolver, check_noise_map, over-sampling explicit / omitted); chains of apply_mask (a then b: larger,
# smaller, disjoint, equal), trimming, over-sampling and noise scaling with reads in between.  Every derived dataset is compared on
# EVERY attribute with its history-free twin (a fresh dataset taken through the CANONICAL chain: a re-masking goes back to the
# unmasked dataset, so the masks applied before it do not count), at creation and again at the end of the history; and the noise
# covariance matrix of every masked dataset is compared with an independent reference (rows / columns of the unmasked pixels of ITS
# mask, of the matrix the caller gave).
RM_READS = ["data", "noise_map", "noise_covariance_matrix", "noise_covariance_matrix_inv", "psf", "grids", "convolver", "w_tilde",
            "signal_to_noise_map", "signal_to_noise_max", "mask", "shape_native", "pixel_scales", "grid"]
RM_APPROX = ("psf", "convolver", "w_tilde")
def rm_floats(x, out):
    """the float arrays reachable from a kernel / convolver / w-tilde object (compared with a tolerance: see rm_view)"""
    from autoarray.abstract_ndarray import AbstractNDArray
    if isinstance(x, AbstractNDArray): out.append(np.array(x._array, dtype=float)); return
    if isinstance(x, np.ndarray):
        if x.dtype != object: out.append(np.array(x, dtype=float))
        return
    if isinstance(x, (int, float, np.generic)): out.append(np.array([float(x)])); return
    d = getattr(x, "__dict__", None)
    if isinstance(d, dict):
        for k in sorted(d):
            if isinstance(d[k], (np.ndarray, AbstractNDArray, int, float, np.generic)) and k != "mask": rm_floats(d[k], out)
def rm_view(ds):
    """every public quantity of an Imaging dataset (plain attributes, properties, cached properties), and of its `unmasked`.
    -> (exact, approx): apply_mask hands the dataset's (already normalised) psf to the Imaging constructor, which normalises it
    again: the kernel of a twice-masked dataset may differ from the once-masked twin's in the last bit (x / s with s = 1 +- 1 ulp) --
    psf, convolver and w_tilde are therefore compared to a relative 1e-12 (same shapes), everything else bit for bit."""
    out = {}; approx = {}
    for n in RM_READS:
        try:
            v = getattr(ds, n)
            if n in RM_APPROX:
                fl = []; rm_floats(v, fl); approx[n] = fl
                out[n] = [NAN + 3] if v is None else [list(a.shape) for a in fl]
            else: out[n] = DS_VIEWS[n](v) if n in DS_VIEWS else enc_val(v)
        except Exception as e: out[n] = exc_code(e)      # noqa
    try: out["over_sampling"] = os_record(ds.over_sampling)
    except Exception as e: out["over_sampling"] = exc_code(e)     # noqa
    out["flags"] = [repr(getattr(ds, "pad_for_convolver", None)), repr(getattr(ds, "use_normalized_psf", None))]
    u = getattr(ds, "unmasked", None)
    out["unmasked"] = [NAN + 3] if u is None else [enc_val(u.data), enc_val(u.noise_map), enc_val(u.noise_covariance_matrix), os_record(u.over_sampling)]
    if u is not None: fl = []; rm_floats(u.psf, fl); approx["unmasked.psf"] = fl
    return out, approx
def rm_close(a, b):
    return len(a) == len(b) and all(x.shape == y.shape and np.allclose(x, y, rtol=1e-12, atol=0.0, equal_nan=True) for x, y in zip(a, b))
def rm_base(cfg, owned):
    aa = import_aa()
    H, W = cfg["shape"]; N = H * W
    ps = cfg.get("ps", 1.0)
    dv = np.array(cfg["data"], dtype=float).reshape(H, W)
    m0 = aa.Mask2D.all_false(shape_native=(H, W), pixel_scales=ps)
    data = aa.Array2D(values=dv, mask=m0, store_native=cfg.get("native", False))
    owned += [dv, data, m0]
    kw = {}
    if cfg.get("noise") is not None:
        nv = np.array(cfg["noise"], dtype=float).reshape(H, W)
        noise = aa.Array2D(values=nv, mask=m0, store_native=cfg.get("native", False))
        owned += [nv, noise]
    else: noise = None
    if cfg.get("cov") is not None:
        c = cfg["cov"]
        cov = np.zeros((N, N))
        for i in range(N):
            cov[i, i] = c["diag"][i]
            for d, v in zip((1, W), c["off"]):
                if i + d < N: cov[i, i + d] = cov[i + d, i] = v * (1 + (i % 3))
        if c.get("dtype") == "int": cov = np.round(cov * 8).astype(np.int64)
        if c.get("fortran"): cov = np.asfortranarray(cov)
        kw["noise_covariance_matrix"] = cov; owned.append(cov)
    if cfg.get("psf") is not None:
        pv = np.array(cfg["psf"]["v"], dtype=float).reshape(cfg["psf"]["shape"])
        psf = aa.Kernel2D.no_mask(values=pv, pixel_scales=ps)
        owned += [pv, psf]
    else: psf = None
    if cfg.get("os") is not None:
        osd = mk_os(cfg["os"]); owned.append(osd); kw["over_sampling"] = osd
    for k in ("pad_for_convolver", "use_normalized_psf", "check_noise_map"):
        if k in cfg: kw[k] = cfg[k]
    return aa.Imaging(data=data, noise_map=noise, psf=psf, **kw)
def rm_step(ds, st, cfg, owned):
    aa = import_aa()
    how = st["how"]
    if how == "trim": return ds.trimmed_after_convolution_from(kernel_shape=tuple(st["kernel_shape"]))
    if how == "over_sampling":
        if st.get("os") is None: return ds.apply_over_sampling()
        osd = mk_os(st["os"]); owned.append(osd)
        return ds.apply_over_sampling(over_sampling=osd)
    m2 = np.array(st["mask"], dtype=bool)
    mask2 = aa.Mask2D(mask=m2, pixel_scales=cfg.get("ps", 1.0))
    owned += [m2, mask2]
    if how == "mask": return ds.apply_mask(mask=mask2)
    if how == "noise_scaling": return ds.apply_noise_scaling(mask=mask2, noise_value=st.get("noise_value", 1.0e8), signal_to_noise_value=st.get("snr"))
    raise ValueError(how)
def rm_twin(cfg, chain):
    """the history-free twin: a fresh dataset from fresh arrays taken through [chain], nothing read on the way"""
    owned = []
    ds = rm_base(cfg, owned)
    for st in chain: ds = rm_step(ds, st, cfg, owned)
    return ds
def rm_cov_ref(cfg, mask):
    """rows / columns of the caller's covariance matrix at the unmasked pixels of [mask] (row-major)"""
    o = []
    cov = rm_base(dict(cfg, psf=None), o).noise_covariance_matrix
    idx = [i for i, b in enumerate(np.array(mask, dtype=bool).ravel()) if not b]
    return np.array(cov)[np.ix_(idx, idx)]

def run_remask(inp):
    cfg = inp["cfg"]
    owned = []
    bad = []
    poison(7.7)
    try: ds0 = rm_base(cfg, owned)
    except Exception as e:      # noqa   (a configuration the constructor rejects: the twin must reject it too)
        try: rm_base(cfg, []); bad.append("constructor raised once, not twice")
        except Exception as e2:      # noqa
            if type(e2) is not type(e): bad.append("constructor raised different exceptions on equal inputs")
        tally(f"remask: constructor rejects the configuration ({type(e).__name__})")
        if os.environ.get("C11_DEBUG"): print("REJECT", repr(e)[:300], {k: v for k, v in cfg.items() if k not in ("data", "noise", "cov")})
        return {"coq": None, "out": {"bad": bad}, "py_ok": not bad, "nontrivial": False, "kind": "remask:rejected", **({"detail": bad[0]} if bad else {})}
    w = Watch(owned)
    # nodes: (dataset, canonical chain, chain of its `unmasked` dataset or None, current mask is all false, label)
    nodes = [(ds0, [], None, True, "ds0")]
    n_remask = 0; n_cmp = 0
    def compare(i, when):
        nonlocal n_cmp
        ds, chain, _, _, label = nodes[i]
        poison(-3.3e5)
        try: tw = rm_twin(cfg, chain)
        except Exception as e:      # noqa
            bad.append(f"{label} ({when}): the history-free twin cannot be built ({type(e).__name__})"); return
        poison(1.0e-300)
        (a, ax), (b, bx) = rm_view(ds), rm_view(tw)
        n_cmp += 1
        for k in a:
            if a[k] != b[k]: bad.append(f"{label} ({when}): `{k}` differs from the history-free twin {[s['how'] for s in chain]}")
        for k in set(ax) | set(bx):
            if k not in ax or k not in bx or not rm_close(ax[k], bx[k]):
                bad.append(f"{label} ({when}): `{k}` differs (beyond 1e-12) from the history-free twin {[s['how'] for s in chain]}")
        # independent references (not through a twin): a dataset's quantities follow from its own mask and the caller's arrays
        hows = [s["how"] for s in chain]
        last = [s for s in chain if s["how"] == "mask"]
        if cfg.get("cov") is not None and "over_sampling" not in hows:      # apply_over_sampling does not carry the matrix (present behaviour)
            got = getattr(ds, "noise_covariance_matrix", None)
            ref = rm_cov_ref(cfg, last[-1]["mask"] if last else np.zeros(cfg["shape"], bool))
            if got is None or np.shape(got) != ref.shape or not np.array_equal(np.asarray(got, dtype=float), ref.astype(float)):
                bad.append(f"{label} ({when}): noise_covariance_matrix (shape {np.shape(got)}) is not the caller's matrix restricted to the "
                           f"{ref.shape[0]} unmasked pixels of the dataset's own mask")
        # no derivation changes the kernel: it is the caller's (normalised unless use_normalized_psf=False), the flag is the caller's
        try:
            want_norm = cfg.get("use_normalized_psf", True)
            if getattr(ds, "use_normalized_psf", None) is not want_norm and "use_normalized_psf" in ds.__dict__:
                bad.append(f"{label} ({when}): use_normalized_psf is {ds.use_normalized_psf!r}, the source dataset was built with {want_norm!r}")
            if cfg.get("psf") is None:
                if ds.psf is not None: bad.append(f"{label} ({when}): a psf appeared")
            else:
                pv = np.array(cfg["psf"]["v"], dtype=float).reshape(cfg["psf"]["shape"])
                if want_norm: pv = pv / pv.sum()
                if ds.psf is None or not rm_close([np.array(ds.psf.native._array, dtype=float)], [pv]):
                    bad.append(f"{label} ({when}): psf is not the caller's kernel" + (" normalised" if want_norm else " as given (use_normalized_psf=False)"))
        except Exception as e: bad.append(f"{label} ({when}): reading psf raised {type(e).__name__}")     # noqa
        if hows == ["mask"] or hows == []:
            H, W = cfg["shape"]
            mk = np.array(last[-1]["mask"], dtype=bool) if last else np.zeros((H, W), bool)
            try:
                if tuple(ds.data.shape_native) == (H, W):       # not padded
                    refs = [("data", np.array(cfg["data"], dtype=float).reshape(H, W))]
                    if cfg.get("noise") is not None: refs.append(("noise_map", np.array(cfg["noise"], dtype=float).reshape(H, W)))
                    for nm_, full in refs:
                        x = getattr(ds, nm_)
                        if not (same_bits(x.native, np.where(mk, 0.0, full)) and same_bits(x.slim, full[~mk]) and np.array_equal(np.array(x.mask), mk)):
                            bad.append(f"{label} ({when}): `{nm_}` is not the caller's array under the dataset's own mask")
            except Exception as e: bad.append(f"{label} ({when}): reading data / noise_map raised {type(e).__name__}")     # noqa
    # PART F (Model/C11r.v): chains of apply_mask / looks only, on a dataset whose own mask is all false -> KRemask, evaluated in Coq
    modelled = bool(inp.get("pure")) and all(st["how"] in ("mask", "read") for st in inp["steps"]) and cfg.get("pad_for_convolver") is not True
    cidx = {0: 0}; cops = []; couts = []       # node index -> index among the datasets that exist (a derivation that raises makes none)
    def cview(ds):
        c = getattr(ds, "noise_covariance_matrix", None)
        return "(ROk " + carr(enc_arr(ds.data.slim)) + " " + copt(c, lambda m: clist([carr(enc_arr(r)) for r in np.asarray(m)])) + ")"
    for st in inp["steps"]:
        if len(bad) > 6: modelled = False; break
        if st["how"] == "read":
            if nodes[st["d"]] is None: continue
            ds = nodes[st["d"]][0]
            for q in st["q"]:
                try: getattr(ds, q)
                except Exception: pass      # noqa
            if modelled: cops.append(f"(RPeek {cnat(cidx[st['d']])})"); couts.append(cview(ds))
            continue
        if modelled and nodes[st["d"]] is not None:
            cops.append(f"(RMask {cnat(cidx[st['d']])} {cmask(np.array(st['mask'], dtype=bool).ravel())})")
            couts.append(None)       # filled below: what the derived dataset reports, or RRaise
        if nodes[st["d"]] is None: nodes.append(None); continue       # derived from a dataset whose derivation raised
        ds, chain, unm, allfalse, label = nodes[st["d"]]
        step = {k: v for k, v in st.items() if k != "d"}
        how = st["how"]
        # the canonical (history-free) chain of the result: a re-masking goes back to the `unmasked` dataset
        if how == "mask":
            base = chain if allfalse else unm
            meta = (list(base) + [step] if base is not None else None, None if base is None else list(base),
                    not np.array(st["mask"], dtype=bool).any(), f"{label}.mask")
        elif how == "trim": meta = (chain + [step], unm, allfalse, f"{label}.trim")
        else: meta = (chain + [step], None, allfalse, f"{label}.{how}")
        try: new = rm_step(ds, step, cfg, owned)
        except Exception as e:      # noqa
            # the history-free twin of the result must fail in the same way (no `unmasked` dataset to go back to: nothing to compare)
            nb = len(bad)
            if meta[0] is not None:
                try: rm_twin(cfg, meta[0]); bad.append(f"{how} on {label} raised {type(e).__name__}; the history-free twin {[s['how'] for s in meta[0]]} is built without error")
                except Exception as e2:      # noqa
                    if type(e2) is not type(e): bad.append(f"{how} on {label} raised {type(e).__name__}, the history-free twin {type(e2).__name__}")
            tally(f"remask: {how} raises {type(e).__name__}" + (" (the source has no `unmasked`)" if meta[0] is None else " (so does the twin)" if len(bad) == nb else " (the twin does not)"))
            if os.environ.get("C11_DEBUG"): print("RAISE", how, label, repr(e)[:300], {k: v for k, v in cfg.items() if k not in ("data", "noise", "cov")})
            if modelled: couts[-1] = "RRaise"
            nodes.append(None); continue
        if modelled: cidx[len(nodes)] = len(cidx); couts[-1] = cview(new)
        if how == "mask" and not allfalse: n_remask += 1
        if meta[0] is None: nodes.append(None); continue       # cannot happen: re-masking without `unmasked` raises
        node = (new,) + meta
        nodes.append(node)
        compare(len(nodes) - 1, "at creation")
    for i in range(len(nodes)):
        if nodes[i] is not None: compare(i, "at the end")
    bad += w.bad()
    tally("remask: re-masking of an already masked dataset", n_remask); tally("remask: datasets compared with a history-free twin", n_cmp)
    if cfg.get("cov") is not None: tally("remask: datasets with a noise covariance matrix")
    coq = None
    if modelled and cops:
        cov0 = next((o for o in owned if isinstance(o, np.ndarray) and o.ndim == 2 and o.shape == (len(cfg["data"]),) * 2), None) if cfg.get("cov") is not None else None
        coq = (f"(KRemask {carr(enc_arr(np.array(cfg['data'], dtype=float)))} {copt(cov0, lambda m: clist([carr(enc_arr(r)) for r in m]))} "
               f"{clist(cops)} {clist(couts)})")
        tally("remask: KRemask cases (machine of Model/C11r.v vs value semantics, in Coq)")
    res = {"coq": coq, "out": {"nodes": len(nodes), "remask": n_remask, "bad": bad[:5]}, "py_ok": not bad, "nontrivial": n_remask > 0,
           "kind": "remask" + (":cov" if cfg.get("cov") is not None else "") + (":again" if n_remask else "")}
    if bad: res["detail"] = "; ".join(bad[:5])
    return res

def rm_mask(rng, H, W, border, style, prev=None):
    """masks for re-masking chains: relative to [prev] larger / smaller / disjoint / equal, else a random region; [border] outer rings
    are always masked (border >= 2 keeps a masked ring through a 3x3 trimming and the blurring region inside the frame)"""
    ins = [(y, x) for y in range(border, H - border) for x in range(border, W - border)]
    if prev is not None and style != "random":
        pu = [p for p in ins if not prev[p[0]][p[1]]]; pm = [p for p in ins if prev[p[0]][p[1]]]
        if style == "equal": un = pu
        elif style == "smaller": un = rng.sample(pu, max(1, len(pu) // 2))
        elif style == "larger": un = pu + rng.sample(pm, (len(pm) + 1) // 2)
        else: un = pm if pm else pu      # disjoint
    else: un = [p for p in ins if rng.random() < rng.choice([0.3, 0.6, 0.9])]
    if not un: un = [ins[len(ins) // 2]]
    m = [[True] * W for _ in range(H)]
    for (y, x) in un: m[y][x] = False
    return m
def gen_remask(rng, k):
    H, W = rng.randint(5, 8), rng.randint(5, 8)
    if k % 2 == 0: H, W = rng.randint(4, 6), rng.randint(4, 6)      # the KRemask cases carry the whole matrix into Coq: keep them small
    N = H * W
    border = min(rng.choice([0, 1, 2, 2, 2]), (min(H, W) - 1) // 2)
    cfg = {"shape": [H, W], "data": [rng.choice([rng.randint(0, 20), rng.randint(1, 99) / 8.0]) for _ in range(N)],
           "noise": [rng.choice([1, 2, 4, 0.5]) for _ in range(N)], "native": rng.random() < 0.4, "ps": rng.choice([1.0, 1.0, 0.5])}
    if k % 4 != 3:
        cfg["cov"] = {"diag": [rng.choice([4, 5, 6, 8.5]) for _ in range(N)], "off": [rng.choice([0, 0.25, -0.5]), rng.choice([0, 0.125])],
                      "dtype": rng.choice(["float", "float", "float", "int"]), "fortran": rng.random() < 0.2}
        if rng.random() < 0.25: cfg["noise"] = None       # the noise map is then the diagonal of the covariance matrix
    r = rng.random()
    if r < 0.15: cfg["psf"] = None
    elif r < 0.6: cfg["psf"] = {"shape": [3, 3], "v": [rng.randint(0, 3) for _ in range(8)] + [1]}
    elif r < 0.8: cfg["psf"] = {"shape": list(rng.choice([(3, 5), (5, 3), (1, 3)])), "v": None}
    else: cfg["psf"] = {"shape": [3, 3], "v": [0, 0.125, 0, 0.125, 0.5, 0.125, 0, 0.125, 0]}
    if cfg["psf"] and cfg["psf"]["v"] is None:
        cfg["psf"]["v"] = [rng.randint(0, 3) for _ in range(cfg["psf"]["shape"][0] * cfg["psf"]["shape"][1] - 1)] + [2]
    if rng.random() < 0.7: cfg["os"] = [rng.choice([0, 1, 2]), rng.choice([0, 0, 2]), rng.choice([0, 1, 2])]
    if rng.random() < 0.4: cfg["use_normalized_psf"] = rng.choice([False, False, True])
    pure = k % 2 == 0        # apply_mask / looks only: the chains Model/C11r.v speaks about
    if rng.random() < 0.25: cfg["pad_for_convolver"] = (rng.random() < 0.3) and not pure     # True pads (and masks) unmasked data: apply_mask then has no `unmasked`
    if rng.random() < 0.3: cfg["check_noise_map"] = rng.choice([True, False])
    trim_ok = border >= 2 and cfg["psf"] is not None
    steps = []; nodes = [{"allfalse": True, "masked": False, "mask": None, "dead": False}]   # dead: `unmasked` lost (over-sampling / noise scaling)
    if rng.random() < 0.2 and not pure:
        steps.append({"how": "noise_scaling", "d": 0, "mask": rm_mask(rng, H, W, max(border, 1), "random"), **({"snr": 2.0} if rng.random() < 0.5 else {})})
        nodes.append({"allfalse": True, "masked": False, "mask": None, "dead": False})
    if rng.random() < 0.3 and not pure:
        steps.append({"how": "over_sampling", "d": len(nodes) - 1, "os": rng.choice([None, [2, 0, 0], [0, 0, 2], [1, 2, 1]])})
        nodes.append({"allfalse": True, "masked": False, "mask": None, "dead": False})
    n_mask = 0
    for _ in range(rng.randint(3, 7)):
        live = [i for i, n in enumerate(nodes) if not n["dead"]]
        d = rng.choice(live[-3:])
        n = nodes[d]
        r = rng.random()
        if r < 0.25:
            steps.append({"how": "read", "d": rng.randrange(len(nodes)), "q": rng.sample(RM_READS, rng.randint(1, 4))})
        elif r < 0.8 or n_mask < 2 or pure:
            if n.get("trimmed") and n["allfalse"]: continue
            style = rng.choice(["larger", "smaller", "disjoint", "equal", "random"])
            m = rm_mask(rng, H, W, border, style, n["mask"])
            steps.append({"how": "mask", "d": d, "mask": m}); n_mask += 1
            nodes.append({"allfalse": not any(any(row) for row in m), "masked": True, "mask": m, "dead": False})
        elif r < 0.9 and trim_ok and not n.get("trimmed"):
            steps.append({"how": "trim", "d": d, "kernel_shape": [3, 3]})
            nodes.append(dict(n, trimmed=True))
        else:
            steps.append({"how": "over_sampling", "d": d, "os": rng.choice([None, [2, 0, 0], [0, 0, 2]])})
            nodes.append(dict(n, dead=n["masked"]))
    return {"op": "remask", "cfg": cfg, "steps": steps, "pure": pure}

# ----------------------------------------------------------------------------- object REUSE: shared parts, several inversions
def build_reuse(inp, only=None):
    """datasets (same mask / psf, own data and noise), mappers, ONE settings object, optionally ONE Preloads object, and the
    inversions listed in inp["invs"], each naming the dataset and the mappers it uses.  only=k: inversion k alone, built from parts
    nobody else uses (the twin)."""
    aa = import_aa()
    base = inp["base"]
    invs = inp["invs"] if only is None else [inp["invs"][only]]
    dss, mps, owned = {}, {}, []
    def cfg_for(d, mlist):
        return dict(base, data=inp["datasets"][d]["data"], noise=inp["datasets"][d]["noise"], psf=inp["datasets"][d].get("psf", PSF),
                    mappers=[inp["mappers"][k] for k in mlist])
    settings = None
    pre = None
    out = []
    for iv in invs:
        d = iv["ds"]
        ds, mappers, st, own = build_graph(cfg_for(d, iv["mappers"]))
        owned += own
        if settings is None: settings = st
        if d in dss: ds = dss[d]
        else: dss[d] = ds
        objs = []
        for k, mp in zip(iv["mappers"], mappers):
            if k not in mps: mps[k] = mp
            objs.append(mps[k])
        kw = {}
        if inp.get("preload"):
            if pre is None:
                # the caller's precomputed matrices: they depend on the mappers (and the psf) only, so one Preloads object may
                # legitimately serve every inversion that uses the same mappers
                src = aa.Inversion(dataset=build_graph(cfg_for(d, iv["mappers"]))[0], linear_obj_list=build_graph(cfg_for(d, iv["mappers"]))[1],
                                   settings=aa.SettingsInversion(use_w_tilde=base["w_tilde"], no_regularization_add_to_curvature_diag_value=1.0))
                arrs = {n: np.array(getattr(src, PRELOADABLE.get(n, n))) for n in inp["preload"]}
                pre = aa.Preloads(**arrs); pre._for = list(iv["mappers"])
                owned += [pre] + list(arrs.values())
            if pre._for == list(iv["mappers"]): kw["preloads"] = pre
        out.append((aa.Inversion(dataset=ds, linear_obj_list=objs, settings=settings, **kw), ds, objs))
    return out, owned
_REUSE_TWINS = {}
def run_reuse(inp):
    tw = _REUSE_TWINS.setdefault(str(sorted((k, str(v)) for k, v in inp.items() if k != "reads")), {})
    built, owned = build_reuse(inp)
    w = Watch(owned)
    objs = [o for b in built for o in [b[0], b[1]] + list(b[2])]
    bad = []
    if "warm" not in tw: tw["warm"] = [warm_start_all_passive(build_reuse(inp, only=k)[0][0][0]) for k in range(len(inp["invs"]))]
    tally("graph/reuse/fit cases whose positive-only warm start has every parameter passive", int(any(tw["warm"])))
    for k, who, name in inp["reads"]:
        if (k, who, name) not in tw:
            tb, _ = build_reuse(inp, only=k)
            tw[(k, who, name)] = graph_read(tb[0], who, name)
        before = stored(objs)
        if graph_read(built[k], who, name) != tw[(k, who, name)]:
            bad.append(f"inversion {k}: {who}.{name} differs from the twin built from unshared parts")
        ch = stored_changed(before, objs)
        if ch: bad.append(f"reading {who}.{name} of inversion {k} changed a value stored before: " + ",".join(ch[:3]))
    if inp.get("scaled"):
        # metamorphic oracle that does not go through a twin (a cache shared by ALL objects would serve the twin the same stale
        # value): datasets 0 and 1 hold data d and 2 d with one noise map, inversions 0 and 1 use the same mappers, so the data
        # vector of the second is exactly twice the first's (every term of the sum doubles exactly) and the curvature matrices agree
        try:
            d0, d1 = np.array(built[0][0].data_vector), np.array(built[1][0].data_vector)
            f0, f1 = np.array(built[0][0].curvature_matrix), np.array(built[1][0].curvature_matrix)
            if not np.array_equal(2.0 * d0, d1): bad.append("data_vector of the inversion on 2 x data is not twice the data_vector on data")
            if not np.array_equal(f0, f1): bad.append("curvature_matrix differs between two datasets with one noise map")
        except Exception as e:   # noqa
            bad.append("scaled pair: " + type(e).__name__)
    bad += w.bad()
    shared = "+".join(x for x, c in (("dataset", len({iv["ds"] for iv in inp["invs"]}) < len(inp["invs"])),
                                     ("mapper", len({tuple(iv["mappers"]) for iv in inp["invs"]}) < len(inp["invs"])),
                                     ("preloads", bool(inp.get("preload")))) if c)
    res = {"coq": None, "out": {"reads": len(inp["reads"]), "bad": bad[:5]}, "py_ok": not bad, "nontrivial": len(inp["reads"]) >= 3,
           "kind": "reuse:" + (shared or "settings")}
    if bad: res["detail"] = "; ".join(bad[:5])
    return res
def with_sweeps(rng, prefix, universe):
    """a random prefix, then every quantity of [universe] once in a random order and once more in the reverse order: for every
    ordered pair (X, Y) of quantities some read of Y follows a read of X"""
    order = [list(u) for u in universe]; rng.shuffle(order)
    return [list(p) for p in prefix] + order + order[::-1]
REUSE_KEY_Q = ["operated_mapping_matrix", "data_vector", "curvature_matrix", "regularization_matrix", "curvature_reg_matrix",
               "reconstruction", "mapped_reconstructed_data", "log_det_curvature_reg_matrix_term"]
def gen_reuse(rng):
    if rng.random() < 0.75: return gen_reuse_scenario(rng)
    return gen_reuse_random(rng)
def gen_reuse_scenario(rng):
    """the three ways parts are shared downstream: one mapper set fitted to two datasets (data, noise, psf differ); one dataset
    fitted with two mapper sets whose matrices have ONE shape and different contents; the same fit on d and on 2 d"""
    H, W = rng.randint(5, 6), rng.randint(5, 6)
    base = {"shape": [H, W], "holes": [], "w_tilde": rng.random() < 0.4, "positive": False, "sub": 1}
    mk = lambda: {"data": [rng.randint(0, 20) for _ in range(H * W)], "noise": [rng.choice([1, 2, 4]) for _ in range(H * W)]}
    mappers = [[3, 3, rng.choice([1.0, 2.0])], [2, 2, 1.0], [3, 2, 4.0], [2, 3, 4.0]]
    sc = rng.choice(["two-datasets", "two-mapper-sets", "scaled", "same-fit", "same-fit"])
    scaled = False
    if sc == "same-fit":
        # the same fit repeated (a non-linear search evaluating one model twice) with ONE Preloads object that carries the arrays
        # of the first evaluation, among them the mapper data vector; positive-only solver from an all-passive warm start
        c = posall({"shape": [H, W], "mappers": []}, rng)
        base.update(positive=True, p_initial=True, force_edge=False)
        datasets = [{"data": c["data"], "noise": c["noise"]}]
        ms = rng.choice([[0], [0, 1], [2]])
        invs = [{"ds": 0, "mappers": ms}, {"ds": 0, "mappers": list(ms)}] + ([{"ds": 0, "mappers": list(ms)}] if rng.random() < 0.3 else [])
    elif sc == "two-datasets":
        datasets = [mk(), mk()]
        if rng.random() < 0.5: datasets[1]["psf"] = [[0.0, 1.0, 0.0], [2.0, 4.0, 1.0], [0.0, 1.0, 1.0]]
        ms = rng.choice([[0], [1], [0, 1], [2]])
        invs = [{"ds": 0, "mappers": ms}, {"ds": 1, "mappers": list(ms)}]
    elif sc == "two-mapper-sets":
        datasets = [mk()]
        a, b = rng.choice([([2], [3]), ([3], [2]), ([0, 2], [0, 3]), ([2], [3])])
        invs = [{"ds": 0, "mappers": a}, {"ds": 0, "mappers": b}]
    else:
        d0 = mk(); datasets = [d0, {"data": [2 * x for x in d0["data"]], "noise": list(d0["noise"])}]
        ms = rng.choice([[0], [0, 1], [2]])
        invs = [{"ds": 0, "mappers": ms}, {"ds": 1, "mappers": list(ms)}]; scaled = True
    pre = rng.choice([None, None, ["regularization_matrix"]]) if sc != "two-mapper-sets" else None
    if sc == "same-fit":
        pre = rng.choice([["data_vector_mapper"], ["data_vector_mapper", "regularization_matrix"], ["data_vector_mapper", "curvature_matrix"],
                          ["operated_mapping_matrix", "data_vector_mapper"]])
    inp = {"op": "reuse", "base": base, "datasets": datasets, "mappers": mappers, "invs": invs, "preload": pre, "scaled": scaled}
    uni = [[k, "inv", q] for k in range(len(invs)) for q in REUSE_KEY_Q] + [[k, "mapper0", "mapping_matrix"] for k in range(len(invs))]
    inp["reads"] = with_sweeps(rng, [rng.choice(uni) for _ in range(rng.randint(0, 3))], uni)
    return inp
def gen_reuse_random(rng):
    H, W = rng.randint(5, 6), rng.randint(5, 6)
    base = {"shape": [H, W], "holes": [], "w_tilde": rng.random() < 0.5, "positive": rng.random() < 0.2, "sub": 1}
    nd = rng.choice([1, 2, 2])
    datasets = [{"data": [rng.randint(0, 20) for _ in range(H * W)], "noise": [rng.choice([1, 2, 4]) for _ in range(H * W)]} for _ in range(nd)]
    # [3, 2] and [2, 3] meshes: mapping matrices of one shape and different contents
    mappers = [[3, 3, rng.choice([1.0, 2.0])], [2, 2, 1.0], [3, 2, 4.0], [2, 3, 4.0]]
    invs = []
    for _ in range(rng.randint(2, 3)):
        invs.append({"ds": rng.randrange(nd), "mappers": rng.choice([[0], [0], [1], [0, 1], [2], [3], [2], [3]])})
    scaled = nd == 2 and rng.random() < 0.5
    psf2 = [[0.0, 1.0, 0.0], [2.0, 4.0, 1.0], [0.0, 1.0, 1.0]]
    if scaled:
        datasets[1] = {"data": [2 * x for x in datasets[0]["data"]], "noise": list(datasets[0]["noise"])}
        invs[0]["ds"], invs[1]["ds"] = 0, 1; invs[1]["mappers"] = list(invs[0]["mappers"])
        base["positive"] = False
    elif nd == 2 and rng.random() < 0.5: datasets[1]["psf"] = psf2
    pre = rng.choice([None, None, ["regularization_matrix"], ["operated_mapping_matrix"]])
    if pre == ["operated_mapping_matrix"] and any("psf" in d for d in datasets): pre = ["regularization_matrix"]   # it depends on the psf
    inp = {"op": "reuse", "base": base, "datasets": datasets, "mappers": mappers, "invs": invs, "preload": pre, "scaled": scaled}
    reads = []
    for _ in range(rng.randint(4, 12)):
        k = rng.randrange(len(invs))
        w = rng.choice(["inv"] * 5 + ["mapper0", "ds", "grids"])
        reads.append([k, w, rng.choice(GRAPH_Q["mapper" if w.startswith("mapper") else w])])
    inp["reads"] = reads
    return inp

# ----------------------------------------------------------------------------- read -> user edits in place -> re-read
EDIT_Q = {"array": KINDS["array"].plain + ["in_counts"], "kernel": KINDS["kernel"].plain, "grid": KINDS["grid"].plain + ["is_uniform"],
          "vector": KINDS["vector"].plain, "vis": KINDS["vis"].plain + ["amplitudes", "phases"],
          "mask": KINDS["mask"].plain + ["circular_radius", "native_for_slim", "edge", "unmasked_grid"],
          "dataset": ["signal_to_noise_map", "signal_to_noise_max", "data", "noise_map"]}
def edit_read(kind, obj, name):
    poison_next()
    try:
        if name == "native_for_slim": return enc_val(obj.derive_indexes.native_for_slim)
        if name == "edge": return enc_val(obj.derive_mask.edge)
        if name == "unmasked_grid": return enc_val(obj.derive_grid.unmasked)
        return enc_val(getattr(obj, name))
    except Exception as e:   # noqa
        return exc_code(e)
def run_edit(inp):
    """construct from the caller's array; read; the USER assigns into the object (obj[key] = value: documented numpy-style use);
    read again: every quantity that was not read before the edit must be the one of a freshly built object holding the edited
    contents (a quantity read before the edit may be a cached_property of the present code: it is only required to be stable),
    and the caller's array must still hold what it held (the constructor copied it)."""
    aa = import_aa()
    kind, mask2d, sn = inp["kind"], inp["mask"], bool(inp["store_native"])
    base = "array" if kind == "dataset" else kind
    nd = decode(inp["v"], base, inp["shape"])
    nd0 = nd.copy()
    obj = make(base, nd, mask2d, sn)
    arr_obj = obj
    if kind == "dataset": obj = make_dataset(arr_obj)
    cached = set(KINDS[kind].cached) | {"is_uniform", "amplitudes", "phases", "circular_radius"}
    bad = []
    sfp = singletons_fp()
    seen = set()
    for q in inp["pre"]:
        edit_read(kind, obj, q); seen.add(q)
    if inp.get("derive"):
        # the user edits an object DERIVED from this one: the source (and the caller's array) must not notice
        how = inp["derive"]
        src = obj if kind == "dataset" else arr_obj
        before_derive = enc_arr(arr_of(base, arr_obj))
        try:
            if how == "native": der = src.native
            elif how == "slim": der = src.slim
            elif how == "copy": der = src.copy()
            elif how == "deepcopy": import copy as _cp; der = _cp.deepcopy(src)
            elif how == "shallowcopy": import copy as _cp; der = _cp.copy(src)
            elif how == "normalized": der = src.normalized
            elif how == "flipped": der = src.flipped
            elif how == "trim": der = src.trimmed_after_convolution_from(kernel_shape=(3, 3))
            elif how == "pad": der = src.padded_before_convolution_from(kernel_shape=(3, 3))
            elif how == "resize": der = src.resized_from(new_shape=(len(mask2d) + 2, len(mask2d[0]) + 1))
            elif how == "edge": der = src.derive_mask.edge
            elif how == "invert": der = src.invert()
            elif how == "neg": der = -src
            else: raise ValueError(how)
            target = der.data if kind == "dataset" else der
            target[(0,) * np.ndim(target._array)] = True if kind == "mask" else (complex(7, -7) if kind == "vis" else 77.0)
        except Exception as e:   # noqa  (a derivation that this object does not support: nothing was edited)
            if isinstance(e, ValueError) and str(e) == how: raise
        # a copy (copy() / copy.copy / copy.deepcopy / -x) owns its buffer: editing it must leave the source's contents alone
        if how in ("copy", "deepcopy", "shallowcopy", "neg") and enc_arr(arr_of(base, arr_obj)) != before_derive:
            bad.append(f"the contents of the source changed when its {how} was edited in place")
    for (key, val) in inp["edits"]:
        k = tuple(key) if len(key) > 1 else key[0]
        if kind == "mask": arr_obj[k] = bool(val)
        elif kind == "vis": arr_obj[k] = complex(val, -val)
        else: arr_obj[k] = float(val)
    contents = enc_arr(arr_of(base, arr_obj))
    t = twin(kind, mask2d, sn, contents, np.shape(arr_of(base, arr_obj)))
    for q in inp["post"]:
        got = edit_read(kind, obj, q)
        if q in seen and q in cached: continue
        if got != edit_read(kind, t, q): bad.append(f"{kind}.{q} after an in-place edit is not the quantity of the edited contents")
    if kind != "vis" and not np.array_equal(nd, nd0, equal_nan=True):      # Visibilities(ndarray) stores the caller's array by design
        bad.append("the caller's array changed when the constructed object was edited")
    sc = singletons_changed(sfp)
    if sc: bad.append("default-argument singleton changed: " + ",".join(sc[:4]))
    res = {"coq": None, "out": {"bad": bad[:4]}, "py_ok": not bad, "nontrivial": bool(inp["pre"]) and (bool(inp["edits"]) or bool(inp.get("derive"))),
           "kind": "edit:" + kind + (":derived-" + inp["derive"] if inp.get("derive") else "")}
    if bad: res["detail"] = "; ".join(bad[:4])
    return res
def gen_edit(rng):
    kind = rng.choice(["array", "array", "grid", "mask", "vis", "kernel", "vector", "dataset", "dataset"])
    H, W = (rng.randint(3, 5), rng.randint(3, 5))
    mask = rand_mask(rng, H, W, p=rng.choice([0.0, 0.2]), border=False)
    if kind == "dataset": H, W = 5, rng.randint(5, 6); mask = rand_mask(rng, H, W, p=0.0, border=True)
    per = 2 if kind in ("grid", "vector") else 1
    native = rng.random() < 0.5
    sn = rng.random() < 0.5
    if kind == "vis":
        n = rng.randint(2, 5); shape = [n]; v = [rng.choice([-1, 1]) * rng.randint(1, 9) for _ in range(2 * n)]; native = sn = False
    elif kind == "mask":
        shape = [H, W]; v = [int(b) for r in mask for b in r]; native = sn = True
    else:
        shape = ([H, W] if native else [count_false(mask)]) + ([2] if per == 2 else [])
        v = [rng.randint(1, 9) for _ in range(int(np.prod(shape)))]
    # the edited entry: an unmasked pixel of the stored array
    pts = [(y, x) for y in range(H) for x in range(W) if not mask[y][x]]
    edits = []
    for _ in range(rng.randint(1, 2)):
        if kind == "vis": key = [rng.randrange(shape[0])]
        elif kind == "mask": key = list(rng.choice([(y, x) for y in range(H) for x in range(W)]))
        elif sn: key = list(rng.choice(pts)) + ([rng.randrange(2)] if per == 2 else [])
        else: key = [rng.randrange(len(pts))] + ([rng.randrange(2)] if per == 2 else [])
        edits.append([key, rng.randint(0, 1) if kind == "mask" else rng.randint(10, 30)])
    qs = EDIT_Q[kind]
    pre = rng.sample(qs, rng.randint(1, min(4, len(qs))))
    post = sorted(set(pre[:2] + rng.sample(qs, rng.randint(1, min(4, len(qs))))))
    derive = None
    if rng.random() < 0.5:
        derive = rng.choice({"array": ["native", "slim", "copy", "trim", "pad", "resize", "neg", "deepcopy", "shallowcopy"],
                             "kernel": ["native", "slim", "copy", "normalized", "deepcopy"],
                             "grid": ["native", "slim", "copy", "flipped", "neg", "deepcopy", "shallowcopy"], "vector": ["native", "slim", "copy", "deepcopy"],
                             "vis": ["copy", "neg", "deepcopy", "shallowcopy"],
                             "mask": ["copy", "edge", "invert", "deepcopy"], "dataset": ["trim"]}[kind])
        edits = []        # only the derived object is edited: every quantity of the source is compared with the twin of its unchanged contents
    return {"op": "edit", "kind": kind, "mask": mask, "store_native": sn, "shape": shape, "v": v, "pre": pre, "edits": edits, "post": post, "derive": derive}

# ----------------------------------------------------------------------------- fits: FitImaging -> dataset -> inversion
FIT_Q = ["data", "noise_map", "model_data", "signal_to_noise_map", "residual_map", "normalized_residual_map", "chi_squared_map",
         "chi_squared", "noise_normalization", "log_likelihood", "log_likelihood_with_regularization", "log_evidence", "figure_of_merit",
         "residual_flux_fraction_map", "reduced_chi_squared", "grids", "mask"]
_FIT_CLS = []
def fit_cls():
    if not _FIT_CLS:
        aa = import_aa()
        from autoconf import cached_property
        class HFit(aa.FitImaging):
            """the way FitImaging is specialised downstream: the model image is the inversion's reconstruction of the data"""
            def __init__(self, dataset, linear_obj_list, settings, preloads=None, **kw):
                super().__init__(dataset=dataset, **kw)
                self._objs, self._settings, self._pre = linear_obj_list, settings, preloads
            @cached_property
            def inversion(self):
                if self._objs is None: return None
                kw = {} if self._pre is None else {"preloads": self._pre}
                return import_aa().Inversion(dataset=self.dataset, linear_obj_list=self._objs, settings=self._settings, **kw)
            @property
            def model_data(self):
                if self._objs is None: return self._settings            # a fit of a given model image (no inversion)
                return self.inversion.mapped_reconstructed_data
        _FIT_CLS.append(HFit)
    return _FIT_CLS[0]
def build_fit(cfg):
    aa = import_aa()
    ds, mappers, settings, owned = build_graph(cfg)
    dm = aa.DatasetModel(background_sky_level=cfg.get("sky", 0.0), grid_offset=tuple(cfg.get("offset", (0.0, 0.0))))
    if cfg.get("model") is not None:
        mv = np.array(cfg["model"], dtype=float).reshape(cfg["shape"])
        model = aa.Array2D(values=mv, mask=ds.mask, store_native=bool(cfg.get("native", False)))
        fit = fit_cls()(dataset=ds, linear_obj_list=None, settings=model, use_mask_in_fit=cfg.get("use_mask", False), dataset_model=dm)
        owned = owned + [mv, model]
    else:
        fit = fit_cls()(dataset=ds, linear_obj_list=mappers.objs, settings=settings, use_mask_in_fit=False, dataset_model=dm)
    return fit, ds, mappers, owned + [dm]
def fit_read(parts, who, name):
    fit, ds, mappers = parts
    poison_next()
    if who == "fit":
        try:
            v = getattr(fit, name)
            if name == "grids": return str(view_grids(v))
            return str(enc_val(v))
        except Exception as e:   # noqa
            return "EXC " + type(e).__name__
    if who == "inv" and fit.inversion is None: return "no inversion"
    return graph_read((fit.inversion, ds, mappers), who, name)
_FIT_TWINS = {}
def run_fit(inp):
    cfg = inp["cfg"]
    tw = _FIT_TWINS.setdefault(str(sorted(cfg.items())), {})
    fit, ds, mappers, owned = build_fit(cfg)
    w = Watch(owned)
    objs = [fit, ds] + list(mappers.objs or [])
    bad = []
    if "warm" not in tw: tw["warm"] = cfg.get("model") is None and warm_start_all_passive(build_fit(cfg)[0].inversion)
    tally("graph/reuse/fit cases whose positive-only warm start has every parameter passive", int(tw["warm"]))
    for who, name in inp["reads"]:
        if (who, name) not in tw:
            tf, tds, tm, _ = build_fit(cfg)
            tw[(who, name)] = fit_read((tf, tds, tm), who, name)
        before = stored(objs + ([fit.__dict__["inversion"]] if fit.__dict__.get("inversion") is not None else []))
        if fit_read((fit, ds, mappers), who, name) != tw[(who, name)]: bad.append(f"{who}.{name} differs from the never-read twin")
        ch = leaves_changed(before, stored(objs + ([fit.__dict__["inversion"]] if fit.__dict__.get("inversion") is not None else [])))
        if ch: bad.append(f"reading {who}.{name} changed a value stored before: " + ",".join(ch[:3]))
    bad += w.bad()
    res = {"coq": None, "out": {"reads": len(inp["reads"]), "bad": bad[:5]}, "py_ok": not bad, "nontrivial": len(inp["reads"]) >= 3,
           "kind": "fit:" + (type(fit.inversion).__name__ if cfg.get("model") is None else "given-model" + (":masked" if cfg.get("use_mask") else ""))}
    if bad: res["detail"] = "; ".join(bad[:5])
    return res
def gen_fit(rng):
    cfg = rand_cfg(rng)
    if rng.random() < 0.3: cfg = posall(cfg, rng)
    cfg["preloads"] = []
    cfg["sky"] = rng.choice([0.0, 0.0, 1.5]); cfg["offset"] = rng.choice([[0.0, 0.0], [0.0, 0.0], [0.5, -0.25]])
    if rng.random() < 0.3:
        # a fit of a given model image; natively stored data go with use_mask_in_fit (the masked fit_util functions take 2D arrays;
        # the inversions take slim data only, so the inversion-based fits below are slim and unmasked-in-fit)
        cfg["native"] = rng.random() < 0.7; cfg["use_mask"] = cfg["native"] and rng.random() < 0.7
        cfg["model"] = [rng.randint(0, 20) for _ in range(cfg["shape"][0] * cfg["shape"][1])]
        cfg["mappers"] = []; cfg["funcs"] = []
    reads = []
    for _ in range(rng.randint(4, 14)):
        w = rng.choice(["fit"] * 6 + ["inv"] * 3 + ["ds", "grids", "mapper0"])
        reads.append([w, rng.choice(FIT_Q if w == "fit" else GRAPH_Q["mapper" if w.startswith("mapper") else w])])
    if rng.random() < 0.5:
        reads = with_sweeps(rng, reads[:3], [["fit", q] for q in FIT_Q] + [["inv", q] for q in REUSE_KEY_Q] + [["ds", q] for q in GRAPH_Q["ds"]])
    return {"op": "fit", "cfg": cfg, "reads": reads}

# ----------------------------------------------------------------------------- triangulation meshes (Delaunay / Voronoi)
MESH_Q = {
    "mesh": ["voronoi_pixel_areas", "voronoi_pixel_areas_for_split", "split_cross", "areas_for_magnification", "edge_pixel_list",
             "neighbors", "pixels", "interp"],
    "mapper": ["mapping_matrix", "pix_sub_weights", "pix_sub_weights_split_cross", "pix_indexes_for_sub_slim_index",
               "pix_sizes_for_sub_slim_index", "pix_weights_for_sub_slim_index", "regularization_matrix", "edge_pixel_list",
               "neighbors", "params", "unique_mappings"],
    "valued": ["magnification_via_mesh_from", "magnification_via_interpolation_from", "mapped_reconstructed_image_from",
               "values_masked", "max_pixel_centre", "interp", "max_pixel_list_from"],
    "inv": ["curvature_matrix", "regularization_matrix", "curvature_reg_matrix", "reconstruction", "mapped_reconstructed_image",
            "regularization_term", "log_det_regularization_matrix_term", "data_vector"],
}
def mesh_points(cfg):
    return np.array(cfg["points"], dtype=float).reshape(-1, 2)
def build_mesh_graph(cfg):
    """mask + image-plane grid + a Delaunay / Voronoi mesh from the caller's points + mapper + valued mapper + inversion"""
    aa = import_aa()
    H, W = cfg["shape"]
    m = np.ones((H, W), bool); m[1:H - 1, 1:W - 1] = False
    for (y, x) in cfg.get("holes", []): m[y, x] = True
    mask = aa.Mask2D(mask=m, pixel_scales=1.0)
    grid = aa.Grid2D.from_mask(mask=mask, over_sampling=aa.OverSamplingUniform(sub_size=1))
    pts = mesh_points(cfg)
    cls = aa.Mesh2DDelaunay if cfg["kind"] == "delaunay" else aa.Mesh2DVoronoi
    mesh = cls(values=pts)
    mg = aa.MapperGrids(mask=mask, source_plane_data_grid=grid, source_plane_mesh_grid=mesh)
    reg = {"constant": lambda: aa.reg.Constant(coefficient=2.0), "split": lambda: aa.reg.ConstantSplit(coefficient=2.0),
           "none": lambda: None}[cfg["reg"]]()
    mapper = aa.Mapper(mapper_grids=mg, over_sampler=aa.OverSamplerUniform(mask=mask, sub_size=1), regularization=reg)
    vals = np.array(cfg["values"], dtype=float)
    pm = None if cfg.get("pixel_mask") is None else np.array(cfg["pixel_mask"], dtype=bool)
    valued = aa.MapperValued(mapper=mapper, values=vals, mesh_pixel_mask=pm)
    dv = np.array(cfg["data"], dtype=float).reshape(H, W)
    nv = np.full((H, W), 2.0)
    data = aa.Array2D(values=dv, mask=mask); noise = aa.Array2D(values=nv, mask=mask)
    pv = np.array(PSF); psf = aa.Kernel2D.no_mask(values=pv, pixel_scales=1.0)
    osd = aa.OverSamplingDataset(uniform=aa.OverSamplingUniform(sub_size=1), pixelization=aa.OverSamplingUniform(sub_size=1))
    ds = aa.Imaging(data=data, noise_map=noise, psf=psf, over_sampling=osd)
    settings = aa.SettingsInversion(use_w_tilde=bool(cfg.get("w_tilde", False)), no_regularization_add_to_curvature_diag_value=1.0)
    inv = aa.Inversion(dataset=ds, linear_obj_list=[mapper], settings=settings)
    owned = [m, pts, vals, pm, dv, nv, pv, mask, grid, data, noise, psf, osd, settings]
    return {"mesh": mesh, "mapper": mapper, "valued": valued, "inv": inv}, owned
def mesh_read(parts, who, name, cfg):
    poison_next()
    try:
        t = parts[who]
        if name == "interp":
            v = t.interpolated_array_from(values=np.array(cfg["values"], dtype=float), shape_native=(5, 4)) if who == "mesh" \
                else t.interpolated_array_from(shape_native=(5, 4))
        elif name == "magnification_via_interpolation_from": v = t.magnification_via_interpolation_from(shape_native=(7, 6))
        elif name == "max_pixel_list_from": v = t.max_pixel_list_from(total_pixels=3)
        elif name.endswith("_from"): v = getattr(t, name)()
        else: v = getattr(t, name)
        if name == "neighbors": v = [np.asarray(v), getattr(v, "sizes", None)]
        if name in ("pix_sub_weights", "pix_sub_weights_split_cross"): v = [v.mappings, v.sizes, v.weights]
        if name == "unique_mappings": v = [v.data_to_pix_unique, v.data_weights, v.pix_lengths]
        try: return str(enc_val(v))
        except TypeError: return str(sorted(leaves(v, "v").items()))
    except Exception as e:   # noqa
        return "EXC " + type(e).__name__
_MESH_TWINS = {}
def run_mesh(inp):
    cfg = inp["cfg"]
    tw = _MESH_TWINS.setdefault(str(sorted(cfg.items())), {})
    parts, owned = build_mesh_graph(cfg)
    w = Watch(owned)
    bad = []; nexc = 0
    for who, name in inp["reads"]:
        if (who, name) not in tw:
            tparts, _ = build_mesh_graph(cfg)
            tw[(who, name)] = mesh_read(tparts, who, name, cfg)
        got = mesh_read(parts, who, name, cfg)
        nexc += got.startswith("EXC")
        if got != tw[(who, name)]: bad.append(f"{who}.{name} differs from the never-read twin")
    bad += w.bad()
    tally("mesh reads raising (canonical exception)", nexc); tally("mesh reads", len(inp["reads"]))
    res = {"coq": None, "out": {"reads": len(inp["reads"]), "bad": bad[:5]}, "py_ok": not bad, "nontrivial": len(inp["reads"]) >= 3,
           "kind": "mesh:" + cfg["kind"] + ":" + cfg["reg"]}
    if bad: res["detail"] = "; ".join(bad[:5])
    return res
def gen_mesh(rng):
    H, W = rng.randint(5, 6), rng.randint(5, 6)
    n = rng.randint(6, 11)
    # points inside the image-plane extent, pairwise distinct, on a jittered lattice so that no three are collinear by accident;
    # the convex-hull points own unbounded Voronoi cells (area -1): every mesh has edge cells
    cells = [(y, x) for y in range(4) for x in range(4)]
    rng.shuffle(cells)
    pts = []
    for (y, x) in cells[:n]:
        pts += [round((1.5 - y) * (H - 2) / 4.0 + rng.uniform(-0.2, 0.2), 3), round((x - 1.5) * (W - 2) / 4.0 + rng.uniform(-0.2, 0.2), 3)]
    kind = rng.choice(["delaunay", "voronoi"])
    cfg = {"shape": [H, W], "holes": [], "kind": kind, "points": pts, "reg": rng.choice(["constant", "split", "split", "none"]),
           "values": [rng.randint(1, 9) for _ in range(n)], "pixel_mask": rng.choice([None, [False] * n]),
           "data": [rng.randint(0, 20) for _ in range(H * W)], "w_tilde": rng.random() < 0.3}
    who = ["mesh"] * 5 + ["mapper"] * 3 + ["valued"] * 3 + ["inv"]
    reads = []
    for _ in range(rng.randint(4, 12)):
        w = rng.choice(who)
        reads.append([w, rng.choice(MESH_Q[w])])
        if rng.random() < 0.2: reads.append(list(reads[-1]))
    if rng.random() < 0.5:
        reads = with_sweeps(rng, reads[:3], [[w, q] for w in ("mesh", "mapper", "valued") for q in MESH_Q[w]])
    return {"op": "mesh", "cfg": cfg, "reads": reads}

# ----------------------------------------------------------------------------- PART D: quantity graphs (KGraph)
# node tables of the graphs of coq/Model/C11g.v [ginstance], in the same order: (owner object, attribute, kind)
GI, GC, GP = "input", "cached", "plain"
GNODES = {
    "mesh": [("mesh", "_array", GI), ("mesh", "delaunay", GC), ("mesh", "voronoi", GC), ("mesh", "edge_pixel_list", GC),
             ("mesh", "voronoi_pixel_areas", GP), ("mesh", "voronoi_pixel_areas_for_split", GC), ("mesh", "split_cross", GC),
             ("mesh", "areas_for_magnification", GP), ("mesh", "neighbors", GC), ("mesh", "interp", GP),
             ("mapper", "source_plane_data_grid", GI), ("mapper", "pix_sub_weights", GC), ("mapper", "pix_sub_weights_split_cross", GP),
             ("mapper", "mapping_matrix", GC), ("mapper", "regularization_matrix", GP), ("valued", "magnification_via_mesh_from", GP)],
    "fit": [("ds", "data", GI), ("ds", "noise_map", GI), ("ds", "psf", GI), ("mapper", "source_plane_data_grid", GI),
            ("ds", "grids", GC), ("ds", "convolver", GC), ("mapper", "pix_sub_weights", GC), ("mapper", "unique_mappings", GC),
            ("mapper", "mapping_matrix", GC), ("inv", "mapping_matrix", GC), ("inv", "operated_mapping_matrix", GC),
            ("inv", "data_vector", GC), ("inv", "curvature_matrix", GC), ("inv", "regularization_matrix", GC),
            ("inv", "regularization_matrix_reduced", GC), ("inv", "curvature_reg_matrix", GC), ("inv", "curvature_reg_matrix_reduced", GC),
            ("inv", "reconstruction", GC), ("inv", "reconstruction_reduced", GC), ("inv", "mapped_reconstructed_data_dict", GP),
            ("inv", "mapped_reconstructed_data", GC), ("inv", "regularization_term", GC), ("inv", "log_det_curvature_reg_matrix_term", GC),
            ("inv", "log_det_regularization_matrix_term", GC), ("fit", "residual_map", GP), ("fit", "chi_squared_map", GP),
            ("fit", "chi_squared", GP), ("fit", "noise_normalization", GP), ("fit", "log_evidence", GP)],
    "chain": [("ds", "data", GI), ("ds", "noise_map", GI), ("ds", "psf", GI), ("hold", "osd", GI), ("hold", "mask2", GI),
              ("ds", "grids", GC), ("ds", "convolver", GC), ("ds", "w_tilde", GC), ("ds", "signal_to_noise_map", GP),
              ("hold", "ds2", GC), ("ds2", "grids", GC), ("ds2", "convolver", GC), ("ds2", "data", GP), ("ds2", "noise_map.native", GP),
              ("ds2", None, GP), ("hold", "ds3", GC), ("ds3", "noise_map", GP), ("ds3", "data", GP), ("ds3", "grids", GC),
              ("ds3", "signal_to_noise_map", GP), ("ds2", "signal_to_noise_map", GP),
              ("hold", "ds4", GC), ("ds4", "grids", GC), ("ds4", "data", GP), ("ds4", "signal_to_noise_map", GP)],
    "interf": [("ds", "data", GI), ("ds", "noise_map", GI), ("ds", "uv_wavelengths", GI), ("mapper", "source_plane_data_grid", GI),
               ("ds", "grids", GC), ("mapper", "pix_sub_weights", GC), ("mapper", "mapping_matrix", GC), ("inv", "mapping_matrix", GC),
               ("inv", "operated_mapping_matrix", GC), ("inv", "data_vector", GC), ("inv", "curvature_matrix", GC),
               ("inv", "regularization_matrix", GC), ("inv", "regularization_matrix_reduced", GC), ("inv", "curvature_reg_matrix", GC),
               ("inv", "curvature_reg_matrix_reduced", GC), ("inv", "reconstruction", GC), ("inv", "reconstruction_reduced", GC),
               ("inv", "mapped_reconstructed_data_dict", GP), ("inv", "mapped_reconstructed_data", GC),
               ("inv", "mapped_reconstructed_image_dict", GP), ("inv", "mapped_reconstructed_image", GC), ("inv", "regularization_term", GC),
               ("inv", "log_det_curvature_reg_matrix_term", GC), ("inv", "log_det_regularization_matrix_term", GC),
               ("ds", "signal_to_noise_map", GP),
               ("vis", "amplitudes", GC), ("ds", "amplitudes", GP), ("ds", "dirty_image", GP), ("ds", "dirty_noise_map", GP),
               ("ds", "uv_distances", GP), ("ds", "w_tilde", GP), ("hold", "ds2", GC), ("ds2", "grids", GC), ("ds2", "amplitudes", GP)],
}
GNODES["wtilde"] = [("ds", "data", GI), ("ds", "noise_map", GI), ("ds", "psf", GI), ("mapper", "source_plane_data_grid", GI),
                    ("ds", "convolver", GC), ("ds", "w_tilde", GI), ("mapper", "pix_sub_weights", GC), ("mapper", "unique_mappings", GC),
                    ("mapper", "mapping_matrix", GC), ("inv", "w_tilde_data", GC), ("inv", "data_vector", GC), ("inv", "curvature_matrix", GC),
                    ("inv", "regularization_matrix", GC), ("inv", "regularization_matrix_reduced", GC), ("inv", "curvature_reg_matrix", GC),
                    ("inv", "curvature_reg_matrix_reduced", GC), ("inv", "reconstruction", GC), ("inv", "reconstruction_reduced", GC),
                    ("inv", "mapped_reconstructed_data_dict", GP), ("inv", "mapped_reconstructed_data", GC), ("inv", "mapping_matrix", GC),
                    ("inv", "operated_mapping_matrix", GC), ("inv", "regularization_term", GC), ("inv", "log_det_curvature_reg_matrix_term", GC),
                    ("inv", "log_det_regularization_matrix_term", GC)]
GINST = {0: "mesh", 1: "mesh", 2: "fit", 3: "chain", 4: "interf", 5: "wtilde"}
class Holder:
    """the user's variables: a derived dataset is bound when it is first asked for"""
    def __init__(self, ds, osd, mask2): self.ds, self.osd, self.mask2 = ds, osd, mask2
    def get(self, name):
        if name not in self.__dict__:
            if name == "ds2": self.ds2 = self.ds.apply_over_sampling(over_sampling=self.osd)
            if name == "ds3": self.ds3 = self.get("ds2").apply_noise_scaling(mask=self.mask2, noise_value=64.0)
            if name == "ds4": self.ds4 = self.ds.apply_mask(mask=self.mask2)
        return self.__dict__[name]
def build_chain(cfg):
    aa = import_aa()
    # the source dataset is itself a masked dataset made from an unmasked one (so that it can be masked again)
    root, mappers, settings, owned = build_graph(dict(cfg, mappers=[], w_tilde=False, funcs=[], border0=True, holes=[]))
    H, W = cfg["shape"]
    m1 = np.ones((H, W), bool); m1[1:H - 1, 1:W - 1] = False
    mask1 = aa.Mask2D(mask=m1, pixel_scales=1.0)
    ds = root.apply_mask(mask=mask1)
    osd = aa.OverSamplingDataset(uniform=aa.OverSamplingUniform(sub_size=2), pixelization=aa.OverSamplingUniform(sub_size=2))
    m2 = np.array(cfg["mask2"], dtype=bool); mask2 = aa.Mask2D(mask=m2, pixel_scales=1.0)
    return {"ds": ds, "hold": Holder(ds, osd, mask2)}, owned + [m1, mask1, osd, m2, mask2]
def build_interf(cfg):
    aa = import_aa()
    H, W = cfg["shape"]
    m = np.ones((H, W), bool); m[1:H - 1, 1:W - 1] = False
    mask = aa.Mask2D(mask=m, pixel_scales=1.0)
    vv = np.array(cfg["vis"], dtype=float).reshape(-1, 2); vis_nd = vv[:, 0] + 1j * vv[:, 1]
    vis = aa.Visibilities(visibilities=vis_nd)
    nn = np.array(cfg["vis_noise"], dtype=float).reshape(-1, 2); nm_nd = nn[:, 0] + 1j * nn[:, 1]
    nm = aa.VisibilitiesNoiseMap(visibilities=nm_nd)
    uv = np.array(cfg["uv"], dtype=float).reshape(-1, 2)
    osd = aa.OverSamplingDataset(pixelization=aa.OverSamplingUniform(sub_size=1))
    it = aa.Interferometer(data=vis, noise_map=nm, uv_wavelengths=uv, real_space_mask=mask, transformer_class=aa.TransformerDFT, over_sampling=osd)
    # the mapper's grids come from a throw-away dataset, so that `it` itself has never been read
    it0 = aa.Interferometer(data=vis, noise_map=nm, uv_wavelengths=uv.copy(), real_space_mask=mask, transformer_class=aa.TransformerDFT, over_sampling=osd)
    grid = it0.grids.pixelization
    osg = grid.over_sampler.over_sampled_grid
    mesh = aa.Mesh2DRectangular.overlay_grid(grid=osg, shape_native=(3, 3))
    mg = aa.MapperGrids(mask=mask, source_plane_data_grid=osg, source_plane_mesh_grid=mesh)
    mapper = aa.Mapper(mapper_grids=mg, over_sampler=grid.over_sampler, regularization=aa.reg.Constant(coefficient=cfg.get("coeff", 1.0)))
    settings = aa.SettingsInversion(use_w_tilde=cfg.get("w_tilde", True), no_regularization_add_to_curvature_diag_value=1.0)
    inv = aa.Inversion(dataset=it, linear_obj_list=[mapper], settings=settings)      # through the factory (D12: settings stay as given)
    osd2 = aa.OverSamplingDataset(pixelization=aa.OverSamplingUniform(sub_size=2))
    return {"ds": it, "vis": vis, "mapper": mapper, "inv": inv, "hold": Holder(it, osd2, None)}, [m, vis_nd, nm_nd, uv, mask, vis, nm, osd, osd2, settings]
def gbuild(inst, cfg):
    if inst in (0, 1): return build_mesh_graph(cfg)
    if inst in (2, 5):
        fit, ds, mappers, owned = build_fit(cfg)
        return {"fit": fit, "ds": ds, "mapper": mappers[0], "inv": fit.inversion}, owned
    if inst == 3: return build_chain(cfg)
    if inst == 4: return build_interf(cfg)
    raise ValueError(inst)
def gowner(parts, owner, bind=False):
    if owner in ("ds2", "ds3", "ds4"):
        hold = parts["hold"]
        return hold.get(owner) if bind else hold.__dict__.get(owner)
    return parts[owner]
def gvalue(parts, node, cfg):
    """the raw value a read of the node gives the user (exceptions propagate)"""
    owner, name, kind = node
    o = gowner(parts, owner, bind=True)
    if owner == "hold" and name in ("ds2", "ds3", "ds4"):
        d = o.get(name); return [d.data, d.noise_map, getattr(d.over_sampling.uniform, "sub_size", None), getattr(d.over_sampling.pixelization, "sub_size", None)]
    if name == "noise_map.native": return o.noise_map.native
    if name == "interp": return o.interpolated_array_from(values=np.array(cfg["values"], dtype=float), shape_native=(5, 4))
    if name == "_array": return o._array
    if owner == "hold": return getattr(o, name)
    v = getattr(o, name)
    if name == "neighbors": return [np.asarray(v), getattr(v, "sizes", None)]
    if name in ("pix_sub_weights", "pix_sub_weights_split_cross"): return [v.mappings, v.sizes, v.weights]
    if name == "magnification_via_mesh_from": return v()
    if name == "unique_mappings": return [v.data_to_pix_unique, v.data_weights, v.pix_lengths]
    return v
def gencode(v, name):
    if name == "grids": return view_grids(v)
    if name == "convolver": return view_convolver(v)
    if name == "w_tilde":
        if hasattr(v, "w_matrix"): return enc_val(v.w_matrix) + enc_val(v.curvature_preload) + enc_val(v.dirty_image)
        return view_w_tilde(v)
    try: return enc_val(v)
    except TypeError: return [zlib.crc32(repr(sorted((k, str(x)) for k, x in leaves(v, "v").items())).encode())]
def gread_node(parts, node, cfg):
    poison_next()
    try: return digest(gencode(gvalue(parts, node, cfg), node[1]))
    except Exception as e:   # noqa
        return digest(exc_code(e))
def gpresent(nodes, parts):
    """node -> fingerprint of the value stored under it: cached_property entries present in the instance __dict__s, and the inputs"""
    out = {}
    for n, (owner, name, kind) in enumerate(nodes):
        o = gowner(parts, owner)
        if o is None or name is None: continue
        if kind == GC and name in o.__dict__: out[n] = leaves(o.__dict__[name], "v") if owner != "hold" else {}
        if kind == GI:
            x = o._array if name == "_array" else getattr(o, name)
            out[n] = leaves(x, "v")
    return out
_G_TWINS = {}
def run_gcase(inp):
    inst, cfg = inp["inst"], inp["cfg"]
    nodes = GNODES[GINST[inst]]
    tw = _G_TWINS.setdefault((inst, str(sorted(cfg.items()))), {})
    for n, node in enumerate(nodes):
        if n not in tw:
            if node[1] is None: tw[n] = [0, 0]; continue
            tparts, _ = gbuild(inst, cfg)
            tw[n] = gread_node(tparts, node, cfg)
    parts, owned = gbuild(inst, cfg)
    w = Watch(owned)
    out = []
    for n in inp["reads"]:
        before = gpresent(nodes, parts)
        v = gread_node(parts, nodes[n], cfg)
        after = gpresent(nodes, parts)
        filled = sorted(m for m in after if nodes[m][2] == GC)
        changed = sorted(m for m in before if m in after and leaves_changed(before[m], after[m]))
        out.append((v, filled, changed))
    ch = w.bad()
    cnl = lambda l: clist([cnat(x) for x in l])
    couts = clist([f"({carr(v)}, {cnl(f)}, {cnl(c)})" for v, f, c in out])
    coq = f"(KGraph {cnat(inst)} {clist([carr(tw[n]) for n in range(len(nodes))])} {cnl(inp['reads'])} {couts})"
    tally("graph-machine reads", len(inp["reads"]))
    res = {"coq": coq, "out": {"reads": inp["reads"], "filled": [f for _, f, _ in out][-1:], "changed": [c for _, _, c in out if c]},
           "py_ok": False if ch else None, "nontrivial": len(inp["reads"]) >= 2, "kind": "gcase:" + GINST[inst] + (":voronoi" if inst == 1 else "")}
    if ch: res["detail"] = "; ".join(ch[:4])
    return res
def gen_gcase(rng, inst):
    nodes = GNODES[GINST[inst]]
    if inst in (0, 1):
        cfg = gen_mesh(rng)["cfg"]; cfg["kind"] = "voronoi" if inst == 1 else "delaunay"; cfg["reg"] = "split"; cfg["pixel_mask"] = None
        ok = [n for n in range(len(nodes)) if not (inst == 0 and n == 7)]      # Mesh2DDelaunay has no areas_for_magnification
    elif inst in (2, 5):
        cfg = rand_cfg(rng); cfg.update(preloads=[], funcs=[], mappers=[[3, 3, rng.choice([1.0, 2.0])]], w_tilde=(inst == 5), positive=False)
        if rng.random() < 0.5: cfg = posall(cfg, rng)      # the positive-only solver from an all-passive warm start: same graph
        elif rng.random() < 0.4: cfg.update(positive=True, force_edge=False)
        ok = list(range(len(nodes)))
    elif inst == 3:
        cfg = rand_cfg(rng); H, W = cfg["shape"]; cfg["native"] = rng.random() < 0.5
        cfg["mask2"] = [[(y < 2 or y > H - 3 or x < 2 or x > W - 3) for x in range(W)] for y in range(H)]
        ok = [n for n in range(len(nodes)) if n != 14]                         # the edited noise map is not a public quantity by itself
    else:
        nv = rng.randint(3, 5)
        cfg = {"shape": [rng.randint(5, 6), rng.randint(5, 6)], "vis": [rng.choice([-1, 1]) * rng.randint(1, 9) for _ in range(2 * nv)],
               "vis_noise": [rng.choice([1, 2]) for _ in range(2 * nv)], "uv": [rng.randint(-3, 3) for _ in range(2 * nv)],
               "w_tilde": rng.random() < 0.5, "coeff": rng.choice([1.0, 2.0])}
        ok = list(range(len(nodes)))
    reads = []
    for _ in range(rng.randint(2, 9)):
        reads.append(rng.choice(ok))
        if rng.random() < 0.2: reads.append(reads[-1])
    return {"op": "gcase", "inst": inst, "cfg": cfg, "reads": reads}

# ----------------------------------------------------------------------------- seeded simulation
def run_seed(inp):
    aa = import_aa()
    from autoarray.dataset import preprocess
    H, W = inp["shape"]
    img = np.array(inp["image"], dtype=float).reshape(H, W)
    outs = []
    bad = []
    sfp = singletons_fp()
    for st in inp["states"]:
        np.random.seed(st)
        for _ in range(st % 7): np.random.random()
        iv = img.copy()
        image = aa.Array2D.no_mask(values=iv, pixel_scales=1.0)
        owned = [iv, image]
        if inp["via"] == "simulator":
            # the caller's psf: slim-stored, NOT normalised (sum 6): the simulator normalises a copy (normalize_psf=True default)
            pv = np.array(PSF if inp.get("psf") else [[3.0]])
            psf = aa.Kernel2D.no_mask(values=pv, pixel_scales=1.0)
            owned += [pv, psf]; fp = leaves(owned)
            sim = aa.SimulatorImaging(exposure_time=inp["exposure"], background_sky_level=inp["sky"], psf=psf,
                                      noise_seed=inp["seed"], add_poisson_noise_to_data=True)
            ds = sim.via_image_from(image=image)
            outs.append(bits(ds.data.native._array) + bits(ds.noise_map.native._array))
        elif inp["via"] == "interferometer":
            uv = np.array([[1.0, 2.0], [3.0, -1.0], [0.5, 0.25], [-2.0, 1.0]])
            owned += [uv]; fp = leaves(owned)
            sim = aa.SimulatorInterferometer(uv_wavelengths=uv, exposure_time=inp["exposure"], noise_sigma=0.5, noise_seed=inp["seed"])
            ds = sim.via_image_from(image=image)
            outs.append(bits(np.real(ds.data._array)) + bits(np.imag(ds.data._array)))
        elif inp["via"] == "poisson":
            exp = aa.Array2D.full(fill_value=inp["exposure"], shape_native=(H, W), pixel_scales=1.0)
            owned += [exp]; fp = leaves(owned)
            outs.append(bits(preprocess.poisson_noise_via_data_eps_from(data_eps=image, exposure_time_map=exp, seed=inp["seed"])))
        else:
            fp = leaves(owned)
            outs.append(bits(preprocess.gaussian_noise_via_shape_and_sigma_from(shape=(H * W,), sigma=2.0, seed=inp["seed"])))
        ch = leaves_changed(fp, leaves(owned))
        if ch: bad.append("caller-owned input changed: " + ",".join(ch[:4]))
    sc = singletons_changed(sfp)
    if sc: bad.append("default-argument singleton changed: " + ",".join(sc[:4]))
    coq = f"(KSeed {cz(inp['seed'])} {clist([carr(o) for o in outs])})"
    res = {"coq": coq, "out": [zlib.crc32(str(o).encode()) for o in outs], "py_ok": False if bad else None, "nontrivial": True,
           "kind": "seed:" + inp["via"] + (":unseeded" if inp["seed"] == -1 else "")}
    if bad: res["detail"] = "; ".join(bad[:3])
    return res

# ----------------------------------------------------------------------------- util functions called with caller-owned arrays
def util_args(inp):
    """the caller's arrays of one util call, built from the integer spec (exact in double precision)"""
    n = inp["n"]; dt = {"float64": np.float64, "int64": np.int64, "float32": np.float32}[inp["dtype"]]
    M = np.array(inp["M"], dtype=np.int64).reshape(n, n)
    FR = M.T @ M + inp["c"] * np.eye(n, dtype=np.int64)                  # symmetric positive definite, integer entries
    sv = np.array(inp["s"], dtype=np.int64)
    mk = lambda a: np.array(a, dtype=dt, order=inp["order"])
    f = inp["fn"]
    if f in ("positive_only", "positive_negative", "fnnls"):
        a = {"data_vector": mk(FR @ sv), "curvature_reg_matrix": mk(FR)}
        if f == "fnnls" and inp.get("p_initial"): a["P_initial"] = np.array(sv > 0)
        return a
    m = inp["m"]
    B = np.array(inp["B"], dtype=np.int64).reshape(m, n)
    if f == "mirrored": return {"curvature_matrix": mk(np.triu(FR))}
    if f == "curvature": return {"mapping_matrix": mk(B), "noise_map": mk(inp["noise"])}
    if f == "mapped_recon": return {"mapping_matrix": mk(B), "reconstruction": mk(sv)}
    if f == "data_vector": return {"blurred_mapping_matrix": mk(B), "image": mk(inp["image"]), "noise_map": mk(inp["noise"])}
    nb = np.array([[(i - 1) % n, (i + 1) % n] for i in range(n)], dtype=np.int64, order=inp["order"])      # a ring of pixels
    if f in ("reg_constant", "reg_constant_zeroth"): return {"neighbors": nb, "neighbors_sizes": np.full(n, 2, dtype=np.int64)}
    if f == "reg_zeroth": return {}
    if f == "reg_bz_weights": return {"pixel_signals": mk(np.abs(sv) % 3)}
    if f == "reg_bz_matrix": return {"regularization_weights": mk(np.abs(sv) + 1)}
    if f == "reg_weighted": return {"regularization_weights": mk(np.abs(sv) + 1), "neighbors": nb, "neighbors_sizes": np.full(n, 2, dtype=np.int64)}
    if f == "reg_weights": return {"pixel_signals": mk(np.abs(sv) % 2)}
    raise ValueError(f)
def util_call(inp, a, settings):
    aa = import_aa()
    from autoarray.inversion.inversion import inversion_util
    from autoarray.inversion.inversion.imaging import inversion_imaging_util
    from autoarray.inversion.regularization import regularization_util
    from autoarray.util import fnnls
    f = inp["fn"]
    poison_next()
    try:
        if f == "positive_only":
            kw = {} if settings is None else {"settings": settings}       # omitted: the signature's default SettingsInversion()
            r = inversion_util.reconstruction_positive_only_from(data_vector=a["data_vector"], curvature_reg_matrix=a["curvature_reg_matrix"], **kw)
        elif f == "positive_negative":
            r = inversion_util.reconstruction_positive_negative_from(data_vector=a["data_vector"], curvature_reg_matrix=a["curvature_reg_matrix"],
                                                                      mapper_param_range_list=[[0, inp["n"]]])
        elif f == "fnnls":
            kw = {"P_initial": a["P_initial"]} if "P_initial" in a else {}
            r = fnnls.fnnls_cholesky(a["curvature_reg_matrix"], a["data_vector"], **kw)
        elif f == "mirrored": r = inversion_util.curvature_matrix_mirrored_from(curvature_matrix=a["curvature_matrix"])
        elif f == "curvature": r = inversion_util.curvature_matrix_via_mapping_matrix_from(mapping_matrix=a["mapping_matrix"], noise_map=a["noise_map"])
        elif f == "mapped_recon":
            r = inversion_util.mapped_reconstructed_data_via_mapping_matrix_from(mapping_matrix=a["mapping_matrix"], reconstruction=a["reconstruction"])
        elif f == "data_vector":
            r = inversion_imaging_util.data_vector_via_blurred_mapping_matrix_from(blurred_mapping_matrix=a["blurred_mapping_matrix"], image=a["image"],
                                                                                   noise_map=a["noise_map"])
        elif f == "reg_constant": r = regularization_util.constant_regularization_matrix_from(coefficient=2.0, **a)
        elif f == "reg_weighted": r = regularization_util.weighted_regularization_matrix_from(**a)
        elif f == "reg_zeroth": r = regularization_util.zeroth_regularization_matrix_from(coefficient=1.5, pixels=inp["n"])
        elif f == "reg_constant_zeroth": r = regularization_util.constant_zeroth_regularization_matrix_from(coefficient=2.0, coefficient_zeroth=0.5, **a)
        elif f == "reg_bz_weights": r = regularization_util.brightness_zeroth_regularization_weights_from(coefficient=2.0, **a)
        elif f == "reg_bz_matrix": r = regularization_util.brightness_zeroth_regularization_matrix_from(**a)
        elif f == "reg_weights": r = regularization_util.adaptive_regularization_weights_from(inner_coefficient=2.0, outer_coefficient=0.5, **a)
        else: raise ValueError(f)
        return np.array(r, dtype=float)
    except Exception as e:   # noqa
        if isinstance(e, ValueError) and str(e) == f: raise
        return type(e).__name__
def run_util(inp):
    """a util function (the solvers first) called DIRECTLY with arrays the caller owns and uses again: the arrays must hold the same
    bytes afterwards, a second call with the very same objects and a call with private copies taken beforehand must give the same
    bits; integer-typed inputs must give the result of the same values typed float64"""
    aa = import_aa()
    a = util_args(inp)
    priv = {k: np.array(v, order="K") for k, v in a.items()}
    settings = None
    if inp["fn"] == "positive_only" and inp.get("settings") != "omitted":
        settings = aa.SettingsInversion(use_positive_only_solver=True, positive_only_uses_p_initial=bool(inp.get("p_initial")))
    w = Watch([types.SimpleNamespace(**a), settings])
    bad = []
    r1 = util_call(inp, a, settings)
    ch = w.bad()
    r2 = util_call(inp, a, settings)
    r3 = util_call(inp, priv, None if settings is None else aa.SettingsInversion(use_positive_only_solver=True,
                                                                                 positive_only_uses_p_initial=bool(inp.get("p_initial"))))
    enc = lambda r: r if isinstance(r, str) else bits(r)
    if ch: bad.append("after the first call: " + "; ".join(ch))
    if enc(r1) != enc(r2): bad.append("a second call with the same argument objects gives another result")
    if enc(r1) != enc(r3): bad.append("the result differs from the one computed on private copies of the arguments")
    bad += [x for x in w.bad() if x not in ch]
    if inp["dtype"] == "int64" and not isinstance(r3, str):
        rf = util_call(dict(inp, dtype="float64"), util_args(dict(inp, dtype="float64")), settings)
        if isinstance(rf, str) or rf.shape != r3.shape or not np.allclose(r3, rf, rtol=1e-9, atol=1e-12):
            bad.append("integer-typed arguments give another result than the same values typed float64")
    allpos = inp["fn"] in ("positive_only", "fnnls") and bool(inp.get("p_initial")) and all(x > 0 for x in inp["s"])
    tally("util calls", 1); tally("util solver calls whose warm start has every parameter passive", int(allpos))
    tally("util calls raising (canonical exception)", int(isinstance(r1, str)))
    res = {"coq": None, "out": {"result": enc(r1), "bad": bad[:4]}, "py_ok": not bad, "nontrivial": True,
           "kind": "util:" + inp["fn"] + ":" + inp["dtype"] + ":" + inp["order"] + (":warm-all-passive" if allpos else "")}
    if bad: res["detail"] = "; ".join(bad[:4])
    return res
UTIL_FNS = ["positive_only", "positive_only", "positive_only", "fnnls", "fnnls", "positive_negative", "mirrored", "curvature", "mapped_recon",
            "data_vector", "reg_constant", "reg_weighted", "reg_weights", "reg_zeroth", "reg_constant_zeroth", "reg_bz_weights", "reg_bz_matrix"]
def gen_util(rng, k):
    f = UTIL_FNS[k % len(UTIL_FNS)]
    n = rng.randint(1, 5); m = rng.randint(1, 6)
    cls = rng.choice(["pos", "pos", "mixed", "zero"])            # the sign pattern of the unconstrained solution
    sv = [rng.randint(1, 6) for _ in range(n)]
    if cls == "mixed": sv = [x * rng.choice([1, 1, -1]) for x in sv]
    if cls == "zero": sv = [x * rng.choice([1, 0]) for x in sv]
    return {"op": "util", "fn": f, "n": n, "m": m, "M": [rng.randint(-2, 3) for _ in range(n * n)], "c": rng.randint(1, 3), "s": sv,
            "B": [rng.randint(0, 3) for _ in range(m * n)], "noise": [rng.choice([1, 2, 4]) for _ in range(m)],
            "image": [rng.randint(0, 9) for _ in range(m)], "order": rng.choice(["C", "C", "F"]),
            "dtype": rng.choice(["float64", "float64", "float64", "int64", "float32"]),
            "p_initial": rng.random() < 0.75, "settings": rng.choice(["own", "own", "omitted"])}

# ----------------------------------------------------------------------------- PART E: argument objects shared between calls (KShare)
OS_FIELDS = ("uniform", "non_uniform", "pixelization")
def os_record(o):
    """an OverSamplingDataset as a record of sub-sizes (0 = None)"""
    out = []
    for f in OS_FIELDS:
        x = getattr(o, f)
        out.append(0 if x is None else int(x.sub_size))
    return out
def mk_os(spec):
    aa = import_aa()
    return aa.OverSamplingDataset(**{f: (aa.OverSamplingUniform(sub_size=k) if k else None) for f, k in zip(OS_FIELDS, spec)})
def share_defaults():
    """the default instances of the four signatures, in the order of Model/C11s.v: 2 cls = constructor, 2 cls + 1 = apply_over_sampling"""
    aa = import_aa()
    pick = lambda f: [d for d in f.__defaults__ if type(d).__name__ == "OverSamplingDataset"][0]
    return [pick(aa.Imaging.__init__), pick(aa.Imaging.apply_over_sampling), pick(aa.Interferometer.__init__), pick(aa.Interferometer.apply_over_sampling)]
def share_base(inp, b, over_sampling, omitted):
    """base dataset b (Imaging unmasked / Interferometer) holding the given OverSamplingDataset object, or built with the argument omitted"""
    aa = import_aa()
    d = inp["bases"][b]; H, W = inp["shape"]
    kw = {} if omitted else {"over_sampling": over_sampling}
    if d["cls"] == 0:
        mask = aa.Mask2D(mask=np.zeros((H, W), bool), pixel_scales=1.0)
        data = aa.Array2D(values=np.array(d["data"], dtype=float).reshape(H, W), mask=mask)
        noise = aa.Array2D(values=np.full((H, W), 2.0), mask=mask)
        psf = aa.Kernel2D.no_mask(values=np.array(PSF), pixel_scales=1.0)
        return aa.Imaging(data=data, noise_map=noise, psf=psf, **kw), [mask, data, noise, psf]
    m = np.ones((H, W), bool); m[1:H - 1, 1:W - 1] = False
    mask = aa.Mask2D(mask=m, pixel_scales=1.0)
    vis = aa.Visibilities(visibilities=np.array([1 + 1j, 2 + 0j, 3 - 1j]) * (1 + d["data"][0]))
    nm = aa.VisibilitiesNoiseMap(visibilities=np.array([1 + 1j, 1 + 1j, 1 + 1j]))
    uv = np.array([[1.0, 2.0], [3.0, -1.0], [0.0, 0.0]])
    return aa.Interferometer(data=vis, noise_map=nm, uv_wavelengths=uv, real_space_mask=mask, transformer_class=aa.TransformerDFT, **kw), [mask, vis, nm, uv]
def share_keep(ds, how, mask2):
    if how == "mask": return ds.apply_mask(mask=mask2)
    if how == "noise_scaling": return ds.apply_noise_scaling(mask=mask2, noise_value=64.0)
    raise ValueError(how)
def share_view(ds):
    """everything a derived dataset reports that depends on its over-sampling, and its data"""
    out = os_record(ds.over_sampling) + [NAN + 10]
    try: out += view_grids(ds.grids)
    except Exception as e: out += exc_code(e)       # noqa
    return digest(out + enc_val(ds.data) + enc_val(ds.noise_map))
def run_share(inp):
    """a history of OverSamplingDataset objects handed to dataset constructors and to apply_over_sampling -- explicitly, the SAME
    object to several calls, partially specified, or omitted (the signature's default instance) -- and of derivations that keep the
    over-sampling (apply_mask, apply_noise_scaling), on several datasets.  Coq (KShare): the record every step returns and the names
    (default instances, arguments, datasets) whose record changed, against the machine of Model/C11s.v and the value semantics.
    Python: every dataset, when it is made (unless lazy) and again at the end, reports what a history-free twin reports (the same
    chain of derivations replayed alone with freshly built arguments: grids with their sub-sizes, data, noise map)."""
    aa = import_aa()
    H, W = inp["shape"]
    defaults = share_defaults()
    args, dss, recipe, owned = [], [], [], []
    m2 = np.array(inp["mask2"], dtype=bool); mask2 = aa.Mask2D(mask=m2, pixel_scales=1.0); owned += [m2, mask2]
    w = Watch(owned)
    argspec = []
    def names():
        return [(k, os_record(d)) for k, d in enumerate(defaults)] + [(4 + 2 * i, os_record(a)) for i, a in enumerate(args)] \
            + [(5 + 2 * d, os_record(x.over_sampling)) for d, x in enumerate(dss)]
    def twin(d):
        r = recipe[d]
        if r[0] == "base":
            spec = argspec[r[2]] if r[2] is not None else [0, 0, 0]
            return share_base(inp, r[1], mk_os(spec), False)[0]
        if r[0] == "apply": return twin(r[1]).apply_over_sampling(over_sampling=mk_os(argspec[r[2]] if r[2] is not None else [0, 0, 0]))
        return share_keep(twin(r[1]), r[2], aa.Mask2D(mask=m2.copy(), pixel_scales=1.0))
    out, ops, bad = [], [], []
    copt = lambda a: "None" if a is None else f"(Some {cnat(a)})"
    for st in inp["steps"]:
        before = names()
        o = st["o"]; made = None
        try:
            if o == "arg":
                args.append(mk_os(st["r"])); argspec.append(list(st["r"])); owned.append(args[-1])
                ops.append(f"(HArg {carr(st['r'])})"); obs = ("ok", os_record(args[-1]))
            elif o == "ds":
                a = st["a"]; b = st["b"]; cls = inp["bases"][b]["cls"]
                ds, own = share_base(inp, b, None if a is None else args[a], a is None); owned += own
                dss.append(ds); recipe.append(("base", b, a)); made = len(dss) - 1
                ops.append(f"(HDs {cnat(cls)} {copt(a)})"); obs = ("ok", os_record(ds.over_sampling))
            elif o == "apply":
                a = st["a"]; src = dss[st["d"]]
                ds = src.apply_over_sampling() if a is None else src.apply_over_sampling(over_sampling=args[a])
                dss.append(ds); recipe.append(("apply", st["d"], a)); made = len(dss) - 1
                ops.append(f"(HApply {cnat(st['d'])} {copt(a)})"); obs = ("ok", os_record(ds.over_sampling))
            elif o == "keep":
                ds = share_keep(dss[st["d"]], st["how"], mask2)
                dss.append(ds); recipe.append(("keep", st["d"], st["how"])); made = len(dss) - 1
                ops.append(f"(HKeep {cnat(st['d'])})"); obs = ("ok", os_record(ds.over_sampling))
            elif o == "peek_arg": ops.append(f"(HPeekArg {cnat(st['i'])})"); obs = ("ok", os_record(args[st["i"]]))
            elif o == "peek_ds": ops.append(f"(HPeekDs {cnat(st['d'])})"); obs = ("ok", os_record(dss[st["d"]].over_sampling))
            elif o == "peek_default": ops.append(f"(HPeekDefault {cnat(st['w'])})"); obs = ("ok", os_record(defaults[st["w"]]))
            else: raise ValueError(o)
        except ValueError: raise
        after = dict(names())
        ch = [(k, after[k]) for k, v in before if after[k] != v]
        out.append((obs, ch))
        if made is not None and not inp.get("lazy"):
            if share_view(dss[made]) != share_view(twin(made)): bad.append(f"dataset {made} ({recipe[made][0]}) differs from its history-free twin")
    for d in range(len(dss)):
        if share_view(dss[d]) != share_view(twin(d)): bad.append(f"at the end dataset {d} ({recipe[d][0]}) differs from its history-free twin")
    bad += w.bad()
    couts = clist([f"({cobs(obs)}, {clist([f'({cnat(k)}, {carr(v)})' for k, v in ch])})" for obs, ch in out])
    coq = f"(KShare {clist(ops)} {couts})"
    shared = len([1 for s_ in inp["steps"] if s_["o"] == "apply" and s_["a"] is None]) >= 2 or \
        any(sum(1 for s_ in inp["steps"] if s_["o"] in ("apply", "ds") and s_["a"] == i) >= 2 for i in range(len(args)))
    tally("share histories", 1); tally("share histories in which one argument object / default instance serves two calls", int(shared))
    res = {"coq": coq, "out": {"records": [o_[1] for o_, _ in out][-4:], "changed": [c for _, c in out if c], "bad": bad[:4]},
           "py_ok": False if bad else None, "nontrivial": shared, "kind": "share:" + ("shared" if shared else "unshared") + (":lazy" if inp.get("lazy") else "")}
    if bad: res["detail"] = "; ".join(bad[:4])
    return res
def gen_share(rng):
    H, W = rng.randint(5, 6), rng.randint(5, 6)
    mask2 = [[(y < 1 or y > H - 2 or x < 1 or x > W - 2) for x in range(W)] for y in range(H)]
    rec = lambda p0: [0 if rng.random() < p0 else rng.choice([1, 2, 4]) for _ in range(3)]
    steps = []; nargs = 0; dss = []      # dss: (cls, masked)
    bases = []
    def new_arg(r): nonlocal nargs; steps.append({"o": "arg", "r": r}); nargs += 1; return nargs - 1
    def new_ds(cls, a):
        bases.append({"cls": cls, "data": [rng.randint(0, 20) for _ in range(H * W)]})
        steps.append({"o": "ds", "b": len(bases) - 1, "a": a}); dss.append((cls, cls == 1)); return len(dss) - 1
    directed = rng.random() < 0.6
    if directed:
        # the state the independent campaign needed: two datasets with DIFFERENT own over-sampling, apply_over_sampling on both with
        # ONE partially specified argument object or with the argument omitted
        cls = rng.choice([0, 0, 0, 1])
        own = [rec(0.2), rec(0.2)]
        while own[0] == own[1]: own[1] = rec(0.2)
        d0 = new_ds(cls, new_arg(own[0])); d1 = new_ds(cls, new_arg(own[1]))
        a = None if rng.random() < 0.5 else new_arg(rec(0.6))
        order = [d0, d1] if rng.random() < 0.7 else [d1, d0]
        for d in order:
            steps.append({"o": "apply", "d": d, "a": a}); dss.append(dss[d])
            if rng.random() < 0.3: steps.append({"o": "peek_default", "w": 2 * cls + 1} if a is None else {"o": "peek_arg", "i": a})
    else:
        for _ in range(rng.randint(1, 2)): new_arg(rec(0.5))
        for _ in range(rng.randint(2, 3)):
            r = rng.random()
            new_ds(rng.choice([0, 0, 0, 1]), None if r < 0.3 else (rng.randrange(nargs) if r < 0.5 else new_arg(rec(0.3))))
    for _ in range(rng.randint(2, 6)):
        r = rng.random(); d = rng.randrange(len(dss))
        if r < 0.4:
            a = rng.choice([None] + list(range(nargs)))
            steps.append({"o": "apply", "d": d, "a": a}); dss.append((dss[d][0], dss[d][1], True))
        elif r < 0.6 and dss[d][0] == 0 and not (dss[d][1] and len(dss[d]) > 2):
            # (a MASKED dataset that went through apply_over_sampling has lost `unmasked`: apply_mask on it raises AttributeError -- loud,
            #  outside the property's derivation list (see DESIGN section 0, observations); such a chain is not generated)
            how = "mask" if dss[d][1] or rng.random() < 0.6 else "noise_scaling"
            steps.append({"o": "keep", "d": d, "how": how}); dss.append((0, dss[d][1] or how == "mask"))
        elif r < 0.75: steps.append({"o": "peek_arg", "i": rng.randrange(nargs)} if nargs else {"o": "peek_default", "w": rng.randrange(4)})
        elif r < 0.9: steps.append({"o": "peek_ds", "d": d})
        else: steps.append({"o": "peek_default", "w": rng.randrange(4)})
    return {"op": "share", "shape": [H, W], "mask2": mask2, "bases": bases, "steps": steps, "lazy": rng.random() < 0.3}

def run_case(inp):
    r = run_case0(inp)
    if r.get("coq") and not r["coq"].startswith(("(KGraph", "(KShare", "(KRemask")): r["coq"] = "(KA " + r["coq"] + ")"
    return r
def run_case0(inp):
    op = inp["op"]
    if op == "hist": return run_hist(inp)
    if op == "inv": return run_inv(inp)
    if op == "graph": return run_graph(inp)
    if op == "seed": return run_seed(inp)
    if op == "dsderive": return run_dsderive(inp)
    if op == "mesh": return run_mesh(inp)
    if op == "reuse": return run_reuse(inp)
    if op == "edit": return run_edit(inp)
    if op == "fit": return run_fit(inp)
    if op == "gcase": return run_gcase(inp)
    if op == "util": return run_util(inp)
    if op == "share": return run_share(inp)
    if op == "determ": return run_determ(inp)
    if op == "remask": return run_remask(inp)
    raise ValueError(op)

# ----------------------------------------------------------------------------- generators
def rand_mask(rng, H, W, p=0.3, border=False):
    m = [[rng.random() < p for _ in range(W)] for _ in range(H)]
    if border:
        for y in range(H):
            for x in range(W):
                if y in (0, H - 1) or x in (0, W - 1): m[y][x] = True
    if all(all(r) for r in m): m[H // 2][W // 2] = False
    return m
def count_false(m): return sum(1 for r in m for b in r if not b)

class Sym:
    """symbolic state of the generator: what exists, with which kind / mask / storage / array shape"""
    def __init__(self): self.inputs, self.objs, self.steps = [], [], []

def gen_history(rng, n_steps, flavour, allow_d8=False):
    g = Sym()
    vals = lambda n: [rng.randint(-9, 9) for _ in range(n)]
    def new_nd(kind, mask, native, wrong=False):
        H, W = len(mask), len(mask[0])
        per = KINDS[kind].per
        if kind == "vis":
            # non-zero parts only: -x would produce IEEE negative zeros, which arctan2 (phases) tells apart and the integer
            # model cannot represent
            n = rng.randint(2, 5); shape = [n]; v = [rng.choice([-1, 1]) * rng.randint(1, 9) for _ in range(2 * n)]; dt = "complex"
        elif kind == "mask":
            shape = [H, W]; v = [int(b) for r in mask for b in r]; dt = "bool"
        else:
            dt = "float"
            if kind == "mapper":
                pts = [(y, x) for y in range(H) for x in range(W) if not mask[y][x]]
                shape = [len(pts), 2]
                v = [c for (y, x) in pts for c in (3 * (H - y) + rng.randint(-1, 1), 3 * x + rng.randint(-1, 1))]
                g.steps.append({"o": "new", "kind": "nd", "shape": shape, "v": v, "dtype": dt})
                g.inputs.append({"kind": "nd", "for": kind, "mask": mask, "native": False, "shape": shape, "wrong": False})
                return len(g.inputs) - 1
            if native: shape = [H, W] + ([2] if per == 2 else [])
            else: shape = [count_false(mask) + (1 if wrong else 0)] + ([2] if per == 2 else [])
            if wrong and native: shape[0] += 1
            v = vals(int(np.prod(shape)))
            # input KINDS: an integer-typed or Fortran-ordered array where a float64 C array is usual (same values; float32 is not
            # used: a natively stored float32 array legitimately keeps its precision, so means differ from the float64 twin's)
            if kind in ("array", "grid", "vector") and rng.random() < 0.25: dt = rng.choice(["int", "fortran"])
        g.steps.append({"o": "new", "kind": "nd", "shape": shape, "v": v, "dtype": dt})
        g.inputs.append({"kind": "nd", "for": kind, "mask": mask, "native": native, "shape": shape, "wrong": wrong})
        return len(g.inputs) - 1
    def construct(i_or_j, from_obj, kind, mask, sn, ok=True, shape_in=None, native_in=None, normalize=False, via="ctor", tainted=False):
        st = {"o": "construct", "src": ["obj" if from_obj else "in", i_or_j], "cls": kind, "mask": mask, "store_native": sn}
        if normalize: st["normalize"] = True
        if via != "ctor": st["via"] = via
        elif kind in ("array", "kernel", "grid") and rng.random() < 0.4: st["share"] = True
        g.steps.append(st)
        if not ok: return None
        per = KINDS[kind].per
        H, W = len(mask), len(mask[0])
        if kind == "vis": shape = list(shape_in)
        elif kind == "mask": shape = [H, W]
        elif sn: shape = [H, W] + ([2] if per == 2 else [])
        else: shape = [count_false(mask)] + ([2] if per == 2 else [])
        g.objs.append({"kind": kind, "mask": mask, "native": sn if kind not in ("vis",) else False, "shape": shape, "sliced": False, "reads": set(),
                       "tainted": bool(normalize or tainted)})     # tainted: contents are no longer integers (normalised kernel)
        if kind == "mask": g.objs[-1]["native"] = True
        return len(g.objs) - 1

    kinds_pool = {"struct": ["array", "grid", "vis", "vector", "kernel", "mask", "array", "grid", "vis"],
                  "dataset": ["array"], "valued": ["mapper"], "settings": []}[flavour]
    # --- opening: one or two inputs + objects
    def open_struct():
        kind = rng.choice(kinds_pool)
        H, W = rng.randint(2, 4), rng.randint(2, 5)
        if flavour == "dataset": H, W = rng.randint(4, 6), rng.randint(4, 6)
        mask = rand_mask(rng, H, W, p=rng.choice([0.0, 0.2, 0.4]), border=(flavour == "dataset" and rng.random() < 0.7))
        if kind in ("mask",): mask = rand_mask(rng, H, W, p=0.4)
        if kind == "mapper":
            H, W = rng.randint(3, 4), rng.randint(3, 4); mask = rand_mask(rng, H, W, p=0.15)
            mask[0][0] = False; mask[H - 1][W - 1] = False; mask[0][W - 1] = False; mask[H - 1][0] = False
        native = rng.random() < 0.5 if kind not in ("vis", "mapper") else False
        wrong = rng.random() < 0.04 and kind not in ("vis", "mask", "mapper")
        i = new_nd(kind, mask, native, wrong)
        sn = rng.random() < 0.5 if kind not in ("vis", "mapper") else False
        if flavour == "dataset" and not all(not b for r in mask for b in r): sn = True if rng.random() < 0.6 else sn
        j = construct(i, False, kind, mask, sn, ok=not wrong, shape_in=g.inputs[i]["shape"], normalize=(kind == "kernel" and rng.random() < 0.5))
        return i, j
    if flavour != "settings":
        open_struct()
        if rng.random() < 0.3: open_struct()
    else:
        g.steps.append({"o": "new", "kind": "settings", "v": [rng.randint(0, 1)]}); g.inputs.append({"kind": "settings"})
        if rng.random() < 0.6:
            g.steps.append({"o": "new", "kind": "default_settings", "v": [1]}); g.inputs.append({"kind": "settings"})
    if flavour == "valued":
        for _ in range(rng.randint(1, 2)):
            mi = [j for j, o in enumerate(g.objs) if o["kind"] == "mapper"]
            if not mi: break
            g.steps.append({"o": "new", "kind": "nd", "shape": [9], "v": vals(9), "dtype": "float"})
            g.inputs.append({"kind": "nd", "for": "values"})
            r = rng.random()
            pm = None if r < 0.3 else ([False] * 9 if r < 0.55 or not allow_d8 else [rng.random() < 0.3 for _ in range(9)])
            g.steps.append({"o": "valued", "i": len(g.inputs) - 1, "m": rng.choice(mi), "mask": pm})
            g.objs.append({"kind": "valued", "mask": None, "native": False, "shape": [9], "sliced": False, "reads": set()})
    # --- body
    while len(g.steps) < n_steps:
        cands = []
        for j, o in enumerate(g.objs):
            k = KINDS[o["kind"]]
            for q in k.cached: cands.append(("read", j, q, 3))
            for q in k.plain: cands.append(("plain", j, q, 1))
            cands.append(("peek_obj", j, None, 1))
            if k.arith and not o.get("tainted"): cands.append(("arith", j, None, 3))
            if k.derive:
                cands.append(("copy", j, None, 1))
                if o["shape"][0] >= 2: cands.append(("slice", j, None, 2))
            H, W = (len(o["mask"]), len(o["mask"][0])) if o["mask"] else (0, 0)
            allfalse = o["mask"] is not None and all(not b for r in o["mask"] for b in r)
            if o["kind"] in ("array", "dataset") and not o["sliced"] and H >= 3 and W >= 3:
                if not all(all(r[1:W - 1]) for r in o["mask"][1:H - 1]): cands.append(("trim", j, None, 3 if o["kind"] == "dataset" else 1))
            if o["kind"] == "array" and not o["sliced"] and H >= 3 and W >= 3: cands.append(("alias", j, None, 4 if flavour == "dataset" else 0.3))
            if o["kind"] in ("array", "grid", "kernel", "vector") and not o["sliced"]:
                cands.append(("reconstruct", j, None, 1))
                cands += [("to_native", j, None, 0.8), ("to_slim", j, None, 0.8)]       # derived structures: x.native / x.slim
                if o["kind"] == "kernel": cands.append(("normalized", j, None, 2))       # psf.normalized
            if o["kind"] == "valued": cands += [("values_masked", j, None, 4), ("maprecon", j, None, 4)]
        for i, x in enumerate(g.inputs):
            cands.append(("peek_in", i, None, 2))
            if x["kind"] == "settings": cands += [("interf", i, None, 5), ("imaging", i, None, 5)]
            if x["kind"] == "nd" and x.get("for") in KINDS and not x.get("wrong") and x["for"] not in ("mapper",): cands.append(("construct_again", i, None, 0.7))
        if not cands: break
        what, idx, q, _ = rng.choices(cands, weights=[c[3] for c in cands])[0]
        if what in ("read", "plain"):
            g.steps.append({"o": what, "j": idx, "q": q}); g.objs[idx]["reads"].add(q)
            if rng.random() < 0.25: g.steps.append({"o": what, "j": idx, "q": q})
        elif what == "peek_obj": g.steps.append({"o": "peek_obj", "j": idx})
        elif what == "peek_in": g.steps.append({"o": "peek_in", "i": idx})
        elif what in ("interf", "imaging"): g.steps.append({"o": what, "i": idx})
        elif what in ("values_masked", "maprecon"): g.steps.append({"o": what, "j": idx})
        elif what == "arith":
            o = g.objs[idx]
            if o["kind"] == "mask": st = {"o": "arith", "j": idx, "f": "invert"}
            else:
                f = rng.choice(["mul", "mul", "add", "neg", "rsub", "rmul"] if o["kind"] != "vis" else ["mul", "neg", "rmul"])
                st = {"o": "arith", "j": idx, "f": f}
                if f in ("mul", "rmul"):
                    st["ks"] = [rng.choice([-2, 2, 3, 4])]
                    if f == "mul" and KINDS[o["kind"]].per == 2 and o["kind"] != "vis" and rng.random() < 0.5:
                        st["ks"] = [rng.choice([-1, 2, 3]), rng.choice([1, 2, 5])]
                if f in ("add", "rsub"): st["b"] = rng.randint(-5, 5)
            g.steps.append(st)
            g.objs.append(dict(o, reads=set()))
        elif what == "copy":
            g.steps.append({"o": "copy", "j": idx}); g.objs.append(dict(g.objs[idx], reads=set()))
        elif what == "slice":
            o = g.objs[idx]; n = o["shape"][0]
            lo = rng.randint(0, n - 1); hi = rng.randint(lo + 1, n)
            g.steps.append({"o": "slice", "j": idx, "lo": lo, "hi": hi})
            g.objs.append(dict(o, shape=[hi - lo] + o["shape"][1:], sliced=True, reads=set()))
        elif what == "trim":
            o = g.objs[idx]; H, W = len(o["mask"]), len(o["mask"][0])
            mask = [r[1:W - 1] for r in o["mask"][1:H - 1]]
            g.steps.append({"o": "trim", "j": idx})
            shape = [H - 2, W - 2] if o["native"] else [count_false(mask)]
            g.objs.append(dict(o, mask=mask, shape=shape, reads=set()))
        elif what == "alias":
            o = g.objs[idx]
            g.steps.append({"o": "alias", "j": idx}); g.objs.append(dict(o, kind="dataset", reads=set()))
        elif what == "reconstruct":       # Kind(values=obj, mask=m2): apply_mask style (native source: any mask of the same shape)
            o = g.objs[idx]; H, W = len(o["mask"]), len(o["mask"][0])
            if o["native"]: mask = rand_mask(rng, H, W, p=0.3) if rng.random() < 0.6 else o["mask"]
            else: mask = o["mask"]
            construct(idx, True, o["kind"], mask, rng.random() < 0.5, normalize=(o["kind"] == "kernel" and rng.random() < 0.4),
                      tainted=o.get("tainted"))
        elif what in ("to_native", "to_slim"):
            o = g.objs[idx]
            construct(idx, True, "array" if o["kind"] == "kernel" else o["kind"], o["mask"], what == "to_native", via=what[3:], tainted=o.get("tainted"))
        elif what == "normalized":
            o = g.objs[idx]
            construct(idx, True, "kernel", o["mask"], False, normalize=True, via="normalized")
        elif what == "construct_again":
            x = g.inputs[idx]
            construct(idx, False, x["for"], x["mask"], rng.random() < 0.5 if x["for"] not in ("vis",) else False, shape_in=x["shape"],
                      normalize=(x["for"] == "kernel" and rng.random() < 0.5))
    return g.steps


def corpus():
    """the witness histories of the defects D7-D12, D19 (they must be pure on the repaired tree; D8 is the known finding)"""
    ff = [[False] * 3 for _ in range(3)]
    cross = [[True, False, True], [False, False, False], [True, False, True]]
    H = []
    # D7: Grid2D / Array2D from a native ndarray under a mask must not zero the caller's array
    for kind in ("grid", "array", "vector", "kernel"):
        per = KINDS[kind].per
        H.append(("D7", [{"o": "new", "kind": "nd", "shape": [3, 3] + ([2] if per == 2 else []), "v": [1] * (9 * per), "dtype": "float"},
                         {"o": "construct", "src": ["in", 0], "cls": kind, "mask": cross, "store_native": False},
                         {"o": "peek_in", "i": 0},
                         {"o": "construct", "src": ["in", 0], "cls": kind, "mask": cross, "store_native": True}, {"o": "peek_in", "i": 0}]))
    # Kernel2D(values=<slim ndarray | slim Kernel2D>, normalize=True) / psf.normalized normalise IN PLACE: the array they write into
    # must be the constructor's own copy
    H.append(("norm", [{"o": "new", "kind": "nd", "shape": [9], "v": [0, 1, 0, 1, 2, 1, 0, 1, 0], "dtype": "float"},
                       {"o": "construct", "src": ["in", 0], "cls": "kernel", "mask": ff, "store_native": False, "normalize": True},
                       {"o": "peek_in", "i": 0},
                       {"o": "construct", "src": ["in", 0], "cls": "kernel", "mask": ff, "store_native": False},
                       {"o": "construct", "src": ["obj", 1], "cls": "kernel", "mask": ff, "store_native": False, "normalize": True},
                       {"o": "peek_obj", "j": 1}, {"o": "construct", "src": ["obj", 1], "cls": "kernel", "mask": ff, "store_native": False,
                                                   "normalize": True, "via": "normalized"},
                       {"o": "peek_obj", "j": 1}, {"o": "peek_in", "i": 0}, {"o": "plain", "j": 1, "q": "native"}]))
    H.append(("D10", [{"o": "new", "kind": "nd", "shape": [2], "v": [1, 1, 2, 0], "dtype": "complex"},
                      {"o": "construct", "src": ["in", 0], "cls": "vis", "mask": ff, "store_native": False},
                      {"o": "read", "j": 0, "q": "amplitudes"}, {"o": "read", "j": 0, "q": "phases"},
                      {"o": "arith", "j": 0, "f": "mul", "ks": [2]}, {"o": "read", "j": 1, "q": "amplitudes"},
                      {"o": "slice", "j": 0, "lo": 0, "hi": 1}, {"o": "read", "j": 2, "q": "amplitudes"}, {"o": "read", "j": 2, "q": "phases"},
                      {"o": "plain", "j": 1, "q": "ordered_1d"}, {"o": "plain", "j": 2, "q": "ordered_1d"}, {"o": "read", "j": 0, "q": "amplitudes"}]))
    gv = [y for yy in (1, 0, -1) for xx in (-1, 0, 1) for y in (yy, xx)]
    H.append(("D10", [{"o": "new", "kind": "nd", "shape": [9, 2], "v": gv, "dtype": "float"},
                      {"o": "construct", "src": ["in", 0], "cls": "grid", "mask": ff, "store_native": False},
                      {"o": "read", "j": 0, "q": "is_uniform"}, {"o": "read", "j": 0, "q": "over_sampler"},
                      {"o": "arith", "j": 0, "f": "mul", "ks": [3, 1]}, {"o": "read", "j": 1, "q": "is_uniform"},
                      {"o": "read", "j": 1, "q": "over_sampler"}, {"o": "slice", "j": 0, "lo": 2, "hi": 7}, {"o": "read", "j": 2, "q": "is_uniform"}]))
    mk = [int(b) for r in [[True] * 5, [True, False, False, False, True], [True, False, False, False, True], [True, False, False, False, True], [True] * 5] for b in r]
    H.append(("D10", [{"o": "new", "kind": "nd", "shape": [5, 5], "v": mk, "dtype": "bool"},
                      {"o": "construct", "src": ["in", 0], "cls": "mask", "mask": [[False] * 5] * 5, "store_native": True},
                      {"o": "read", "j": 0, "q": "circular_radius"}, {"o": "arith", "j": 0, "f": "invert"},
                      {"o": "read", "j": 1, "q": "circular_radius"}, {"o": "plain", "j": 1, "q": "pixels_in_mask"}]))
    # D11: trimming after grids / convolver / w_tilde were read
    m7 = [[False] * 7 for _ in range(7)]
    m9 = [[(y < 2 or y > 6 or x < 2 or x > 6) for x in range(9)] for y in range(9)]
    for sn, mk_, n_ in ((True, m9, 9), (False, m7, 7), (True, m7, 7)):
        H.append(("D11", [{"o": "new", "kind": "nd", "shape": [n_, n_], "v": list(range(n_ * n_)), "dtype": "float"},
                          {"o": "construct", "src": ["in", 0], "cls": "array", "mask": mk_, "store_native": sn},
                          {"o": "alias", "j": 0}, {"o": "read", "j": 1, "q": "grids"}, {"o": "read", "j": 1, "q": "convolver"},
                          {"o": "trim", "j": 1}, {"o": "read", "j": 2, "q": "grids"}, {"o": "read", "j": 2, "q": "convolver"},
                          {"o": "read", "j": 1, "q": "w_tilde"}, {"o": "trim", "j": 1}, {"o": "read", "j": 3, "q": "w_tilde"},
                          {"o": "peek_in", "i": 0}, {"o": "read", "j": 1, "q": "grids"}]))
    # D12: the interferometer factory must not write into the settings object (explicit and default)
    H.append(("D12", [{"o": "new", "kind": "settings", "v": [1]}, {"o": "imaging", "i": 0}, {"o": "interf", "i": 0},
                      {"o": "peek_in", "i": 0}, {"o": "imaging", "i": 0}]))
    H.append(("D12", [{"o": "new", "kind": "default_settings", "v": [1]}, {"o": "imaging", "i": 0}, {"o": "interf", "i": 0},
                      {"o": "peek_in", "i": 0}, {"o": "imaging", "i": 0}]))
    # D9 / D8: valued mapper
    gm = [y for yy in (1, 0, -1) for xx in (-1, 0, 1) for y in (yy, xx)]
    for pm, tag in (([False] * 9, "D9"), (None, "D9"), ([False, True, False, False, True, False, False, False, False], "D8")):
        H.append((tag, [{"o": "new", "kind": "nd", "shape": [9, 2], "v": gm, "dtype": "float"},
                        {"o": "construct", "src": ["in", 0], "cls": "mapper", "mask": ff, "store_native": False},
                        {"o": "new", "kind": "nd", "shape": [9], "v": [1, 2, 3, 4, 5, 6, 7, 8, 9], "dtype": "float"},
                        {"o": "read", "j": 0, "q": "mapping_matrix"},
                        {"o": "valued", "i": 1, "m": 0, "mask": pm}, {"o": "maprecon", "j": 1}, {"o": "read", "j": 0, "q": "mapping_matrix"},
                        {"o": "values_masked", "j": 1}, {"o": "peek_in", "i": 1}, {"o": "maprecon", "j": 1}]))
    return H

def rand_cfg(rng):
    H, W = rng.randint(5, 6), rng.randint(5, 6)
    holes = [(rng.randint(1, H - 2), rng.randint(1, W - 2))] if rng.random() < 0.5 else []
    two = rng.random() < 0.35
    mappers = [(3, 3, rng.choice([1.0, 2.0]))] + ([(2, 2, rng.choice([1.0, None]))] if two else [])
    return {"shape": [H, W], "holes": [list(h) for h in holes], "data": [rng.randint(0, 20) for _ in range(H * W)],
            "noise": [rng.choice([1, 2, 4]) for _ in range(H * W)], "mappers": [list(m) for m in mappers],
            "w_tilde": rng.random() < 0.5, "positive": rng.random() < 0.3, "sub": rng.choice([1, 1, 2]),
            "preloads": sorted(rng.sample(sorted(PRELOADABLE), rng.choice([0, 0, 1, 2]))),
            "funcs": rand_funcs(rng, H * W - 2 * H - 2 * W + 4 - len(holes)), "force_edge": rng.random() < 0.7,
            "edge_image": rng.random() < 0.15, "w_tilde_numpy": rng.random() < 0.2, "source_loop": rng.random() < 0.2,
            "p_initial": rng.choice([True, True, False])}
def posall(cfg, rng):
    """DIRECTED: the state in which the positive-only solver's warm start (positive_only_uses_p_initial=True, the production
    default, pushed explicitly) puts EVERY parameter in the passive set: smooth strictly positive data, one noise level, every mapper
    regularized, no forced zeros -- the unconstrained solution is strictly positive (counted at run time on a twin: see the tally
    'warm start has every parameter passive').  Random data reach it in < 1% of the cases."""
    H, W = cfg["shape"]; base = 4 * rng.randint(6, 14)
    cfg.update(data=[base + rng.randint(0, 2) for _ in range(H * W)], noise=[rng.choice([1, 2])] * (H * W), positive=True, p_initial=True,
               force_edge=False, edge_image=False, funcs=[])
    cfg["mappers"] = [[m[0], m[1], m[2] if m[2] is not None else 1.0] for m in cfg["mappers"]]
    return cfg
def rand_funcs(rng, npix):
    """0-2 linear objects that are not mappers, before and / or after the mappers, unregularized most of the time"""
    out = []
    for _ in range(rng.choice([0, 0, 1, 1, 2])):
        k = rng.randint(1, 2)
        out.append({"pos": rng.choice(["before", "after"]), "cols": [rng.randint(0, 4) for _ in range(npix * k)],
                    "coeff": rng.choice([None, None, 1.0])})
    return out

def gen_inputs(tier, rng):
    big = tier == "thorough"
    for tag, steps in corpus():
        yield {"op": "hist", "tag": "corpus-" + tag, "steps": steps}
    n_hist = 2600 if big else 230
    flav = ["struct"] * 5 + ["dataset"] * 3 + ["valued"] * 2 + ["settings"]
    for k in range(n_hist):
        f = rng.choice(flav)
        n = rng.randint(6, 26) if f != "settings" else rng.randint(4, 9)
        # the geometry of the masks: anisotropic pixel scales / an origin off the centre for a third of the structure histories
        geom = {"ps": rng.choice([1.0, 1.0, 1.0, [1.0, 2.0], 0.5]), "origin": rng.choice([[0.0, 0.0], [0.0, 0.0], [0.5, -1.0]])} if f == "struct" else {}
        yield {"op": "hist", "tag": f, "geom": geom, "steps": gen_history(rng, n, f, allow_d8=rng.random() < 0.35)}
    # inversions: reads of curvature_matrix / curvature_reg_matrix (single regularization: the in-place += path; two: np.add),
    # with no preload / a preloaded curvature matrix / a preloaded block-diagonal matrix (w-tilde only)
    for k in range(400 if big else 40):
        cfg = rand_cfg(rng)
        cfg["positive"] = False
        cfg["preloads"] = []
        cfg["funcs"] = []
        if len(cfg["mappers"]) == 1 or rng.random() < 0.5: cfg["mappers"][-1][2] = cfg["mappers"][-1][2] or 1.0
        pre = rng.choice(["PNone", "PCurv", "PDiag"] if cfg["w_tilde"] else ["PNone", "PCurv"])
        extra = {"PNone": [], "PCurv": ["QPre"], "PDiag": ["QPreDiag"]}[pre]
        qs = [rng.choice(["QF", "QFR"] + extra) for _ in range(rng.randint(2, 7))]
        yield {"op": "inv", "cfg": cfg, "pre": pre, "qs": qs}
    yield {"op": "inv", "cfg": {"shape": [5, 6], "holes": [[2, 2]], "data": list(range(30)), "noise": [2] * 30, "mappers": [[3, 3, 1.0], [2, 2, None]],
                               "w_tilde": True, "positive": False, "sub": 1, "preloads": []}, "pre": "PDiag", "qs": ["QF", "QPreDiag", "QFR", "QF", "QPreDiag"]}
    for k in range(300 if big else 26):
        cfg = rand_cfg(rng)
        if k % 3 == 1: cfg = posall(cfg, rng)       # with whatever preloads rand_cfg chose (data_vector_mapper included)
        who = ["inv"] * 6 + ["mapper0", "mapper1", "ds", "grids", "mask"]
        reads = []
        for _ in range(rng.randint(3, 14)):
            w = rng.choice(who)
            reads.append([w, rng.choice(GRAPH_Q["mapper" if w.startswith("mapper") else w])])
        if k % 2 == 0:       # every quantity of the inversion after every other one
            reads = with_sweeps(rng, reads[:4], [["inv", q] for q in GRAPH_Q["inv"]] + [["mapper0", "mapping_matrix"], ["ds", "signal_to_noise_map"]])
        yield {"op": "graph", "cfg": cfg, "reads": reads}
    # the D21 witness (w-tilde, a mapper and a linear function object, a preloaded mapper data vector: the function rows must not be
    # written into the caller's array), in three variants
    for k, (pre, pos) in enumerate(((["data_vector_mapper"], False), (["data_vector_mapper", "regularization_matrix"], False),
                                    (["data_vector_mapper"], True))):
        yield {"op": "graph", "cfg": {"shape": [5, 5 + k % 2], "holes": [], "data": list(range(25 + 5 * (k % 2))), "noise": [2] * (25 + 5 * (k % 2)),
                                      "mappers": [[3, 3, 1.0]], "w_tilde": True, "positive": pos, "force_edge": False, "sub": 1, "preloads": pre,
                                      "funcs": [{"pos": "after", "cols": [1] * (9 + 3 * (k % 2)), "coeff": None}]},
               "reads": [["inv", "data_vector"], ["inv", "reconstruction"], ["inv", "data_vector"], ["inv", "mapped_reconstructed_data"]]}
    # the D20 witness: two mappers, w-tilde, a preloaded block-diagonal curvature matrix
    yield {"op": "graph", "cfg": {"shape": [5, 6], "holes": [[2, 2]], "data": list(range(30)), "noise": [2] * 30, "mappers": [[3, 3, 1.0], [2, 2, 1.0]],
                                  "w_tilde": True, "positive": False, "sub": 1, "preloads": ["curvature_matrix_mapper_diag"]},
           "reads": [["inv", "curvature_matrix"], ["inv", "curvature_reg_matrix"], ["inv", "curvature_matrix"], ["inv", "reconstruction"]]}
    dsq = ["grids", "convolver", "w_tilde", "grid", "signal_to_noise_map", "data", "noise_map", "shape_native"]
    # the D11 witness through the dataset API
    yield {"op": "dsderive", "cfg": {"shape": [7, 7], "holes": [], "data": list(range(49)), "noise": [2] * 49, "border": 2},
           "pre_reads": ["grids", "convolver", "w_tilde"], "derivs": [{"how": "trim", "reads_before": []}],
           "post_reads": ["grids", "convolver", "w_tilde", "data"]}
    for k in range(300 if big else 30):
        H, W = rng.randint(6, 8), rng.randint(6, 8)
        cfg = {"shape": [H, W], "holes": [], "data": [rng.randint(0, 20) for _ in range(H * W)], "noise": [rng.choice([1, 2, 4]) for _ in range(H * W)]}
        if rng.random() < 0.4: cfg["border0"] = True
        else: cfg["border"] = rng.choice([1, 2, 2])
        cfg["native"] = rng.random() < 0.4
        derivs = []
        for _ in range(rng.randint(1, 2)):
            how = rng.choice(["trim", "over_sampling", "mask", "noise_scaling"])
            d = {"how": how, "reads_before": rng.sample(dsq, rng.randint(0, 2))}
            if how == "over_sampling": d["sub"] = rng.choice([None, 2])
            if how in ("mask", "noise_scaling"):
                m2 = [[(y < 2 or y > H - 3 or x < 2 or x > W - 3 or rng.random() < 0.15) for x in range(W)] for y in range(H)]
                m2[H // 2][W // 2] = False
                d["mask"] = m2
                if how == "noise_scaling" and rng.random() < 0.5: d["snr"] = 2.0
            derivs.append(d)
            if how in ("mask", "noise_scaling"): break      # apply_mask on a masked dataset goes back to `unmasked`: one is enough
        pre = rng.sample(dsq, rng.randint(1, 4))
        post = sorted(set(pre[:2] + rng.sample(dsq, rng.randint(1, 3))))
        yield {"op": "dsderive", "cfg": cfg, "pre_reads": pre, "derivs": derivs, "post_reads": post}
    # triangulation meshes (Delaunay / Voronoi): random read orders over mesh / mapper / valued mapper / inversion
    for k in range(240 if big else 16): yield gen_mesh(rng)
    # object reuse: one dataset / mapper / settings / Preloads object serving several inversions
    for k in range(200 if big else 16): yield gen_reuse(rng)
    # read -> the user edits the object in place -> re-read
    for k in range(600 if big else 60): yield gen_edit(rng)
    # fits: FitImaging -> dataset -> inversion -> mappers
    for k in range(240 if big else 16): yield gen_fit(rng)
    # PART D: reads on the quantity graphs of Model/C11g.v (cache fills and changed entries are compared inside Coq)
    for k in range(300 if big else 36): yield gen_gcase(rng, k % 6)
    # PART E: argument objects (OverSamplingDataset) shared between dataset constructors / apply_over_sampling calls / omitted
    for k in range(400 if big else 40): yield gen_share(rng)
    # re-masking chains on fully specified Imaging datasets (noise covariance matrix ...), each dataset vs its history-free twin
    for k in range(400 if big else 44): yield gen_remask(rng, k)
    # structure queries called three times on equal inputs with the heap dirtied in between; windows leaving the frame vs a reference
    for k in range(1200 if big else 120): yield gen_determ(rng, k)
    # util functions (solvers first) called directly with caller-owned arrays: C / Fortran order, float64 / int64 / float32
    for k in range(680 if big else 68): yield gen_util(rng, k)
    for k in range(120 if big else 18):
        H, W = rng.randint(2, 4), rng.randint(2, 4)
        vias = ["simulator", "poisson", "gaussian", "interferometer"]
        if k < 4:          # boundary seed 0 (a valid fixed seed, the smallest one) through every seeded entry point
            via, seed = vias[k], 0
        else:
            via = rng.choice(vias + ["simulator"])
            seed = rng.choice([0, 1, 2, 7, 12345, 2 ** 32 - 1, rng.randint(0, 10 ** 6)]) if k % 7 else -1
        yield {"op": "seed", "via": via, "shape": [H, W], "image": [rng.randint(1, 30) for _ in range(H * W)],
               "exposure": rng.choice([10.0, 100.0, 300.0]), "sky": rng.choice([0.0, 1.0]), "psf": rng.random() < 0.5 and H >= 3 and W >= 3,
               "seed": seed, "states": [rng.randint(0, 10 ** 6) for _ in range(3)]}
    # (last, so that the draws of every earlier stream are unchanged) directed: the user edits a copy.deepcopy / copy.copy of the object (both copy the buffer): the source must not notice
    for how in ("deepcopy", "shallowcopy"):
        done = set()
        for k in range(400):
            c = gen_edit(rng)
            if c["kind"] in done or c["kind"] == "dataset" or (how == "shallowcopy" and c["kind"] in ("kernel", "vector", "mask")): continue
            done.add(c["kind"]); c["derive"] = how; c["edits"] = []; yield c

def extra_evidence():
    return {"distribution": dict(sorted(TALLY.items())),"modelled_operations": ["ONew", "OConstruct(Array2D|Grid2D|VectorYX2D|Kernel2D|Visibilities|Mask2D|MapperRectangular)", "OAlias(Imaging)",
                                    "OArith", "OSlice", "OCopy", "OTrim", "ORead(cached_property)", "OPlain", "OPeekIn", "OPeekObj",
                                    "OValued(MapperValued)", "OValuesMasked", "OMapRecon", "OInterf", "OImaging",
                                    "OConstruct(.., Some q) = Kernel2D(normalize=True) / psf.normalized", "OConstruct(SObj) = x.native / x.slim",
                                    "HArg(OverSamplingDataset)", "HDs(Imaging|Interferometer, argument|omitted)", "HApply(apply_over_sampling, argument|omitted)",
                                    "HKeep(apply_mask|apply_noise_scaling)", "HPeekArg", "HPeekDs", "HPeekDefault"],
            "default_argument_singletons": [n + ":" + type(o).__name__ for n, o in default_singletons()],
            "graphs": {str(k): {"name": v, "nodes": [f"{o}.{n}:{kd}" for o, n, kd in GNODES[v]]} for k, v in GINST.items()},
            "quantities": {k: {"cached": sorted(v.cached), "plain": v.plain} for k, v in KINDS.items()}}
