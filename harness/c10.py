"""C10 -- blurring, edge and border pixel sets match their definitions for every mask."""
import itertools
from fractions import Fraction
import numpy as np
from harness.common import cz, cbool, clist, ctup, cres, call_res, import_aa

ID = "C10"
GEN = []
PROPS = "Props/C10.v"
COQ_CHECK = ("Model.C10", "check")
COQ_FALLBACK = ("Model.C10", "spec_ok")
COQ_IMPORTS = ""
SHARD = 500
RULE = ("every boolean mask of every shape with H*W <= N (see exhaustive_subspace) through the util functions "
        "(total_edge_pixels_from, edge_1d_indexes_from, border_slim_indexes_from, buffed_mask_2d_from, check_if_edge_pixel, "
        "blurring_mask_2d_from) and, on a smaller exhaustive set, through Mask2D.derive_indexes / derive_mask / derive_grid "
        "and Grid2D.blurring_grid_from; plus random masks up to 9x9 (iid, blobs with holes, diagonal walks / thin bridges, "
        "mostly-unmasked with pin holes, with and without a masked padding ring) with kernels in {1,3,5,7}^2 and a few "
        "even / non-positive kernels.  HISTORIES (op hist, Model/C10.v Part 5): programs over a pool of Mask2D objects -- construct "
        "(array / list / int array / invert=True / with_new_array / resized_from), read some or all views through fresh or HELD "
        "derive_indexes / derive_mask / derive_grid objects, edit in place (obj[y,x]=v, obj.mask[y,x]=v, obj.array[y,x]=v, obj[y][x]=v, "
        "numpy scalars, int values, negative indices, obj[boolean key]=v), copy (copy(), copy.copy, deepcopy, Mask2D(mask=obj)), derive a "
        "Mask2D (derive_mask.edge/border/edge_buffed/blurring_from, derive_grid.edge/border .mask, blurring_grid_from(...).mask, invert()), "
        "edit the derived object, and read everything again (eleven views, blurring mask and grid, util functions on a twin ndarray that is "
        "re-used and edited in place); every read must equal the model on the CURRENT contents of that object and show those contents. "
        "Families: one view read -> edit -> re-read all (every view x fresh/held x edit route); copy then edit copy / original; derived objects; "
        "two edits restoring the number of unmasked pixels; all small masks x every cell flipped; random programs. "
        "INPUT KINDS / SIBLINGS / ARGUMENTS (kinds_inputs and history family H): the mask is given as int / float / float32 / uint8 / int8 / complex / "
        "Fortran-ordered / non-contiguous view / read-only / ndarray-subclass arrays, arrays of arbitrary truthy values (negative, 1e-300, inf), "
        "lists of ints, lists of numpy rows, a Mask2D, an instance of a user subclass of Mask2D, and through the classmethods all_false / "
        "from_pixel_coordinates / circular / from_primary_hdu(hdu_for_output); the util functions get twin arrays of every numeric kind; the kernel "
        "shape is a tuple / list / ndarray / numpy-integer tuple / Kernel2D.shape_native, held and re-used; pixel scales / origin are a scalar / int tuple / "
        "list / ndarray, scaled by 2^-40 .. 2^40 (coordinates descaled exactly, C10_grid_views_scale); sibling routes: DeriveIndexes2D / DeriveMask2D / "
        "DeriveGrid2D constructed directly (keyword and positional), DeriveMask2D.derive_indexes, BorderRelocator.border_grid and sub_border_slim "
        "(sub_size 1), Convolver(mask, kernel).blurring_mask, Grid2D.blurring_grid_via_kernel_shape_from (on Grid2D.from_mask and on "
        "derive_grid.unmasked), blurring_grid_from(over_sampling=...); every such case is evaluated TWICE on the same objects and every argument "
        "object (mask array incl. the base of a view, kernel, pixel scales, origin, over_sampling) is fingerprinted before and after; the Mask2D must "
        "keep contents, pixel scales and origin.  DIRECTED rare states: border walks with one gap at every distance in every direction (7x9 / 9x7), "
        "masks with more than 127 / 255 unmasked pixels (one-byte index buffers), blurring masks that fit on every side / are one short on exactly "
        "one side (top, bottom, left, right separately) with kernels up to 9, annuli through every sibling route. "
        "Non-trivial = the mask has at least one unmasked pixel; distinct = distinct JSON input.")
EXHAUSTIVE = {
    "quick": "util edge/border/buffed: all masks of all shapes with H*W <= 10 and all 3x4 / 4x3 masks (15 498 masks, "
             "outer-ring pixels included); public derive_* views and check_if_edge_pixel: all masks with H*W <= 9; blurring "
             "(util and public alternating): all masks with H*W <= 9 x kernels (1,1), (3,3) and every other one of (1,3), (3,1), "
             "and all 3x4 / 4x3 masks x kernel (3,3); histories: all masks with H*W <= 4 x every cell flipped between two full reads",
    "thorough": "util on all masks of all shapes with H*W <= 12 (35 978 masks) and on all 4x4, 3x5 and 5x3 masks; public views on all "
                "masks with H*W <= 12 and on every other 4x4 / 3x5 / 5x3 mask; blurring on all masks with H*W <= 9 x kernels {1,3,5}^2, on all "
                "masks with 10 <= H*W <= 12 x kernel (3,3) and one more kernel of {1,3,5}^2 in rotation, and on all 5x5 masks with a masked "
                "outer ring x kernels {1,3,5}^2; histories: all masks with H*W <= 6 and all 3x3 masks x every cell flipped between two full reads",
}
TRUSTED = ["correspondence harness harness/c10.py (mask/array printing; grid coordinates are doubled and must be integers, "
           "asserted exactly with fractions.Fraction)",
           "numpy semantics modelled in Model/C10.v Part 1: a[y,x] reads/writes with negative-index wrap, np.full, np.sum of a "
           "boolean slice, fancy indexing a[idx] and mask[ys,xs] = False",
           "histories: the harness's interpreter of history programs (run_hist): it applies each edit to the Mask2D and to the twin ndarray, "
           "and prints as the mask field of every read what np.array(obj) shows at that moment",
           "geometry scaled by 2^e with e < 0: multiplying every pixel scale / origin by a power of two commutes exactly with the binary floating-point "
           "arithmetic of the coordinate formulas (no underflow at 2^-40), so the descaled coordinates are compared with the integer model "
           "(for integer factors this is theorem C10_grid_views_scale)",
           "input kinds: the harness's own conversion of the contents to each array kind (mk_array) and np.ndarray.astype('bool') semantics "
           "(non-zero = masked)"]
ASSUMPTIONS = ["native_index_for_slim_index_2d_from and grid_2d_slim_via_mask_from are modelled as append / map over the "
               "row-major scan (their preallocate-and-write form belongs to C01 / C02); the correspondence run exercises them",
               "pixel scales and origins of the grid views are small integers so that doubled coordinates are exact integers",
               "Mask2D(...) / Grid2D(...) constructors keep the arrays they are given (checked by the KViews / KBlur cases)",
               "object layer (Model/C10.v Part 5): a Mask2D owns its array, obj[y,x]=v writes it in place, copies own a copy, reads change "
               "nothing -- modelled as a list of contents and checked by every history (contents shown by np.array(obj) at every read)"]

_tally = {}
def _t(k): _tally[k] = _tally.get(k, 0) + 1
def extra_evidence(): return {"distribution": dict(sorted(_tally.items()))}

# ----------------------------------------------------------------------------- printing
def rows_of(ms): return [[c == "1" for c in r] for r in ms]          # "1" = masked
def cmask(m): return clist([clist([cbool(bool(v)) for v in r]) for r in m])
def czl(l): return clist([cz(v) for v in l])
def cpxl(l): return clist([ctup([cz(a), cz(b)]) for a, b in l])
def mask_out(a): return [[bool(v) for v in r] for r in np.asarray(a)]
def ints(a):
    out = []
    for v in np.asarray(a).ravel():
        f = Fraction(float(v)); assert f.denominator == 1, v
        out.append(int(f))
    return out
def pairs(a):
    a = np.asarray(a)
    if a.size == 0: return []
    v = ints(a); return [[v[i], v[i + 1]] for i in range(0, len(v), 2)]
def pairs2(a, e=0):
    """doubled coordinates, exact; e: the geometry was scaled by 2**e (exact in binary floating point), undone here"""
    a = np.asarray(a, dtype=float)
    out = []
    sc = Fraction(2) ** (1 - e)
    for r in a.reshape(-1, 2):
        fy, fx = Fraction(float(r[0])) * sc, Fraction(float(r[1])) * sc
        assert fy.denominator == 1 and fx.denominator == 1, r
        out.append([int(fy), int(fx)])
    return out

# ----------------------------------------------------------------------------- generators
def all_masks(h, w):
    for bits in itertools.product("01", repeat=h * w):
        yield ["".join(bits[r * w:(r + 1) * w]) for r in range(h)]
def shapes_upto(n):
    return [(h, w) for h in range(1, n + 1) for w in range(1, n + 1) if h * w <= n]

def pad(ms, py, px):
    w = len(ms[0]) + 2 * px
    return ["1" * w] * py + ["1" * px + r + "1" * px for r in ms] + ["1" * w] * py

def rand_mask(rng, h, w):
    style = rng.randrange(5)
    g = [[1] * w for _ in range(h)]
    if style == 0:                       # iid
        p = rng.choice([0.2, 0.5, 0.8])
        g = [[1 if rng.random() < p else 0 for _ in range(w)] for _ in range(h)]
    elif style == 1:                     # blob(s) with holes
        for _ in range(rng.randint(1, 2)):
            y0, x0 = rng.randrange(h), rng.randrange(w); y1, x1 = rng.randint(y0, h - 1), rng.randint(x0, w - 1)
            for y in range(y0, y1 + 1):
                for x in range(x0, x1 + 1): g[y][x] = 0
        for _ in range(rng.randint(0, 3)): g[rng.randrange(h)][rng.randrange(w)] = 1
    elif style == 2:                     # diagonal contacts / thin bridges: king-move walks
        for _ in range(rng.randint(1, 3)):
            y, x = rng.randrange(h), rng.randrange(w)
            for _ in range(rng.randint(1, h + w)):
                g[y][x] = 0
                y = min(h - 1, max(0, y + rng.choice([-1, 0, 1]))); x = min(w - 1, max(0, x + rng.choice([-1, 0, 1])))
    elif style == 3:                     # mostly unmasked, pin holes
        g = [[0] * w for _ in range(h)]
        for _ in range(rng.randint(0, 4)): g[rng.randrange(h)][rng.randrange(w)] = 1
    else:                                # annulus-like
        cy, cx = (h - 1) / 2, (w - 1) / 2; ro = rng.uniform(1, max(h, w) / 2 + 0.5); ri = rng.uniform(0, ro)
        for y in range(h):
            for x in range(w):
                r = ((y - cy) ** 2 + (x - cx) ** 2) ** 0.5
                g[y][x] = 0 if ri <= r <= ro else 1
    return ["".join(str(v) for v in r) for r in g]

GEOMS = [[1, 1, 0, 0], [2, 1, 1, -2], [1, 2, -3, 0], [2, 2, 0, 1]]
KS = [1, 3, 5, 7]
# histories also use larger integer scales / origins (every coordinate stays an exact half-integer)
GEOMS_X = GEOMS + [[1024, 3, -7, 6], [3, 5, -6, 10]]

def gen_inputs(tier, rng):
    big = tier == "thorough"
    i = 0
    yield from hist_inputs(tier, rng)
    yield from kinds_inputs(tier, rng)
    # ---- exhaustive, util level (quick: all shapes with H*W <= 10 plus 3x4 / 4x3, the 12-cell shapes that have interior
    #      pixels; thorough: all shapes with H*W <= 12)
    for (h, w) in shapes_upto(12):
        if not big and h * w > 10 and (h, w) not in ((3, 4), (4, 3)): continue
        for ms in all_masks(h, w):
            i += 1
            yield {"op": "util", "m": ms, "buffer": i % 3}
            if h * w <= 9 or (big and i % 4 == 0): yield {"op": "checkedge", "m": ms}
            if h * w <= 9 or big: yield {"op": "views", "m": ms, "g": GEOMS[i % 4]}
            if h * w <= 9 and not big:
                for k in ([1, 1], [1, 3], [3, 1], [3, 3]):
                    i += 1
                    if k[0] != k[1] and i % 2: continue
                    yield {"op": "blurutil" if (i // 2) % 2 else "blur", "m": ms, "k": k}
            elif big:
                ks9 = list(itertools.product([1, 3, 5], repeat=2))
                for k in (ks9 if h * w <= 9 else [(3, 3), ks9[i % 9]]):
                    i += 1
                    yield {"op": "blurutil" if i % 2 else "blur", "m": ms, "k": list(k)}
            elif (h, w) in ((3, 4), (4, 3)):
                i += 1
                yield {"op": "blurutil" if i % 2 else "blur", "m": ms, "k": [3, 3]}
    if big:
        for (h, w) in ((4, 4), (3, 5), (5, 3)):
            for ms in all_masks(h, w):
                i += 1
                yield {"op": "util", "m": ms, "buffer": i % 3}
                if i % 2: yield {"op": "views", "m": ms, "g": GEOMS[(i // 2) % 4]}
        for ms in all_masks(3, 3):
            for k in itertools.product([1, 3, 5], repeat=2):
                i += 1
                yield {"op": ("blurutil", "blur", "blurgrid")[i % 3], "m": pad(ms, 1, 1), "k": list(k), "g": GEOMS[i % 4]}
    # ---- even / non-positive kernels: the public entry point rejects even ones
    for ms in (["111", "101", "111"], ["11111", "11011", "11111"], ["0"], ["1111", "1001", "1111", "1111"]):
        for k in ([2, 3], [3, 2], [4, 4], [2, 2], [3, 4], [0, 3], [-1, 3], [-1, -1], [3, -3]):
            yield {"op": "blur", "m": ms, "k": k}
            yield {"op": "blurutil", "m": ms, "k": k}
            yield {"op": "blurgrid", "m": ms, "k": k, "g": GEOMS[1]}
    # ---- random larger masks
    n = 6000 if big else 500
    for j in range(n):
        h, w = rng.randint(1, 9), rng.randint(1, 9)
        ms = rand_mask(rng, h, w)
        yield {"op": "util", "m": ms, "buffer": rng.choice([0, 1, 1, 2, 3])}
        yield {"op": "views", "m": ms, "g": rng.choice(GEOMS)}
        if j % 4 == 0: yield {"op": "checkedge", "m": ms}
        # blurring: kernel and a padding ring that fits exactly, is one short, or is generous
        kh, kw = rng.choice(KS), rng.choice(KS)
        ih, iw = rng.randint(1, 5), rng.randint(1, 5)
        inner = rand_mask(rng, ih, iw)
        py = max(0, kh // 2 + rng.choice([0, 0, 0, 1, -1])); px_ = max(0, kw // 2 + rng.choice([0, 0, 0, 1, -1]))
        pm = pad(inner, py, px_)
        yield {"op": rng.choice(["blurutil", "blur", "blurgrid"]), "m": pm, "k": [kh, kw], "g": rng.choice(GEOMS)}
        if j % 5 == 0:
            # a kernel with an even side on a generously padded mask (the loops alone would not raise): the public
            # entry points must reject it
            ek = rng.choice([[kh, kw + 1], [kh + 1, kw], [kh + 1, kw + 1]])
            yield {"op": rng.choice(["blur", "blurgrid", "blurutil"]), "m": pad(inner, ek[0] // 2 + 1, ek[1] // 2 + 1), "k": ek,
                   "g": rng.choice(GEOMS)}
        yield {"op": rng.choice(["blurutil", "blur", "blurgrid"]), "m": ms, "k": [rng.choice(KS[:3]), rng.choice(KS[:3])], "g": rng.choice(GEOMS)}

# ----------------------------------------------------------------------------- input kinds (arrays, kernels, geometry)
# array kinds accepted by the util functions (elements are 0/1 or bool) ...
UTIL_KINDS = ["int", "float", "uint8", "int8", "F", "view", "ro", "float32", "ndsub"]
# ... and by the Mask2D constructor (anything astype("bool") understands: non-zero = masked)
CTOR_KINDS = UTIL_KINDS + ["truthy_i", "truthy_f", "list_int", "list_rows", "mask2d", "sub2d", "complex"]
KERNEL_KINDS = ["list", "ndarray", "npint", "kernel2d", "tuple"]
# numpy UNSIGNED kernel sides make the footprint range of blurring_mask_2d_from empty on the current /repo (-np.uint8(3) == 253):
# fixes/C10_unsigned_kernel.diff converts the sides in DeriveMask2D.blurring_from.  Switch on once that patch is committed to /repo
# (the check must exit 0 on the current tree); the kinds then replace "tuple" in every other public blurring case.
UNSIGNED_KERNELS = True
GEOM_KINDS = ["scalar", "ints", "list", "ndarray", "tuple"]
EXPS = [-40, 40, -20, 0]

class _NdSub(np.ndarray):
    """a plain ndarray subclass (isinstance(x, np.ndarray) holds, type(x) is np.ndarray does not)"""

def mk_array(M, ak, aa=None):
    """the contents M (rows of bools) as an object of kind `ak`; returns (object, keep) where `keep` is the array whose
    bytes must not change (the base array of a view)"""
    a = np.array(M, dtype=bool)
    H, W = a.shape
    if ak in (None, "bool"): return a, a
    if ak == "int": r = a.astype(int)
    elif ak == "float": r = a.astype(float)
    elif ak == "float32": r = a.astype(np.float32)
    elif ak == "complex": r = a.astype(complex) * 1j
    elif ak == "uint8": r = a.astype(np.uint8)
    elif ak == "int8": r = a.astype(np.int8)
    elif ak == "F": r = np.asfortranarray(a)
    elif ak == "ro": r = a.copy(); r.flags.writeable = False
    elif ak == "ndsub": r = a.copy().view(_NdSub)
    elif ak == "view":
        # every second row / third column of a bigger array whose other cells hold the opposite values
        big = np.repeat(np.repeat(~a, 2, axis=0), 3, axis=1)
        big[1::2, 2::3] = a
        return big[1::2, 2::3], big
    elif ak == "truthy_i": r = np.where(a, ((np.arange(H * W).reshape(H, W) % 5) - 2) * 2 + 1, 0)          # -3 .. 5, odd
    elif ak == "truthy_f": r = np.where(a, np.array([0.5, -1e-300, 1e300, np.inf, -2.0])[np.arange(H * W).reshape(H, W) % 5], 0.0)
    elif ak == "list_int": return [[int(v) for v in row] for row in a], None
    elif ak == "list_rows": return [np.array(row) for row in a], None
    elif ak == "mask2d": return aa.Mask2D(mask=a, pixel_scales=(7.0, 9.0), origin=(5.0, -5.0)), None
    elif ak == "sub2d": return _sub2d(aa)(mask=a, pixel_scales=(7.0, 9.0), origin=(5.0, -5.0)), None
    else: raise ValueError(ak)
    return r, r

_SUB2D = []
def _sub2d(aa):
    """a user subclass of Mask2D (isinstance holds, type(x) is Mask2D does not)"""
    if not _SUB2D:
        class MyMask2D(aa.Mask2D): pass
        _SUB2D.append(MyMask2D)
    return _SUB2D[0]

def mk_kernel(aa, k, kk):
    kh, kw = k
    if kk == "list": return [kh, kw]
    if kk == "ndarray": return np.array([kh, kw])
    if kk == "npint": return (np.int64(kh), np.int32(kw))
    if kk == "npuint8" and 0 < kh < 256 and 0 < kw < 256: return (np.uint8(kh), np.uint8(kw))
    if kk == "npuint64" and kh > 0 and kw > 0: return np.array([kh, kw], dtype=np.uint64)
    if kk == "kernel2d" and kh > 0 and kw > 0: return aa.Kernel2D.ones(shape_native=(kh, kw), pixel_scales=1.0).shape_native
    return (kh, kw)

def mk_geom(g, gk, e=0):
    """(pixel_scales argument, origin argument, expected pixel_scales, expected origin) for geometry g = [sy, sx, oy, ox]
    scaled by 2**e"""
    f = 2.0 ** e
    sy, sx, oy, ox = [float(v) * f for v in g]
    if gk == "scalar" and sy == sx: return sy, (oy, ox), (sy, sx), (oy, ox)
    if gk == "ints" and e >= 0: return (int(sy), int(sx)), (int(oy), int(ox)), (sy, sx), (oy, ox)
    if gk == "list": return [sy, sx], [oy, ox], (sy, sx), (oy, ox)
    if gk == "ndarray": return np.array([sy, sx]), np.array([oy, ox]), (sy, sx), (oy, ox)
    return (sy, sx), (oy, ox), (sy, sx), (oy, ox)

def fp(x):
    """a fingerprint of an argument object (type, dtype and contents)"""
    if isinstance(x, np.ndarray): return (type(x).__name__, str(x.dtype), x.shape, x.tobytes(), x.flags.writeable)
    if isinstance(x, (list, tuple)): return (type(x).__name__, tuple(fp(v) for v in x))
    if hasattr(x, "__dict__") and not callable(x): return (type(x).__name__, tuple(sorted((k, fp(v)) for k, v in vars(x).items())))
    return (type(x).__name__, repr(x))

def directed_masks():
    """rare states built on purpose (random masks reach them rarely, the small exhaustive shapes never):
    (1) border walks: one unmasked pixel with its unmasked neighbours in the middle of a 7x9 / 9x7 array; in each of the
        four axis directions the run towards the boundary is masked except for one unmasked gap at a chosen distance;
    (2) more than 127 / 255 unmasked pixels (slim indices that do not fit a one-byte buffer);"""
    out = []
    for (H, W) in ((7, 9), (9, 7)):
        cy, cx = H // 2, W // 2
        dirs = [(-1, 0), (1, 0), (0, -1), (0, 1)]
        for di, (dy, dx) in enumerate(dirs):
            reach = cy if dy else cx
            for gap in range(0, reach + 1):               # gap = 0: no gap in that direction
                for others in (0, 1, 2):                  # the other three directions: blocked near / blocked far / open
                    g = [[1] * W for _ in range(H)]
                    g[cy][cx] = 0
                    for dj, (ey, ex) in enumerate(dirs):
                        r = cy if ey else cx
                        if dj == di: holes = [gap] if gap else []
                        else: holes = [[1], [r], []][others]
                        for d in holes: g[cy + ey * d][cx + ex * d] = 0
                    out.append(["".join(map(str, r)) for r in g])
    for (H, W, style) in ((12, 12, 0), (17, 16, 0), (17, 17, 1), (18, 24, 2)):
        g = [[0] * W for _ in range(H)]
        if style == 1:
            for y in range(H): g[y][0] = g[y][W - 1] = 1
            for x in range(W): g[0][x] = g[H - 1][x] = 1
            g[H // 2][W // 2] = 1
        if style == 2:
            for y in range(3, H - 3):
                for x in range(5, W - 5): g[y][x] = 1
            g[H // 2][W // 2] = 0
        out.append(["".join(map(str, r)) for r in g])
    return out

def asym_pad(ms, t, b, l, r):
    w = len(ms[0]) + l + r
    return ["1" * w] * t + ["1" * l + row + "1" * r for row in ms] + ["1" * w] * b

def kinds_inputs(tier, rng):
    """input kinds, sibling entry points, argument fingerprints, directed rare states (single operations; each is
    evaluated TWICE on the same objects)"""
    big = tier == "thorough"
    n = 0
    dm = directed_masks()
    for ms in dm:
        n += 1
        yield {"op": "util", "m": ms, "buffer": 1 + n % 2, "ak": UTIL_KINDS[n % len(UTIL_KINDS)] if n % 2 else "bool"}
        if n % 3 == 0 or len(ms) > 9 or big:
            yield {"op": "views", "m": ms, "g": GEOMS_X[n % 6], "alt": n % 3, "gk": GEOM_KINDS[n % 5], "e": EXPS[n % 4]}
    # ---- annuli / holes (edge pixels that are not border pixels) through every sibling route of the views
    for j in range(24 if big else 9):
        n += 1
        h, w = rng.randint(5, 9), rng.randint(5, 9)
        g = [[1] * w for _ in range(h)]
        y0, x0 = rng.randint(0, 1), rng.randint(0, 1); y1, x1 = h - 1 - rng.randint(0, 1), w - 1 - rng.randint(0, 1)
        for y in range(y0, y1 + 1):
            for x in range(x0, x1 + 1): g[y][x] = 0
        for y in range(y0 + 2, y1 - 1):
            for x in range(x0 + 2, x1 - 1): g[y][x] = 1
        if rng.random() < 0.5: g[rng.randint(y0, y1)][rng.randint(x0, x1)] = 1
        yield {"op": "views", "m": ["".join(map(str, r)) for r in g], "g": GEOMS_X[n % 6], "alt": 1 + n % 3, "gk": GEOM_KINDS[n % 5], "e": EXPS[n % 4],
               "ak": CTOR_KINDS[n % len(CTOR_KINDS)]}
    # ---- blurring: every side of the array separately exact / one short, kernels up to 9, all kernel kinds and routes
    for kh, kw in ((3, 3), (1, 5), (5, 3), (3, 7), (7, 1), (9, 3), (5, 9)):
        for side in range(5):                      # 0: fits on every side; 1..4: one short at top / bottom / left / right
            for rep in range(2 if big else 1):
                n += 1
                inner = rand_mask(rng, rng.randint(1, 3), rng.randint(1, 3))
                if "0" not in "".join(inner): inner = ["0"]
                # make sure an unmasked pixel sits on the critical side of the inner block
                if side == 1: inner[0] = "0" + inner[0][1:]
                if side == 2: inner[-1] = "0" + inner[-1][1:]
                if side == 3: inner = ["0" + r[1:] for r in inner[:1]] + inner[1:]
                if side == 4: inner = [r[:-1] + "0" for r in inner[:1]] + inner[1:]
                t = b = kh // 2; l = r = kw // 2
                if side == 1: t -= 1
                if side == 2: b -= 1
                if side == 3: l -= 1
                if side == 4: r -= 1
                if min(t, b, l, r) < 0: continue
                yield {"op": ("blur", "blurgrid", "blurutil")[n % 3], "m": asym_pad(inner, t, b, l, r), "k": [kh, kw], "g": GEOMS_X[n % 6],
                       "ak": CTOR_KINDS[n % len(CTOR_KINDS)], "kk": KERNEL_KINDS[n % 5], "gk": GEOM_KINDS[(n // 5) % 5], "e": EXPS[n % 4],
                       "alt": (n // 3) % 4}
    # ---- every array kind x every operation, masks of every small shape (size-1 dimensions, single pixels, empty selections)
    specials = [["0"], ["1"], ["00"], ["0", "0"], ["01"], ["1", "0"], ["111", "101", "111"], ["000", "000", "000"], ["111", "111"],
                ["11111", "10001", "10101", "10001", "11111"], ["1111111", "1000001", "1011101", "1010101", "1011101", "1000001", "1111111"]]
    for ki, ak in enumerate(CTOR_KINDS):
        for oi, op in enumerate(("util", "checkedge", "views", "blur", "blurgrid", "blurutil")):
            if op in ("util", "checkedge", "blurutil") and ak not in UTIL_KINDS: continue
            for rep in range(4 if big else 2):
                n += 1
                ms = specials[n % len(specials)] if rep == 0 else pad(rand_mask(rng, rng.randint(1, 5), rng.randint(1, 5)), rng.randint(0, 2), rng.randint(0, 2))
                yield {"op": op, "m": ms, "k": [rng.choice(KS[:3]), rng.choice(KS[:3])], "buffer": n % 3, "g": GEOMS_X[n % 6], "ak": ak,
                       "kk": KERNEL_KINDS[n % 5], "gk": GEOM_KINDS[(n // 2) % 5], "e": EXPS[(n // 3) % 4], "alt": n % 4}
    # ---- even kernels through every kernel kind and sibling route (rejected by the public entry points)
    for ki, kk in enumerate(KERNEL_KINDS):
        for k in ([2, 3], [3, 4], [4, 2]):
            n += 1
            yield {"op": ("blur", "blurgrid")[n % 2], "m": pad(["0"], 3, 3), "k": k, "g": GEOMS[n % 4], "kk": kk, "alt": n % 4, "ak": "bool"}

# ----------------------------------------------------------------------------- history programs
NEW_ROUTES = ["ctor", "ctor", "ctor_list", "ctor_int", "ctor_invert", "with_new_array"]
COPY_ROUTES = ["copy", "copy.copy", "deepcopy", "ctor", "ctor_array"]
EDIT_ROUTES = ["item", "item", "mask", "array", "row", "np_item", "item_int", "where"]
DERIVES = [("edge", "dm"), ("edge", "grid"), ("border", "dm"), ("border", "grid"), ("buffed", "dm"), ("invert", "dm"),
           ("blur", "dm"), ("blur", "grid")]
HKS = [[3, 3], [1, 1], [1, 3], [5, 1], [3, 5], [3, 3], [2, 3]]

def _rows(rng, big=False):
    """a start mask: any topology, ring pixels included; half of the time inside a masked padding ring so that a
    blurring mask exists"""
    if rng.random() < 0.5:
        return pad(rand_mask(rng, rng.randint(1, 4), rng.randint(1, 4)), rng.randint(0, 2), rng.randint(0, 2))
    return rand_mask(rng, rng.randint(1, 7 if big else 6), rng.randint(1, 7 if big else 6))

def _edit(rng, oref, route=None, mode=None):
    route = route or rng.choice(EDIT_ROUTES)
    cells = [[rng.randrange(64), rng.randrange(64)] for _ in range(rng.randint(1, 3) if route == "where" else 1)]
    return ["edit", route, oref, cells, mode or rng.choice(["flip", "flip", "flip", "T", "F"]), rng.choice([0, 0, 0, 1, 2, 3])]

def _read(rng, oref, op="views", held=None):
    held = rng.random() < 0.3 if held is None else held
    order = list(range(len(VIEW_FIELDS)))
    if rng.random() < 0.7: rng.shuffle(order)
    p = {}
    if op in ("blur", "blurgrid", "blurutil"): p = {"k": rng.choice(HKS)}
    if op == "util": p = {"buffer": rng.choice([0, 1, 1, 2])}
    return ["read", oref, op, held, order if op == "views" else None, p]

def _hist(g, steps, **kw): return dict({"op": "hist", "g": g, "steps": steps}, **kw)
HIST_NEW_X = ["kind:" + k for k in CTOR_KINDS] + ["all_false", "from_pixel_coordinates", "circular", "hdu"]
RAW_KINDS = [k for k in UTIL_KINDS if k != "ro"]

def _reread(rng, o, held=None, k=None):
    """everything is read again from object o: the eleven views, the blurring mask and grid (kernel k, default the (3,3)
    of the partial reads), the util functions on the twin array"""
    k = k or [3, 3]
    out = [_read(rng, o, "views", held), ["read", o, "blur", False, None, {"k": k}], ["read", o, "blurgrid", False, None, {"k": k}],
           ["read", o, "util", False, None, {"buffer": 1}], ["read", o, "blurutil", False, None, {"k": k}]]
    if rng.random() < 0.3: out.append(_read(rng, o, "checkedge"))
    rng.shuffle(out)
    return out

def hist_inputs(tier, rng):
    big = tier == "thorough"
    # ---- A: read ONE view (fresh or held derive_* objects), edit the same Mask2D in place, read everything again
    for rep in range(3 if big else 1):
        for si, sel in enumerate(SEL_NAMES):
            for held in (False, True):
                for route in (EDIT_ROUTES[1:] if big else [EDIT_ROUTES[1 + (si + held + rep) % 7], "item"]):
                    yield _hist(rng.choice(GEOMS_X), [["new", rng.choice(NEW_ROUTES[:5]), _rows(rng)], ["touch", 0, [sel], held],
                                                    _edit(rng, 0, route, "flip")] + _reread(rng, 0, held) + [_read(rng, 0, "views", not held)])
    # ---- B / C: read one view, copy, edit the copy (B) or the original (C), read both
    for rep in range(3 if big else 1):
        for si, sel in enumerate(SEL_NAMES):
            for ci, croute in enumerate(COPY_ROUTES):
                if not big and (si + ci + rep) % 2: continue
                tgt = (si + ci) % 2                      # 1 = edit the copy, 0 = edit the original
                held = (si + ci) % 3 == 0
                yield _hist(rng.choice(GEOMS_X), [["new", "ctor", _rows(rng)], ["touch", 0, [sel], held], ["copy", croute, 0],
                                                _edit(rng, tgt, None, "flip")] + _reread(rng, 1, False) + _reread(rng, 0, held))
    # ---- D: a DERIVED Mask2D is itself observed, edited and observed again, and so is its source
    for rep in range(3 if big else 1):
        for di_, (dname, droute) in enumerate(DERIVES):
            for si, sel in enumerate(SEL_NAMES):
                if not big and (si + di_ + rep) % 4: continue
                k = rng.choice(HKS[:5])
                yield _hist(rng.choice(GEOMS_X), [["new", "ctor", pad(rand_mask(rng, rng.randint(1, 4), rng.randint(1, 4)), k[0] // 2 + rng.randint(0, 1), k[1] // 2 + rng.randint(0, 1))],
                                                _read(rng, 0, "views"), ["read", 0, "blur", False, None, {"k": k}],
                                                ["derive", dname, droute, 0, k[0], k[1]], _read(rng, 1, "views"), ["touch", 1, [sel], si % 2 == 0],
                                                _edit(rng, 1, None, "flip")] + _reread(rng, 1, si % 2 == 0, k) + [_read(rng, 0, "views"),
                                                _edit(rng, 0, None, "flip")] + _reread(rng, 0, None, k) + [_read(rng, 1, "views")])
    # ---- D2: a Mask2D obtained from another one by with_new_array / resized_from (new contents, same class instance
    #      machinery) after the source's views were read
    for rep in range(3 if big else 1):
        for si, sel in enumerate(SEL_NAMES):
            if not big and si % 2 != rep % 2: continue
            step = ["new", "with_new_array", _rows(rng)] if si % 3 else ["resized", 0, rng.randint(-1, 2), rng.randint(-1, 2)]
            yield _hist(rng.choice(GEOMS_X), [["new", "ctor", _rows(rng)], ["touch", 0, [sel], False], _read(rng, 0, "views", si % 4 == 0), step,
                                              _read(rng, 1, "views", False), _edit(rng, 1, None, "flip")] + _reread(rng, 1) + [_read(rng, 0, "views", si % 4 == 0)])
    # ---- G: two edits that restore the number of unmasked pixels (and the shape): one pixel masked, another unmasked
    for rep in range(4 if big else 1):
        for si, sel in enumerate(SEL_NAMES):
            for held in (False, True):
                rows = _rows(rng)
                h, w = len(rows), len(rows[0])
                ones = [[y, x] for y in range(h) for x in range(w) if rows[y][x] == "1"]
                zeros = [[y, x] for y in range(h) for x in range(w) if rows[y][x] == "0"]
                if not ones or not zeros: rows = ["110", "011", "111"]; ones, zeros = [[0, 0]], [[0, 2]]
                a, b = rng.choice(ones), rng.choice(zeros)
                if rng.random() < 0.5: a, b = b, a
                yield _hist(rng.choice(GEOMS_X), [["new", "ctor", rows], ["touch", 0, [sel], held], _read(rng, 0, "views", held),
                                                ["edit", rng.choice(EDIT_ROUTES[:7]), 0, [a], "flip", 0], ["edit", rng.choice(EDIT_ROUTES[:7]), 0, [b], "flip", 0]]
                            + _reread(rng, 0, held))
    # ---- E: every mask of a small shape, every cell flipped after a full read
    shapes = shapes_upto(6) + [(3, 3)] if big else shapes_upto(4)
    n = 0
    for (h, w) in shapes:
        for ms in all_masks(h, w):
            for cy in range(h):
                for cx in range(w):
                    n += 1
                    yield _hist(GEOMS[n % 4], [["new", "ctor", ms], _read(rng, 0, "views", n % 3 == 0),
                                               ["edit", EDIT_ROUTES[n % 8], 0, [[cy, cx]], "flip", 0], _read(rng, 0, "views", n % 3 == 0)])
    if not big:
        for n, ms in enumerate(all_masks(3, 3)):
            if n % 5: continue
            yield _hist(GEOMS[n % 4], [["new", "ctor", ms], ["touch", 0, [SEL_NAMES[n % 14], SEL_NAMES[(n // 14) % 14]], n % 2 == 0],
                                       ["edit", EDIT_ROUTES[n % 8], 0, [[n % 3, (n // 3) % 3]], "flip", 0], _read(rng, 0, "views", n % 2 == 0)])
    # ---- H: input kinds and sibling routes inside histories: an object built from every kind of constructor argument / classmethod
    #      (the util functions get a twin array of every kind), read through a sibling route with a HELD kernel-shape object of every
    #      kind, edited, read again through another route; a copy / derived object follows the same path
    n = 0
    for rep in range(3 if big else 1):
        for ri, route in enumerate(HIST_NEW_X):
            n += 1
            k = HKS[n % 5]; kk = KERNEL_KINDS[n % 5]
            def rd(o, op, held=False): return ["read", o, op, held, None, {"k": k, "kk": kk, "buffer": 1}]
            dv = DERIVES[n % 8]
            steps = [["new", route + (":sub" if route.startswith("kind:") and n % 2 else ""),
                      pad(rand_mask(rng, rng.randint(1, 4), rng.randint(1, 4)), k[0] // 2 + n % 2, k[1] // 2 + (n // 2) % 2)],
                     _read(rng, 0, "views", 1 + n % 4), rd(0, "blur", 1 + (n // 2) % 4), rd(0, "blurgrid", 1 + (n // 3) % 4), rd(0, "blurutil"), rd(0, "util"),
                     _edit(rng, 0, None, "flip"), _read(rng, 0, "views", 1 + (n + 1) % 4), rd(0, "blurgrid", 1 + n % 4), rd(0, "blur", 1 + (n // 3) % 4),
                     rd(0, "blurutil"), rd(0, "util"),
                     ["copy", COPY_ROUTES[n % 5], 0], _read(rng, 1, "views", 1 + (n // 2) % 4), _edit(rng, 1, None, "flip"),
                     _read(rng, 1, "views", 1 + (n // 3) % 4), rd(1, "blurgrid", 1 + n % 4), _read(rng, 0, "views", n % 5), rd(0, "blur", n % 5),
                     ["derive", dv[0], dv[1], 0, k[0], k[1]], _read(rng, 2, "views", 1 + n % 4), _edit(rng, 2, None, "flip"),
                     _read(rng, 2, "views", 1 + (n // 2) % 4), rd(2, "blurgrid", 1 + (n // 3) % 4), _edit(rng, 0, None, "flip"),
                     _read(rng, 0, "views", (n // 2) % 5), _read(rng, 1, "views", False), _read(rng, 2, "views", False)]
            yield _hist(GEOMS_X[n % 6], steps, e=EXPS[n % 4] if route != "hdu" else 0, gk=GEOM_KINDS[(n // 2) % 5], rk=RAW_KINDS[n % len(RAW_KINDS)])
    # ---- F: random programs (one preferred kernel per history, so that the same call is repeated across edits)
    for j in range(1500 if big else 150):
        steps = [["new", rng.choice(NEW_ROUTES[:5]), _rows(rng, big)]]
        xk = {"e": rng.choice(EXPS), "gk": rng.choice(GEOM_KINDS), "rk": rng.choice(RAW_KINDS)} if j % 3 == 0 else {}
        hk = rng.choice(HKS)
        def kk(): return hk if rng.random() < 0.75 else rng.choice(HKS)
        for _ in range(rng.randint(4, 14)):
            r = rng.random(); o = rng.randrange(8)
            if r < 0.30: steps.append(_edit(rng, o))
            elif r < 0.48: steps.append(_read(rng, o, "views", rng.randrange(5) if xk and rng.random() < 0.5 else None))
            elif r < 0.62:
                rd = _read(rng, o, rng.choice(["util", "checkedge", "blurutil", "blur", "blur", "blurgrid", "blurgrid", "contents"]))
                if "k" in rd[5]: rd[5] = {"k": kk()}
                if "k" in rd[5] and xk: rd[5]["kk"] = rng.choice(KERNEL_KINDS); rd[3] = rng.randrange(5)
                steps.append(rd)
            elif r < 0.76: steps.append(["touch", o, rng.sample(SEL_NAMES, rng.randint(1, 4)), rng.random() < 0.4])
            elif r < 0.84: steps.append(["copy", rng.choice(COPY_ROUTES), o])
            elif r < 0.93:
                d = rng.choice(DERIVES); k = kk()
                steps.append(["derive", d[0], d[1], o, k[0], k[1]])
            elif r < 0.97: steps.append(["new", rng.choice(HIST_NEW_X[:-1]) + rng.choice(["", ":sub"]) if xk and rng.random() < 0.6 else rng.choice(NEW_ROUTES), _rows(rng, big)])
            else: steps.append(["resized", o, rng.randint(-1, 2), rng.randint(-1, 2)])
        steps += _reread(rng, rng.randrange(8), None, hk)
        yield _hist(rng.choice(GEOMS_X), steps, **xk)

# ----------------------------------------------------------------------------- implementation calls
def _classify(M):
    h, w = len(M), len(M[0])
    un = [(y, x) for y in range(h) for x in range(w) if not M[y][x]]
    ring = any(y in (0, h - 1) or x in (0, w - 1) for y, x in un)
    return un, ring

VIEW_FIELDS = ["edge_slim", "edge_native", "border_slim", "border_native", "mask_edge", "mask_border", "mask_buffed",
               "grid_edge", "grid_edge_mask", "grid_border", "grid_border_mask"]
# selector numbers of HTouch: the eleven fields of a full read, three more entry points, the util functions (on the twin array)
SEL_NAMES = VIEW_FIELDS + ["blur33", "blurgrid33", "native_for_slim", "u_total", "u_edge", "u_border", "u_buffed", "u_blur33"]

def _view(aa, m, name, handles=None, raw=None, e=0):
    """one view of the Mask2D `m`, through fresh derive_* objects or through the held `handles` = (di, dm, dg);
    the u_* selectors call the util functions on the ndarray `raw`"""
    di, dm, dg = handles if handles is not None else (None, None, None)
    if name.startswith("u_"):
        from autoarray.mask import mask_2d_util as u
        if name == "u_total": return int(u.total_edge_pixels_from(mask_2d=raw))
        if name == "u_edge": return ints(u.edge_1d_indexes_from(mask_2d=raw))
        if name == "u_border": return ints(u.border_slim_indexes_from(mask_2d=raw))
        if name == "u_buffed": return mask_out(u.buffed_mask_2d_from(mask_2d=raw, buffer=1))
        r = call_res(u.blurring_mask_2d_from, mask_2d=raw, kernel_shape_native=(3, 3))
        return r if r[0] == "raise" else ("ok", mask_out(r[1]))
    if name in ("edge_slim", "edge_native", "border_slim", "border_native", "native_for_slim"):
        di = di if di is not None else m.derive_indexes
        if name == "edge_slim": return ints(di.edge_slim)
        if name == "border_slim": return ints(di.border_slim)
        if name == "edge_native": return pairs(di.edge_native)
        if name == "border_native": return pairs(di.border_native)
        return pairs(di.native_for_slim)
    if name in ("mask_edge", "mask_border", "mask_buffed", "blur33"):
        dm = dm if dm is not None else m.derive_mask
        if name == "mask_edge": return mask_out(dm.edge)
        if name == "mask_border": return mask_out(dm.border)
        if name == "mask_buffed": return mask_out(dm.edge_buffed)
        r = call_res(lambda: dm.blurring_from(kernel_shape_native=(3, 3)))
        return r if r[0] == "raise" else ("ok", mask_out(r[1]))
    if name == "blurgrid33":
        r = call_res(lambda: aa.Grid2D.blurring_grid_from(mask=m, kernel_shape_native=(3, 3)))
        return r if r[0] == "raise" else ("ok", pairs2(r[1], e))
    dg = dg if dg is not None else m.derive_grid
    if name == "grid_edge": return pairs2(dg.edge, e)
    if name == "grid_edge_mask": return mask_out(dg.edge.mask)
    if name == "grid_border": return pairs2(dg.border, e)
    if name == "grid_border_mask": return mask_out(dg.border.mask)
    raise ValueError(name)

def alt_handles(aa, m, alt):
    """(derive_indexes, derive_mask, derive_grid) objects obtained through sibling routes"""
    if alt == 1: return (aa.DeriveIndexes2D(mask=m), aa.DeriveMask2D(mask=m), aa.DeriveGrid2D(mask=m))
    if alt == 2: return (m.derive_mask.derive_indexes, aa.DeriveMask2D(mask=m), m.derive_grid)
    if alt == 3: return (aa.DeriveIndexes2D(m), m.derive_mask, aa.DeriveGrid2D(m))
    return None

def _alt_views(aa, m, out, e):
    """siblings that must show the same border: BorderRelocator.border_grid (any mask) and, with one sub-pixel per pixel,
    BorderRelocator.sub_border_slim (needs an unmasked pixel)"""
    from autoarray.inversion.pixelization.border_relocator import BorderRelocator
    if not np.array(m).all():
        br = BorderRelocator(mask=m, sub_size=1)
        out["grid_border"] = pairs2(br.border_grid, e)
        out["border_slim"] = ints(br.sub_border_slim)

def _views_term(M, g, o):
    return (f"KViews {cmask(M)} {ctup([cz(v) for v in g])} (Build_views {czl(o['edge_slim'])} {cpxl(o['edge_native'])} "
            f"{czl(o['border_slim'])} {cpxl(o['border_native'])} {cmask(o['mask_edge'])} {cmask(o['mask_border'])} "
            f"{cmask(o['mask_buffed'])} {cpxl(o['grid_edge'])} {cmask(o['grid_edge_mask'])} {cpxl(o['grid_border'])} "
            f"{cmask(o['grid_border_mask'])})")

def _observe(aa, op, p, M, get_m, get_raw, g, handles=None, order=None, e=0, kern=None, alt=0):
    """Observe operation `op` once.  M: the contents to print in the case (rows of bools); get_m(): the Mask2D;
    get_raw(): the ndarray handed to the util functions; e: the geometry is g * 2**e; kern: the kernel-shape object to pass
    (default: a tuple of ints); alt: sibling route (see RULE).  Returns (coq term of type case1 | None, out, py_ok, detail)."""
    from autoarray.mask import mask_2d_util as u
    if op in ("blurutil", "blur", "blurgrid"):
        kh, kw = p["k"]
        kern = (kh, kw) if kern is None else kern
        oddpos = kh > 0 and kw > 0 and kh % 2 == 1 and kw % 2 == 1
    if op == "blurutil":
        r = call_res(u.blurring_mask_2d_from, mask_2d=get_raw(), kernel_shape_native=kern)
        out = r if r[0] == "raise" else ("ok", mask_out(r[1]))
        return f"KBlurUtil {cmask(M)} {cz(kh)} {cz(kw)} {cres(out, cmask)}", out, None, None
    if op == "blur":
        if alt == 1: f = lambda: aa.DeriveMask2D(mask=get_m()).blurring_from(kernel_shape_native=kern)
        elif alt == 2: f = lambda: get_m().derive_mask.blurring_from(kern)
        elif alt == 3 and oddpos:
            # the convolver computes its own blurring mask for the kernel's shape (same util function, no Mask2D wrapper)
            f = lambda: aa.Convolver(mask=get_m(), kernel=aa.Kernel2D.ones(shape_native=(kh, kw), pixel_scales=1.0)).blurring_mask
        else: f = lambda: get_m().derive_mask.blurring_from(kernel_shape_native=kern)
        r = call_res(f)
        out = r if r[0] == "raise" else ("ok", mask_out(r[1]))
        return f"KBlur {cmask(M)} {cz(kh)} {cz(kw)} {cres(out, cmask)}", out, None, None
    if op == "blurgrid":
        py_ok = detail = None
        if alt == 1: f = lambda: aa.Grid2D.from_mask(mask=get_m()).blurring_grid_via_kernel_shape_from(kernel_shape_native=kern)
        elif alt == 2:
            os_ = aa.OverSamplingUniform(sub_size=2); os0 = fp(os_)
            f = lambda: aa.Grid2D.blurring_grid_from(mask=get_m(), kernel_shape_native=kern, over_sampling=os_)
        elif alt == 3: f = lambda: get_m().derive_grid.unmasked.blurring_grid_via_kernel_shape_from(kern)
        else: f = lambda: aa.Grid2D.blurring_grid_from(mask=get_m(), kernel_shape_native=kern)
        r = call_res(f)
        if alt == 2 and fp(os_) != os0: py_ok = False; detail = "blurring_grid_from modified the over_sampling object it was given"
        out = r if r[0] == "raise" else ("ok", pairs2(r[1], e))
        if r[0] == "ok" and py_ok is None:
            # the grid carries the blurring mask with the source's geometry
            bm = r[1].mask
            if tuple(bm.pixel_scales) != tuple(get_m().pixel_scales) or tuple(bm.origin) != tuple(get_m().origin):
                py_ok = False; detail = "the blurring grid's mask does not carry the pixel scales / origin of the source mask"
        return f"KBlurGrid {cmask(M)} {cz(kh)} {cz(kw)} {ctup([cz(v) for v in g])} {cres(out, cpxl)}", out, py_ok, detail
    if op == "util":
        b = int(p["buffer"])
        def f():
            arr = get_raw()
            return (int(u.total_edge_pixels_from(mask_2d=arr)), ints(u.edge_1d_indexes_from(mask_2d=arr)),
                    ints(u.border_slim_indexes_from(mask_2d=arr)), mask_out(u.buffed_mask_2d_from(mask_2d=arr, buffer=b)))
        r = call_res(f)
        if r[0] == "raise": return None, r, False, "util raised " + r[1]
        out = list(r[1])
        return f"KUtil {cmask(M)} {cz(out[0])} {czl(out[1])} {czl(out[2])} {cz(b)} {cmask(out[3])}", out, None, None
    if op == "checkedge":
        un, _ = _classify(M)
        def f():
            arr = get_raw()
            return [bool(u.check_if_edge_pixel(mask_2d=arr, y=y, x=x)) for (y, x) in un]
        r = call_res(f)
        if r[0] == "raise": return None, r, False, "check_if_edge_pixel raised " + r[1]
        return f"KCheckEdge {cmask(M)} {clist([cbool(v) for v in r[1]])}", r[1], None, None
    if op == "views":
        def f():
            m = get_m()
            o = {name: _view(aa, m, name, handles if handles is not None else alt_handles(aa, m, alt), None, e) for name in (order or VIEW_FIELDS)}
            if alt == 2: _alt_views(aa, m, o, e)
            return o
        r = call_res(f)
        if r[0] == "raise": return None, r, False, "a derive_* view raised " + r[1]
        return _views_term(M, g, r[1]), r[1], None, None
    if op == "contents":
        return f"KContents {cmask(M)}", M, None, None
    raise ValueError(op)

def run_case(inp):
    aa = import_aa()
    op = inp["op"]
    if op == "hist": return run_hist(aa, inp)
    M = rows_of(inp["m"])
    un, ring = _classify(M)
    g = inp.get("g", [1, 1, 0, 0])
    kinds = any(k in inp for k in ("ak", "kk", "gk", "e", "alt"))
    ak, kk, gk, e, alt = inp.get("ak"), inp.get("kk", "tuple"), inp.get("gk", "tuple"), inp.get("e", 0), inp.get("alt", 0)
    psa, orga, ps_exp, org_exp = mk_geom(g, gk, e)
    # the util functions get an ndarray of kind ak (when the kind is one they accept), the constructor any kind
    arr, keep = mk_array(M, ak if (ak in UTIL_KINDS or op not in ("util", "checkedge", "blurutil")) else None, aa)
    raw = arr if isinstance(arr, np.ndarray) else np.array(M, dtype=bool)
    if UNSIGNED_KERNELS and kk == "tuple" and op in ("blur", "blurgrid") and alt != 3 and "kk" in inp:
        kk = ("npuint8", "npuint64")[(len(M) + len(M[0])) % 2]
    kern = mk_kernel(aa, inp["k"], kk) if "k" in inp else None
    args = [x for x in (keep, kern, psa, orga) if x is not None]
    fp0 = [fp(x) for x in args]
    cell = []
    def get_m():
        if not cell:
            cls = _sub2d(aa) if ak == "ndsub" and alt % 2 else aa.Mask2D
            cell.append(cls(mask=arr, pixel_scales=psa, origin=orga))
        return cell[0]
    term, out, py_ok, detail = _observe(aa, op, inp, M, get_m, lambda: raw, g, None, None, e, kern, alt)
    if py_ok is None and [fp(x) for x in args] != fp0:
        py_ok = False; detail = "an argument of the call (mask array, kernel shape, pixel scales or origin object) was modified by the call"
    if py_ok is None and kinds:
        # the same call once more on the SAME objects (Mask2D, array, kernel): same answer, arguments and object untouched
        term2, out2, py_ok, detail = _observe(aa, op, inp, M, get_m, lambda: raw, g, None, None, e, kern, alt)
        if py_ok is None and (term2 != term or [fp(x) for x in args] != fp0):
            py_ok = False; detail = "the second identical call on the same objects gave a different result or modified an argument"
        if py_ok is None and cell:
            m = cell[0]
            if mask_out(np.array(m)) != M: py_ok = False; detail = "the Mask2D does not hold the contents it was given"
            elif tuple(float(v) for v in m.pixel_scales) != ps_exp or tuple(float(v) for v in m.origin) != org_exp:
                py_ok = False; detail = "the pixel scales / origin of the Mask2D changed"
    kind = op
    if op in ("blurutil", "blur", "blurgrid"):
        kh, kw = inp["k"]
        kind = op + (":ok" if out[0] == "ok" else ":" + out[1])
        if kh % 2 == 0 or kw % 2 == 0 or kh <= 0 or kw <= 0: kind += ":evenk"
    elif op == "util" and term is not None and out[1] != out[2]: kind += ":inner-edge"
    elif op == "views" and term is not None and out["edge_slim"] != out["border_slim"]: kind += ":inner-edge"
    if ring: kind += ":ring"
    _t(kind); _t(f"unmasked={min(len(un), 10)}{'+' if len(un) >= 10 else ''}")
    if kinds:
        _t(f"kinds:array={ak}"); _t(f"kinds:alt={alt}:{op}")
        if kern is not None: _t(f"kinds:kernel={kk}")
        if e: _t(f"kinds:scale=2^{e}")
    return {"coq": None if term is None else "(K1 (" + term + "))", "out": out, "py_ok": py_ok, "nontrivial": len(un) > 0,
            "kind": op, "detail": detail}

# ----------------------------------------------------------------------------- histories
# A history is a small program over a pool of Mask2D objects (see Model/C10.v Part 5).  Object references and cell
# positions are resolved at run time (index modulo the number of live objects / the shape of the target), so that a
# program stays meaningful whatever the implementation returns.  Every object has a twin ndarray `raw` that receives
# the same edits and is the (re-used) argument of the util functions.
class _Obj:
    __slots__ = ("m", "raw", "h", "seen", "arg", "arg0")
    def __init__(self, m, raw):
        self.m = m; self.raw = raw; self.h = None; self.seen = {}; self.arg = None; self.arg0 = None

D_COQ = {"edge": "DEdge", "border": "DBorder", "buffed": "DBuffed", "invert": "DInvert"}

def _cell(ob_shape, iy, ix, neg):
    H, W = ob_shape
    y, x = iy % H, ix % W
    if neg & 1: y -= H
    if neg & 2: x -= W
    return y, x

def run_hist(aa, inp):
    import copy as _copy
    g = inp["g"]; e = inp.get("e", 0); gk = inp.get("gk", "tuple"); rk = inp.get("rk")
    ps, org, ps_exp, org_exp = mk_geom(g, gk, e)          # the SAME pixel-scales / origin objects go into every constructor call
    geo0 = [fp(ps), fp(org)]
    objs = []; steps = []; log = []; problems = []
    nreads = 0; nedits = 0
    kerns = {}                                            # kernel-shape objects are held and re-used across the reads of a history
    def kern_of(p):
        key = (p["k"][0], p["k"][1], p.get("kk", "tuple"))
        if UNSIGNED_KERNELS and key[2] == "tuple" and "kk" in p and p.get("_op") in ("blur", "blurgrid"): key = key[:2] + ("npuint8",)
        if key not in kerns: kerns[key] = mk_kernel(aa, p["k"], key[2]); kerns[key] = (kerns[key], fp(kerns[key]))
        return kerns[key][0]

    def cur(ob): return mask_out(np.array(ob.m))
    def handles(ob, held):
        """False: fresh derive_* objects through the properties; True: the objects obtained at the first held read of this object;
        2, 3, 4: sibling routes 1, 2, 3 (alt_handles), fresh"""
        if not held: return None
        if held is not True and int(held) > 1: return alt_handles(aa, ob.m, int(held) - 1)
        if ob.h is None: ob.h = (ob.m.derive_indexes, ob.m.derive_mask, ob.m.derive_grid)
        return ob.h
    def alt_of(held): return int(held) - 1 if (held is not True and held and int(held) > 1) else 0
    def check_arg(ob):
        if ob.arg is not None and fp(ob.arg) != ob.arg0:
            problems.append("the array given to the Mask2D constructor was modified")
        ob.arg = None
    def add(m, contents_rows):
        ob = _Obj(m, mk_array(mask_out(contents_rows), rk)[0] if rk else np.array(contents_rows, dtype=bool)); objs.append(ob); return ob

    for st in inp["steps"]:
        kind = st[0]
        if kind != "new" and not objs: continue
        if kind == "new":
            _, route, rows = st
            M = rows_of(rows); a = np.array(M, dtype=bool)
            if route == "ctor_list": arg = [list(r) for r in M]; m = aa.Mask2D(mask=arg, pixel_scales=ps, origin=org)
            elif route == "ctor_int": arg = a.astype(int); m = aa.Mask2D(mask=arg, pixel_scales=ps, origin=org)
            elif route == "ctor_invert": arg = ~a; m = aa.Mask2D(mask=arg, pixel_scales=ps, origin=org, invert=True)
            elif route == "with_new_array" and objs: arg = None; m = objs[0].m.with_new_array(a.copy())
            elif route.startswith("kind:"):
                obj_, arg = mk_array(M, route.split(":")[1], aa)
                # "kind:<k>:sub" builds an instance of a user SUBCLASS of Mask2D
                m = (_sub2d(aa) if route.endswith(":sub") else aa.Mask2D)(mask=obj_, pixel_scales=ps, origin=org)
            elif route.split(":")[0] in ("all_false", "from_pixel_coordinates", "circular", "hdu"):
                route = route.split(":")[0]
                # constructor classmethods: the contents are whatever the classmethod produced (other properties judge that);
                # what is checked here is that every view of the new object describes those contents, now and after edits
                arg = None; H, W = a.shape
                if route == "all_false": m = aa.Mask2D.all_false(shape_native=(H, W), pixel_scales=ps, origin=org)
                elif route == "from_pixel_coordinates":
                    m = aa.Mask2D.from_pixel_coordinates(shape_native=(H, W), pixel_coordinates=[[y, x] for y in range(H) for x in range(W) if not a[y, x]],
                                                         pixel_scales=ps, origin=org, buffer=0)
                elif route == "circular":
                    m = aa.Mask2D.circular(shape_native=(H, W), radius=1.5 * ps_exp[0], pixel_scales=ps, origin=org, centre=org_exp)
                else:
                    # (the header is written from a mask with plain float-tuple scales: an isotropic int / numpy-float scale is written as one
                    #  PIXSCALE number that convert_pixel_scales_2d -- type(x) is float -- does not expand on the way back; not C10's business)
                    m = aa.Mask2D.from_primary_hdu(primary_hdu=aa.Mask2D(mask=a, pixel_scales=ps_exp, origin=org_exp).hdu_for_output, origin=org)
                M = mask_out(np.array(m))
            else: arg = a.copy(); m = aa.Mask2D(mask=arg, pixel_scales=ps, origin=org)
            ob = add(m, M)
            if arg is not None and not isinstance(arg, list): ob.arg = arg; ob.arg0 = fp(arg)
            steps.append(f"HNew {cmask(M)}"); log.append(["new", route])
        elif kind == "resized":
            _, oref, dh, dw = st
            o = oref % len(objs); src = objs[o]; H, W = src.raw.shape
            m = src.m.resized_from(new_shape=(max(1, H + dh), max(1, W + dw)), pad_value=1)
            M = mask_out(np.array(m)); add(m, M)
            steps.append(f"HNew {cmask(M)}"); log.append(["resized", o])
        elif kind == "copy":
            _, route, oref = st
            o = oref % len(objs); src = objs[o]
            if route == "copy.copy": m = _copy.copy(src.m)
            elif route == "deepcopy": m = _copy.deepcopy(src.m)
            elif route == "ctor": m = aa.Mask2D(mask=src.m, pixel_scales=src.m.pixel_scales, origin=src.m.origin)
            elif route == "ctor_array": m = aa.Mask2D(mask=np.array(src.m), pixel_scales=src.m.pixel_scales, origin=src.m.origin)
            else: m = src.m.copy()
            ob = add(m, src.raw)
            steps.append(f"HCopy {o}%nat"); log.append(["copy", route, o])
        elif kind == "derive":
            _, dname, route, oref, kh, kw = st
            o = oref % len(objs); src = objs[o]
            def f():
                if dname == "edge": return src.m.derive_grid.edge.mask if route == "grid" else src.m.derive_mask.edge
                if dname == "border": return src.m.derive_grid.border.mask if route == "grid" else src.m.derive_mask.border
                if dname == "buffed": return src.m.derive_mask.edge_buffed
                if dname == "invert": return src.m.invert()
                if route == "grid": return aa.Grid2D.blurring_grid_from(mask=src.m, kernel_shape_native=(kh, kw)).mask
                return src.m.derive_mask.blurring_from(kernel_shape_native=(kh, kw))
            r = call_res(f)
            if r[0] == "raise":
                if dname != "blur": problems.append(f"deriving {dname} raised {r[1]}"); continue
                # no new object: what was observed is a read of blurring_from on the current contents
                steps.append(f"HRead {o}%nat (KBlur {cmask(cur(src))} {cz(kh)} {cz(kw)} (Raise {r[1]}))"); nreads += 1
                log.append(["derive-raised", dname, o, r[1]]); continue
            M = mask_out(np.array(r[1])); add(r[1], M)
            d = f"(DBlur {cz(kh)} {cz(kw)})" if dname == "blur" else D_COQ[dname]
            steps.append(f"HDerive {o}%nat {d} {cmask(M)}"); log.append(["derive", dname, route, o])
        elif kind == "edit":
            _, route, oref, cells, mode, neg = st
            o = oref % len(objs); ob = objs[o]; check_arg(ob)
            H, W = ob.raw.shape
            now = np.array(ob.m)
            yx = [_cell((H, W), iy, ix, neg) for iy, ix in (cells if route == "where" else cells[:1])]
            y, x = yx[0]
            v = (not bool(now[y, x])) if mode == "flip" else (mode == "T")
            if route == "mask": ob.m.mask[y, x] = v
            elif route == "array": ob.m.array[y, x] = v
            elif route == "row": ob.m[y][x] = v
            elif route == "np_item": ob.m[np.int64(y), np.int64(x)] = np.bool_(v)
            elif route == "item_int": ob.m[y, x] = int(v)
            elif route == "where":
                key = np.zeros((H, W), dtype=bool)
                for (a, b) in yx: key[a, b] = True
                ob.m[key] = v
            else: ob.m[y, x] = v
            for (a, b) in (yx if route == "where" else yx[:1]):
                ob.raw[a, b] = v
                steps.append(f"HEdit {o}%nat {cz(a)} {cz(b)} {cbool(v)}")
            ob.seen = {}; nedits += 1; log.append(["edit", route, o, yx, v])
        elif kind == "touch":
            _, oref, names, held = st
            o = oref % len(objs); ob = objs[o]
            for name in names:
                r = call_res(lambda: _view(aa, ob.m, name, handles(ob, held), ob.raw, e))
                if r[0] == "raise": problems.append(f"reading {name} raised {r[1]}")
                else: ob.seen[name] = r[1]
            if mask_out(ob.raw) != cur(ob): problems.append("a partial read changed the object or the array given to a util function")
            steps.append(f"HTouch {o}%nat {czl([SEL_NAMES.index(n) for n in names])}"); log.append(["touch", o, names, held])
        elif kind == "read":
            _, oref, op, held, order, p = st
            p = dict(p, _op=op)
            o = oref % len(objs); ob = objs[o]
            M = cur(ob) if op in ("views", "blur", "blurgrid", "contents") else mask_out(ob.raw)
            term, out, py_ok, detail = _observe(aa, op, p, M, lambda: ob.m, lambda: ob.raw, g, handles(ob, held),
                                                [VIEW_FIELDS[i] for i in order] if order else None, e, kern_of(p) if "k" in p else None,
                                                alt_of(held))
            if py_ok is False: problems.append(detail); continue
            if op in ("util", "checkedge", "blurutil"):
                M2 = mask_out(ob.raw)                       # the util functions must not touch their argument
                if M2 != M: problems.append(f"{op} modified the array it was given")
            if op == "views":
                for name, val in ob.seen.items():
                    if name in out and out[name] != val:
                        problems.append(f"{name} of an unchanged object was read twice with different results")
                ob.seen.update(out)
            steps.append(f"HRead {o}%nat ({term})"); nreads += 1; log.append(["read", o, op, held])
        else:
            raise ValueError(kind)
    # finally every object shows its contents once more (nothing was changed by a read) and so does every twin
    if [fp(ps), fp(org)] != geo0: problems.append("the pixel scales / origin object given to the constructors was modified")
    if any(fp(k) != f0 for k, f0 in kerns.values()): problems.append("a kernel-shape object was modified by a call")
    for o, ob in enumerate(objs):
        check_arg(ob)
        if tuple(float(v) for v in ob.m.pixel_scales) != ps_exp or tuple(float(v) for v in ob.m.origin) != org_exp:
            problems.append(f"object {o} does not carry the pixel scales / origin of the history ({ob.m.pixel_scales}, {ob.m.origin})")
        steps.append(f"HRead {o}%nat (KContents {cmask(cur(ob))})")
        steps.append(f"HRead {o}%nat (KContents {cmask(mask_out(ob.raw))})")
    _t("hist"); _t(f"hist:objects={len(objs)}"); _t(f"hist:edits={min(nedits, 5)}{'+' if nedits >= 5 else ''}")
    nontrivial = any((not ob.raw.all()) for ob in objs) and nreads > 0
    return {"coq": "(KHist " + clist(["(" + s + ")" for s in steps]) + ")", "out": {"log": log, "final": [mask_out(np.array(ob.m)) for ob in objs]},
            "py_ok": False if problems else None, "nontrivial": nontrivial, "kind": "hist",
            "detail": "; ".join(problems) if problems else None}
