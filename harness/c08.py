"""C08 -- fit statistics and evidence follow their definitions on unmasked pixels only."""
import itertools, math
from fractions import Fraction
import numpy as np
from harness.common import cz, cq, cnat, cbool, clist, ctup, copt, cres, call_res, import_aa, frac

ID = "C08"
GEN = ["fit"]
GEN_FILES = ["Gen/Gen_fit.v"]
PROPS = "Props/C08.v"
COQ_CHECK = ("Model.C08", "check")
COQ_FALLBACK = ("Model.C08", "spec_ok")
COQ_IMPORTS = ""
SHARD = 150
RULE = ("every mask of every shape with H*W <= 4 (quick) / <= 6 (thorough) x {masked-native with use_mask_in_fit, slim without} x "
        "{no sky, sky offset} x {no inversion, all objects regularized, partially regularized, none regularized} (the largest "
        "shapes of a tier: no inversion / partially regularized only), values "
        "random dyadic (noise in {1/4..8} on fitted pixels, garbage incl. 1e30 / 0 / negative noise in masked pixels), run "
        "through FitImaging / FitDataset subclasses on aa.Imaging datasets and a real AbstractInversion subclass; plus random "
        "larger shapes, every linear-object structure with <= 3 objects of 1-2 parameters (inversion terms), direct calls of "
        "every fit_util function on ndarrays / Array2D, and the three composition formulas on dyadic scalars. A case is "
        "non-trivial unless it is a bare composition call; distinct = distinct JSON input.")
EXHAUSTIVE = {
    "quick": "all masks of all shapes with H*W <= 4 x 2 modes x 2 sky settings x inversion kinds (4 kinds for H*W <= 3; none / "
             "partially regularized for H*W = 4); all object structures (params in {1,2}, regularized or not) of length <= 3",
    "thorough": "all masks of all shapes with H*W <= 6 x 2 modes x 2 sky settings x inversion kinds (4 kinds for H*W <= 4; "
                "none / partially regularized for H*W in {5, 6}); all object structures (params in {1,2}, regularized or not) "
                "of length <= 4",
}
TRUSTED = ["Gallina model coq/Model/C08.v of fit_util.py / fit_dataset.py / fit_imaging.py / the evidence terms of "
           "inversion/abstract.py, hand-written and tied to /repo by this correspondence run; only the three composition formulas "
           "(log_likelihood_from, log_likelihood_with_regularization_from, log_evidence_from) are regenerated from fit_util.py by "
           "py2v/gen_fit.py (fail-closed) into coq/Gen/Gen_fit.v on every run",
           "correspondence harness harness/c08.py; native 2-D arrays are passed to the model flattened row-major",
           "QOps execution device: finite ln table supplied per case (ln of 2*pi*noise^2 and of the two determinants, "
           "computed with math.log); ln-dependent outputs are compared under 1e-9 relative tolerance inside Coq and again in "
           "Python against math.log; never used in a theorem",
           "oracles: numpy.linalg.cholesky / scipy splu log-determinants = ln det (model: lnT (det M)); numpy element-wise "
           "arithmetic, np.sum, boolean-mask selection, np.delete, scipy block_diag"]
ASSUMPTIONS = ["theorems are over the reals (any function in the ln slot); floating-point rounding is not modelled: inputs are "
               "dyadic so that every compared double operation except ln, x/3-style divisions is exact",
               "noise_covariance_matrix is None (the covariance chi-squared path is outside the property)",
               "noise is positive on fitted pixels (the property's quantifier); masked pixels carry arbitrary finite values"]

# ----------------------------------------------------------------------------- numbers
TWO_PI = 2 * np.pi
NOISE = [0.25, 0.5, 1.0, 2.0, 4.0, 8.0]
G_DATA = [1e30, -4096.0, 0.0, 99.0]
G_NOISE = [0.0, -4.0, 2.0 ** 40, 0.25, -0.5]
G_MODEL = [1e30, -3.0, 0.0, 1048576.0]
SKIES = [0.5, -1.25, 2.0]
BIG = Fraction(10) ** 40

def fq(x):
    x = float(x)
    if math.isnan(x): return BIG * 7
    if math.isinf(x): return BIG if x > 0 else -BIG
    return Fraction(x)
def fopt(x):
    x = float(x)
    return None if not math.isfinite(x) else Fraction(x)
def ql(xs): return clist([cq(fq(x)) for x in xs])
def qm(m): return clist([ql(r) for r in m])
def qol(xs): return clist([copt(x, cq) for x in xs])
def jl(xs): return [float(x) for x in xs]

def rel_close(a, b): return abs(a - b) <= 1e-9 * max(1.0, abs(b))

def ln_table(noises, dets=()):
    keys = set()
    for n in noises:
        n = Fraction(n)
        if n > 0: keys.add(Fraction(TWO_PI) * n * n)
    for d in dets:
        if d > 0: keys.add(Fraction(d))
    out = []
    for k in sorted(keys):
        out.append((k, Fraction(math.log(k))))
    return out
def ctbl(t): return clist([ctup([cq(a), cq(b)]) for a, b in t])

def fdet(m):
    """exact determinant (Fractions), Gaussian elimination"""
    m = [[Fraction(x) for x in r] for r in m]; n = len(m); d = Fraction(1)
    for c in range(n):
        p = next((r for r in range(c, n) if m[r][c] != 0), None)
        if p is None: return Fraction(0)
        if p != c: m[c], m[p] = m[p], m[c]; d = -d
        d *= m[c][c]
        for r in range(c + 1, n):
            f = m[r][c] / m[c][c]
            for k in range(c, n): m[r][k] -= f * m[c][k]
    return d

# ----------------------------------------------------------------------------- generators
def rnd_val(rng): return rng.randint(-20, 20) / 4.0
def rnd_nonzero(rng):
    v = 0.0
    while v == 0.0: v = rnd_val(rng)
    return v

def spd(rng, n):
    g = [[rng.randint(-2, 2) for _ in range(n)] for _ in range(n)]
    return [[float(sum(g[k][i] * g[k][j] for k in range(n)) + (rng.randint(1, 2) if i == j else 0)) for j in range(n)] for i in range(n)]

def gen_inv(rng, kind, structure=None):
    """kind: 'all' | 'partial' | 'none' regularized"""
    if structure is None:
        k = rng.randint(1, 3)
        ps = [rng.randint(1, 2) for _ in range(k)]
        if kind == "all": rs = [1] * k
        elif kind == "none": rs = [0] * k
        else:
            if k == 1: ps.append(rng.randint(1, 2)); k = 2
            while True:
                rs = [rng.randint(0, 1) for _ in range(k)]
                if 0 < sum(rs) < k: break
        structure = list(zip(ps, rs))
    tot = sum(p for p, _ in structure)
    blocks = [spd(rng, p) if r else [] for p, r in structure]
    # now and then a non-zero block on an unregularized object: the code must ignore it
    return {"objs": [[int(p), int(r)] for p, r in structure], "blocks": blocks, "F": spd(rng, tot),
            "s": [float(rng.randint(-3, 3)) for _ in range(tot)]}

def gen_fit(rng, h, w, maskbits, mode, sky, invkind, via):
    n = h * w
    d, nz, m = [], [], []
    for i in range(n):
        if maskbits[i]:
            d.append(rng.choice(G_DATA)); nz.append(rng.choice(G_NOISE)); m.append(rng.choice(G_MODEL))
        else:
            # data - sky == 0 now and then (zero denominator of the residual flux fraction)
            d.append(sky if rng.random() < 0.08 else rnd_val(rng)); nz.append(rng.choice(NOISE)); m.append(rnd_val(rng))
    if sky != 0.0:   # keep the subtraction exact on garbage values
        d = [(-4096.0 if (maskbits[i] and abs(x) > 1e20) else x) for i, x in enumerate(d)]
    inv = None if invkind == "noinv" else gen_inv(rng, invkind)
    return {"op": "fit", "shape": [h, w], "mask": [int(b) for b in maskbits], "mode": mode, "sky": sky,
            "data": d, "noise": nz, "model": m, "inv": inv, "via": via}

def shapes_upto(nmax):
    return [(h, w) for h in range(1, nmax + 1) for w in range(1, nmax + 1) if h * w <= nmax]

def structures(maxlen):
    for k in range(0, maxlen + 1):
        for st in itertools.product([(1, 0), (1, 1), (2, 0), (2, 1)], repeat=k): yield list(st)

def gen_inputs(tier, rng):
    big = tier == "thorough"
    vias = ["imaging", "imaging", "fitdataset"]
    i = 0
    for (h, w) in shapes_upto(6 if big else 4):
        for bits in itertools.product([0, 1], repeat=h * w):
            for mode in ("native", "slim"):
                for sky in (0.0, None):
                    for invkind in (("noinv", "all", "partial", "none") if h * w <= (4 if big else 3) else ("noinv", "partial")):
                        i += 1
                        via = vias[i % 3] if sky == 0.0 else "imaging"
                        s = 0.0 if sky == 0.0 else rng.choice(SKIES)
                        yield gen_fit(rng, h, w, bits, mode, s, invkind, via)
    for _ in range(2000 if big else 300):
        h, w = rng.randint(2, 5), rng.randint(2, 5)
        p = rng.choice([0.0, 0.2, 0.5, 0.8])
        mode = rng.choice(["native", "native", "slim", "slim", "native_nomask"])
        bits = [1 if (rng.random() < p and mode != "native_nomask") else 0 for _ in range(h * w)]
        sky = rng.choice([0.0] + SKIES)
        yield gen_fit(rng, h, w, bits, mode, sky,
                      rng.choice(["noinv", "all", "partial", "none"]), "imaging" if sky != 0.0 else rng.choice(vias))
    for st in structures(4 if big else 3):
        for _ in range(3 if big else 2):
            yield {"op": "inv", "inv": gen_inv(rng, None, st), "junk": bool(rng.randint(0, 1))}
    for _ in range(1500 if big else 250):
        yield {"op": "inv", "inv": gen_inv(rng, rng.choice(["all", "partial", "partial", "none"])), "junk": bool(rng.randint(0, 1))}
    for _ in range(1500 if big else 250):
        two_d = rng.random() < 0.5
        h, w = (rng.randint(1, 4), rng.randint(1, 4)) if two_d else (1, rng.randint(1, 9))
        n = h * w
        bits = [1 if rng.random() < rng.choice([0.0, 0.3, 0.7]) else 0 for _ in range(n)]
        yield {"op": "util", "shape": [h, w] if two_d else [n], "mask": bits,
               "data": [(0.0 if rng.random() < 0.1 else rnd_val(rng)) for _ in range(n)],
               "noise": [rng.choice(NOISE) for _ in range(n)], "model": [rnd_val(rng) for _ in range(n)],
               "wrap": bool(two_d and rng.random() < 0.4)}
    for _ in range(300 if big else 100):
        yield {"op": "compose", "a": [rng.randint(-4000, 4000) / 16.0 for _ in range(5)]}

# ----------------------------------------------------------------------------- implementation side
_CLS = {}
def classes():
    if _CLS: return _CLS
    aa = import_aa()
    from autoconf import cached_property
    from autoarray.fit.fit_imaging import FitImaging
    from autoarray.fit.fit_dataset import FitDataset
    from autoarray.inversion.inversion.abstract import AbstractInversion
    from autoarray.inversion.inversion.dataset_interface import DatasetInterface
    from autoarray.inversion.inversion.settings import SettingsInversion
    from autoarray.inversion.linear_obj.linear_obj import LinearObj
    from autoarray.inversion.regularization.abstract import AbstractRegularization
    from autoarray.preloads import Preloads

    class HFitImaging(FitImaging):
        def __init__(self, dataset, model_data, inversion=None, **kw):
            super().__init__(dataset=dataset, **kw); self._m = model_data; self._i = inversion
        @property
        def model_data(self): return self._m
        @property
        def inversion(self): return self._i
    class HFitDataset(FitDataset):
        def __init__(self, dataset, model_data, inversion=None, **kw):
            super().__init__(dataset=dataset, **kw); self._m = model_data; self._i = inversion
        @property
        def model_data(self): return self._m
        @property
        def inversion(self): return self._i
    class HReg(AbstractRegularization):
        def __init__(self, matrix):
            super().__init__(); self._matrix = matrix
        def regularization_matrix_from(self, linear_obj): return np.array(self._matrix, dtype=float)
    class HObj(LinearObj):
        def __init__(self, params, regularization):
            super().__init__(regularization=regularization); self._p = params
        @property
        def params(self): return self._p
    class HInv(AbstractInversion):
        """the real AbstractInversion; only F (curvature_matrix) and s (reconstruction) are supplied"""
        def __init__(self, linear_obj_list, F, s):
            super().__init__(dataset=DatasetInterface(data=None, noise_map=None), linear_obj_list=linear_obj_list,
                             settings=SettingsInversion(), preloads=Preloads())
            self._F = F; self._s = s
        @cached_property
        def curvature_matrix(self): return np.array(self._F, dtype=float).reshape((len(self._s), len(self._s)))
        @cached_property
        def reconstruction(self): return np.array(self._s, dtype=float)
    _CLS.update(aa=aa, HFitImaging=HFitImaging, HFitDataset=HFitDataset, HReg=HReg, HObj=HObj, HInv=HInv)
    return _CLS

def make_inv(iv, junk=False):
    c = classes()
    objs = []
    for (p, r), b in zip(iv["objs"], iv["blocks"]):
        objs.append(c["HObj"](p, c["HReg"](b) if r else None))
    return c["HInv"](objs, iv["F"], iv["s"])

def inv_tables(iv):
    """exact principal sub-determinants on the regularized indices (keys of the ln table)"""
    ps = [p for p, _ in iv["objs"]]; tot = sum(ps)
    H = [[Fraction(0)] * tot for _ in range(tot)]
    off = 0; reg = []
    for (p, r), b in zip(iv["objs"], iv["blocks"]):
        if r:
            for i in range(p):
                for j in range(p): H[off + i][off + j] = Fraction(b[i][j])
            reg += list(range(off, off + p))
        off += p
    FH = [[Fraction(iv["F"][i][j]) + H[i][j] for j in range(tot)] for i in range(tot)]
    sub = lambda M: [[M[i][j] for j in reg] for i in reg]
    return reg, fdet(sub(FH)), fdet(sub(H)), H, FH

def cinv(iv):
    objs = clist([ctup([cnat(p), cbool(r)]) for p, r in iv["objs"]])
    blocks = clist([qm(b) for b in iv["blocks"]])
    return f"(Build_inv Q {objs} {blocks} {qm(iv['F'])} {ql(iv['s'])})"

def flat(x): return [float(v) for v in np.asarray(x, dtype=float).ravel()]

def run_fit(inp):
    c = classes(); aa = c["aa"]
    h, w = inp["shape"]; n = h * w
    bits = inp["mask"]; mode = inp["mode"]; sky = inp["sky"]
    maskarr = np.array(bits, dtype=bool).reshape((h, w))
    mask = aa.Mask2D(mask=maskarr, pixel_scales=1.0)
    use_mask = mode == "native"
    def arr(vals):
        v = np.array(vals, dtype=float).reshape((h, w))
        if mode == "slim":
            return aa.Array2D(values=v[~maskarr], mask=mask)
        base = aa.Array2D(values=np.where(maskarr, 0.0, v), mask=mask, store_native=True)
        return base.with_new_array(v.copy())     # masked pixels keep their garbage
    def sel(vals):
        return [x for x, b in zip(vals, bits) if not b] if mode == "slim" else list(vals)
    data, noise, model = arr(inp["data"]), arr(inp["noise"]), arr(inp["model"])
    dataset = aa.Imaging(data=data, noise_map=noise)
    inv = None if inp["inv"] is None else make_inv(inp["inv"])
    if inp["via"] == "fitdataset":
        fit = c["HFitDataset"](dataset, model, inversion=inv, use_mask_in_fit=use_mask)
    else:
        fit = c["HFitImaging"](dataset, model, inversion=inv, use_mask_in_fit=use_mask,
                               dataset_model=aa.DatasetModel(background_sky_level=sky))
    o = {}
    o["data"] = flat(fit.data); o["residual"] = flat(fit.residual_map); o["normres"] = flat(fit.normalized_residual_map)
    o["chimap"] = flat(fit.chi_squared_map); o["chi2"] = float(fit.chi_squared)
    rc = call_res(lambda: float(fit.reduced_chi_squared)); o["redchi2"] = list(rc)
    o["nn"] = float(fit.noise_normalization); o["ll"] = float(fit.log_likelihood)
    llr = fit.log_likelihood_with_regularization; ev = fit.log_evidence; fom = fit.figure_of_merit
    o["llreg"] = None if llr is None else float(llr); o["evidence"] = None if ev is None else float(ev)
    o["fom"] = None if fom is None else float(fom)
    with np.errstate(all="ignore"):
        o["rff"] = flat(fit.residual_flux_fraction_map); o["snr"] = flat(fit.signal_to_noise_map)
    # ---- Coq term
    dsel, nsel, msel = sel(inp["data"]), sel(inp["noise"]), sel(inp["model"])
    dets = ()
    if inp["inv"] is not None:
        _, dfh, dh, _, _ = inv_tables(inp["inv"]); dets = (dfh, dh)
    fitted_noise = [x for x, b in zip(inp["noise"], bits) if not b]
    tbl = ln_table(fitted_noise, dets)
    f = (f"(Build_fit Q {clist([cbool(b) for b in bits])} {cbool(use_mask)} {cq(frac(sky))} {ql(dsel)} {ql(nsel)} {ql(msel)} "
         f"{'None' if inp['inv'] is None else '(Some ' + cinv(inp['inv']) + ')'})")
    out = (f"(Build_fitout {ql(o['data'])} {ql(o['residual'])} {ql(o['normres'])} {ql(o['chimap'])} {cq(fq(o['chi2']))} "
           f"{cres(rc, lambda v: cq(fq(v)))} {cq(fq(o['nn']))} {cq(fq(o['ll']))} {copt(o['llreg'], lambda v: cq(fq(v)))} "
           f"{copt(o['evidence'], lambda v: cq(fq(v)))} {copt(o['fom'], lambda v: cq(fq(v)))} "
           f"{qol([fopt(x) for x in o['rff']])} {qol([fopt(x) for x in o['snr']])})")
    coq = f"(KFit {ctbl(tbl)} {cq(Fraction(TWO_PI))} {f} {out})"
    # ---- Python-side check of the ln-dependent scalars against math.log (exact rational arithmetic elsewhere)
    py_ok = True; detail = []
    if all(x > 0 for x in fitted_noise):
        S = Fraction(sky)
        pix = [i for i in range(len(bits)) if not bits[i]]
        D, N, M = ([Fraction(x) for x in inp[k]] for k in ("data", "noise", "model"))
        chi = sum((((D[i] - S) - M[i]) / N[i]) ** 2 for i in pix)
        nn = sum(math.log(2 * math.pi * float(N[i]) ** 2) for i in pix)
        want = {"chi2": float(chi), "nn": nn, "ll": -0.5 * (float(chi) + nn)}
        if inp["inv"] is not None:
            reg, dfh, dh, H, FH = inv_tables(inp["inv"])
            s = [Fraction(x) for x in inp["inv"]["s"]]
            q = float(sum(s[i] * H[i][j] * s[j] for i in reg for j in reg))
            if reg and dfh > 0 and dh > 0:
                want["evidence"] = -0.5 * (float(chi) + q + math.log(dfh) - math.log(dh) + nn)
            elif not reg:
                want["evidence"] = want["ll"]
            want["llreg"] = -0.5 * (float(chi) + q + nn)
            if "evidence" in want: want["fom"] = want["evidence"]
        else:
            want["fom"] = want["ll"]; want["evidence"] = None; want["llreg"] = None
        for k, v in want.items():
            got = o[k]
            ok = (got is None and v is None) or (got is not None and v is not None and math.isfinite(got) and rel_close(got, v))
            if not ok: py_ok = False; detail.append(f"{k}: implementation {got}, definition {v}")
    return {"coq": coq, "out": o, "py_ok": py_ok, "nontrivial": True, "detail": "; ".join(detail) or None,
            "kind": f"fit/{mode}/{'sky' if sky else 'nosky'}/{'noinv' if inp['inv'] is None else 'inv'}/{inp['via']}"}

def run_inv(inp):
    iv = inp["inv"]
    inv = make_inv(iv)
    o = {}
    o["noreg"] = [int(x) for x in inv.no_regularization_index_list]
    o["H"] = [flat(r) for r in np.asarray(inv.regularization_matrix, dtype=float).reshape((len(iv["s"]), -1))] if iv["s"] else []
    o["FH"] = [flat(r) for r in np.asarray(inv.curvature_reg_matrix, dtype=float)]
    o["Hred"] = [flat(r) for r in np.asarray(inv.regularization_matrix_reduced, dtype=float)] if iv["s"] else []
    o["FHred"] = [flat(r) for r in np.asarray(inv.curvature_reg_matrix_reduced, dtype=float)]
    o["sred"] = flat(inv.reconstruction_reduced)
    o["regterm"] = float(inv.regularization_term)
    with np.errstate(all="ignore"):
        o["ldc"] = float(inv.log_det_curvature_reg_matrix_term)
        o["ldr"] = float(np.real(inv.log_det_regularization_matrix_term))
    reg, dfh, dh, H, FH = inv_tables(iv)
    tbl = ln_table([], (dfh, dh))
    out = (f"(Build_invout {clist([cnat(x) for x in o['noreg']])} {qm(o['H'])} {qm(o['FH'])} {qm(o['Hred'])} {qm(o['FHred'])} "
           f"{ql(o['sred'])} {cq(fq(o['regterm']))} {cq(fq(o['ldc']))} {cq(fq(o['ldr']))})")
    coq = f"(KInv {ctbl(tbl)} {cinv(iv)} {out})"
    py_ok = True; detail = []
    if reg:
        for k, d in (("ldc", dfh), ("ldr", dh)):
            if d > 0 and not (math.isfinite(o[k]) and rel_close(o[k], math.log(d))):
                py_ok = False; detail.append(f"{k}: implementation {o[k]}, ln det over regularized parameters {math.log(d)}")
    nreg = sum(1 for _, r in iv["objs"] if r)
    return {"coq": coq, "out": o, "py_ok": py_ok, "nontrivial": True, "detail": "; ".join(detail) or None,
            "kind": "inv/" + ("empty" if not iv["objs"] else "all" if nreg == len(iv["objs"]) else "none" if nreg == 0 else "partial")}

def run_util(inp):
    c = classes(); aa = c["aa"]
    from autoarray.fit import fit_util as fu
    shape = tuple(inp["shape"])
    mk = np.array(inp["mask"], dtype=bool).reshape(shape)
    d, n, m = (np.array(inp[k], dtype=float).reshape(shape) for k in ("data", "noise", "model"))
    mask = mk
    if inp.get("wrap"):
        mask = aa.Mask2D(mask=mk, pixel_scales=1.0)
        wrap = lambda v: aa.Array2D(values=np.where(mk, 0.0, v), mask=mask, store_native=True).with_new_array(v.copy())
        d, n, m = wrap(d), wrap(n), wrap(m)
    o = {}
    with np.errstate(all="ignore"):
        r = fu.residual_map_from(data=d, model_data=m)
        o["res"] = flat(r); o["nres"] = flat(fu.normalized_residual_map_from(residual_map=r, noise_map=n))
        cm = fu.chi_squared_map_from(residual_map=r, noise_map=n)
        o["cmap"] = flat(cm); o["chi2"] = float(fu.chi_squared_from(chi_squared_map=cm))
        o["nn"] = float(fu.noise_normalization_from(noise_map=n))
        rw = fu.residual_map_with_mask_from(data=d, mask=mask, model_data=m)
        o["resw"] = flat(rw)
        o["nresw"] = flat(fu.normalized_residual_map_with_mask_from(residual_map=rw, noise_map=n, mask=mask))
        cmw = fu.chi_squared_map_with_mask_from(residual_map=rw, noise_map=n, mask=mask)
        o["cmapw"] = flat(cmw); o["chi2w"] = float(fu.chi_squared_with_mask_from(chi_squared_map=cmw, mask=mask))
        o["fast"] = float(fu.chi_squared_with_mask_fast_from(data=d, mask=mask, model_data=m, noise_map=n))
        o["nnw"] = float(fu.noise_normalization_with_mask_from(noise_map=n, mask=mask))
        o["rff"] = flat(fu.residual_flux_fraction_map_from(residual_map=np.asarray(r), data=np.asarray(d)))
        o["rffw"] = flat(fu.residual_flux_fraction_map_with_mask_from(residual_map=np.asarray(rw), data=np.asarray(d), mask=mask))
    tbl = ln_table(inp["noise"])
    out = (f"(Build_utilout {ql(o['res'])} {ql(o['nres'])} {ql(o['cmap'])} {cq(fq(o['chi2']))} {cq(fq(o['nn']))} "
           f"{ql(o['resw'])} {ql(o['nresw'])} {ql(o['cmapw'])} {cq(fq(o['chi2w']))} {cq(fq(o['fast']))} {cq(fq(o['nnw']))} "
           f"{qol([fopt(x) for x in o['rff']])} {qol([fopt(x) for x in o['rffw']])})")
    coq = (f"(KUtil {ctbl(tbl)} {cq(Fraction(TWO_PI))} {clist([cbool(b) for b in inp['mask']])} {ql(inp['data'])} "
           f"{ql(inp['noise'])} {ql(inp['model'])} {out})")
    nn = sum(math.log(2 * math.pi * x * x) for x in inp["noise"])
    nnw = sum(math.log(2 * math.pi * x * x) for x, b in zip(inp["noise"], inp["mask"]) if not b)
    py_ok = rel_close(o["nn"], nn) and rel_close(o["nnw"], nnw)
    return {"coq": coq, "out": o, "py_ok": py_ok, "nontrivial": True, "kind": "util/" + ("array2d" if inp.get("wrap") else f"{len(shape)}d"),
            "detail": None if py_ok else f"noise normalization {o['nn']} / {o['nnw']} vs {nn} / {nnw}"}

def run_compose(inp):
    from autoarray.fit import fit_util as fu
    chi, reg, ldc, ldr, nn = inp["a"]
    ll = fu.log_likelihood_from(chi_squared=chi, noise_normalization=nn)
    llr = fu.log_likelihood_with_regularization_from(chi_squared=chi, regularization_term=reg, noise_normalization=nn)
    ev = fu.log_evidence_from(chi_squared=chi, regularization_term=reg, log_curvature_regularization_term=ldc,
                              log_regularization_term=ldr, noise_normalization=nn)
    o = [float(ll), float(llr), float(ev)]
    coq = f"(KCompose {' '.join(cq(frac(x)) for x in inp['a'])} ({cq(fq(o[0]))}, {cq(fq(o[1]))}, {cq(fq(o[2]))}))"
    return {"coq": coq, "out": o, "py_ok": None, "nontrivial": False, "kind": "compose"}

_COUNTS = {"impl_exceptions": 0}
def run_case(inp):
    op = inp["op"]
    f = {"fit": run_fit, "inv": run_inv, "util": run_util, "compose": run_compose}[op]
    try:
        return f(inp)
    except Exception as e:   # the implementation refused an in-scope input: reported as a failing case
        _COUNTS["impl_exceptions"] += 1
        return {"coq": None, "out": None, "py_ok": False, "nontrivial": True, "kind": op + "/exception",
                "detail": f"{type(e).__name__}: {e}"}

def extra_evidence():
    return {"impl_exceptions": _COUNTS["impl_exceptions"]}
