(* C16 -- Imaging.output_to_fits -> Imaging.from_fits: three sequential writes, three reads, PSF renormalisation. *)
From Coq Require Import ZArith QArith Reals Lra List Bool Lia Arith.
From PAV Require Import Base.NumOps Base.Check Model.C16 Proofs.C16.
Import ListNotations.

(* ---- frame: a write to p leaves the status of an independent target q as it was ---- *)
Section Frame.
  Context {C : Type}.
  Implicit Types (fs : fsys C) (p q r : path).
  Lemma frame_is_file fs fs' p q :
    (forall r, r <> p -> lookup (files fs') r = lookup (files fs) r) -> q <> p -> is_file fs' q = is_file fs q.
  Proof. intros H Hq. unfold is_file. now rewrite H. Qed.
  Lemma frame_fresh fs fs' p q ow :
    (forall r, r <> p -> lookup (files fs') r = lookup (files fs) r) -> q <> p ->
    fresh_or_overwrite fs' q ow = fresh_or_overwrite fs q ow.
  Proof. intros H Hq. unfold fresh_or_overwrite. now rewrite (frame_is_file fs fs' p q H Hq). Qed.
  Lemma frame_target_ok fs fs' p q :
    (forall r, r <> p -> lookup (files fs') r = lookup (files fs) r) ->
    (forall r, is_dir fs' r = is_dir fs r || existsb (path_eqb r) (prefixes (dirname p))) ->
    indep p q = true -> target_ok fs q = true -> target_ok fs' q = true.
  Proof.
    intros Hl Hd Hi Hok. unfold indep in Hi. apply andb_prop in Hi. destruct Hi as [Hi H3]. apply andb_prop in Hi.
    destruct Hi as [H1 H2]. apply negb_true_iff in H1, H2, H3.
    unfold target_ok in *. apply andb_prop in Hok. destruct Hok as [Hok Hf]. apply andb_prop in Hok. destruct Hok as [Hn Hdq].
    rewrite Hn, Hd. apply negb_true_iff in Hdq. rewrite Hdq, H2. cbn [orb negb andb].
    apply negb_true_iff. apply negb_true_iff in Hf.
    destruct (existsb (is_file fs') (prefixes (dirname q))) eqn:E; [|reflexivity].
    apply existsb_exists in E. destruct E as [r [Hr E]].
    assert (Hrp : r <> p).
    { intros ->. assert (existsb (path_eqb p) (prefixes (dirname q)) = true); [|congruence].
      apply existsb_exists. exists p. split; [assumption|apply path_eqb_refl]. }
    rewrite (frame_is_file fs fs' p r Hl Hrp) in E.
    assert (existsb (is_file fs) (prefixes (dirname q)) = true); [|congruence].
    apply existsb_exists. exists r. split; assumption.
  Qed.
End Frame.

Section ImagingValues.
Context {O : NumOps} (L : lawful O).
Local Notation RO := O.

(* ---- reading a path that holds the one-HDU content written for [a] ---- *)
Lemma Array2D_read_written flip (fs' : fitsfs (T RO) (list (T RO))) (a : @array2d RO) p sc k :
  lookup (files fs') p = Some [Array2D_hdu_for_output flip a] -> sole_index k = true ->
  exists a', Array2D_from_fits flip fs' p sc k
             = FOk (a', pixel_scale_header (scales2 (a_scales a)), pixel_scale_header (scales2 (a_scales a)))
    /\ @Array2D_no_mask RO (Array2D_native a) sc = FOk a'
    /\ Array2D_native a' = Array2D_native a
    /\ a_mask a' = all_false2 (Array2D_native a)
    /\ a_scales a' = sc.
Proof.
  intros Hl Hk. unfold Array2D_hdu_for_output in Hl.
  destruct (Array2D_no_mask_native L (Array2D_native a) sc) as [a' [Ha' [Hn [Hm Hs]]]].
  exists a'. split; [|auto].
  unfold Array2D_from_fits.
  destruct (via_fits_written_2d flip fs' p _ _ k Hl) as [-> ->].
  destruct (via_fits_written_2d flip fs' p _ _ 0%Z Hl) as [_ ->].
  rewrite Hk. cbn [sole_index Z.eqb orb fbind]. rewrite Ha'. reflexivity.
Qed.

(* ---- unmasked arrays: slim = concatenated rows; native of a mapped slim = mapped rows ---- *)
Lemma slim_row_all_false (r : list (T RO)) : @slim_row RO (map (fun _ => false) r) r = r.
Proof. induction r as [|x r IH]; [reflexivity|]. cbn [map slim_row]. f_equal. exact IH. Qed.
Lemma slim_all_false (v : list (list (T RO))) : map2 (@slim_row RO) (all_false2 v) v = v.
Proof.
  unfold all_false2. induction v as [|r v IH]; [reflexivity|]. cbn [map map2].
  now rewrite slim_row_all_false, IH.
Qed.
Lemma no_mask_slim (v : list (list (T RO))) sc a :
  @Array2D_no_mask RO v sc = FOk a -> a_slim a = concat v /\ a_mask a = all_false2 v /\ a_scales a = sc.
Proof.
  unfold Array2D_no_mask, Array2D_new. fold (all_false2 v). rewrite same_len2_all_false. intros H. injection H as <-.
  cbn [a_slim a_mask a_scales]. repeat split. unfold slim_from.
  change (fun (v : T RO) (m : bool) => mul RO v (tofloat (negb m))) with (@maskmul RO).
  now rewrite (map2_maskmul_slim L), slim_all_false.
Qed.
Lemma all_false2_map {A B} (f : A -> B) (v : list (list A)) : all_false2 (map (map f) v) = all_false2 v.
Proof.
  unfold all_false2. rewrite map_map. apply map_ext. intros r. rewrite map_map. reflexivity.
Qed.
Lemma native_all_false_concat (v : list (list (T RO))) : @native_from RO (all_false2 v) (concat v) = v.
Proof.
  rewrite <- (slim_all_false v) at 2. rewrite <- (app_nil_r (concat _)).
  rewrite (native_from_slim (all_false2 v) v [] (same_len2_all_false v)). apply zero_fill_all_false.
Qed.
Lemma native_all_false_map (f : T RO -> T RO) (v : list (list (T RO))) :
  @native_from RO (all_false2 v) (map f (concat v)) = map (map f) v.
Proof. rewrite concat_map, <- (all_false2_map f v). apply native_all_false_concat. Qed.

(* Kernel2D(normalize=True) on an unmasked array divides every entry by the sum of all entries *)
Lemma Kernel2D_normalized_native (v : list (list (T RO))) sc a :
  @Array2D_no_mask RO v sc = FOk a ->
  Array2D_native (Kernel2D_new a true) = map (map (fun x => div RO x (sumT (concat v)))) v
  /\ a_scales (Kernel2D_new a true) = sc.
Proof.
  intros H. destruct (no_mask_slim v sc a H) as [Hs [Hm Hsc]].
  unfold Kernel2D_new, Array2D_native. cbn [a_slim a_mask a_scales]. rewrite Hs, Hm, Hsc.
  split; [apply native_all_false_map|reflexivity].
Qed.
Lemma div_by_one_rows (v : list (list (T RO))) : map (map (fun x => div RO x (@one RO))) v = v.
Proof.
  rewrite <- (map_id v) at 2. apply map_ext. intros r. rewrite <- (map_id r) at 2. apply map_ext. intros x.
  apply (law_div_one O L).
Qed.

Lemma indep_neq p q : indep p q = true -> p <> q.
Proof.
  unfold indep. intros H. apply andb_prop in H. destruct H as [H _]. apply andb_prop in H. destruct H as [H _].
  apply negb_true_iff in H. now apply path_eqb_neq.
Qed.

(* ---- Imaging.output_to_fits then Imaging.from_fits ---- *)
Theorem Imaging_roundtrip flip (fs : fitsfs (T RO) (list (T RO))) (data noise psf : @array2d RO) pd pp pn ow sc chk :
  fs_wf fs = true ->
  target_ok fs pd = true -> target_ok fs pp = true -> target_ok fs pn = true ->
  fresh_or_overwrite fs pd ow = true -> fresh_or_overwrite fs pp ow = true -> fresh_or_overwrite fs pn ow = true ->
  indep pd pp = true -> indep pd pn = true -> indep pp pn = true ->
  chk && negb (forallb (fun v => negb (leb RO v zero)) (concat (Array2D_native noise))) = false ->
  exists fs3 d n k,
    Imaging_output_to_fits flip fs data noise psf pd pp pn ow = (fs3, None)
    /\ Imaging_from_fits flip fs3 sc pd pp pn chk = FOk (d, n, k)
    /\ Array2D_native d = Array2D_native data /\ a_scales d = sc
    /\ Array2D_native n = Array2D_native noise /\ a_scales n = sc
    /\ Array2D_native k = map (map (fun x => div RO x (sumT (concat (Array2D_native psf))))) (Array2D_native psf)
    /\ a_scales k = sc.
Proof.
  intros Hwf Hokd Hokp Hokn Hfd Hfp Hfn Idp Idn Ipn Hchk.
  pose proof (indep_neq _ _ Idp) as Ndp. pose proof (indep_neq _ _ Idn) as Ndn. pose proof (indep_neq _ _ Ipn) as Npn.
  unfold Imaging_output_to_fits. rewrite !Array2D_output_is_to_fits.
  (* first write: data *)
  pose proof (to_fits_keeps_wf fs pd ow [Array2D_hdu_for_output flip data] Hwf Hokd) as Hwf1.
  destruct (to_fits_success fs pd ow [Array2D_hdu_for_output flip data] Hwf Hokd Hfd) as [fs1 [W1 [L1 [F1 [D1 _]]]]].
  rewrite W1 in Hwf1 |- *. cbn [fst] in Hwf1.
  assert (Hokp1 : target_ok fs1 pp = true) by (apply (frame_target_ok fs fs1 pd pp F1 D1 Idp Hokp)).
  assert (Hokn1 : target_ok fs1 pn = true) by (apply (frame_target_ok fs fs1 pd pn F1 D1 Idn Hokn)).
  assert (Hfp1 : fresh_or_overwrite fs1 pp ow = true) by (rewrite (frame_fresh fs fs1 pd pp ow F1); auto).
  assert (Hfn1 : fresh_or_overwrite fs1 pn ow = true) by (rewrite (frame_fresh fs fs1 pd pn ow F1); auto).
  (* second write: psf *)
  pose proof (to_fits_keeps_wf fs1 pp ow [Array2D_hdu_for_output flip psf] Hwf1 Hokp1) as Hwf2.
  destruct (to_fits_success fs1 pp ow [Array2D_hdu_for_output flip psf] Hwf1 Hokp1 Hfp1) as [fs2 [W2 [L2 [F2 [D2 _]]]]].
  rewrite W2 in Hwf2. cbn [fst] in Hwf2. rewrite (Array2D_output_is_to_fits flip fs1 psf pp ow), W2.
  assert (Hokn2 : target_ok fs2 pn = true) by (apply (frame_target_ok fs1 fs2 pp pn F2 D2 Ipn Hokn1)).
  assert (Hfn2 : fresh_or_overwrite fs2 pn ow = true) by (rewrite (frame_fresh fs1 fs2 pp pn ow F2); auto).
  (* third write: noise map *)
  destruct (to_fits_success fs2 pn ow [Array2D_hdu_for_output flip noise] Hwf2 Hokn2 Hfn2) as [fs3 [W3 [L3 [F3 _]]]].
  rewrite (Array2D_output_is_to_fits flip fs2 noise pn ow), W3.
  (* what the three paths hold at the end *)
  assert (Ld : lookup (files fs3) pd = Some [Array2D_hdu_for_output flip data]).
  { rewrite F3 by auto. rewrite F2 by auto. exact L1. }
  assert (Lp : lookup (files fs3) pp = Some [Array2D_hdu_for_output flip psf]).
  { rewrite F3 by auto. exact L2. }
  destruct (Array2D_read_written flip fs3 data pd sc 0%Z Ld eq_refl) as [d [Rd [_ [Nd [_ Sd]]]]].
  destruct (Array2D_read_written flip fs3 noise pn sc 0%Z L3 eq_refl) as [n [Rn [An [Nn [_ Sn]]]]].
  destruct (Array2D_read_written flip fs3 psf pp sc 0%Z Lp eq_refl) as [k0 [Rk [_ [Nk [_ Sk]]]]].
  destruct (Array2D_no_mask_native L (Array2D_native k0) (a_scales k0)) as [k1 [Ak1 _]].
  exists fs3, d, n, (Kernel2D_new k1 true). split; [reflexivity|]. split.
  - unfold Imaging_from_fits, Kernel2D_from_fits. rewrite Rd, Rn, Rk. cbn [fbind fst].
    unfold header_obj_from. rewrite (hdu_at_written fs3 pp _ 0%Z Lp). cbn [sole_index Z.eqb orb fbind].
    assert (Hno : noise_ok n = forallb (fun v => negb (leb RO v zero)) (concat (Array2D_native noise))).
    { unfold noise_ok. destruct (no_mask_slim _ _ _ An) as [-> _]. reflexivity. }
    cbn [fst Kernel2D_new]. rewrite Hno, Hchk, Ak1. reflexivity.
  - destruct (Kernel2D_normalized_native (Array2D_native k0) (a_scales k0) k1 Ak1) as [H1 H2].
    rewrite H1, H2, Nk, Sk. auto 10.
Qed.
(* a PSF whose entries sum to one (what Imaging holds after its own normalisation) reads back unchanged *)
Corollary Imaging_roundtrip_normalized_psf flip (fs : fitsfs (T RO) (list (T RO))) (data noise psf : @array2d RO) pd pp pn ow sc chk :
  fs_wf fs = true ->
  target_ok fs pd = true -> target_ok fs pp = true -> target_ok fs pn = true ->
  fresh_or_overwrite fs pd ow = true -> fresh_or_overwrite fs pp ow = true -> fresh_or_overwrite fs pn ow = true ->
  indep pd pp = true -> indep pd pn = true -> indep pp pn = true ->
  chk && negb (forallb (fun v => negb (leb RO v zero)) (concat (Array2D_native noise))) = false ->
  sumT (concat (Array2D_native psf)) = @one RO ->
  exists fs3 d n k,
    Imaging_output_to_fits flip fs data noise psf pd pp pn ow = (fs3, None)
    /\ Imaging_from_fits flip fs3 sc pd pp pn chk = FOk (d, n, k)
    /\ Array2D_native d = Array2D_native data
    /\ Array2D_native n = Array2D_native noise
    /\ Array2D_native k = Array2D_native psf.
Proof.
  intros Hwf Hokd Hokp Hokn Hfd Hfp Hfn Idp Idn Ipn Hchk Hsum.
  destruct (Imaging_roundtrip flip fs data noise psf pd pp pn ow sc chk Hwf Hokd Hokp Hokn Hfd Hfp Hfn Idp Idn Ipn Hchk)
    as [fs3 [d [n [k [H1 [H2 [H3 [_ [H5 [_ [H7 _]]]]]]]]]]].
  exists fs3, d, n, k. rewrite Hsum, div_by_one_rows in H7. auto 10.
Qed.

End ImagingValues.

Local Notation RO := ROps.
(* non-vacuity of the value hypotheses of the Imaging statements: a positive noise map, a PSF summing to one *)
Lemma imaging_value_hyps_satisfiable :
  let noise := @mkarr2 RO [1; 2; 4]%R [[false; false; false]] (1, 1)%R in
  let psf := @mkarr2 RO [/ 2; / 4; / 4]%R [[false; false; false]] (1, 1)%R in
  true && negb (forallb (fun v => negb (leb RO v zero)) (concat (Array2D_native noise))) = false
  /\ sumT (concat (Array2D_native psf)) = @one RO.
Proof.
  cbv zeta. unfold Array2D_native. cbn [a_mask a_slim native_from native_row concat app forallb andb negb].
  unfold zero, one, sumT. cbn [leb RO ofZ fold_left add].
  split.
  - repeat (match goal with |- context [Rleb ?a ?b] => destruct (Rleb a b) eqn:? end; rbool; try lra).
  - unfold zero. cbn [ofZ RO]. lra.
Qed.
