(* Sums, scatter-accumulate loops ([out[i] += v]) and their gather characterisation. *)
From Coq Require Import ZArith Reals Lra Lia List Bool Arith Permutation.
From PAV Require Import Base.NumOps.
Import ListNotations.

Section Poly.
  Context {O : NumOps}.
  (* out[i] += v ; out-of-range index leaves the list unchanged (callers guard the range) *)
  Fixpoint upd_add (l : list (T O)) (i : nat) (v : T O) : list (T O) :=
    match l, i with
    | [], _ => []
    | x :: t, Datatypes.O => add O x v :: t
    | x :: t, S j => x :: upd_add t j v
    end.
  Fixpoint upd_set {A} (l : list A) (i : nat) (v : A) : list A :=
    match l, i with
    | [], _ => []
    | _ :: t, Datatypes.O => v :: t
    | x :: t, S j => x :: upd_set t j v
    end.
  Definition scatter (es : list (nat * T O)) (init : list (T O)) : list (T O) :=
    fold_left (fun acc e => upd_add acc (fst e) (snd e)) es init.
  Definition zeros (n : nat) : list (T O) := repeat zero n.
  Definition nthT (l : list (T O)) (i : nat) : T O := nth i l zero.
  Definition dot (a b : list (T O)) : T O := sumT (map (fun p => mul O (fst p) (snd p)) (combine a b)).
End Poly.

Lemma upd_add_length {O} (l : list (T O)) i v : length (upd_add l i v) = length l.
Proof. revert i; induction l as [|x l IH]; intros [|i]; simpl; auto. Qed.
Lemma upd_set_length {A} (l : list A) i v : length (upd_set l i v) = length l.
Proof. revert i; induction l as [|x l IH]; intros [|i]; simpl; auto. Qed.
Lemma nth_upd_set {A} (l : list A) i v t d : (i < length l)%nat ->
  nth t (upd_set l i v) d = if Nat.eqb i t then v else nth t l d.
Proof.
  revert i t; induction l as [|x l IH]; intros i t Hi; simpl in Hi; [lia|].
  destruct i as [|i], t as [|t]; simpl; auto. apply IH. lia.
Qed.
Lemma scatter_length {O} (es : list (nat * T O)) : forall init, length (scatter es init) = length init.
Proof. unfold scatter. induction es as [|e es IH]; intros init; simpl; auto. rewrite IH. apply upd_add_length. Qed.

Local Open Scope R_scope.
Fixpoint sumR (l : list R) : R := match l with [] => 0 | x :: t => x + sumR t end.

Lemma sumT_sumR (l : list R) : @sumT ROps l = sumR l.
Proof.
  unfold sumT, zero. cbn. induction l as [|x l IH]; cbn; [reflexivity|].
  rewrite sumT_R_cons. cbn in IH. rewrite IH. lra.
Qed.
Lemma sumR_app l1 l2 : sumR (l1 ++ l2) = sumR l1 + sumR l2.
Proof. induction l1; cbn; lra. Qed.
Lemma sumR_map_add {A} (f g : A -> R) l : sumR (map (fun x => f x + g x) l) = sumR (map f l) + sumR (map g l).
Proof. induction l; cbn; lra. Qed.
Lemma sumR_map_scal {A} (f : A -> R) c l : sumR (map (fun x => c * f x) l) = c * sumR (map f l).
Proof. induction l; cbn; lra. Qed.
Lemma sumR_map_ext {A} (f g : A -> R) l : (forall x, In x l -> f x = g x) -> sumR (map f l) = sumR (map g l).
Proof. intros H. induction l; cbn; auto. rewrite H, IHl; auto with datatypes. Qed.
Lemma sumR_map_zero {A} (f : A -> R) l : (forall x, In x l -> f x = 0) -> sumR (map f l) = 0.
Proof. intros H. induction l; cbn; auto. rewrite H, IHl; auto with datatypes. lra. Qed.
Lemma sumR_nonneg l : Forall (fun x => 0 <= x) l -> 0 <= sumR l.
Proof. induction 1; cbn; lra. Qed.
Lemma sumR_perm l1 l2 : Permutation l1 l2 -> sumR l1 = sumR l2.
Proof. induction 1; cbn; lra. Qed.
Lemma sumR_filter_split {A} (p : A -> bool) (f : A -> R) l :
  sumR (map f l) = sumR (map f (filter p l)) + sumR (map f (filter (fun x => negb (p x)) l)).
Proof. induction l; cbn; [lra|]. destruct (p a); cbn; lra. Qed.
(* exchange of two finite sums *)
Lemma sumR_swap {A B} (f : A -> B -> R) (la : list A) (lb : list B) :
  sumR (map (fun a => sumR (map (fun b => f a b) lb)) la) = sumR (map (fun b => sumR (map (fun a => f a b) la)) lb).
Proof.
  induction la as [|a la IH]; cbn.
  - symmetry. apply sumR_map_zero. reflexivity.
  - rewrite IH, <- sumR_map_add. reflexivity.
Qed.
(* indicator collapse *)
Lemma sumR_indicator {A} (eqb : A -> A -> bool) (g : A -> R) p l :
  (forall x y, eqb x y = true <-> x = y) -> NoDup l ->
  sumR (map (fun s => if eqb s p then g s else 0) l) = if existsb (fun s => eqb s p) l then g p else 0.
Proof.
  intros He. induction 1 as [|a l Hn Hd IH]; cbn; [reflexivity|].
  rewrite IH. destruct (eqb a p) eqn:E; cbn.
  - apply He in E; subst a.
    destruct (existsb (fun s => eqb s p) l) eqn:X; [|lra].
    apply existsb_exists in X. destruct X as [s [Hin Hs]]. apply He in Hs; subst. contradiction.
  - lra.
Qed.

(* ---- scatter / gather ---- *)
Definition hits (t : nat) (es : list (nat * R)) : list R :=
  map snd (filter (fun e => Nat.eqb (fst e) t) es).

Lemma nth_upd_add (l : list R) i v t : (i < length l)%nat ->
  nth t (@upd_add ROps l i v) 0 = nth t l 0 + (if Nat.eqb i t then v else 0).
Proof.
  revert i t; induction l as [|x l IH]; intros i t Hi; simpl in Hi; [lia|].
  destruct i as [|i], t as [|t]; simpl; try lra.
  rewrite IH by lia. reflexivity.
Qed.
Theorem scatter_gather (es : list (nat * R)) init t :
  Forall (fun e => (fst e < length init)%nat) es ->
  nth t (@scatter ROps es init) 0 = nth t init 0 + sumR (hits t es).
Proof.
  unfold scatter, hits. revert init.
  induction es as [|[i v] es IH]; intros init HF; simpl.
  - lra.
  - inversion HF as [|? ? Hi HF']; subst; simpl in Hi.
    rewrite IH.
    + rewrite nth_upd_add by exact Hi. destruct (Nat.eqb i t); simpl; lra.
    + rewrite upd_add_length. exact HF'.
Qed.
Lemma nth_zeros_R n t : nth t (@zeros ROps n) 0 = 0.
Proof. unfold zeros, zero. cbn. revert t. induction n; intros [|t]; cbn; auto. Qed.
Lemma scatter_gather_zeros (es : list (nat * R)) n t :
  Forall (fun e => (fst e < n)%nat) es ->
  nth t (@scatter ROps es (zeros n)) 0 = sumR (hits t es).
Proof.
  intros H. rewrite scatter_gather.
  - rewrite nth_zeros_R. lra.
  - unfold zeros. rewrite repeat_length. exact H.
Qed.
