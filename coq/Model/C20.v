(* C20 -- triangle sets: up-sampling, neighbourhoods, selections, containment.
   Executable model of
     autoarray/structures/triangles/abstract.py   area, _up_sample_triangle, _neighborhood_triangles,
                                                  for_limits_and_scale (np.arange rows, add_vertex dictionary)
     autoarray/structures/triangles/array.py      triangles, up_sample, neighborhood, for_indexes, with_vertices,
                                                  containing_indices (np.unique(axis=0, return_inverse) = sorted
                                                  de-duplication + index of each row)
     autoarray/structures/triangles/abstract_coordinate_array.py   centres, flip_mask, triangles, area, for_limits_and_scale
     autoarray/structures/triangles/coordinate_array.py            flip_array, up_sample, neighborhood, _vertices_and_indices,
                                                  with_vertices, for_indexes, containing_indices
     autoarray/structures/triangles/shape.py      Point.mask, centroid, Circle / Triangle / Polygon / Square .mask and the
                                                  reference points their constructors compute
   written once over NumOps (theorems at R, execution at Q).  HEIGHT_FACTOR (= sqrt 3 / 2 in the code) is the
   parameter [h]: no theorem needs its value.  A point is the pair (column 0, column 1) of a vertex row;
   the code calls column 0 "x" in shape.py and in the coordinate arrays.  No proofs here. *)
From Coq Require Import ZArith List Bool QArith Qabs.
From PAV Require Import Base.Res Base.Check Base.NumOps.
Import ListNotations.

Definition idx3 : Type := (nat * nat * nat)%type.
Definition i0 (r : idx3) : nat := fst (fst r).
Definition i1 (r : idx3) : nat := snd (fst r).
Definition i2 (r : idx3) : nat := snd r.
Definition zpt : Type := (Z * Z)%type.

(* ---- np.sort(axis=1) on an index row, np.unique(axis=0) on index rows / integer coordinate rows ---- *)
Definition sort3 (r : idx3) : idx3 :=
  let a := i0 r in let b := i1 r in let c := i2 r in
  let lo := Nat.min a (Nat.min b c) in
  let hi := Nat.max a (Nat.max b c) in
  (lo, (a + b + c - lo - hi)%nat, hi).
Definition idx3_ltb (r s : idx3) : bool :=
  Nat.ltb (i0 r) (i0 s) || (Nat.eqb (i0 r) (i0 s) &&
    (Nat.ltb (i1 r) (i1 s) || (Nat.eqb (i1 r) (i1 s) && Nat.ltb (i2 r) (i2 s)))).
Definition idx3_eqb (r s : idx3) : bool :=
  Nat.eqb (i0 r) (i0 s) && Nat.eqb (i1 r) (i1 s) && Nat.eqb (i2 r) (i2 s).
Definition zpt_ltb (p q : zpt) : bool := (fst p <? fst q)%Z || ((fst p =? fst q)%Z && (snd p <? snd q)%Z).
Definition zpt_eqb (p q : zpt) : bool := (fst p =? fst q)%Z && (snd p =? snd q)%Z.

Section Unique.
  Context {A : Type} (ltb eqb : A -> A -> bool).
  (* insertion into a sorted duplicate-free list; np.unique = fold of it *)
  Fixpoint ins (p : A) (l : list A) : list A :=
    match l with
    | [] => [p]
    | q :: t => if ltb p q then p :: l else if eqb p q then l else q :: ins p t
    end.
  Definition unique (l : list A) : list A := fold_right ins [] l.
  (* return_inverse: position of a row in the unique array *)
  Fixpoint index_of (p : A) (l : list A) : nat :=
    match l with
    | [] => 0
    | q :: t => if eqb p q then 0 else S (index_of p t)
    end.
  Definition memb (p : A) (l : list A) : bool := existsb (eqb p) l.
End Unique.

(* np.where(mask)[0] *)
Fixpoint where_from (i : nat) (l : list bool) : list nat :=
  match l with
  | [] => []
  | b :: t => if b then i :: where_from (S i) t else where_from (S i) t
  end.
Definition where_true (l : list bool) : list nat := where_from 0 l.

(* every index of every row addresses a vertex (numpy raises IndexError otherwise) *)
Definition idx_in_range {P} (A : list idx3 * list P) : bool :=
  forallb (fun r => Nat.ltb (i0 r) (length (snd A)) && Nat.ltb (i1 r) (length (snd A)) && Nat.ltb (i2 r) (length (snd A)))
          (fst A).

Definition zrange (lo hi : Z) : list Z := map (fun i => (lo + Z.of_nat i)%Z) (seq 0 (Z.to_nat (hi - lo))).

Section Model.
  Context {O : NumOps}.
  Notation T := (T O).
  Local Infix "+!" := (add O) (at level 50, left associativity).
  Local Infix "-!" := (sub O) (at level 50, left associativity).
  Local Infix "*!" := (mul O) (at level 40, left associativity).
  Local Infix "/!" := (div O) (at level 40, left associativity).
  Local Infix "<=!" := (leb O) (at level 70).

  Definition pt : Type := (T * T)%type.
  Definition tri : Type := (pt * pt * pt)%type.
  Definition v0 (t : tri) : pt := fst (fst t).
  Definition v1 (t : tri) : pt := snd (fst t).
  Definition v2 (t : tri) : pt := snd t.
  Definition three : T := ofZ O 3.
  Definition four : T := ofZ O 4.
  Definition quarter : T := one /! four.

  Definition padd (p q : pt) : pt := (fst p +! fst q, snd p +! snd q).
  Definition psub (p q : pt) : pt := (fst p -! fst q, snd p -! snd q).
  Definition phalf (p : pt) : pt := (fst p /! two, snd p /! two).
  Definition mid (p q : pt) : pt := phalf (padd p q).            (* (a + b) / 2 *)

  (* ---------------- AbstractTriangles.area ---------------- *)
  (* x0*(y1 - y2) + x1*(y2 - y0) + x2*(y0 - y1): twice the signed area *)
  Definition cross_sum (t : tri) : T :=
    fst (v0 t) *! (snd (v1 t) -! snd (v2 t)) +! fst (v1 t) *! (snd (v2 t) -! snd (v0 t))
    +! fst (v2 t) *! (snd (v0 t) -! snd (v1 t)).
  Definition area (ts : list tri) : T := half *! sumT (map (fun t => absT (cross_sum t)) ts).

  (* ---------------- _up_sample_triangle: four stacked blocks ---------------- *)
  Definition m01 (t : tri) : pt := mid (v0 t) (v1 t).
  Definition m12 (t : tri) : pt := mid (v1 t) (v2 t).
  Definition m20 (t : tri) : pt := mid (v2 t) (v0 t).
  Definition child_a (t : tri) : tri := (v1 t, m12 t, m01 t).
  Definition child_b (t : tri) : tri := (v2 t, m20 t, m12 t).
  Definition child_c (t : tri) : tri := (m01 t, m12 t, m20 t).
  Definition child_d (t : tri) : tri := (v0 t, m01 t, m20 t).
  Definition up_sample_triangles (ts : list tri) : list tri :=
    map child_a ts ++ map child_b ts ++ map child_c ts ++ map child_d ts.

  (* ---------------- _neighborhood_triangles ---------------- *)
  Definition new_v0 (t : tri) : pt := psub (padd (v1 t) (v2 t)) (v0 t).
  Definition new_v1 (t : tri) : pt := psub (padd (v0 t) (v2 t)) (v1 t).
  Definition new_v2 (t : tri) : pt := psub (padd (v0 t) (v1 t)) (v2 t).
  Definition refl0 (t : tri) : tri := (new_v0 t, v1 t, v2 t).
  Definition refl1 (t : tri) : tri := (v0 t, new_v1 t, v2 t).
  Definition refl2 (t : tri) : tri := (v0 t, v1 t, new_v2 t).
  Definition neighborhood_triangles (ts : list tri) : list tri :=
    map refl0 ts ++ map refl1 ts ++ map refl2 ts ++ ts.

  (* ---------------- np.unique(rows, axis=0, return_inverse=True) on vertex rows ---------------- *)
  Definition pt_ltb (p q : pt) : bool :=
    ltb O (fst p) (fst q) || (eqb O (fst p) (fst q) && ltb O (snd p) (snd q)).
  Definition pt_eqb (p q : pt) : bool := eqb O (fst p) (fst q) && eqb O (snd p) (snd q).
  Definition unique_pts : list pt -> list pt := unique pt_ltb pt_eqb.
  Definition index_pt : pt -> list pt -> nat := index_of pt_eqb.
  Definition flatten (ts : list tri) : list pt := flat_map (fun t => [v0 t; v1 t; v2 t]) ts.   (* reshape(-1, 2) *)

  (* ---------------- ArrayTriangles = (indices, vertices) ---------------- *)
  Definition atri : Type := (list idx3 * list pt)%type.
  Definition getv (vs : list pt) (i : nat) : pt := nth i vs (zero, zero).
  Definition row_tri (vs : list pt) (r : idx3) : tri := (getv vs (i0 r), getv vs (i1 r), getv vs (i2 r)).
  Definition a_triangles (A : atri) : list tri := map (row_tri (snd A)) (fst A).        (* vertices[indices] *)
  Definition a_triangles_checked (A : atri) : res (list tri) :=
    if idx_in_range A then Ok (a_triangles A) else Raise IndexError.
  Definition reindex (ts : list tri) : atri :=
    let u := unique_pts (flatten ts) in
    (map (fun t => (index_pt (v0 t) u, index_pt (v1 t) u, index_pt (v2 t) u)) ts, u).
  Definition a_area (A : atri) : T := area (a_triangles A).
  Definition a_up_sample (A : atri) : atri := reindex (up_sample_triangles (a_triangles A)).
  Definition a_neighborhood (A : atri) : atri :=
    let r := reindex (neighborhood_triangles (a_triangles A)) in
    (unique idx3_ltb idx3_eqb (map sort3 (fst r)), snd r).
  Definition a_for_indexes (A : atri) (sel : list nat) : atri :=
    reindex (map (row_tri (snd A)) (map (fun i => nth i (fst A) (0, 0, 0)%nat) sel)).
  Definition a_with_vertices (A : atri) (vs : list pt) : atri := (fst A, vs).

  (* ---------------- shape.py ---------------- *)
  (* the barycentric test shared (textually duplicated) by Point.mask and Triangle.triangle_contains_mask.
     A zero denominator makes numpy produce inf / nan, and every chained comparison then fails. *)
  Definition bary_mask (p a b c : pt) : bool :=
    let x1 := fst a in let y1 := snd a in let x2 := fst b in let y2 := snd b in
    let x3 := fst c in let y3 := snd c in
    let den := (y2 -! y3) *! (x1 -! x3) +! (x3 -! x2) *! (y1 -! y3) in
    if eqb O den zero then false else
    let ca := ((y2 -! y3) *! (fst p -! x3) +! (x3 -! x2) *! (snd p -! y3)) /! den in
    let cb := ((y3 -! y1) *! (fst p -! x3) +! (x1 -! x3) *! (snd p -! y3)) /! den in
    let cc := one -! ca -! cb in
    (zero <=! ca) && (ca <=! one) && (zero <=! cb) && (cb <=! one) && (zero <=! cc) && (cc <=! one).
  Definition point_mask (p : pt) (t : tri) : bool := bary_mask p (v0 t) (v1 t) (v2 t).
  Definition centroid (t : tri) : pt :=
    ((fst (v0 t) +! fst (v1 t) +! fst (v2 t)) /! three, (snd (v0 t) +! snd (v1 t) +! snd (v2 t)) /! three).
  Definition swap (p : pt) : pt := (snd p, fst p).
  Definition mean (l : list T) : T := sumT l /! ofNat (length l).

  Inductive shape :=
  | SPoint (p : pt)
  | SCircle (p : pt) (r : T)
  | STriangle (a b c : pt)
  | SPolygon (vs : list pt)
  | SSquare (top bottom lft rgt : T).

  (* Triangle.__init__: x = mean of first components, y = mean of second components *)
  Definition tri_ref (a b c : pt) : pt := (mean [fst a; fst b; fst c], mean [snd a; snd b; snd c]).
  (* Triangle.triangle_contains_mask unpacks `y1, x1 = self.a`: the FIRST component is used as y there *)
  Definition tri_contains (a b c : pt) (t : tri) : bool := bary_mask (centroid t) (swap a) (swap b) (swap c).
  Definition tri_shape_mask (a b c : pt) (t : tri) : bool := tri_contains a b c t || point_mask (tri_ref a b c) t.
  Fixpoint fan (first : pt) (l : list pt) : list (pt * pt * pt) :=       (* zip(vertices[1:], vertices[2:]) *)
    match l with
    | s :: ((t :: _) as rest) => (first, s, t) :: fan first rest
    | _ => []
    end.
  Definition poly_fan (vs : list pt) : list (pt * pt * pt) :=
    match vs with first :: rest => fan first rest | [] => [] end.

  Definition shape_ref (s : shape) : pt :=
    match s with
    | SPoint p => p
    | SCircle p _ => p
    | STriangle a b c => tri_ref a b c
    | SPolygon vs => (mean (map fst vs), mean (map snd vs))
    | SSquare top bottom lft rgt => ((lft +! rgt) /! two, (top +! bottom) /! two)
    end.
  Definition shape_mask (s : shape) (t : tri) : bool :=
    match s with
    | SPoint p => point_mask p t
    | SCircle p r =>
        let c := centroid t in
        let a := fst c -! fst p in let b := snd c -! snd p in
        (a *! a +! b *! b <=! r *! r) || point_mask p t
    | STriangle a b c => tri_shape_mask a b c t
    | SPolygon vs =>
        existsb (fun f => tri_shape_mask (fst (fst f)) (snd (fst f)) (snd f) t) (poly_fan vs)
        || point_mask (shape_ref s) t
    | SSquare top bottom lft rgt =>
        let c := centroid t in
        ((lft <=! fst c) && (fst c <=! rgt) && (snd c <=! bottom) && (top <=! snd c))
        || point_mask (shape_ref s) t
    end.
  (* Polygon.__init__ raises ValueError below three vertices (canonicalised to OtherException) *)
  Definition shape_init (s : shape) : res shape :=
    match s with
    | SPolygon vs => if Nat.ltb (length vs) 3 then Raise OtherException else Ok s
    | _ => Ok s
    end.

  Definition a_containing (A : atri) (s : shape) : list nat :=
    where_true (map (shape_mask s) (a_triangles A)).

  (* ---------------- AbstractTriangles.for_limits_and_scale ---------------- *)
  Definition ceilZ (x : T) : Z := Z.opp (floorZ O (opp O x)).
  Definition arange (start stop step : T) : list T :=
    map (fun i => start +! ofZ O i *! step) (zrange 0 (ceilZ ((stop -! start) /! step))).
  (* add_vertex: dictionary keyed by the vertex tuple; returns (index, vertices) *)
  Definition add_vertex (v : pt) (vs : list pt) : nat * list pt :=
    if memb pt_eqb v vs then (index_pt v vs, vs) else (length vs, vs ++ [v]).
  Definition add3 (a b c : pt) (vs : list pt) : idx3 * list pt :=
    let '(ia, vs1) := add_vertex a vs in
    let '(ib, vs2) := add_vertex b vs1 in
    let '(ic, vs3) := add_vertex c vs2 in ((ia, ib, ic), vs3).
  Definition nthp (l : list pt) (j : nat) : pt := nth j l (zero, zero).
  (* body of the inner loop for row i, column j; state = (indices, vertices) *)
  Definition limits_cell (even : bool) (row next_row : list pt) (st : list idx3 * list pt) (j : nat)
    : list idx3 * list pt :=
    let '(idx, vs) := st in
    if Nat.ltb j (length next_row - 1) then
      if even then
        let '(t1, vs1) := add3 (nthp row j) (nthp next_row j) (nthp next_row (j + 1)) vs in
        if Nat.ltb j (length row - 1) then
          let '(t2, vs2) := add3 (nthp row j) (nthp row (j + 1)) (nthp next_row (j + 1)) vs1 in
          (idx ++ [t2; t1], vs2)
        else (idx ++ [t1], vs1)
      else
        let '(t1, vs1) := add3 (nthp row j) (nthp next_row j) (nthp row (j + 1)) vs in
        let '(t2, vs2) := add3 (nthp next_row j) (nthp next_row (j + 1)) (nthp row (j + 1)) vs1 in
        (idx ++ [t1; t2; t1], vs2)            (* t1 is appended twice by the code on odd rows *)
    else st.
  Fixpoint limits_rows (i : nat) (rows : list (list pt)) (st : list idx3 * list pt) : list idx3 * list pt :=
    match rows with
    | row :: ((next_row :: _) as rest) =>
        limits_rows (S i) rest (fold_left (limits_cell (Nat.even i) row next_row) (seq 0 (length row)) st)
    | _ => st
    end.
  Definition a_for_limits_and_scale (h y_min y_max x_min x_max scale : T) : atri :=
    let height := scale *! h in
    let ys := arange y_min (y_max +! height) height in
    let rows := map (fun ky : nat * T =>
                  let offset := ofNat (Nat.modulo (fst ky) 2) *! scale /! two in
                  map (fun col_x => (snd ky, col_x)) (arange (x_min -! offset) (x_max +! scale) scale))
                (combine (seq 0 (length ys)) ys) in
    limits_rows 0 rows ([], []).

  (* ---------------- AbstractCoordinateArray / CoordinateArrayTriangles ---------------- *)
  Record cs := mkcs { c_coords : list zpt; c_side : T; c_xoff : T; c_yoff : T; c_flipped : bool }.

  Definition flip_of (flipped : bool) (c : zpt) : bool :=
    let m := negb (((fst c + snd c) mod 2 =? 0)%Z) in if flipped then negb m else m.
  Definition flip_sign (b : bool) : T := if b then opp O one else one.
  Definition c_centre (h : T) (S : cs) (c : zpt) : pt :=
    (half *! c_side S *! ofZ O (fst c) +! c_xoff S, h *! c_side S *! ofZ O (snd c) +! c_yoff S).
  Definition c_tri (h : T) (S : cs) (c : zpt) : tri :=
    let ce := c_centre h S c in
    let f := flip_sign (flip_of (c_flipped S) c) in
    let s := c_side S in
    ((fst ce +! f *! zero, snd ce +! f *! (half *! s *! h)),
     (fst ce +! f *! (half *! s), snd ce +! f *! (opp O half *! s *! h)),
     (fst ce +! f *! (opp O half *! s), snd ce +! f *! (opp O half *! s *! h))).
  Definition c_triangles (h : T) (S : cs) : list tri := map (c_tri h S) (c_coords S).
  Definition c_len (S : cs) : nat := length (c_coords S).
  (* (3**0.5 / 4 * side**2) * len ; 3**0.5 = 2 * HEIGHT_FACTOR exactly *)
  Definition c_area (h : T) (S : cs) : T := (two *! h /! four *! (c_side S *! c_side S)) *! ofNat (c_len S).

  Definition dbl (c : zpt) : zpt := (2 * fst c, 2 * snd c)%Z.
  Definition zadd (c d : zpt) : zpt := (fst c + fst d, snd c + snd d)%Z.
  Definition c_up_sample (h : T) (S : cs) : cs :=
    let fm := flip_of (c_flipped S) in
    let nrm := filter (fun c => negb (fm c)) (c_coords S) in
    let flp := filter fm (c_coords S) in
    {| c_coords :=
         (map dbl nrm ++ map (fun c => zadd (dbl c) (1, 0)%Z) nrm ++ map (fun c => zadd (dbl c) (-1, 0)%Z) nrm
          ++ map (fun c => zadd (dbl c) (0, 1)%Z) nrm)
         ++ (map dbl flp ++ map (fun c => zadd (dbl c) (1, 1)%Z) flp ++ map (fun c => zadd (dbl c) (-1, 1)%Z) flp
          ++ map (fun c => zadd (dbl c) (0, 1)%Z) flp);
       c_side := c_side S /! two;
       c_xoff := c_xoff S;
       c_yoff := c_yoff S +! opp O quarter *! h *! c_side S;
       c_flipped := true |}.
  Definition c_neighborhood (S : cs) : cs :=
    let fm := flip_of (c_flipped S) in
    let nrm := filter (fun c => negb (fm c)) (c_coords S) in
    let flp := filter fm (c_coords S) in
    {| c_coords := unique zpt_ltb zpt_eqb
         ((nrm ++ map (fun c => zadd c (1, 0)%Z) nrm ++ map (fun c => zadd c (-1, 0)%Z) nrm
           ++ map (fun c => zadd c (0, -1)%Z) nrm)
          ++ (flp ++ map (fun c => zadd c (1, 0)%Z) flp ++ map (fun c => zadd c (-1, 0)%Z) flp
           ++ map (fun c => zadd c (0, 1)%Z) flp));
       c_side := c_side S; c_xoff := c_xoff S; c_yoff := c_yoff S; c_flipped := c_flipped S |}.
  Definition c_for_indexes (S : cs) (sel : list nat) : cs :=
    {| c_coords := map (fun i => nth i (c_coords S) (0, 0)%Z) sel;
       c_side := c_side S; c_xoff := c_xoff S; c_yoff := c_yoff S; c_flipped := c_flipped S |}.
  (* _vertices_and_indices, as (indices, vertices) *)
  Definition c_repr (h : T) (S : cs) : atri := reindex (c_triangles h S).
  Definition c_with_vertices (h : T) (S : cs) (vs : list pt) : atri := (fst (c_repr h S), vs).
  Definition c_containing (h : T) (S : cs) (s : shape) : list nat :=
    a_containing (c_with_vertices h S (snd (c_repr h S))) s.
  Definition c_for_limits_and_scale (h x_min x_max y_min y_max scale : T) : cs :=
    let x_shift := trunc (two *! x_min /! scale) in
    let y_shift := trunc (y_min /! (h *! scale)) in
    {| c_coords := flat_map (fun x => map (fun y => (x, y))
                               (zrange (y_shift - 1) (trunc (y_max /! (h *! scale)) + 2)))
                            (zrange x_shift (trunc (two *! x_max /! scale) + 1));
       c_side := scale; c_xoff := zero; c_yoff := zero; c_flipped := false |}.

  (* ---------------- the user edits an ArrayTriangles object in place: A.vertices[j] = p ---------------- *)
  (* numpy assignment into the stored vertex array (j in range; out of range raises and changes nothing) *)
  Fixpoint set_nth (j : nat) (p : pt) (vs : list pt) : list pt :=
    match vs, j with
    | [], _ => []
    | _ :: t, 0%nat => p :: t
    | q :: t, S j' => q :: set_nth j' p t
    end.
  Definition a_set_vertex (A : atri) (e : nat * pt) : atri := (fst A, set_nth (fst e) (snd e) (snd A)).
  (* a history of such edits; every property / method of ArrayTriangles is a function of the CURRENT arrays *)
  Definition a_edits (A : atri) (es : list (nat * pt)) : atri := fold_left a_set_vertex es A.
  Definition edits_in_range (A : atri) (es : list (nat * pt)) : bool :=
    forallb (fun e : nat * pt => Nat.ltb (fst e) (length (snd A))) es.

  (* ---------------- specification side (independent of the routines above) ---------------- *)
  (* the midpoint subdivision as a set of four triangles, written from the parent's corners *)
  Definition lin2 (a b : T) (p q : pt) : pt := (a *! fst p +! b *! fst q, a *! snd p +! b *! snd q).
  Definition spec_children (t : tri) : list tri :=
    let A := v0 t in let B := v1 t in let C := v2 t in
    let ab := lin2 half half A B in let bc := lin2 half half B C in let ca := lin2 half half C A in
    [(A, ab, ca); (ab, B, bc); (ca, bc, C); (ab, bc, ca)].
  (* the neighbour across the edge opposite to a corner: same edge, third corner reflected through
     the edge's midpoint *)
  Definition reflect_through_mid (p a b : pt) : pt :=
    (two *! (half *! (fst a +! fst b)) -! fst p, two *! (half *! (snd a +! snd b)) -! snd p).
  Definition spec_neighbours (t : tri) : list tri :=
    let A := v0 t in let B := v1 t in let C := v2 t in
    [t; (reflect_through_mid A B C, B, C); (A, reflect_through_mid B C A, C); (A, B, reflect_through_mid C A B)].
  (* inside (boundary included): the three edge functions do not have strictly opposite signs *)
  Definition edge_fn (a b p : pt) : T :=
    (fst b -! fst a) *! (snd p -! snd a) -! (snd b -! snd a) *! (fst p -! fst a).
  Definition spec_inside (p : pt) (t : tri) : bool :=
    let d0 := edge_fn (v0 t) (v1 t) p in let d1 := edge_fn (v1 t) (v2 t) p in let d2 := edge_fn (v2 t) (v0 t) p in
    let o := edge_fn (v0 t) (v1 t) (v2 t) in
    negb (eqb O o zero) &&
    (((zero <=! d0) && (zero <=! d1) && (zero <=! d2)) || ((d0 <=! zero) && (d1 <=! zero) && (d2 <=! zero))).
  (* the value a vertex slot holds after a history of edits: the last write to it, else the original row *)
  Fixpoint last_write (es : list (nat * pt)) (i : nat) : option pt :=
    match es with
    | [] => None
    | e :: r => match last_write r i with
                | Some p => Some p
                | None => if Nat.eqb (fst e) i then Some (snd e) else None
                end
    end.
  Definition slot_after (vs : list pt) (es : list (nat * pt)) (i : nat) : pt :=
    match last_write es i with Some p => p | None => getv vs i end.
End Model.

Arguments mkcs {O}.
Arguments shape : clear implicits.
Arguments cs : clear implicits.

